module github.com/lindb/lindb/verif

go 1.23

require (
	github.com/anishathalye/porcupine v1.3.0
	github.com/lindb/lindb v0.0.0
)

replace github.com/lindb/lindb => /repo
