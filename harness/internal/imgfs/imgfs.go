// Package imgfs takes crash images of a directory: a copy of the directory as the file system
// shows it between two file-system operations of the code under test. A killed process loses its
// user-space buffers and keeps everything the kernel has (page cache, dirty MAP_SHARED pages), so the
// directory as seen through read(2) between two operations is exactly the state a restart would find.
//
// All mutating operations of the monitored packages go through World.Do, which serialises them under
// one global lock ("world lock") and takes an image after each; while an image is copied no other
// goroutine can be inside a mutating operation, so every image is a state the directory really had.
package imgfs

import (
	"crypto/sha256"
	"encoding/hex"
	"fmt"
	"io"
	"os"
	"path/filepath"
	"sort"
	"sync"
	"syscall"
)

// Image describes one image.
type Image struct {
	Index int    `json:"index"`
	Label string `json:"label"`
	Dir   string `json:"dir"`
	Hash  string `json:"hash"`
}

// World is the set of directories imaged together plus the lock serialising mutations.
type World struct {
	mu      sync.Mutex
	root    string // directory to image
	imgBase string // images are written to imgBase/<index>
	enabled bool
	images  []Image
	last    string
	ops     int64 // number of seam operations seen
	skip    func(rel string) bool
	// lastStat is the stat fingerprint (names, sizes, modification times) of the directory right after the last
	// operation; preImages counts the images taken BEFORE an operation because the fingerprint had moved, i.e. the
	// code under test changed the directory outside the seams (a direct os.Remove, a library's temp file, ...).
	lastStat  string
	preImages int64
	// OnOp, if set, is invoked (under the world lock) before each operation with its label.
	OnOp func(label string)
}

// NewWorld creates a world imaging root into imgBase.
func NewWorld(root, imgBase string) *World {
	_ = os.MkdirAll(imgBase, 0o755)
	return &World{root: root, imgBase: imgBase}
}

// SetSkip sets a filter of relative paths not copied into images.
func (w *World) SetSkip(fn func(rel string) bool) { w.skip = fn }

// Enable switches imaging on/off (operations still run under the world lock).
func (w *World) Enable(on bool) { w.mu.Lock(); w.enabled = on; w.lastStat = ""; w.mu.Unlock() }

// Root returns the imaged directory.
func (w *World) Root() string { return w.root }

// Count returns the number of images taken so far; it is the index the next image will get.
func (w *World) Count() int { w.mu.Lock(); defer w.mu.Unlock(); return len(w.images) }

// Ops returns the number of seam operations executed.
func (w *World) Ops() int64 { w.mu.Lock(); defer w.mu.Unlock(); return w.ops }

// Images returns the images taken.
func (w *World) Images() []Image {
	w.mu.Lock()
	defer w.mu.Unlock()
	return append([]Image(nil), w.images...)
}

// Do runs one mutating operation under the world lock and images the directory after it
// (only when the directory content differs from the previous image).
func (w *World) Do(label string, op func() error) error {
	w.mu.Lock()
	defer w.mu.Unlock()
	w.ops++
	if w.OnOp != nil {
		w.OnOp(label)
	}
	w.preImageLocked(label)
	err := op()
	if w.enabled {
		w.imageLocked(label)
		w.lastStat = w.statFingerprint()
	}
	return err
}

// DoMaybe is Do for operations that usually do not reach the file system (a write into a user-space buffer): op
// reports whether the directory may have changed, and only then the image is taken (still under the world lock).
func (w *World) DoMaybe(label string, op func() (changed bool, err error)) error {
	w.mu.Lock()
	defer w.mu.Unlock()
	w.ops++
	if w.OnOp != nil {
		w.OnOp(label)
	}
	w.preImageLocked(label)
	changed, err := op()
	if w.enabled && changed {
		w.imageLocked(label)
	}
	if w.enabled {
		w.lastStat = w.statFingerprint()
	}
	return err
}

// PreImages returns how many images were taken before an operation because the directory had changed outside
// the seams since the previous operation.
func (w *World) PreImages() int64 { w.mu.Lock(); defer w.mu.Unlock(); return w.preImages }

// preImageLocked images the directory BEFORE an operation when it changed since the previous operation ended:
// such a change was made outside the seams, and the state between it and the coming operation is a crash state
// as well (the image after the coming operation would hide it).
func (w *World) preImageLocked(label string) {
	if !w.enabled || w.lastStat == "" {
		return
	}
	if fp := w.statFingerprint(); fp != w.lastStat {
		n := len(w.images)
		w.imageLocked("before " + label + " (directory changed outside the seams)")
		if len(w.images) > n {
			w.preImages++
		}
	}
}

// statFingerprint is a cheap fingerprint of the directory: relative names, sizes and modification times.
func (w *World) statFingerprint() string {
	hh := sha256.New()
	_ = filepath.Walk(w.root, func(p string, info os.FileInfo, err error) error {
		if err != nil {
			return nil
		}
		rel, _ := filepath.Rel(w.root, p)
		if rel == "." {
			return nil
		}
		if w.skip != nil && w.skip(rel) {
			if info.IsDir() {
				return filepath.SkipDir
			}
			return nil
		}
		if info.IsDir() {
			fmt.Fprintf(hh, "D %s\n", rel)
		} else {
			fmt.Fprintf(hh, "F %s %d %d\n", rel, info.Size(), info.ModTime().UnixNano())
		}
		return nil
	})
	return hex.EncodeToString(hh.Sum(nil))
}

// Snapshot takes an image now (e.g. the initial state), under the world lock.
func (w *World) Snapshot(label string) {
	w.mu.Lock()
	defer w.mu.Unlock()
	if w.enabled {
		w.imageLocked(label)
		w.lastStat = w.statFingerprint()
	}
}

// Locked runs fn under the world lock without imaging.
func (w *World) Locked(fn func()) { w.mu.Lock(); defer w.mu.Unlock(); fn() }

func (w *World) imageLocked(label string) {
	idx := len(w.images)
	dst := filepath.Join(w.imgBase, fmt.Sprintf("%06d", idx))
	h, err := CopyTree(w.root, dst, w.skip)
	if err != nil {
		// the image could not be taken (should not happen: nothing else mutates the tree)
		panic(fmt.Sprintf("imgfs: cannot image %s: %v", w.root, err))
	}
	if h == w.last {
		_ = os.RemoveAll(dst)
		return
	}
	w.last = h
	w.images = append(w.images, Image{Index: idx, Label: label, Dir: dst, Hash: h})
}

// Drop removes the image directory of image idx (after its verdict is known).
func (w *World) Drop(idx int) {
	w.mu.Lock()
	defer w.mu.Unlock()
	if idx >= 0 && idx < len(w.images) {
		_ = os.RemoveAll(w.images[idx].Dir)
	}
}

// DropAll removes all image directories.
func (w *World) DropAll() { _ = os.RemoveAll(w.imgBase) }

// CopyTree copies the directory tree src to dst (sparse aware) and returns a content hash.
func CopyTree(src, dst string, skip func(rel string) bool) (string, error) {
	var files []string
	var dirs []string
	err := filepath.Walk(src, func(p string, info os.FileInfo, err error) error {
		if err != nil {
			if os.IsNotExist(err) {
				return nil
			}
			return err
		}
		rel, _ := filepath.Rel(src, p)
		if rel == "." {
			return nil
		}
		if skip != nil && skip(rel) {
			if info.IsDir() {
				return filepath.SkipDir
			}
			return nil
		}
		if info.IsDir() {
			dirs = append(dirs, rel)
		} else if info.Mode().IsRegular() {
			files = append(files, rel)
		}
		return nil
	})
	if err != nil {
		return "", err
	}
	sort.Strings(files)
	sort.Strings(dirs)
	if err := os.MkdirAll(dst, 0o755); err != nil {
		return "", err
	}
	hh := sha256.New()
	for _, d := range dirs {
		if err := os.MkdirAll(filepath.Join(dst, d), 0o755); err != nil {
			return "", err
		}
		fmt.Fprintf(hh, "D %s\n", d)
	}
	for _, f := range files {
		fh, size, err := copySparse(filepath.Join(src, f), filepath.Join(dst, f))
		if err != nil {
			if os.IsNotExist(err) {
				continue
			}
			return "", err
		}
		fmt.Fprintf(hh, "F %s %d %s\n", f, size, fh)
	}
	return hex.EncodeToString(hh.Sum(nil)), nil
}

var bufPool = sync.Pool{New: func() interface{} { b := make([]byte, 256<<10); return &b }}

const (
	seekData = 3
	seekHole = 4
)

// copySparse copies only the data extents of src into dst (dst gets the same logical size).
func copySparse(src, dst string) (hash string, size int64, err error) {
	in, err := os.Open(src)
	if err != nil {
		return "", 0, err
	}
	defer in.Close()
	st, err := in.Stat()
	if err != nil {
		return "", 0, err
	}
	size = st.Size()
	out, err := os.OpenFile(dst, os.O_CREATE|os.O_TRUNC|os.O_WRONLY, 0o644)
	if err != nil {
		return "", 0, err
	}
	defer out.Close()
	if err := out.Truncate(size); err != nil {
		return "", 0, err
	}
	h := sha256.New()
	fd := int(in.Fd())
	off := int64(0)
	bp := bufPool.Get().(*[]byte)
	defer bufPool.Put(bp)
	buf := *bp
	for off < size {
		dataStart, e := syscall.Seek(fd, off, seekData)
		if e != nil {
			if e == syscall.ENXIO { // no more data
				break
			}
			// fall back to plain copy
			dataStart = off
		}
		holeStart, e := syscall.Seek(fd, dataStart, seekHole)
		if e != nil {
			holeStart = size
		}
		if holeStart > size {
			holeStart = size
		}
		fmt.Fprintf(h, "@%d+%d:", dataStart, holeStart-dataStart)
		pos := dataStart
		for pos < holeStart {
			n := int64(len(buf))
			if holeStart-pos < n {
				n = holeStart - pos
			}
			rn, rerr := in.ReadAt(buf[:n], pos)
			if rn > 0 {
				// skip all-zero chunks (keeps the copy sparse and the hash independent of extent layout)
				if !allZero(buf[:rn]) {
					if _, werr := out.WriteAt(buf[:rn], pos); werr != nil {
						return "", 0, werr
					}
				}
				h.Write(buf[:rn])
			}
			pos += int64(rn)
			if rerr != nil {
				if rerr == io.EOF {
					break
				}
				return "", 0, rerr
			}
		}
		off = holeStart
	}
	return hex.EncodeToString(h.Sum(nil)[:12]), size, nil
}

func allZero(b []byte) bool {
	for _, v := range b {
		if v != 0 {
			return false
		}
	}
	return true
}
