// Package racefilter parses Go race detector output ("WARNING: DATA RACE" blocks), attributes each report to
// lindb source files and de-duplicates reports by their stacks with line numbers stripped.
package racefilter

import (
	"os"
	"path/filepath"
	"regexp"
	"sort"
	"strings"
)

// Report is one race report.
type Report struct {
	Text       string   // the whole block
	LindbFiles []string // lindb source files (relative to the tree root) appearing in the stacks, in order of appearance
	TopFrames  []string // first lindb file of each of the two accesses
	Key        string   // de-duplication key (stacks without line numbers)
}

var frameRe = regexp.MustCompile(`^\s+(/[^\s:]+\.go):(\d+)`)

// TreeRoot returns the lindb tree the binary was built from (VERIF_TREE or /repo).
func TreeRoot() string {
	if t := os.Getenv("VERIF_TREE"); t != "" {
		return t
	}
	return "/repo"
}

// Parse splits race detector output into reports.
func Parse(output string) []Report {
	root := strings.TrimRight(TreeRoot(), "/") + "/"
	var reports []Report
	parts := strings.Split(output, "WARNING: DATA RACE")
	for i, p := range parts {
		if i == 0 {
			continue
		}
		end := strings.Index(p, "==================")
		if end >= 0 {
			p = p[:end]
		}
		r := Report{Text: "WARNING: DATA RACE" + p}
		var keyParts []string
		section := -1
		sectionTop := map[int]bool{}
		for _, line := range strings.Split(p, "\n") {
			trim := strings.TrimSpace(line)
			if strings.HasPrefix(trim, "Read at") || strings.HasPrefix(trim, "Write at") ||
				strings.HasPrefix(trim, "Previous read at") || strings.HasPrefix(trim, "Previous write at") ||
				strings.HasPrefix(trim, "Atomic") || strings.HasPrefix(trim, "Previous atomic") {
				section++
			}
			if strings.HasPrefix(trim, "Goroutine ") {
				section = 100 // creation stacks do not count as access frames
			}
			m := frameRe.FindStringSubmatch(line)
			if m == nil {
				continue
			}
			file := m[1]
			if strings.HasPrefix(file, root) && !strings.Contains(file, "/verif/harness/") {
				rel := strings.TrimPrefix(file, root)
				r.LindbFiles = append(r.LindbFiles, rel)
				if section >= 0 && section < 100 && !sectionTop[section] {
					sectionTop[section] = true
					r.TopFrames = append(r.TopFrames, rel)
				}
				if section < 100 {
					keyParts = append(keyParts, rel)
				}
			} else if section < 100 {
				keyParts = append(keyParts, filepath.Base(file))
			}
		}
		r.Key = strings.Join(keyParts, ">")
		reports = append(reports, r)
	}
	return reports
}

// Attributed returns the de-duplicated reports in which either access has its top lindb frame in one of the
// given files/directories (prefixes relative to the tree root, e.g. "kv/", "pkg/queue/").
func Attributed(reports []Report, prefixes []string) []Report {
	seen := map[string]bool{}
	var out []Report
	for _, r := range reports {
		hit := false
		for _, f := range r.TopFrames {
			if strings.HasSuffix(f, "_test.go") {
				continue
			}
			for _, p := range prefixes {
				if strings.HasPrefix(f, p) {
					hit = true
				}
			}
		}
		if !hit || seen[r.Key] {
			continue
		}
		seen[r.Key] = true
		out = append(out, r)
	}
	sort.Slice(out, func(i, j int) bool { return out[i].Key < out[j].Key })
	return out
}

// ReadLogs reads every race log file written with GORACE=log_path=<prefix> plus extra output files.
func ReadLogs(prefix string, extra ...string) string {
	var sb strings.Builder
	matches, _ := filepath.Glob(prefix + "*")
	sort.Strings(matches)
	for _, m := range append(matches, extra...) {
		data, err := os.ReadFile(m)
		if err == nil {
			sb.Write(data)
			sb.WriteString("\n")
		}
	}
	return sb.String()
}
