// Package core is the shared runtime of all property engines: seed/tier handling,
// measured coverage counters, violation reporting (with known-findings matching),
// evidence writing and child process helpers.
package core

import (
	"bytes"
	"encoding/json"
	"fmt"
	"math/rand"
	"os"
	"os/exec"
	"path/filepath"
	"sort"
	"strconv"
	"strings"
	"sync"
	"time"
)

// Finding is one entry of known_findings.json.
type Finding struct {
	Property string `json:"property"`
	Class    string `json:"class"`
	What     string `json:"what"`
	Status   string `json:"status"` // open | fixed
	Commit   string `json:"commit,omitempty"`
}

type findingsFile struct {
	Findings []Finding `json:"findings"`
}

// Violation is one violation observed by an oracle.
type Violation struct {
	Class   string      `json:"class"`
	Message string      `json:"message"`
	Witness interface{} `json:"witness,omitempty"`
}

// Ctx collects what one check run observed.
type Ctx struct {
	Prop  string
	Tier  string
	Seed  int64
	Level string
	Root  string
	Start time.Time

	mu           sync.Mutex
	evals        int64
	nontrivial   map[string]struct{}
	rule         string
	samples      []interface{}
	maxSamples   int
	extra        map[string]interface{}
	counters     map[string]int64
	assumptions  []string
	violations   map[string]*Violation // by class
	violCount    map[string]int
	order        []string
	inconclusive []string
	known        []Finding
	scratch      string
}

// New creates the context of a check. Tier comes from argv[1] (or VERIF_TIER), seed from VERIF_SEED.
func New(prop, level string) *Ctx {
	tier := os.Getenv("VERIF_TIER")
	if len(os.Args) > 1 && (os.Args[1] == "quick" || os.Args[1] == "thorough") {
		tier = os.Args[1]
	}
	if tier != "thorough" {
		tier = "quick"
	}
	seed := int64(1)
	if s := os.Getenv("VERIF_SEED"); s != "" {
		if v, err := strconv.ParseInt(s, 10, 64); err == nil {
			seed = v
		}
	}
	root := os.Getenv("VERIF_ROOT")
	if root == "" {
		root = "/verif"
	}
	c := &Ctx{
		Prop: prop, Tier: tier, Seed: seed, Level: level, Root: root, Start: time.Now(),
		nontrivial: map[string]struct{}{}, extra: map[string]interface{}{}, counters: map[string]int64{},
		violations: map[string]*Violation{}, violCount: map[string]int{}, maxSamples: 4,
	}
	c.loadKnown()
	return c
}

func (c *Ctx) loadKnown() {
	data, err := os.ReadFile(filepath.Join(c.Root, "known_findings.json"))
	if err != nil {
		return
	}
	var f findingsFile
	if err := json.Unmarshal(data, &f); err != nil {
		fmt.Fprintf(os.Stderr, "known_findings.json unreadable: %v\n", err)
		return
	}
	for _, k := range f.Findings {
		if k.Property == c.Prop && k.Status == "open" {
			c.known = append(c.known, k)
		}
	}
}

// Quick reports whether this is the quick tier.
func (c *Ctx) Quick() bool { return c.Tier == "quick" }

// Pick returns q in the quick tier and t in the thorough tier.
func (c *Ctx) Pick(q, t int) int {
	if c.Quick() {
		return q
	}
	return t
}

// Rand returns a PRNG derived from the seed and a stream name (deterministic per stream).
func (c *Ctx) Rand(stream string) *rand.Rand {
	h := uint64(1469598103934665603)
	for i := 0; i < len(stream); i++ {
		h ^= uint64(stream[i])
		h *= 1099511628211
	}
	return rand.New(rand.NewSource(c.Seed*1000003 + int64(h&0x7fffffffffff)))
}

// Scratch returns a scratch directory outside /repo and /verif, removed by Finish.
func (c *Ctx) Scratch() string {
	c.mu.Lock()
	defer c.mu.Unlock()
	if c.scratch == "" {
		base := os.Getenv("VERIF_SCRATCH")
		if base == "" {
			base = os.TempDir()
		}
		dir, err := os.MkdirTemp(base, "verif-"+c.Prop+"-")
		if err != nil {
			panic(err)
		}
		c.scratch = dir
	}
	return c.scratch
}

// SetRule states how cases are generated and what counts as non-trivial.
func (c *Ctx) SetRule(rule string) { c.mu.Lock(); c.rule = rule; c.mu.Unlock() }

// Assume records an assumption of the check.
func (c *Ctx) Assume(a string) { c.mu.Lock(); c.assumptions = append(c.assumptions, a); c.mu.Unlock() }

// Eval counts n evaluated cases.
func (c *Ctx) Eval(n int) { c.mu.Lock(); c.evals += int64(n); c.mu.Unlock() }

// Nontrivial records a distinct non-trivial case by key.
func (c *Ctx) Nontrivial(key string) {
	c.mu.Lock()
	if len(c.nontrivial) < 2_000_000 {
		c.nontrivial[key] = struct{}{}
	}
	c.mu.Unlock()
}

// NontrivialCount returns the number of distinct non-trivial cases seen so far.
func (c *Ctx) NontrivialCount() int { c.mu.Lock(); defer c.mu.Unlock(); return len(c.nontrivial) }

// Sample keeps one of the first few cases written out for the evidence.
func (c *Ctx) Sample(v interface{}) {
	c.mu.Lock()
	if len(c.samples) < c.maxSamples {
		c.samples = append(c.samples, v)
	}
	c.mu.Unlock()
}

// Count adds n to a named observation counter (reported under coverage.observed).
func (c *Ctx) Count(name string, n int) { c.mu.Lock(); c.counters[name] += int64(n); c.mu.Unlock() }

// Counter returns the value of a named observation counter.
func (c *Ctx) Counter(name string) int64 { c.mu.Lock(); defer c.mu.Unlock(); return c.counters[name] }

// Set stores an extra coverage key.
func (c *Ctx) Set(key string, v interface{}) { c.mu.Lock(); c.extra[key] = v; c.mu.Unlock() }

// Inconclusive records a reason why the run cannot give a verdict.
func (c *Ctx) Inconclusive(format string, args ...interface{}) {
	c.mu.Lock()
	c.inconclusive = append(c.inconclusive, fmt.Sprintf(format, args...))
	c.mu.Unlock()
}

// Violation records a violation of the given class (first witness per class is kept).
func (c *Ctx) Violation(class, msg string, witness interface{}) {
	c.mu.Lock()
	defer c.mu.Unlock()
	c.violCount[class]++
	if _, ok := c.violations[class]; ok {
		return
	}
	c.violations[class] = &Violation{Class: class, Message: msg, Witness: witness}
	c.order = append(c.order, class)
}

// Violations returns the number of distinct violation classes so far.
func (c *Ctx) Violations() int { c.mu.Lock(); defer c.mu.Unlock(); return len(c.violations) }

func (c *Ctx) matchKnown(class string) *Finding {
	for i := range c.known {
		k := &c.known[i]
		if k.Class == class || (strings.HasSuffix(k.Class, "*") && strings.HasPrefix(class, strings.TrimSuffix(k.Class, "*"))) {
			return k
		}
	}
	return nil
}

// Finish writes the evidence file, prints the verdict lines and exits.
func (c *Ctx) Finish() {
	c.mu.Lock()
	defer c.mu.Unlock()
	if c.scratch != "" && os.Getenv("VERIF_KEEP_SCRATCH") == "" {
		_ = os.RemoveAll(c.scratch)
	}
	realViolations := 0
	knownHit := map[string]bool{}
	_ = os.MkdirAll(filepath.Join(c.Root, "replays"), 0o755)
	var lines []string
	sort.Strings(c.order)
	for i, class := range c.order {
		v := c.violations[class]
		if k := c.matchKnown(class); k != nil {
			if !knownHit[k.Class] {
				knownHit[k.Class] = true
				lines = append(lines, fmt.Sprintf("KNOWN-FINDING: property=%s %s: %s (observed %d times; e.g. %s)",
					c.Prop, k.Class, k.What, c.violCount[class], oneLine(v.Message)))
			}
			continue
		}
		realViolations++
		replay := filepath.Join(c.Root, "replays", fmt.Sprintf("%s-%d-%d.json", c.Prop, c.Seed, i))
		data, _ := json.MarshalIndent(map[string]interface{}{
			"property": c.Prop, "seed": c.Seed, "tier": c.Tier, "class": v.Class,
			"message": v.Message, "count": c.violCount[class], "witness": v.Witness,
		}, "", " ")
		_ = os.WriteFile(replay, data, 0o644)
		lines = append(lines, fmt.Sprintf("VIOLATION property=%s replay=%s class=%s %s", c.Prop, replay, class, oneLine(v.Message)))
	}
	nt := len(c.nontrivial)
	if nt < 2 && realViolations == 0 {
		c.inconclusive = append(c.inconclusive, fmt.Sprintf("only %d distinct non-trivial cases observed", nt))
	}
	cov := map[string]interface{}{
		"evaluations":         c.evals,
		"distinct_nontrivial": nt,
		"rule":                c.rule,
		"samples":             c.samples,
		"observed":            c.counters,
	}
	if len(c.samples) == 0 {
		cov["samples"] = []interface{}{"(no sample recorded)"}
	}
	for k, v := range c.extra {
		cov[k] = v
	}
	var knownList []string
	for k := range knownHit {
		knownList = append(knownList, k)
	}
	sort.Strings(knownList)
	cov["known_findings_observed"] = knownList
	if len(c.inconclusive) > 0 {
		cov["inconclusive"] = c.inconclusive
	}
	ev := map[string]interface{}{
		"property_id": c.Prop,
		"tier":        c.Tier,
		"seed":        c.Seed,
		"level":       c.Level,
		"coverage":    cov,
		"assumptions": c.assumptions,
		"wall_s":      time.Since(c.Start).Seconds(),
		"violations":  realViolations,
	}
	if c.assumptions == nil {
		ev["assumptions"] = []string{}
	}
	data, err := json.MarshalIndent(ev, "", " ")
	if err != nil {
		fmt.Println("cannot marshal evidence:", err)
		os.Exit(3)
	}
	_ = os.MkdirAll(filepath.Join(c.Root, "evidence"), 0o755)
	if err := os.WriteFile(filepath.Join(c.Root, "evidence", c.Prop+".json"), data, 0o644); err != nil {
		fmt.Println("cannot write evidence:", err)
		os.Exit(3)
	}
	for _, l := range lines {
		fmt.Println(l)
	}
	fmt.Printf("SUMMARY property=%s tier=%s seed=%d evaluations=%d distinct_nontrivial=%d violations=%d known=%d wall=%.1fs\n",
		c.Prop, c.Tier, c.Seed, c.evals, nt, realViolations, len(knownHit), time.Since(c.Start).Seconds())
	keys := make([]string, 0, len(c.counters))
	for k := range c.counters {
		keys = append(keys, k)
	}
	sort.Strings(keys)
	for _, k := range keys {
		fmt.Printf("  observed %-40s %d\n", k, c.counters[k])
	}
	if realViolations > 0 {
		os.Exit(1)
	}
	if len(c.inconclusive) > 0 {
		for _, m := range c.inconclusive {
			fmt.Printf("INCONCLUSIVE property=%s %s\n", c.Prop, m)
		}
		os.Exit(2)
	}
	os.Exit(0)
}

func oneLine(s string) string {
	s = strings.ReplaceAll(s, "\n", " | ")
	if len(s) > 400 {
		s = s[:400] + "..."
	}
	return s
}

// ChildResult is the outcome of a child process.
type ChildResult struct {
	ExitCode int
	TimedOut bool
	Output   string // combined output (tail, up to 64KiB)
	Death    string // excerpt of the output starting at the first "panic:" / "fatal error:" / fault line (empty if none)
	Err      error
}

// RunChild re-executes this binary (or bin if non-empty) with args, extra env and a wall-clock watchdog.
// The watchdog is not an oracle: a timeout is reported as TimedOut and must be treated as inconclusive
// unless the engine decided on a logical condition.
func RunChild(bin string, args []string, env []string, timeout time.Duration, outFile string) ChildResult {
	if bin == "" {
		exe, err := os.Executable()
		if err != nil {
			return ChildResult{ExitCode: -1, Err: err}
		}
		bin = exe
	}
	f, err := os.Create(outFile)
	if err != nil {
		return ChildResult{ExitCode: -1, Err: err}
	}
	defer f.Close()
	cmd := exec.Command(bin, args...)
	cmd.Env = append(os.Environ(), env...)
	cmd.Stdout = f
	cmd.Stderr = f
	if err := cmd.Start(); err != nil {
		return ChildResult{ExitCode: -1, Err: err}
	}
	done := make(chan error, 1)
	go func() { done <- cmd.Wait() }()
	res := ChildResult{}
	select {
	case err := <-done:
		res.Err = err
	case <-time.After(timeout):
		res.TimedOut = true
		_ = cmd.Process.Signal(syscallSIGQUIT)
		select {
		case <-done:
		case <-time.After(10 * time.Second):
			_ = cmd.Process.Kill()
			<-done
		}
	}
	if cmd.ProcessState != nil {
		res.ExitCode = cmd.ProcessState.ExitCode()
	}
	res.Output = tailFile(outFile, 64<<10)
	if res.ExitCode != 0 || res.TimedOut {
		res.Death = deathExcerpt(outFile, 12<<10)
	}
	return res
}

// deathExcerpt returns up to n bytes of the file starting at the first line that announces a crash of a Go process.
func deathExcerpt(path string, n int) string {
	data, err := os.ReadFile(path)
	if err != nil {
		return ""
	}
	first := -1
	for _, marker := range []string{"panic: ", "fatal error: ", "unexpected fault address", "SIGSEGV", "SIGBUS", "SIGQUIT: quit"} {
		if i := bytes.Index(data, []byte(marker)); i >= 0 && (first < 0 || i < first) {
			first = i
		}
	}
	if first < 0 {
		return ""
	}
	end := first + n
	if end > len(data) {
		end = len(data)
	}
	return string(data[first:end])
}

func tailFile(path string, n int64) string {
	f, err := os.Open(path)
	if err != nil {
		return ""
	}
	defer f.Close()
	st, err := f.Stat()
	if err != nil {
		return ""
	}
	off := int64(0)
	if st.Size() > n {
		off = st.Size() - n
	}
	buf := make([]byte, st.Size()-off)
	_, _ = f.ReadAt(buf, off)
	return string(buf)
}

// Parallel runs fn(i) for i in [0,n) on up to workers goroutines.
func Parallel(n, workers int, fn func(i int)) {
	if workers < 1 {
		workers = 1
	}
	var wg sync.WaitGroup
	ch := make(chan int)
	for w := 0; w < workers; w++ {
		wg.Add(1)
		go func() {
			defer wg.Done()
			for i := range ch {
				fn(i)
			}
		}()
	}
	for i := 0; i < n; i++ {
		ch <- i
	}
	close(ch)
	wg.Wait()
}
