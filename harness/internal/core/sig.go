package core

import "syscall"

var syscallSIGQUIT = syscall.SIGQUIT
