package blocks

import (
	"fmt"
	"math/rand"
	"sort"

	"github.com/lindb/lindb/pkg/timeutil"
	"github.com/lindb/lindb/series/field"
)

// AllFieldTypes are the field types a block can carry.
var AllFieldTypes = []field.Type{field.SumField, field.MinField, field.MaxField, field.LastField, field.HistogramField, field.FirstField}

// MetricSpec is the schema of one generated metric: its kv key, all its fields, the pool of series ids that
// blocks draw from and the nominal slot range of the family.
type MetricSpec struct {
	ID         uint32
	Fields     field.Metas // ascending ids
	FieldKind  string      // single | few | all-types | histogram | wide
	Pool       []uint32    // ascending series ids
	SeriesKind string      // small | dense | sparse | boundary | mixed | two-buckets
	Base       timeutil.SlotRange
}

// Universe is a set of metric schemas that the files of one history share.
type Universe struct {
	Metrics []MetricSpec // ascending ids
}

// GenOptions bounds the generated shapes.
type GenOptions struct {
	MaxMetrics int // 1..MaxMetrics metrics (default 4)
	MaxPool    int // upper bound of the series pool of a metric (default 40)
	MaxSlot    int // highest slot ever used (default 1200; real families have at most 3600 slots)
	BigSeries  int // if > 0 the first metric gets a dense pool of that many series (65k-series blocks)
	MaxFields  int // if > 0 schemas are cut to that many fields
	MaxBaseLen int // if > 0 the nominal slot range of a metric has at most that many slots
}

func (o *GenOptions) defaults() {
	if o.MaxMetrics <= 0 {
		o.MaxMetrics = 4
	}
	if o.MaxPool <= 0 {
		o.MaxPool = 40
	}
	if o.MaxSlot <= 0 {
		o.MaxSlot = 1200
	}
}

var metricIDPool = []uint32{1, 2, 3, 4, 7, 100, 255, 256, 4095, 65535, 65536, 65537, 131071, 131072, 1 << 20, 1<<24 + 5, 1<<31 - 1, 1 << 31, 1<<32 - 2}

// GenUniverse generates metric schemas.
func GenUniverse(rnd *rand.Rand, o GenOptions) *Universe {
	o.defaults()
	u := &Universe{}
	n := 1 + rnd.Intn(o.MaxMetrics)
	ids := map[uint32]bool{}
	for len(ids) < n {
		if rnd.Intn(3) == 0 {
			ids[uint32(1+rnd.Intn(12))] = true
		} else {
			ids[metricIDPool[rnd.Intn(len(metricIDPool))]] = true
		}
	}
	for id := range ids {
		u.Metrics = append(u.Metrics, MetricSpec{ID: id})
	}
	sort.Slice(u.Metrics, func(i, j int) bool { return u.Metrics[i].ID < u.Metrics[j].ID })
	for i := range u.Metrics {
		m := &u.Metrics[i]
		m.Fields, m.FieldKind = genFields(rnd)
		if o.MaxFields > 0 && len(m.Fields) > o.MaxFields {
			m.Fields = m.Fields[:o.MaxFields]
		}
		m.Pool, m.SeriesKind = genPool(rnd, o.MaxPool)
		if i == 0 && o.BigSeries > 0 {
			m.Pool = m.Pool[:0]
			start := uint32(rnd.Intn(3))
			for s := 0; s < o.BigSeries; s++ {
				m.Pool = append(m.Pool, start+uint32(s))
			}
			m.SeriesKind = "big-dense"
		}
		bs := rnd.Intn(o.MaxSlot / 2)
		var bl int
		switch rnd.Intn(4) {
		case 0:
			bl = 1 + rnd.Intn(4)
		case 1:
			bl = 5 + rnd.Intn(30)
		case 2:
			bl = 30 + rnd.Intn(120)
		default:
			bl = 1 + rnd.Intn(o.MaxSlot/3)
		}
		if o.MaxBaseLen > 0 && bl >= o.MaxBaseLen {
			bl = o.MaxBaseLen - 1
		}
		if bs+bl > o.MaxSlot {
			bl = o.MaxSlot - bs
		}
		m.Base = timeutil.SlotRange{Start: uint16(bs), End: uint16(bs + bl)}
	}
	return u
}

func genFields(rnd *rand.Rand) (field.Metas, string) {
	var ms field.Metas
	kind := ""
	switch k := rnd.Intn(40); {
	case k == 39:
		kind = "wide"
		// many fields (a histogram with many buckets plus gauges): field offsets of a series entry need more than one byte
		n := 20 + rnd.Intn(41)
		for i := 0; i < n; i++ {
			ms = append(ms, field.Meta{ID: field.ID(1 + 4*i + rnd.Intn(4)), Type: AllFieldTypes[rnd.Intn(len(AllFieldTypes))]})
		}
	case k < 8:
		kind = "single"
		ms = field.Metas{{ID: field.ID(1 + rnd.Intn(6)), Type: AllFieldTypes[rnd.Intn(len(AllFieldTypes))]}}
	case k < 24:
		kind = "few"
		n := 2 + rnd.Intn(4) // 2..5
		used := map[field.ID]bool{}
		for len(ms) < n {
			id := field.ID(1 + rnd.Intn(12))
			if rnd.Intn(8) == 0 {
				id = field.ID(200 + rnd.Intn(56)) // ids close to the uint8 limit
			}
			if used[id] {
				continue
			}
			used[id] = true
			ms = append(ms, field.Meta{ID: id, Type: AllFieldTypes[rnd.Intn(len(AllFieldTypes))]})
		}
	case k < 32:
		kind = "all-types"
		perm := rnd.Perm(len(AllFieldTypes))
		for i, p := range perm {
			ms = append(ms, field.Meta{ID: field.ID(1 + 2*i + rnd.Intn(2)), Type: AllFieldTypes[p]})
		}
	default:
		kind = "histogram"
		// lindb's histogram: sum, count, min, max + one histogram field per bucket
		ms = field.Metas{{ID: 1, Type: field.SumField}, {ID: 2, Type: field.SumField}, {ID: 3, Type: field.MinField}, {ID: 4, Type: field.MaxField}}
		nb := 3 + rnd.Intn(10)
		for b := 0; b < nb; b++ {
			ms = append(ms, field.Meta{ID: field.ID(5 + b), Type: field.HistogramField})
		}
	}
	sort.Slice(ms, func(i, j int) bool { return ms[i].ID < ms[j].ID })
	return ms, kind
}

var boundarySeries = []uint32{65534, 65535, 65536, 65537, 131070, 131071, 131072, 131073}

func genPool(rnd *rand.Rand, maxPool int) ([]uint32, string) {
	set := map[uint32]bool{}
	kind := ""
	switch rnd.Intn(6) {
	case 0:
		kind = "small"
		n := 1 + rnd.Intn(5)
		for len(set) < n {
			set[uint32(rnd.Intn(20))] = true
		}
	case 1:
		kind = "dense"
		starts := []uint32{0, 1, 100, 65530 - uint32(maxPool), 65536, 131071 - uint32(maxPool)/2}
		start := starts[rnd.Intn(len(starts))]
		n := 2 + rnd.Intn(maxPool-1)
		for i := 0; i < n; i++ {
			set[start+uint32(i)] = true
		}
	case 2:
		kind = "sparse"
		n := 2 + rnd.Intn(maxPool-1)
		for len(set) < n {
			set[uint32(rnd.Intn(200000))] = true
		}
	case 3:
		kind = "boundary"
		n := 2 + rnd.Intn(len(boundarySeries)-1)
		for len(set) < n {
			set[boundarySeries[rnd.Intn(len(boundarySeries))]] = true
		}
	case 4:
		kind = "two-buckets"
		// a dense run that crosses a 65536 boundary
		half := uint32(1 + rnd.Intn(maxPool/2+1))
		edge := uint32(65536 * (1 + rnd.Intn(2)))
		for s := edge - half; s < edge+half; s++ {
			set[s] = true
		}
	default:
		kind = "mixed"
		for i := 0; i < 1+rnd.Intn(4); i++ {
			set[uint32(rnd.Intn(20))] = true
		}
		for i := 0; i < 1+rnd.Intn(4); i++ {
			set[boundarySeries[rnd.Intn(len(boundarySeries))]] = true
		}
		for i := 0; i < 1+rnd.Intn(4); i++ {
			set[uint32(rnd.Intn(1<<20))] = true
		}
		if rnd.Intn(3) == 0 {
			set[1<<32-1] = true // highest container 65535
		}
	}
	var pool []uint32
	for s := range set {
		pool = append(pool, s)
	}
	sort.Slice(pool, func(i, j int) bool { return pool[i] < pool[j] })
	return pool, kind
}

// FileOptions steers GenFile.
type FileOptions struct {
	Seq            int     // flush sequence number; the low 6 bits of every value carry Seq%64 so values of different flushes differ
	MaxSlot        int     // default 1200
	AllMetrics     bool    // every metric of the universe gets a block
	AllFields      bool    // every block carries all fields of its metric
	AllSeries      bool    // every block names all series of the pool
	PSilent        float64 // probability that a named series carries no field data at all (memdb names every series of the shard index)
	NoSilentBucket bool    // never generate the "whole first bucket silent" shape
	NoLongRange    bool    // never generate block ranges longer than 360 slots
}

// FileShape summarises what GenFile produced (for coverage counters).
type FileShape struct {
	Blocks        int
	Cells         int
	RangeKinds    []string // per block
	PartialFields int      // blocks that carry a strict subset of the metric's fields
	PartialSeries int      // blocks that name a strict subset of the pool
	SilentSeries  int      // series named without any field data
	NilFields     int      // (series, field) entries flushed as nil while the series has other data
	EmptyFields   int      // (series, field) entries encoded without any value
	SilentBuckets int      // blocks in which every series of one high key is silent (and another high key has data)
	HighKeys      int      // max number of series high keys in one block
	LongRanges    int      // blocks whose range is longer than 360 slots (heap path of the down sampling merge)
}

// GenFile generates the blocks of one flush (ascending metric ids; at least one block).
func (u *Universe) GenFile(rnd *rand.Rand, fo FileOptions) ([]*Block, FileShape) {
	if fo.MaxSlot <= 0 {
		fo.MaxSlot = 1200
	}
	var out []*Block
	var sh FileShape
	forced := rnd.Intn(len(u.Metrics))
	for mi := range u.Metrics {
		m := &u.Metrics[mi]
		if !fo.AllMetrics && mi != forced && rnd.Intn(4) == 0 {
			continue
		}
		b := &Block{Metric: m.ID}
		// fields present in this file
		if fo.AllFields || rnd.Intn(2) == 0 {
			b.Fields = append(field.Metas{}, m.Fields...)
		} else {
			keep := rnd.Intn(len(m.Fields))
			for i, fm := range m.Fields {
				if i == keep || rnd.Intn(2) == 0 {
					b.Fields = append(b.Fields, fm)
				}
			}
		}
		if len(b.Fields) < len(m.Fields) {
			sh.PartialFields++
		}
		// slot range of this file
		kind := ""
		b.Range, kind = genRange(rnd, m.Base, fo.MaxSlot)
		if fo.NoLongRange && kind == "long" {
			b.Range, kind = m.Base, "same"
		}
		sh.RangeKinds = append(sh.RangeKinds, kind)
		if int(b.Range.End)-int(b.Range.Start)+1 > 360 {
			sh.LongRanges++
		}
		// series named by this file
		var ids []uint32
		if fo.AllSeries || rnd.Intn(3) == 0 {
			ids = append(ids, m.Pool...)
		} else {
			keep := rnd.Intn(len(m.Pool))
			p := 0.2 + 0.7*rnd.Float64()
			for i, s := range m.Pool {
				if i == keep || rnd.Float64() < p {
					ids = append(ids, s)
				}
			}
		}
		if len(ids) < len(m.Pool) {
			sh.PartialSeries++
		}
		highKeys := map[uint32]int{}
		for _, s := range ids {
			highKeys[s>>16]++
		}
		if len(highKeys) > sh.HighKeys {
			sh.HighKeys = len(highKeys)
		}
		// optionally silence one whole high-key bucket (all its series named, none carries data)
		silentBucket := int64(-1)
		if !fo.NoSilentBucket && len(highKeys) >= 2 && rnd.Intn(12) == 0 {
			hk := ids[rnd.Intn(len(ids))] >> 16
			silentBucket = int64(hk)
			sh.SilentBuckets++
		}
		withData := 0
		for _, s := range ids {
			se := Series{ID: s, Fields: make([]FieldData, len(b.Fields))}
			silent := int64(s>>16) == silentBucket || rnd.Float64() < fo.PSilent
			if !silent {
				any := false
				mode := rnd.Intn(4) // per series density
				for fi := range b.Fields {
					switch r := rnd.Intn(20); {
					case r == 0:
						// nil: no page of this field for the series
						sh.NilFields++
					case r == 1:
						se.Fields[fi] = FieldData{}
						sh.EmptyFields++
						any = true
					default:
						se.Fields[fi] = genFieldData(rnd, b.Range, mode, fo.Seq)
						any = true
					}
				}
				if !any {
					silent = true
					for fi := range se.Fields {
						se.Fields[fi] = nil
					}
				}
			}
			if silent {
				sh.SilentSeries++
			} else {
				withData++
			}
			b.Series = append(b.Series, se)
		}
		if fo.NoSilentBucket && len(b.Fields) == 1 {
			// a single-field block whose bucket (series of one high key) carries no byte at all is a shape of its own
			// (see FileShape.SilentBuckets): keep it out of files that did not ask for it
			has := map[uint32]bool{}
			for i := range b.Series {
				if b.Series[i].Fields[0] != nil {
					has[b.Series[i].ID>>16] = true
				}
			}
			for i := range b.Series {
				if hk := b.Series[i].ID >> 16; !has[hk] {
					has[hk] = true
					b.Series[i].Fields[0] = genFieldData(rnd, b.Range, 1, fo.Seq)
					sh.SilentSeries--
					withData++
				}
			}
		}
		if withData == 0 {
			// memdb only flushes a metric that has data in the memory database: give one series data
			i := rnd.Intn(len(b.Series))
			if silentBucket >= 0 {
				for j := range b.Series {
					if int64(b.Series[j].ID>>16) != silentBucket {
						i = j
						break
					}
				}
			}
			for fi := range b.Fields {
				b.Series[i].Fields[fi] = genFieldData(rnd, b.Range, 0, fo.Seq)
			}
			sh.SilentSeries--
		}
		sh.Blocks++
		sh.Cells += b.CellCount()
		out = append(out, b)
	}
	return out, sh
}

// genRange picks the slot range of a block relative to the nominal range of the metric.
func genRange(rnd *rand.Rand, base timeutil.SlotRange, maxSlot int) (timeutil.SlotRange, string) {
	bs, be := int(base.Start), int(base.End)
	clip := func(s, e int) timeutil.SlotRange {
		if s < 0 {
			s = 0
		}
		if e > maxSlot {
			e = maxSlot
		}
		if e < s {
			e = s
		}
		return timeutil.SlotRange{Start: uint16(s), End: uint16(e)}
	}
	l := be - bs + 1
	switch rnd.Intn(10) {
	case 0, 1:
		return base, "same"
	case 2:
		s := bs + rnd.Intn(l)
		e := s + rnd.Intn(be-s+1)
		return clip(s, e), "nested"
	case 3:
		s := bs - 2 + rnd.Intn(l+4)
		return clip(s, s), "single"
	case 4:
		s := bs - 1 - rnd.Intn(l+3)
		e := bs + rnd.Intn(l)
		return clip(s, e), "overlap-left"
	case 5:
		s := bs + rnd.Intn(l)
		e := be + 1 + rnd.Intn(l+3)
		return clip(s, e), "overlap-right"
	case 6:
		e := bs - 1 - rnd.Intn(20)
		s := e - rnd.Intn(l+3)
		if e < 0 {
			return clip(be+1, be+1+rnd.Intn(10)), "touching-after"
		}
		return clip(s, e), "disjoint-before"
	case 7:
		s := be + 2 + rnd.Intn(20)
		e := s + rnd.Intn(l+3)
		return clip(s, e), "disjoint-after"
	case 8:
		s := be + 1
		return clip(s, s+rnd.Intn(l+1)), "touching-after"
	default:
		s := rnd.Intn(maxSlot / 3)
		e := s + 361 + rnd.Intn(maxSlot/2)
		return clip(s, e), "long"
	}
}

// genFieldData generates integer-valued data (sums stay exact) for one (series, field).
// value = k*64 + seq%64 with |k| <= 2^33: values written by different flushes (seq < 64) never coincide.
func genFieldData(rnd *rand.Rand, r timeutil.SlotRange, mode int, seq int) FieldData {
	fd := FieldData{}
	l := int(r.End) - int(r.Start) + 1
	val := func() float64 {
		var k int64
		switch rnd.Intn(6) {
		case 0:
			k = 0
		case 1:
			k = int64(rnd.Intn(8)) - 4
		case 2:
			k = -int64(rnd.Intn(100000))
		case 3:
			k = int64(rnd.Int63n(1 << 33))
		default:
			k = int64(rnd.Intn(2000))
		}
		return float64(k*64 + int64(seq%64))
	}
	constant := rnd.Intn(5) == 0
	cv := val()
	put := func(s int) {
		if constant {
			fd[uint16(s)] = cv
		} else {
			fd[uint16(s)] = val()
		}
	}
	switch mode {
	case 0: // every slot
		for s := int(r.Start); s <= int(r.End); s++ {
			put(s)
		}
	case 1: // one slot (first, last or random)
		switch rnd.Intn(3) {
		case 0:
			put(int(r.Start))
		case 1:
			put(int(r.End))
		default:
			put(int(r.Start) + rnd.Intn(l))
		}
	default: // random subset
		p := 0.1 + 0.8*rnd.Float64()
		for s := int(r.Start); s <= int(r.End); s++ {
			if rnd.Float64() < p {
				put(s)
			}
		}
		if len(fd) == 0 {
			put(int(r.Start) + rnd.Intn(l))
		}
	}
	return fd
}

// Describe returns a one-line description of a block (for samples and witnesses).
func (b *Block) Describe() string {
	named, silent := len(b.Series), 0
	for i := range b.Series {
		all := true
		for _, fd := range b.Series[i].Fields {
			if fd != nil {
				all = false
			}
		}
		if all {
			silent++
		}
	}
	var fs []string
	for _, fm := range b.Fields {
		fs = append(fs, fmt.Sprintf("%d:%s", fm.ID, fm.Type))
	}
	first, last := b.Series[0].ID, b.Series[len(b.Series)-1].ID
	return fmt.Sprintf("metric=%d fields=%v range=[%d,%d] series=%d(silent %d, ids %d..%d) cells=%d",
		b.Metric, fs, b.Range.Start, b.Range.End, named, silent, first, last, b.CellCount())
}
