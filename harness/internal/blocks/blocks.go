// Package blocks is the shared tool box of the metric-block properties (C03 compaction, C04 rollup):
//
//   - describe metric blocks as plain data (Block / Series / FieldData),
//   - write them with the REAL metricsdata.Flusher through a REAL kv.Flusher into a kv family
//     (FlushFile / WriteBlocks), following the call protocol of tsdb/memdb (PrepareMetric, per series
//     one FlushField per field meta - nil for an absent field -, FlushSeries, CommitMetric, Close),
//   - read every (series, field, slot) cell of a block back through metricsdata.NewReader +
//     MetricReader.Load driven by a flow.DataLoadContext whose DownSampling callback collects the cells
//     (ReadBlock), exactly the calls tsdb/data_family.go fileFilter -> query/operator/data_load.go make,
//   - read a whole family through a version.Snapshot (ReadFamily): which file holds which metric key,
//     on which level, and the cells of each block,
//   - a naive reference (Ref): a cell map that remembers every contribution of every flush, with
//     per-field-type aggregation written independently of lindb's field.AggType (Aggregate),
//   - seeded generators for hostile block shapes (gen.go).
//
// Nothing here knows about compaction or rollup; the engines own their oracles.
//
// Typical use:
//
//	u := blocks.GenUniverse(rnd, blocks.GenOptions{})                    // metric schemas + series pools
//	blks, shape := u.GenFile(rnd, blocks.FileOptions{Seq: n})
//	err := blocks.FlushFile(family, blks)                                 // one new level-0 table
//	ref.Add(n, blks)                                                      // naive cell map
//	snap := family.GetSnapshot(); view, err := blocks.ReadFamily(snap, blocks.Options{}, nil); snap.Close()
//	// view.Blocks[metric][i].Cells[CellKey{Series, Field, Slot}] vs blocks.Aggregate(type, blocks.Values(ref.Cells[cell]))
//
// NOTE on the "silent bucket" shape: a single-field block in which all series of one series bucket (high 16 bits of
// the series id) were flushed with nil data has a bucket without bytes. It used to break the merge path shared by
// compaction and rollup (finding C03/empty-series-bucket, fixed by 0219dfd), so it is a shape worth generating:
// GenFile produces it unless FileOptions.NoSilentBucket is set; FileShape.SilentBuckets counts it.
//
// Field data is loaded ONE FIELD AT A TIME (StorageExecuteCtx.Fields holds a single meta), so the known
// reader defect of property C11 (metricReader.readSeriesData maps a single-field block to query field
// index 0) cannot influence what is read; ReadBlock can additionally load all fields of a multi-field
// block in one pass and report differences (Options.CrossCheckAllFields).
package blocks

import (
	"fmt"
	"math"
	"sort"

	"github.com/lindb/roaring"

	"github.com/lindb/lindb/flow"
	"github.com/lindb/lindb/kv"
	"github.com/lindb/lindb/kv/table"
	"github.com/lindb/lindb/kv/version"
	"github.com/lindb/lindb/pkg/bit"
	"github.com/lindb/lindb/pkg/encoding"
	"github.com/lindb/lindb/pkg/timeutil"
	"github.com/lindb/lindb/series/field"
	"github.com/lindb/lindb/sql/stmt"
	"github.com/lindb/lindb/tsdb/tblstore/metricsdata"
)

// MergerName is the kv merger of metric data families (registered by importing metricsdata).
const MergerName = string("MetricDataMerger")

// FieldData is the data of one field of one series in one block: slot -> value.
// A nil FieldData means "field absent for this series" (memdb calls FlushField(nil));
// an empty non-nil FieldData is encoded as a bit stream without any value.
type FieldData map[uint16]float64

// Series is one series entry of a block. Fields is parallel to Block.Fields.
type Series struct {
	ID     uint32
	Fields []FieldData
}

// Block is what one flush writes for one metric (one kv key).
type Block struct {
	Metric uint32
	Fields field.Metas        // ascending field ids, as memdb flushes them
	Range  timeutil.SlotRange // slot range in the block footer; every slot of every series lies inside
	Series []Series           // ascending series ids
}

// CellCount returns the number of cells (values) of the block.
func (b *Block) CellCount() (n int) {
	for i := range b.Series {
		for _, fd := range b.Series[i].Fields {
			n += len(fd)
		}
	}
	return n
}

// EncodeField encodes one field of one series the way tsdb/memdb/field_writer.go merge() does: one time bit per
// slot of the block range, a value after every set bit, no time header (BytesWithoutTime).
// The returned slice aliases the encoder's buffer: hand it to Flusher.FlushField before reusing the encoder.
func EncodeField(enc *encoding.TSDEncoder, r timeutil.SlotRange, fd FieldData) ([]byte, error) {
	enc.RestWithStartTime(r.Start)
	for s := int(r.Start); s <= int(r.End); s++ {
		if v, ok := fd[uint16(s)]; ok {
			enc.AppendTime(bit.One)
			enc.AppendValue(math.Float64bits(v))
		} else {
			enc.AppendTime(bit.Zero)
		}
	}
	return enc.BytesWithoutTime()
}

// WriteBlocks writes the blocks (ascending metric ids) through a metricsdata.Flusher; it does not close it.
func WriteBlocks(fl metricsdata.Flusher, blks []*Block) error {
	for _, b := range blks {
		if err := checkBlock(b); err != nil {
			return err
		}
		fl.PrepareMetric(b.Metric, append(field.Metas{}, b.Fields...))
		for si := range b.Series {
			s := &b.Series[si]
			for fi := range b.Fields {
				fd := s.Fields[fi]
				if fd == nil {
					// NOTE of memdb: must flush nil data, each series needs all field data in order
					if err := fl.FlushField(nil); err != nil {
						return err
					}
					continue
				}
				data, err := EncodeField(fl.GetEncoder(fi), b.Range, fd)
				if err != nil {
					return err
				}
				if err := fl.FlushField(data); err != nil {
					return err
				}
			}
			if err := fl.FlushSeries(s.ID); err != nil {
				return err
			}
		}
		if err := fl.CommitMetric(b.Range); err != nil {
			return err
		}
	}
	return nil
}

func checkBlock(b *Block) error {
	if len(b.Fields) == 0 || len(b.Series) == 0 || b.Range.End < b.Range.Start {
		return fmt.Errorf("blocks: malformed block of metric %d", b.Metric)
	}
	for i := 1; i < len(b.Fields); i++ {
		if b.Fields[i-1].ID >= b.Fields[i].ID {
			return fmt.Errorf("blocks: field ids of metric %d not ascending", b.Metric)
		}
	}
	for i := range b.Series {
		if i > 0 && b.Series[i-1].ID >= b.Series[i].ID {
			return fmt.Errorf("blocks: series ids of metric %d not ascending", b.Metric)
		}
		if len(b.Series[i].Fields) != len(b.Fields) {
			return fmt.Errorf("blocks: series %d of metric %d has %d field entries, want %d", b.Series[i].ID, b.Metric, len(b.Series[i].Fields), len(b.Fields))
		}
		for _, fd := range b.Series[i].Fields {
			for s := range fd {
				if s < b.Range.Start || s > b.Range.End {
					return fmt.Errorf("blocks: slot %d outside block range of metric %d", s, b.Metric)
				}
			}
		}
	}
	return nil
}

// FlushFile writes the blocks as ONE new level-0 table of the family: family.NewFlusher ->
// metricsdata.NewFlusher -> WriteBlocks -> Close (= kv Commit) -> Release. Blocks must be in ascending metric order.
func FlushFile(fam kv.Family, blks []*Block) (err error) {
	for i := 1; i < len(blks); i++ {
		if blks[i-1].Metric >= blks[i].Metric {
			return fmt.Errorf("blocks: metric ids not ascending")
		}
	}
	kvFlusher := fam.NewFlusher()
	defer kvFlusher.Release()
	fl, err := metricsdata.NewFlusher(kvFlusher)
	if err != nil {
		return err
	}
	if err := WriteBlocks(fl, blks); err != nil {
		return err
	}
	return fl.Close()
}

// CellKey addresses a cell inside one block.
type CellKey struct {
	Series uint32
	Field  field.ID
	Slot   uint16
}

// BlockView is what a reader observes in one metric block.
type BlockView struct {
	File   int64 // table file number (0 when read from raw bytes)
	Level  int   // level of the file (-1 unknown)
	Metric uint32
	Fields field.Metas
	Range  timeutil.SlotRange
	Series []uint32 // ascending, from the block's series bitmap
	Cells  map[CellKey]float64
	// LoadNotes lists anomalies seen while loading (duplicate emission of a cell, slot outside range,
	// difference between per-field and all-field load, ...); empty on a healthy block.
	LoadNotes []string
}

// FieldType returns the type of field id in the block.
func (v *BlockView) FieldType(id field.ID) (field.Type, bool) {
	for _, m := range v.Fields {
		if m.ID == id {
			return m.Type, true
		}
	}
	return 0, false
}

// Options of ReadBlock/ReadFamily.
type Options struct {
	// Query holds series to ask for IN ADDITION to the block's own series bitmap (the SeriesIDsAfterFiltering of
	// a query is the union). The reader only returns series the block holds, so every stored series is read and
	// the query-side containers differ from the stored ones like they do for a real query.
	Query *roaring.Bitmap
	// CrossCheckAllFields additionally loads all fields of a block with >= 2 fields in one pass and notes differences.
	CrossCheckAllFields bool
}

// ReadBlock reads all cells of a raw metric block.
func ReadBlock(path string, block []byte, opt Options) (*BlockView, error) {
	r, err := metricsdata.NewReader(path, block)
	if err != nil {
		return nil, err
	}
	view := &BlockView{Level: -1, Fields: append(field.Metas{}, r.GetFields()...), Range: r.GetTimeRange(), Cells: map[CellKey]float64{}}
	bm := r.GetSeriesIDs()
	view.Series = bm.ToArray()
	query := bm
	if opt.Query != nil {
		query = roaring.Or(bm, opt.Query)
	}
	for _, fm := range view.Fields {
		cells := map[CellKey]float64{}
		loadFields(r, query, field.Metas{fm}, view, cells)
		for k, v := range cells {
			view.Cells[k] = v
		}
	}
	if opt.CrossCheckAllFields && len(view.Fields) >= 2 {
		all := map[CellKey]float64{}
		loadFields(r, query, view.Fields, view, all)
		if len(all) != len(view.Cells) {
			view.LoadNotes = append(view.LoadNotes, fmt.Sprintf("all-field load returns %d cells, per-field loads %d", len(all), len(view.Cells)))
		} else {
			for k, v := range all {
				if w, ok := view.Cells[k]; !ok || math.Float64bits(w) != math.Float64bits(v) {
					view.LoadNotes = append(view.LoadNotes, fmt.Sprintf("all-field load differs at series=%d field=%d slot=%d: %v vs %v(present=%v)", k.Series, k.Field, k.Slot, v, w, ok))
					break
				}
			}
		}
	}
	return view, nil
}

// loadFields runs one query-path load (per high key of the query set) for the given query fields.
func loadFields(r metricsdata.MetricReader, query *roaring.Bitmap, fields field.Metas, view *BlockView, out map[CellKey]float64) {
	sctx := &flow.StorageExecuteContext{Fields: fields, Query: &stmt.Query{}}
	for hi, highKey := range query.GetHighKeys() {
		container := query.GetContainerAtIndex(hi)
		if container == nil || container.GetCardinality() == 0 {
			continue
		}
		ctx := &flow.DataLoadContext{
			ShardExecuteCtx:       &flow.ShardExecuteContext{StorageExecuteCtx: sctx, SeriesIDsAfterFiltering: query},
			SeriesIDHighKey:       highKey,
			LowSeriesIDsContainer: container,
			IsMultiField:          len(fields) > 1,
			Decoder:               encoding.GetTSDDecoder(),
		}
		hk := uint32(highKey) << 16
		ctx.DownSampling = func(slotRange timeutil.SlotRange, seriesIdx uint16, fieldIdx int, getter encoding.TSDValueGetter) {
			if fieldIdx < 0 || fieldIdx >= len(fields) {
				view.LoadNotes = append(view.LoadNotes, fmt.Sprintf("field index %d out of the query's %d fields", fieldIdx, len(fields)))
				return
			}
			if slotRange != view.Range {
				view.LoadNotes = append(view.LoadNotes, fmt.Sprintf("loader passes slot range %v, block header says %v", slotRange, view.Range))
			}
			sid := hk | uint32(ctx.MinSeriesID+seriesIdx)
			for s := int(slotRange.Start); s <= int(slotRange.End); s++ {
				v, ok := getter.GetValue(uint16(s))
				if !ok {
					continue
				}
				k := CellKey{Series: sid, Field: fields[fieldIdx].ID, Slot: uint16(s)}
				if _, dup := out[k]; dup {
					view.LoadNotes = append(view.LoadNotes, fmt.Sprintf("cell series=%d field=%d slot=%d emitted twice", k.Series, k.Field, k.Slot))
				}
				out[k] = v
			}
		}
		ctx.Grouping()
		if loader := r.Load(ctx); loader != nil {
			loader.Load(ctx)
		}
		encoding.ReleaseTSDDecoder(ctx.Decoder)
	}
}

// FileView describes one table of a family version.
type FileView struct {
	Number int64
	Level  int
	MinKey uint32
	MaxKey uint32
	Size   uint32
	Keys   []uint32 // keys found by iterating the table
}

// FamilyView is what a reader observes in a family through one snapshot.
type FamilyView struct {
	Files  []FileView              // ascending file number
	Blocks map[uint32][]*BlockView // metric -> one view per file that holds the key (ascending file number)
	Notes  []string                // anomalies of the kv layer (key found by iterator but not by Get, ...)
}

// NumFiles returns the number of files on a level.
func (fv *FamilyView) NumFiles(level int) (n int) {
	for _, f := range fv.Files {
		if f.Level == level {
			n++
		}
	}
	return n
}

// File returns the view of a file number.
func (fv *FamilyView) File(number int64) *FileView {
	for i := range fv.Files {
		if fv.Files[i].Number == number {
			return &fv.Files[i]
		}
	}
	return nil
}

// ReadFamily reads everything visible through the snapshot. Keys are discovered by iterating every table of
// every level (so a metric nobody wrote is discovered too); each block is then fetched the way the query path
// does it (version.FindFiles(key) -> snapshot.GetReader -> reader.Get(key)) and read with ReadBlock.
// queryOf, if not nil, returns the series set to query per metric (nil result = block's own bitmap).
func ReadFamily(snap version.Snapshot, opt Options, queryOf func(metric uint32) *roaring.Bitmap) (*FamilyView, error) {
	fv := &FamilyView{Blocks: map[uint32][]*BlockView{}}
	cur := snap.GetCurrent()
	levelOf := map[table.FileNumber]int{}
	keySet := map[uint32]struct{}{}
	iterKeys := map[table.FileNumber]map[uint32]int{}
	for lvl := 0; lvl < len(cur.Levels()); lvl++ {
		for _, fm := range cur.GetFiles(lvl) {
			levelOf[fm.GetFileNumber()] = lvl
			rd, err := snap.GetReader(fm.GetFileNumber())
			if err != nil {
				return nil, fmt.Errorf("open table %d: %w", fm.GetFileNumber(), err)
			}
			if rd == nil {
				return nil, fmt.Errorf("table %d: nil reader", fm.GetFileNumber())
			}
			f := FileView{Number: fm.GetFileNumber().Int64(), Level: lvl, MinKey: fm.GetMinKey(), MaxKey: fm.GetMaxKey(), Size: fm.GetFileSize()}
			iterKeys[fm.GetFileNumber()] = map[uint32]int{}
			it := rd.Iterator()
			for it.HasNext() {
				k := it.Key()
				val := it.Value()
				f.Keys = append(f.Keys, k)
				keySet[k] = struct{}{}
				iterKeys[fm.GetFileNumber()][k] = len(val)
			}
			fv.Files = append(fv.Files, f)
		}
	}
	sort.Slice(fv.Files, func(i, j int) bool { return fv.Files[i].Number < fv.Files[j].Number })
	keys := make([]uint32, 0, len(keySet))
	for k := range keySet {
		keys = append(keys, k)
	}
	sort.Slice(keys, func(i, j int) bool { return keys[i] < keys[j] })
	for _, key := range keys {
		found := map[table.FileNumber]bool{}
		for _, fm := range cur.FindFiles(key) {
			rd, err := snap.GetReader(fm.GetFileNumber())
			if err != nil || rd == nil {
				return nil, fmt.Errorf("open table %d: %v", fm.GetFileNumber(), err)
			}
			val, err := rd.Get(key)
			if err != nil {
				continue // key range covers the key, table does not hold it
			}
			found[fm.GetFileNumber()] = true
			if n, ok := iterKeys[fm.GetFileNumber()][key]; !ok || n != len(val) {
				fv.Notes = append(fv.Notes, fmt.Sprintf("table %d key %d: Get returns %d bytes, iterator %d (present=%v)", fm.GetFileNumber(), key, len(val), n, ok))
			}
			o := opt
			if queryOf != nil {
				o.Query = queryOf(key)
			}
			bv, err := ReadBlock(rd.Path(), val, o)
			if err != nil {
				return nil, fmt.Errorf("table %d key %d: %w", fm.GetFileNumber(), key, err)
			}
			bv.File, bv.Level, bv.Metric = fm.GetFileNumber().Int64(), levelOf[fm.GetFileNumber()], key
			fv.Blocks[key] = append(fv.Blocks[key], bv)
		}
		for fn, ks := range iterKeys {
			if _, ok := ks[key]; ok && !found[fn] {
				fv.Notes = append(fv.Notes, fmt.Sprintf("table %d holds key %d (iterator) but version.FindFiles/Get does not find it", fn, key))
			}
		}
		sort.Slice(fv.Blocks[key], func(i, j int) bool { return fv.Blocks[key][i].File < fv.Blocks[key][j].File })
	}
	return fv, nil
}
