package blocks

import (
	"math"
	"sort"

	"github.com/lindb/lindb/pkg/timeutil"
	"github.com/lindb/lindb/series/field"
)

// Cell addresses a cell of a family: (metric, series, field, slot).
type Cell struct {
	Metric uint32
	Series uint32
	Field  field.ID
	Slot   uint16
}

// Contribution is one flushed value of a cell. Seq is the sequence number of the flush (file) that wrote it.
type Contribution struct {
	Seq   int
	Value float64
}

// MetricField names a field of a metric.
type MetricField struct {
	Metric uint32
	Field  field.ID
}

// Ref is the naive reference of a family: every cell with every contribution ever flushed, the field types,
// the series ever named by a block (including series that carried no value) and the flushed slot ranges.
// It knows nothing about files, levels or compaction.
type Ref struct {
	Cells  map[Cell][]Contribution
	Types  map[MetricField]field.Type
	Series map[uint32]map[uint32]struct{}  // metric -> series ids named by some block
	Ranges map[uint32][]timeutil.SlotRange // metric -> range of every flushed block, in flush order
	Seqs   map[uint32][]int                // metric -> flush sequence numbers that wrote a block of the metric
}

// NewRef returns an empty reference.
func NewRef() *Ref {
	return &Ref{
		Cells: map[Cell][]Contribution{}, Types: map[MetricField]field.Type{},
		Series: map[uint32]map[uint32]struct{}{}, Ranges: map[uint32][]timeutil.SlotRange{}, Seqs: map[uint32][]int{},
	}
}

// Add records the blocks of flush number seq.
func (r *Ref) Add(seq int, blks []*Block) {
	for _, b := range blks {
		if r.Series[b.Metric] == nil {
			r.Series[b.Metric] = map[uint32]struct{}{}
		}
		r.Ranges[b.Metric] = append(r.Ranges[b.Metric], b.Range)
		r.Seqs[b.Metric] = append(r.Seqs[b.Metric], seq)
		for _, fm := range b.Fields {
			r.Types[MetricField{b.Metric, fm.ID}] = fm.Type
		}
		for si := range b.Series {
			s := &b.Series[si]
			r.Series[b.Metric][s.ID] = struct{}{}
			for fi, fd := range s.Fields {
				for slot, v := range fd {
					c := Cell{b.Metric, s.ID, b.Fields[fi].ID, slot}
					r.Cells[c] = append(r.Cells[c], Contribution{seq, v})
				}
			}
		}
	}
}

// Metrics returns the metric ids of the reference in ascending order.
func (r *Ref) Metrics() []uint32 {
	var ms []uint32
	for m := range r.Series {
		ms = append(ms, m)
	}
	sort.Slice(ms, func(i, j int) bool { return ms[i] < ms[j] })
	return ms
}

// Fields returns the field metas (id, type) ever flushed for a metric, ascending by id.
func (r *Ref) Fields(metric uint32) field.Metas {
	var ms field.Metas
	for mf, t := range r.Types {
		if mf.Metric == metric {
			ms = append(ms, field.Meta{ID: mf.Field, Type: t})
		}
	}
	sort.Slice(ms, func(i, j int) bool { return ms[i].ID < ms[j].ID })
	return ms
}

// Aggregate is the reference aggregation of the values contributed to one cell, written independently of
// lindb's field.AggType. exact=true (sum, histogram, min, max): the observable value must equal v.
// exact=false (first, last): the observable value must be ONE OF vals; v is the value in contribution
// order (first: vals[0], last: vals[len-1]) for reporting how often lindb agrees with flush order.
func Aggregate(t field.Type, vals []float64) (v float64, exact bool) {
	if len(vals) == 0 {
		return math.NaN(), true
	}
	switch t {
	case field.SumField, field.HistogramField:
		for _, x := range vals {
			v += x
		}
		return v, true
	case field.MinField:
		v = vals[0]
		for _, x := range vals[1:] {
			if x < v {
				v = x
			}
		}
		return v, true
	case field.MaxField:
		v = vals[0]
		for _, x := range vals[1:] {
			if x > v {
				v = x
			}
		}
		return v, true
	case field.FirstField:
		return vals[0], false
	case field.LastField:
		return vals[len(vals)-1], false
	default:
		return math.NaN(), true
	}
}

// Values returns the values of contributions.
func Values(cs []Contribution) []float64 {
	out := make([]float64, len(cs))
	for i, c := range cs {
		out[i] = c.Value
	}
	return out
}

// OneOf reports whether v is (bitwise) one of vals.
func OneOf(v float64, vals []float64) bool {
	for _, x := range vals {
		if math.Float64bits(x) == math.Float64bits(v) {
			return true
		}
	}
	return false
}

// UnionRange returns the smallest range covering all ranges.
func UnionRange(rs []timeutil.SlotRange) timeutil.SlotRange {
	u := rs[0]
	for _, r := range rs[1:] {
		if r.Start < u.Start {
			u.Start = r.Start
		}
		if r.End > u.End {
			u.End = r.End
		}
	}
	return u
}
