// Package kvtok gives kv values a checkable meaning: a value is a set of unique tokens
// ([n uint32][n tokens uint32][deterministic padding]) and the registered merger "verifTokenUnion"
// merges the values of one key into the union of their tokens. A key's logical content is therefore the
// union of the tokens of all its values, which flushes only grow and compaction must preserve.
package kvtok

import (
	"encoding/binary"
	"fmt"
	"sort"

	"github.com/lindb/lindb/kv"
)

// MergerName is the name the token-union merger is registered under.
const MergerName = "verifTokenUnion"

// Encode encodes a token set with pad bytes of deterministic padding.
func Encode(tokens []uint32, pad int) []byte {
	sort.Slice(tokens, func(i, j int) bool { return tokens[i] < tokens[j] })
	buf := make([]byte, 4+4*len(tokens)+pad)
	binary.LittleEndian.PutUint32(buf, uint32(len(tokens)))
	for i, t := range tokens {
		binary.LittleEndian.PutUint32(buf[4+4*i:], t)
	}
	for i := 4 + 4*len(tokens); i < len(buf); i++ {
		buf[i] = byte(i * 31)
	}
	return buf
}

// Decode decodes a value and verifies its padding.
func Decode(v []byte) ([]uint32, error) {
	if len(v) < 4 {
		return nil, fmt.Errorf("value too short (%d bytes)", len(v))
	}
	n := int(binary.LittleEndian.Uint32(v))
	if n < 0 || 4+4*n > len(v) {
		return nil, fmt.Errorf("value header says %d tokens but only %d bytes", n, len(v))
	}
	out := make([]uint32, n)
	for i := 0; i < n; i++ {
		out[i] = binary.LittleEndian.Uint32(v[4+4*i:])
	}
	for i := 4 + 4*n; i < len(v); i++ {
		if v[i] != byte(i*31) {
			return nil, fmt.Errorf("padding byte %d corrupted", i)
		}
	}
	return out, nil
}

type tokenMerger struct {
	flusher kv.Flusher
}

func (m *tokenMerger) Init(map[string]interface{}) {}

func (m *tokenMerger) Merge(key uint32, values [][]byte) error {
	set := map[uint32]struct{}{}
	pad := 0
	for _, v := range values {
		ts, err := Decode(v)
		if err != nil {
			return fmt.Errorf("merge key %d: %w", key, err)
		}
		for _, t := range ts {
			set[t] = struct{}{}
		}
		if p := len(v) - 4 - 4*len(ts); p > pad {
			pad = p
		}
	}
	ts := make([]uint32, 0, len(set))
	for t := range set {
		ts = append(ts, t)
	}
	return m.flusher.Add(key, Encode(ts, pad))
}

func init() {
	kv.RegisterMerger(MergerName, func(flusher kv.Flusher) (kv.Merger, error) {
		return &tokenMerger{flusher: flusher}, nil
	})
}
