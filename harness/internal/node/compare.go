package node

import (
	"fmt"
	"math"
	"sort"
	"strings"

	commonmodels "github.com/lindb/common/models"
)

// Diff is one difference between a ResultSet and the reference.
type Diff struct {
	// Kind: header | missing-series | unexpected-series | missing-item | unexpected-item | missing-point |
	// unexpected-point | wrong-value | arrival-order (value is one of the contributed ones but not the one the arrival
	// rule gives; only reported when CompareOptions.Arrival is set).
	Kind  string   `json:"kind"`
	Group string   `json:"group"`
	Item  string   `json:"item,omitempty"`
	TS    int64    `json:"ts,omitempty"`
	Got   *float64 `json:"got,omitempty"`
	Want  string   `json:"want,omitempty"`
	// Contributors of the expected value (how many (series, slot) cells were combined).
	Contributors int `json:"contributors,omitempty"`
}

func (d Diff) String() string {
	got := "-"
	if d.Got != nil {
		got = fmt.Sprintf("%v", *d.Got)
	}
	ts := ""
	if d.TS != 0 {
		ts = " @" + FormatTime(d.TS)
	}
	return fmt.Sprintf("%s group=%q item=%s%s got=%s want=%s", d.Kind, d.Group, d.Item, ts, got, d.Want)
}

// CompareOptions tunes Compare.
type CompareOptions struct {
	// Arrival also checks ExpValue.Arrival (the established last/first rule for a single cell).
	Arrival bool
	// RelTol is the relative tolerance for values (default 1e-9).
	RelTol float64
}

func closeTo(a, b, tol float64) bool {
	if a == b {
		return true
	}
	d := math.Abs(a - b)
	return d <= tol*math.Max(1, math.Max(math.Abs(a), math.Abs(b)))
}

func wantString(v *ExpValue) string {
	if v == nil {
		return "no value"
	}
	if v.Unknown {
		return "some value"
	}
	s := fmt.Sprintf("%v", v.Possible)
	if len(v.Possible) == 1 {
		s = fmt.Sprintf("%v", v.Possible[0])
	} else {
		s = "one of " + s
	}
	if v.Lenient {
		s += " or no value"
	}
	return s
}

// GroupKeyOf builds the group key of a result series from its tags in group-by order.
func GroupKeyOf(groupBy []string, tags map[string]string) string {
	vals := make([]string, len(groupBy))
	for i, k := range groupBy {
		vals[i] = tags[k]
	}
	return strings.Join(vals, ",")
}

// Compare checks a ResultSet against the reference: the same series (group-by tag values), the same items per series,
// the same bucket timestamps per item and allowed values; the header (start, end, interval) when the result has data.
// Series / items without any point are treated like absent ones on both sides.
func Compare(exp *Expected, rs *commonmodels.ResultSet, groupBy []string, opt CompareOptions) []Diff {
	tol := opt.RelTol
	if tol == 0 {
		tol = 1e-9
	}
	var diffs []Diff
	got := map[string]map[string]map[int64]float64{}
	if rs != nil {
		for _, s := range rs.Series {
			g := GroupKeyOf(groupBy, s.Tags)
			for item, pts := range s.Fields {
				if len(pts) == 0 {
					continue
				}
				if exp.ZeroFill[item] {
					onlyFill := true
					for ts, v := range pts {
						if v != 0 {
							onlyFill = false
							break
						}
						if es := exp.Series[g]; es != nil && es.Items[item] != nil && es.Items[item][ts] != nil {
							onlyFill = false
							break
						}
					}
					if onlyFill {
						continue
					}
				}
				if got[g] == nil {
					got[g] = map[string]map[int64]float64{}
				}
				if got[g][item] == nil {
					got[g][item] = map[int64]float64{}
				}
				for ts, v := range pts {
					if v == 0 && exp.ZeroFill[item] {
						if es := exp.Series[g]; es == nil || es.Items[item] == nil || es.Items[item][ts] == nil {
							continue // zero fill of a quantile item
						}
					}
					if prev, dup := got[g][item][ts]; dup && prev != v {
						pv := v
						diffs = append(diffs, Diff{Kind: "unexpected-series", Group: g, Item: item, TS: ts, Got: &pv, Want: "one series per group"})
					}
					got[g][item][ts] = v
				}
			}
		}
		if len(got) > 0 {
			if rs.StartTime != exp.Plan.Start || rs.EndTime != exp.Plan.End || rs.Interval != exp.Plan.IntervalMs {
				diffs = append(diffs, Diff{Kind: "header", Want: fmt.Sprintf("start=%d end=%d interval=%d, got start=%d end=%d interval=%d",
					exp.Plan.Start, exp.Plan.End, exp.Plan.IntervalMs, rs.StartTime, rs.EndTime, rs.Interval)})
			}
		}
	}
	groups := map[string]bool{}
	for g := range got {
		groups[g] = true
	}
	for g := range exp.Series {
		groups[g] = true
	}
	gs := make([]string, 0, len(groups))
	for g := range groups {
		gs = append(gs, g)
	}
	sort.Strings(gs)
	for _, g := range gs {
		es := exp.Series[g]
		gotItems := got[g]
		if es == nil {
			diffs = append(diffs, Diff{Kind: "unexpected-series", Group: g, Want: "no such series"})
			continue
		}
		required := false
		for _, pts := range es.Items {
			for _, v := range pts {
				if !v.Lenient {
					required = true
				}
			}
		}
		if gotItems == nil {
			if required {
				diffs = append(diffs, Diff{Kind: "missing-series", Group: g, Want: "series with data"})
			}
			continue
		}
		items := map[string]bool{}
		for it := range es.Items {
			items[it] = true
		}
		for it := range gotItems {
			items[it] = true
		}
		its := make([]string, 0, len(items))
		for it := range items {
			its = append(its, it)
		}
		sort.Strings(its)
		for _, it := range its {
			ep, gp := es.Items[it], gotItems[it]
			if ep == nil {
				diffs = append(diffs, Diff{Kind: "unexpected-item", Group: g, Item: it, Want: "no such item"})
				continue
			}
			if gp == nil {
				req := false
				for _, v := range ep {
					if !v.Lenient {
						req = true
					}
				}
				if req {
					diffs = append(diffs, Diff{Kind: "missing-item", Group: g, Item: it, Want: "item with data"})
				}
				continue
			}
			tss := map[int64]bool{}
			for ts := range ep {
				tss[ts] = true
			}
			for ts := range gp {
				tss[ts] = true
			}
			order := make([]int64, 0, len(tss))
			for ts := range tss {
				order = append(order, ts)
			}
			sort.Slice(order, func(i, j int) bool { return order[i] < order[j] })
			for _, ts := range order {
				ev := ep[ts]
				gv, has := gp[ts]
				switch {
				case ev == nil && has:
					v := gv
					diffs = append(diffs, Diff{Kind: "unexpected-point", Group: g, Item: it, TS: ts, Got: &v, Want: "no value"})
				case ev != nil && !has:
					if !ev.Lenient {
						diffs = append(diffs, Diff{Kind: "missing-point", Group: g, Item: it, TS: ts, Want: wantString(ev), Contributors: ev.Contributors})
					}
				case ev != nil && has:
					if ev.Unknown {
						continue
					}
					ok := false
					for _, p := range ev.Possible {
						if closeTo(p, gv, tol) {
							ok = true
							break
						}
					}
					v := gv
					if !ok {
						diffs = append(diffs, Diff{Kind: "wrong-value", Group: g, Item: it, TS: ts, Got: &v, Want: wantString(ev), Contributors: ev.Contributors})
					} else if opt.Arrival && ev.Arrival != nil && !closeTo(*ev.Arrival, gv, tol) {
						diffs = append(diffs, Diff{Kind: "arrival-order", Group: g, Item: it, TS: ts, Got: &v,
							Want: fmt.Sprintf("%v (arrival rule; contributed %v)", *ev.Arrival, ev.Possible), Contributors: ev.Contributors})
					}
				}
			}
		}
	}
	return diffs
}

// Canonical renders a ResultSet in a canonical textual form (sorted), for metamorphic comparisons of two results.
func Canonical(rs *commonmodels.ResultSet, groupBy []string) string {
	if rs == nil {
		return "<nil>"
	}
	var lines []string
	for _, s := range rs.Series {
		g := GroupKeyOf(groupBy, s.Tags)
		for item, pts := range s.Fields {
			for ts, v := range pts {
				lines = append(lines, fmt.Sprintf("%s|%s|%d|%.12g", g, item, ts, v))
			}
		}
	}
	sort.Strings(lines)
	if len(lines) == 0 {
		return "<empty>"
	}
	return fmt.Sprintf("start=%d end=%d interval=%d\n%s", rs.StartTime, rs.EndTime, rs.Interval, strings.Join(lines, "\n"))
}
