package node

import (
	"sort"

	"github.com/lindb/lindb/tsdb"
	"github.com/lindb/lindb/tsdb/tblstore/metricsdata"
)

// BlockInfo describes the block of one metric inside one table file of a data family.
type BlockInfo struct {
	File      string   `json:"file"`
	Fields    []string `json:"fields"` // field names carried by the block (field metas of the block, in block order)
	FieldIDs  []int    `json:"field_ids"`
	SlotStart int      `json:"slot_start"`
	SlotEnd   int      `json:"slot_end"`
	Series    int      `json:"series"`
}

// FileBlocks reads, through the family's current kv snapshot and the real metricsdata reader, which table files of the
// data family hold a block of the metric and which fields / slot range / series count each block carries. It is an
// observation of the on-disk state (used for coverage counters and for classifying a mismatch), not an oracle.
func (n *Node) FileBlocks(f tsdb.DataFamily, ns, metricName string) ([]BlockInfo, error) {
	if ns == "" {
		ns = DefaultNamespace
	}
	metricID, err := n.DB.MetaDB().GetMetricID(ns, metricName)
	if err != nil {
		return nil, err
	}
	schema, err := n.DB.MetaDB().GetSchema(metricID)
	if err != nil {
		return nil, err
	}
	names := map[int]string{}
	if schema != nil {
		for _, fm := range schema.Fields {
			names[int(fm.ID)] = string(fm.Name)
		}
	}
	snap := f.Family().GetSnapshot()
	defer snap.Close()
	readers, err := snap.FindReaders(uint32(metricID))
	if err != nil {
		return nil, err
	}
	var rs []BlockInfo
	for _, r := range readers {
		value, err := r.Get(uint32(metricID))
		if err != nil {
			continue
		}
		mr, err := metricsdata.NewReader(r.Path(), value)
		if err != nil {
			return rs, err
		}
		bi := BlockInfo{File: r.FileName(), SlotStart: int(mr.GetTimeRange().Start), SlotEnd: int(mr.GetTimeRange().End),
			Series: int(mr.GetSeriesIDs().GetCardinality())}
		for _, fm := range mr.GetFields() {
			bi.FieldIDs = append(bi.FieldIDs, int(fm.ID))
			bi.Fields = append(bi.Fields, names[int(fm.ID)])
		}
		rs = append(rs, bi)
	}
	return rs, nil
}

// FieldIDs returns field name -> field id of a metric as the metadata database knows them.
func (n *Node) FieldIDs(ns, metricName string) (map[string]int, error) {
	if ns == "" {
		ns = DefaultNamespace
	}
	metricID, err := n.DB.MetaDB().GetMetricID(ns, metricName)
	if err != nil {
		return nil, err
	}
	schema, err := n.DB.MetaDB().GetSchema(metricID)
	if err != nil || schema == nil {
		return nil, err
	}
	rs := map[string]int{}
	for _, fm := range schema.Fields {
		rs[string(fm.Name)] = int(fm.ID)
	}
	return rs, nil
}

// SchemaOf returns the field ids and the tag keys the metadata database resolves for a metric right now.
func (n *Node) SchemaOf(ns, metricName string) (fields map[string]int, tagKeys []string, err error) {
	if ns == "" {
		ns = DefaultNamespace
	}
	metricID, err := n.DB.MetaDB().GetMetricID(ns, metricName)
	if err != nil {
		return nil, nil, err
	}
	schema, err := n.DB.MetaDB().GetSchema(metricID)
	if err != nil || schema == nil {
		return nil, nil, err
	}
	fields = map[string]int{}
	for _, fm := range schema.Fields {
		fields[string(fm.Name)] = int(fm.ID)
	}
	for _, t := range schema.TagKeys {
		tagKeys = append(tagKeys, t.Key)
	}
	return fields, tagKeys, nil
}

// Metrics returns the (namespace, metric) pairs the model has seen.
func (m *Model) Metrics() [][2]string {
	var rs [][2]string
	for k := range m.kinds {
		i := 0
		for i < len(k) && k[i] != '|' {
			i++
		}
		rs = append(rs, [2]string{k[:i], k[i+1:]})
	}
	return rs
}

// TagKeys returns the tag keys used by the series of a metric in the model.
func (m *Model) TagKeys(ns, metricName string) []string {
	if ns == "" {
		ns = DefaultNamespace
	}
	set := map[string]bool{}
	for _, s := range m.series {
		if s.ns == ns && s.metric == metricName {
			for k := range s.tags {
				set[k] = true
			}
		}
	}
	var rs []string
	for k := range set {
		rs = append(rs, k)
	}
	return rs
}

// SeriesTags returns the tag sets of the series of a metric the model has seen (sorted by series key).
func (m *Model) SeriesTags(ns, metricName string) []map[string]string {
	if ns == "" {
		ns = DefaultNamespace
	}
	var keys []string
	for k, s := range m.series {
		if s.ns == ns && s.metric == metricName {
			keys = append(keys, k)
		}
	}
	sort.Strings(keys)
	var rs []map[string]string
	for _, k := range keys {
		rs = append(rs, m.series[k].tags)
	}
	return rs
}
