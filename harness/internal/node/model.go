package node

import (
	"fmt"
	"math"
	"regexp"
	"sort"
	"strconv"
	"strings"
	"time"
)

// ---------------------------------------------------------------------------------------------
// query description (independent of lindb's parser: the model never sees a parsed statement)

// Expr is a select expression.
type Expr interface{ SQL() string }

// FieldRef selects a field with the default function of its type.
type FieldRef struct{ Name string }

// Call applies a function (sum|min|max|last|first|count|avg|rate) to a field.
type Call struct {
	Func string
	Arg  Expr
}

// Quantile is quantile(q) over the histogram buckets of the metric.
type Quantile struct{ Q float64 }

// Binary is an arithmetic expression (+ - * /).
type Binary struct {
	Op   byte
	L, R Expr
}

// Number is a numeric literal.
type Number struct{ V float64 }

// Paren is a parenthesised expression.
type Paren struct{ E Expr }

func (e FieldRef) SQL() string { return e.Name }
func (e Call) SQL() string     { return e.Func + "(" + e.Arg.SQL() + ")" }
func (e Quantile) SQL() string { return "quantile(" + strconv.FormatFloat(e.Q, 'f', -1, 64) + ")" }
func (e Binary) SQL() string   { return e.L.SQL() + " " + string(e.Op) + " " + e.R.SQL() }
func (e Number) SQL() string   { return strconv.FormatFloat(e.V, 'f', -1, 64) }
func (e Paren) SQL() string    { return "(" + e.E.SQL() + ")" }

// SelectItem is one item of the select list; results are keyed by Alias (or by the field name for a bare FieldRef
// without alias).
type SelectItem struct {
	Expr  Expr
	Alias string
}

// Key returns the name under which the item appears in a ResultSet.
func (s SelectItem) Key() string {
	if s.Alias != "" {
		return s.Alias
	}
	return s.Expr.SQL()
}

// Cond is a tag predicate.
type Cond interface {
	Match(tags map[string]string) bool
	SQL() string
}

// TagCmp is an atom `key op value(s)`; Op is one of = != in notin like notlike =~ !~.
// Semantics (those of lindb's tag filters): a negated atom selects series that have the key and do not match; like
// understands * only as first and/or last character; =~ is an unanchored Go regular expression search.
type TagCmp struct {
	Key    string
	Op     string
	Values []string
}

// And / Or combine predicates.
type And struct{ L, R Cond }
type Or struct{ L, R Cond }

func likeMatch(pattern, v string) bool {
	switch {
	case pattern == "*" || pattern == "":
		return pattern == "*" || v == ""
	case len(pattern) >= 2 && strings.HasPrefix(pattern, "*") && strings.HasSuffix(pattern, "*"):
		return strings.Contains(v, pattern[1:len(pattern)-1])
	case strings.HasPrefix(pattern, "*"):
		return strings.HasSuffix(v, pattern[1:])
	case strings.HasSuffix(pattern, "*"):
		return strings.HasPrefix(v, pattern[:len(pattern)-1])
	default:
		return v == pattern
	}
}

// Match implements Cond.
func (c TagCmp) Match(tags map[string]string) bool {
	v, ok := tags[c.Key]
	if !ok {
		return false
	}
	in := func() bool {
		for _, x := range c.Values {
			if x == v {
				return true
			}
		}
		return false
	}
	switch c.Op {
	case "=":
		return v == c.Values[0]
	case "!=":
		return v != c.Values[0]
	case "in":
		return in()
	case "notin":
		return !in()
	case "like":
		return likeMatch(c.Values[0], v)
	case "notlike":
		return !likeMatch(c.Values[0], v)
	case "=~":
		re, err := regexp.Compile(c.Values[0])
		return err == nil && re.MatchString(v)
	case "!~":
		re, err := regexp.Compile(c.Values[0])
		return err == nil && !re.MatchString(v)
	}
	return false
}

func quote(s string) string { return "'" + strings.ReplaceAll(s, "'", "\\'") + "'" }

// SQL implements Cond.
func (c TagCmp) SQL() string {
	switch c.Op {
	case "in", "notin":
		vs := make([]string, len(c.Values))
		for i, v := range c.Values {
			vs[i] = quote(v)
		}
		op := "in"
		if c.Op == "notin" {
			op = "not in"
		}
		return fmt.Sprintf("%s %s (%s)", c.Key, op, strings.Join(vs, ","))
	case "notlike":
		return fmt.Sprintf("%s not like %s", c.Key, quote(c.Values[0]))
	default:
		return fmt.Sprintf("%s %s %s", c.Key, c.Op, quote(c.Values[0]))
	}
}

func (c And) Match(t map[string]string) bool { return c.L.Match(t) && c.R.Match(t) }
func (c Or) Match(t map[string]string) bool  { return c.L.Match(t) || c.R.Match(t) }
func (c And) SQL() string                    { return "(" + c.L.SQL() + " and " + c.R.SQL() + ")" }
func (c Or) SQL() string                     { return "(" + c.L.SQL() + " or " + c.R.SQL() + ")" }

// Query is a metric data query as the model understands it; SQL() renders the text sent to lindb.
type Query struct {
	Namespace  string // "" = default namespace
	Metric     string
	Items      []SelectItem
	Start, End int64 // absolute, milliseconds, second granularity (the SQL literal has seconds)
	IntervalMs int64 // group by time(...); 0 = not given
	Cond       Cond
	GroupBy    []string
	Limit      int // series limit (lindb's default is 20); 0 = 100000
}

// FormatTime renders a timestamp the way lindb's SQL parses it (time.Local, which the harness pins to UTC).
func FormatTime(ms int64) string {
	return time.UnixMilli(ms).In(time.UTC).Format("2006-01-02 15:04:05")
}

// SQL renders the query.
func (q *Query) SQL() string {
	var b strings.Builder
	b.WriteString("select ")
	for i, it := range q.Items {
		if i > 0 {
			b.WriteString(", ")
		}
		b.WriteString(it.Expr.SQL())
		if it.Alias != "" {
			b.WriteString(" as " + it.Alias)
		}
	}
	b.WriteString(" from " + quote(q.Metric))
	if q.Namespace != "" {
		b.WriteString(" on " + quote(q.Namespace))
	}
	b.WriteString(" where ")
	if q.Cond != nil {
		b.WriteString(q.Cond.SQL() + " and ")
	}
	b.WriteString("time >= " + quote(FormatTime(q.Start)) + " and time <= " + quote(FormatTime(q.End)))
	var gb []string
	gb = append(gb, q.GroupBy...)
	if q.IntervalMs > 0 {
		gb = append(gb, fmt.Sprintf("time(%ds)", q.IntervalMs/1000))
	}
	if len(gb) > 0 {
		b.WriteString(" group by " + strings.Join(gb, ","))
	}
	limit := q.Limit
	if limit == 0 {
		limit = 100000
	}
	b.WriteString(fmt.Sprintf(" limit %d", limit))
	return b.String()
}

// ---------------------------------------------------------------------------------------------
// the model

// kind of a stored field in the model: the five simple types plus histogram bucket counts (summed).
type fieldKind int

const (
	kSum fieldKind = iota + 1
	kMin
	kMax
	kLast
	kFirst
	kHistogram
)

func kindOf(t FieldType) fieldKind {
	switch t {
	case Sum:
		return kSum
	case Min:
		return kMin
	case Max:
		return kMax
	case Last:
		return kLast
	case First:
		return kFirst
	}
	return 0
}

func (k fieldKind) String() string {
	return [...]string{"?", "sum", "min", "max", "last", "first", "histogram"}[k]
}

type contribution struct {
	batch int // index of the Write call (arrival order between calls; order inside one call is unspecified)
	value float64
}

type cellKey struct {
	series string
	slot   int64
	field  string
}

type seriesInfo struct {
	ns, metric string
	tags       map[string]string
}

// Model stores every written point.
type Model struct {
	IntervalsMs []int64 // storage intervals of the database, ascending
	batches     int
	series      map[string]*seriesInfo
	kinds       map[string]map[string]fieldKind // ns|metric -> field -> kind
	bounds      map[string]map[float64]bool     // ns|metric -> histogram upper bounds seen (incl. +Inf)
	points      []mpoint
}

type mpoint struct {
	series string
	ts     int64
	batch  int
	fields []mfield
}

type mfield struct {
	name  string
	kind  fieldKind
	value float64
}

// NewModel creates a model for a database with the given storage intervals (milliseconds).
func NewModel(intervalsMs ...int64) *Model {
	if len(intervalsMs) == 0 {
		intervalsMs = []int64{10_000}
	}
	iv := append([]int64(nil), intervalsMs...)
	sort.Slice(iv, func(i, j int) bool { return iv[i] < iv[j] })
	return &Model{IntervalsMs: iv, series: map[string]*seriesInfo{}, kinds: map[string]map[string]fieldKind{},
		bounds: map[string]map[float64]bool{}}
}

// BucketFieldName is the name lindb gives to the bucket field of an upper bound.
func BucketFieldName(upper float64) string {
	if math.IsInf(upper, 1) {
		return "__bucket_+Inf"
	}
	return "__bucket_" + strconv.FormatFloat(upper, 'f', -1, 32)
}

// Add records the points of one Write call (in the order of the calls).
func (m *Model) Add(points []Point) {
	batch := m.batches
	m.batches++
	for i := range points {
		p := &points[i]
		sk := p.SeriesKey()
		if _, ok := m.series[sk]; !ok {
			tags := map[string]string{}
			for k, v := range p.Tags {
				tags[k] = v
			}
			m.series[sk] = &seriesInfo{ns: p.NS(), metric: p.Metric, tags: tags}
		}
		mk := p.NS() + "|" + p.Metric
		if m.kinds[mk] == nil {
			m.kinds[mk] = map[string]fieldKind{}
			m.bounds[mk] = map[float64]bool{}
		}
		mp := mpoint{series: sk, ts: p.Timestamp, batch: batch}
		add := func(name string, k fieldKind, v float64) {
			m.kinds[mk][name] = k
			mp.fields = append(mp.fields, mfield{name, k, v})
		}
		for _, f := range p.Fields {
			add(f.Name, kindOf(f.Type), f.Value)
		}
		if h := p.Histogram; h != nil {
			add("HistogramMin", kMin, h.Min)
			add("HistogramMax", kMax, h.Max)
			add("HistogramSum", kSum, h.Sum)
			add("HistogramCount", kSum, h.Count)
			for i, c := range h.Counts {
				if c <= 0 {
					continue // lindb does not store empty buckets
				}
				ub := math.Inf(1)
				if i < len(h.Bounds) {
					ub = h.Bounds[i]
				}
				m.bounds[mk][ub] = true
				add(BucketFieldName(ub), kHistogram, c)
			}
		}
		m.points = append(m.points, mp)
	}
}

// Points returns the number of stored points.
func (m *Model) Points() int { return len(m.points) }

// FieldKinds returns field name -> type name of a metric (including the fields a histogram is stored as).
func (m *Model) FieldKinds(ns, metric string) map[string]string {
	if ns == "" {
		ns = DefaultNamespace
	}
	rs := map[string]string{}
	for f, k := range m.kinds[ns+"|"+metric] {
		rs[f] = k.String()
	}
	return rs
}

// Supported reports whether lindb's language defines fn for a field of the given type name (series/field/type.go
// IsFuncSupported): sum: sum,min,max,rate; min: min; max: max; last: sum,min,max,last; first: sum,min,max,first.
func Supported(kind, fn string) bool {
	switch kind {
	case "sum":
		return fn == "sum" || fn == "min" || fn == "max" || fn == "rate"
	case "min":
		return fn == "min"
	case "max":
		return fn == "max"
	case "last":
		return fn == "sum" || fn == "min" || fn == "max" || fn == "last"
	case "first":
		return fn == "sum" || fn == "min" || fn == "max" || fn == "first"
	case "histogram":
		return fn == "sum"
	}
	return false
}

// aggregate type used for (field kind, function): what a function call reads from a field.
type aggType int

const (
	aSum aggType = iota + 1
	aMin
	aMax
	aLast
	aFirst
)

func defaultAgg(k fieldKind) aggType {
	switch k {
	case kSum, kHistogram:
		return aSum
	case kMin:
		return aMin
	case kMax:
		return aMax
	case kLast:
		return aLast
	case kFirst:
		return aFirst
	}
	return 0
}

// aggFor: series/field/type.go GetFuncFieldParams.
func aggFor(k fieldKind, fn string) aggType {
	switch k {
	case kSum:
		switch fn {
		case "max":
			return aMax
		case "min":
			return aMin
		}
		return aSum
	case kMax:
		if fn == "min" {
			return aMin
		}
		return aMax
	case kMin:
		if fn == "max" {
			return aMax
		}
		return aMin
	case kFirst, kLast:
		switch fn {
		case "max":
			return aMax
		case "min":
			return aMin
		case "sum":
			return aSum
		}
		return defaultAgg(k)
	case kHistogram:
		return aSum
	}
	return 0
}

// Plan is the time plan of a query: what lindb's language defines for range and interval.
type Plan struct {
	Start, End      int64 // truncated to the storage interval, both inclusive
	IntervalMs      int64 // bucket width
	StorageInterval int64
	Ratio           int64
	PointCount      int // buckets 0..PointCount-1 exist in expression evaluation
}

func calcQueryInterval(diff, interval int64) int64 {
	const (
		sec  = int64(1000)
		min  = 60 * sec
		hour = 60 * min
		day  = 24 * hour
	)
	switch {
	case diff < hour:
		return interval
	case diff < 3*hour:
		return 10 * sec
	case diff < 6*hour:
		return 30 * sec
	case diff < 12*hour:
		return min
	case diff < day:
		return 2 * min
	case diff < 2*day:
		return 5 * min
	case diff < 7*day:
		return 10 * min
	case diff < 30*day:
		return hour
	case diff < 60*day:
		return 4 * hour
	case diff < 90*day:
		return 12 * hour
	}
	return day
}

// PlanOf computes range and interval: no interval given -> the smallest storage interval; long ranges raise the base
// interval (1h..3h: 10s, 3h..6h: 30s, ...); the storage interval is the largest one not above the query interval;
// start and end are truncated to the storage interval; a given interval wins when larger and is rounded down to a
// multiple of the storage interval.
func (m *Model) PlanOf(q *Query) Plan {
	interval := q.IntervalMs
	if interval <= 0 {
		interval = m.IntervalsMs[0]
	}
	interval = calcQueryInterval(q.End-q.Start, interval)
	si := m.IntervalsMs[0]
	for _, s := range m.IntervalsMs {
		if interval >= s {
			si = s
		}
	}
	p := Plan{StorageInterval: si}
	p.Start = q.Start / si * si
	p.End = q.End / si * si
	if interval < q.IntervalMs {
		interval = q.IntervalMs
	}
	ratio := int64(1)
	if interval >= si {
		ratio = interval / si
	}
	p.Ratio = ratio
	p.IntervalMs = si * ratio
	diff := p.End - p.Start
	pc := diff / p.IntervalMs
	if diff%p.IntervalMs > 0 {
		pc++
	}
	if pc == 0 {
		pc = 1
	}
	p.PointCount = int(pc) + 1
	return p
}

// ExpValue is what the reference allows at one (group, item, bucket).
type ExpValue struct {
	// Possible values. One entry = exact. Several entries: a first/last combination met several contributors and the
	// reference is "one of the values that can result from the contributed values".
	Possible []float64
	// Lenient: the value may also be absent (binary expression with one operand missing in that bucket; quantile of
	// a bucket without observations is 0 or absent).
	Lenient bool
	// Unknown: too many combinations to enumerate; only presence is checked.
	Unknown bool
	// Arrival, when set, is the value under the rule "the point that arrived in a later Write call replaces/keeps",
	// established only for buckets fed by exactly one (series, storage slot): last = value of the latest call,
	// first = value of the earliest call.
	Arrival *float64
	// Contributors is the number of (series, storage slot) cells behind the value (0 for literals).
	Contributors int
}

// ExpSeries is one expected result series.
type ExpSeries struct {
	Tags  map[string]string
	Items map[string]map[int64]*ExpValue // item key -> bucket timestamp -> expectation
}

// Expected is the reference result of a query.
type Expected struct {
	Plan   Plan
	Series map[string]*ExpSeries // key: group-by tag values joined by "," (empty string without group by)
	// ErrorExpected: the language rejects the query (unknown field, function not defined for the field type, ...).
	ErrorExpected string
	// ZeroFill lists the items that contain a quantile: lindb fills every bucket of such an item with 0 where the
	// histogram has no observations - also for groups whose series have no data in the range at all. A 0 the
	// reference does not expect is accepted for these items.
	ZeroFill map[string]bool
	// Stats for coverage
	Cells, MultiContributorBuckets, LenientValues, UnknownValues int
}

// Empty reports whether the reference expects no data at all.
func (e *Expected) Empty() bool {
	for _, s := range e.Series {
		for _, it := range s.Items {
			for _, v := range it {
				if !v.Lenient {
					return false
				}
			}
		}
	}
	return true
}

const maxPossible = 128

type valset struct {
	vals    []float64 // distinct, sorted
	unknown bool
}

func single(v float64) valset { return valset{vals: []float64{v}} }

func (s valset) norm() valset {
	if s.unknown {
		return valset{unknown: true}
	}
	sort.Float64s(s.vals)
	out := s.vals[:0]
	for i, v := range s.vals {
		if i == 0 || v != s.vals[i-1] {
			out = append(out, v)
		}
	}
	if len(out) > maxPossible {
		return valset{unknown: true}
	}
	return valset{vals: out}
}

func combine(a, b valset, f func(x, y float64) float64) valset {
	if a.unknown || b.unknown {
		return valset{unknown: true}
	}
	if len(a.vals)*len(b.vals) > maxPossible*8 {
		return valset{unknown: true}
	}
	out := make([]float64, 0, len(a.vals)*len(b.vals))
	for _, x := range a.vals {
		for _, y := range b.vals {
			out = append(out, f(x, y))
		}
	}
	return valset{vals: out}.norm()
}

func union(a, b valset) valset {
	if a.unknown || b.unknown {
		return valset{unknown: true}
	}
	return valset{vals: append(append([]float64(nil), a.vals...), b.vals...)}.norm()
}

// bucketVal is the aggregate of one (group, field, aggType, bucket).
type bucketVal struct {
	set     valset
	cells   int
	arrival *float64
}

type arr map[int64]*bucketVal // bucket index -> value

type exprVal struct {
	vals   map[int64]*ExpValue // bucket index -> value
	single bool                // numeric literal
}

// Eval computes the reference result.
func (m *Model) Eval(q *Query) *Expected {
	plan := m.PlanOf(q)
	exp := &Expected{Plan: plan, Series: map[string]*ExpSeries{}, ZeroFill: map[string]bool{}}
	for _, it := range q.Items {
		if hasQuantile(it.Expr) {
			exp.ZeroFill[it.Key()] = true
		}
	}
	ns := q.Namespace
	if ns == "" {
		ns = DefaultNamespace
	}
	mk := ns + "|" + q.Metric
	kinds := m.kinds[mk]
	if kinds == nil {
		exp.ErrorExpected = "metric not found"
		return exp
	}
	// which (field, aggType) arrays are needed; language checks
	type need struct {
		field string
		agg   aggType
	}
	needs := map[need]bool{}
	var checkExpr func(e Expr, parent string)
	checkExpr = func(e Expr, parent string) {
		if exp.ErrorExpected != "" {
			return
		}
		switch x := e.(type) {
		case FieldRef:
			k, ok := kinds[x.Name]
			if !ok {
				exp.ErrorExpected = "field not found: " + x.Name
				return
			}
			if parent == "" {
				needs[need{x.Name, defaultAgg(k)}] = true
				return
			}
			if !Supported(k.String(), parent) {
				exp.ErrorExpected = fmt.Sprintf("field type %s does not support %s", k, parent)
				return
			}
			needs[need{x.Name, aggFor(k, parent)}] = true
		case Call:
			checkExpr(x.Arg, x.Func)
		case Quantile:
			if x.Q <= 0 || x.Q >= 1 {
				exp.ErrorExpected = "quantile parameter out of (0,1)"
				return
			}
			any := false
			for ub := range m.bounds[mk] {
				needs[need{BucketFieldName(ub), aSum}] = true
				any = true
			}
			if !any {
				// no histogram fields: nothing is planned for this item
				return
			}
		case Binary:
			checkExpr(x.L, "")
			checkExpr(x.R, "")
		case Paren:
			checkExpr(x.E, "")
		case Number:
		}
	}
	for _, it := range q.Items {
		checkExpr(it.Expr, "")
	}
	if exp.ErrorExpected != "" {
		return exp
	}
	if len(needs) == 0 {
		exp.ErrorExpected = "no field planned"
		return exp
	}

	// cells: (series, slot, field) -> contributions in arrival order
	si := plan.StorageInterval
	cells := map[cellKey][]contribution{}
	groupOf := map[string]string{} // series -> group key ("\x00" = excluded)
	for i := range m.points {
		p := &m.points[i]
		info := m.series[p.series]
		if info.ns != ns || info.metric != q.Metric {
			continue
		}
		g, ok := groupOf[p.series]
		if !ok {
			g = "\x00"
			if q.Cond == nil || q.Cond.Match(info.tags) {
				vals := make([]string, 0, len(q.GroupBy))
				has := true
				for _, k := range q.GroupBy {
					v, ok := info.tags[k]
					if !ok {
						has = false
						break
					}
					vals = append(vals, v)
				}
				if has {
					g = strings.Join(vals, ",")
					if _, ok := exp.Series[g]; !ok {
						tags := map[string]string{}
						for i, k := range q.GroupBy {
							tags[k] = vals[i]
						}
						exp.Series[g] = &ExpSeries{Tags: tags, Items: map[string]map[int64]*ExpValue{}}
					}
				}
			}
			groupOf[p.series] = g
		}
		if g == "\x00" {
			continue
		}
		slot := p.ts / si * si
		if slot < plan.Start || slot > plan.End {
			continue
		}
		for _, f := range p.fields {
			ck := cellKey{p.series, slot, f.name}
			cells[ck] = append(cells[ck], contribution{p.batch, f.value})
		}
	}
	exp.Cells = len(cells)

	// stored value of a cell: combine by field type
	type stored struct {
		set     valset
		arrival float64
	}
	storedOf := func(k fieldKind, cs []contribution) stored {
		switch k {
		case kSum, kHistogram:
			s := 0.0
			for _, c := range cs {
				s += c.value
			}
			return stored{single(s), s}
		case kMin:
			s := math.Inf(1)
			for _, c := range cs {
				s = math.Min(s, c.value)
			}
			return stored{single(s), s}
		case kMax:
			s := math.Inf(-1)
			for _, c := range cs {
				s = math.Max(s, c.value)
			}
			return stored{single(s), s}
		default: // last / first: any contributed value; arrival rule: latest / earliest Write call
			var vs []float64
			for _, c := range cs {
				vs = append(vs, c.value)
			}
			arr := cs[0]
			for _, c := range cs[1:] {
				if (k == kLast && c.batch >= arr.batch) || (k == kFirst && c.batch < arr.batch) {
					arr = c
				}
			}
			// two contributions of one call have no defined order: the arrival value is then not established
			a := arr.value
			for _, c := range cs {
				if c.batch == arr.batch && c.value != arr.value {
					a = math.NaN()
				}
			}
			return stored{valset{vals: vs}.norm(), a}
		}
	}

	// arrays per group
	arrays := map[string]map[need]arr{}
	for ck, cs := range cells {
		k := kinds[ck.field]
		g := groupOf[ck.series]
		for nd := range needs {
			if nd.field != ck.field {
				continue
			}
			if arrays[g] == nil {
				arrays[g] = map[need]arr{}
			}
			a := arrays[g][nd]
			if a == nil {
				a = arr{}
				arrays[g][nd] = a
			}
			st := storedOf(k, cs)
			bucket := (ck.slot - plan.Start) / plan.IntervalMs
			bv := a[bucket]
			if bv == nil {
				av := st.arrival
				bv = &bucketVal{set: st.set, cells: 1}
				if !math.IsNaN(av) {
					bv.arrival = &av
				}
				a[bucket] = bv
				continue
			}
			bv.cells++
			bv.arrival = nil
			switch nd.agg {
			case aSum:
				bv.set = combine(bv.set, st.set, func(x, y float64) float64 { return x + y })
			case aMin:
				bv.set = combine(bv.set, st.set, math.Min)
			case aMax:
				bv.set = combine(bv.set, st.set, math.Max)
			default:
				bv.set = union(bv.set, st.set)
			}
		}
	}

	mkVal := func(bv *bucketVal) *ExpValue {
		v := &ExpValue{Contributors: bv.cells}
		if bv.set.unknown {
			v.Unknown = true
		} else {
			v.Possible = append([]float64(nil), bv.set.vals...)
		}
		if bv.arrival != nil && len(v.Possible) > 1 {
			a := *bv.arrival
			v.Arrival = &a
		}
		return v
	}

	var eval func(g string, e Expr, parent string) *exprVal
	eval = func(g string, e Expr, parent string) *exprVal {
		switch x := e.(type) {
		case FieldRef:
			k := kinds[x.Name]
			ag := defaultAgg(k)
			if parent != "" {
				ag = aggFor(k, parent)
			}
			a := arrays[g][need{x.Name, ag}]
			if len(a) == 0 {
				return nil
			}
			out := &exprVal{vals: map[int64]*ExpValue{}}
			for b, bv := range a {
				out.vals[b] = mkVal(bv)
			}
			return out
		case Call:
			in := eval(g, x.Arg, x.Func)
			if in == nil {
				return nil
			}
			switch x.Func {
			case "rate":
				out := &exprVal{vals: map[int64]*ExpValue{}}
				secs := float64(plan.IntervalMs / 1000)
				for b, v := range in.vals {
					nv := *v
					nv.Arrival = nil
					if v.Arrival != nil {
						a := *v.Arrival / secs
						nv.Arrival = &a
					}
					nv.Possible = nil
					for _, p := range v.Possible {
						nv.Possible = append(nv.Possible, p/secs)
					}
					out.vals[b] = &nv
				}
				return out
			case "avg":
				return nil // avg needs two inputs (sum, count) which no field type provides: evaluates to nothing
			default:
				return in
			}
		case Paren:
			return eval(g, x.E, "")
		case Number:
			out := &exprVal{vals: map[int64]*ExpValue{}, single: true}
			for b := 0; b < plan.PointCount; b++ {
				out.vals[int64(b)] = &ExpValue{Possible: []float64{x.V}}
			}
			return out
		case Quantile:
			return m.evalQuantile(mk, g, x.Q, plan, func(ub float64) arr {
				return arrays[g][need{BucketFieldName(ub), aSum}]
			})
		case Binary:
			l := eval(g, x.L, "")
			r := eval(g, x.R, "")
			if l == nil && r == nil {
				return nil
			}
			// an operand without any data in the group: lindb either drops the item or evaluates with the missing
			// operand as 0, depending on whether the leaf sent an (empty) series for the field; both are accepted
			// (every value below is marked lenient because one operand is missing in each bucket)
			if l == nil {
				l = &exprVal{vals: map[int64]*ExpValue{}}
			}
			if r == nil {
				r = &exprVal{vals: map[int64]*ExpValue{}}
			}
			if len(l.vals) == 0 && len(r.vals) == 0 {
				return nil
			}
			op := func(a, b float64) float64 {
				switch x.Op {
				case '+':
					return a + b
				case '-':
					return a - b
				case '*':
					return a * b
				case '/':
					if b == 0 {
						return 0
					}
					return a / b
				}
				return 0
			}
			out := &exprVal{vals: map[int64]*ExpValue{}}
			for b := int64(0); b < int64(plan.PointCount); b++ {
				lv, lok := l.vals[b]
				rv, rok := r.vals[b]
				switch {
				case !lok && r.single, l.single && !rok, !lok && !rok:
					continue
				}
				zero := &ExpValue{Possible: []float64{0}}
				nv := &ExpValue{}
				if !lok {
					lv, nv.Lenient = zero, true
				}
				if !rok {
					rv, nv.Lenient = zero, true
				}
				if lv.Lenient || rv.Lenient {
					nv.Lenient = true
				}
				if lv.Unknown || rv.Unknown {
					nv.Unknown = true
				} else {
					s := combine(valset{vals: lv.Possible}, valset{vals: rv.Possible}, op)
					if s.unknown {
						nv.Unknown = true
					} else {
						nv.Possible = s.vals
					}
				}
				// the arrival rule carries through arithmetic: both operands have one established value
				exact := func(v *ExpValue) (float64, bool) {
					switch {
					case v.Unknown:
						return 0, false
					case v.Arrival != nil:
						return *v.Arrival, true
					case len(v.Possible) == 1:
						return v.Possible[0], true
					}
					return 0, false
				}
				if lv.Arrival != nil || rv.Arrival != nil {
					la, lok2 := exact(lv)
					ra, rok2 := exact(rv)
					if lok2 && rok2 && !nv.Lenient {
						a := op(la, ra)
						nv.Arrival = &a
					}
				}
				nv.Contributors = lv.Contributors + rv.Contributors
				out.vals[b] = nv
			}
			return out
		}
		return nil
	}

	for g, s := range exp.Series {
		for _, it := range q.Items {
			ev := eval(g, it.Expr, "")
			if ev == nil {
				continue
			}
			pts := map[int64]*ExpValue{}
			for b, v := range ev.vals {
				if b < 0 || b >= int64(plan.PointCount) {
					continue
				}
				pts[plan.Start+b*plan.IntervalMs] = v
				if v.Contributors > 1 {
					exp.MultiContributorBuckets++
				}
				if v.Lenient {
					exp.LenientValues++
				}
				if v.Unknown {
					exp.UnknownValues++
				}
			}
			if len(pts) > 0 {
				s.Items[it.Key()] = pts
			}
		}
	}
	for g, s := range exp.Series {
		if len(s.Items) == 0 {
			delete(exp.Series, g)
		}
	}
	return exp
}

// evalQuantile applies the histogram quantile estimate (Prometheus' histogram_quantile, which lindb's language
// adopts) to the summed bucket counts of every query bucket: cumulative counts over the upper bounds that have data in
// the group, rank = q * total, linear interpolation inside the bucket that contains the rank, lower bound 0 for the
// first bucket, the highest finite bound when the rank falls into +Inf. Buckets without observations give 0 (or no
// value).
func (m *Model) evalQuantile(mk, g string, q float64, plan Plan, get func(ub float64) arr) *exprVal {
	var ubs []float64
	for ub := range m.bounds[mk] {
		if len(get(ub)) > 0 {
			ubs = append(ubs, ub)
		}
	}
	if len(ubs) == 0 {
		return nil
	}
	sort.Float64s(ubs)
	out := &exprVal{vals: map[int64]*ExpValue{}}
	for b := int64(0); b < int64(plan.PointCount); b++ {
		counts := make([]float64, len(ubs))
		unknown := false
		cells := 0
		for i, ub := range ubs {
			if bv := get(ub)[b]; bv != nil {
				if bv.set.unknown || len(bv.set.vals) != 1 {
					unknown = true
				} else {
					counts[i] = bv.set.vals[0]
				}
				cells += bv.cells
			}
		}
		if unknown {
			out.vals[b] = &ExpValue{Unknown: true, Contributors: cells}
			continue
		}
		cum := make([]float64, len(ubs))
		total := 0.0
		for i := range counts {
			total += counts[i]
			cum[i] = total
		}
		if total == 0 {
			out.vals[b] = &ExpValue{Possible: []float64{0}, Lenient: true}
			continue
		}
		var v float64
		switch {
		case len(ubs) == 1:
			v = ubs[0]
		default:
			rank := q * total
			idx := sort.Search(len(ubs)-1, func(i int) bool { return cum[i] >= rank })
			switch {
			case idx == len(ubs)-1:
				v = ubs[len(ubs)-2]
			case idx == 0 && ubs[0] <= 0:
				v = ubs[0]
			default:
				lo, hi, cnt := 0.0, ubs[idx], cum[idx]
				if idx > 0 {
					lo = ubs[idx-1]
					cnt -= cum[idx-1]
					rank -= cum[idx-1]
				}
				v = lo + (hi-lo)*(rank/cnt)
			}
		}
		out.vals[b] = &ExpValue{Possible: []float64{v}, Contributors: cells}
	}
	return out
}

// Clone returns an independent copy of the model.
func (m *Model) Clone() *Model {
	c := NewModel(m.IntervalsMs...)
	c.batches = m.batches
	for k, v := range m.series {
		c.series[k] = v
	}
	for k, v := range m.kinds {
		c.kinds[k] = map[string]fieldKind{}
		for f, kk := range v {
			c.kinds[k][f] = kk
		}
	}
	for k, v := range m.bounds {
		c.bounds[k] = map[float64]bool{}
		for b := range v {
			c.bounds[k][b] = true
		}
	}
	c.points = append([]mpoint(nil), m.points...)
	return c
}

func (a aggType) String() string { return [...]string{"?", "sum", "min", "max", "last", "first"}[a] }

// AggTypes returns, per field the query reads, the aggregate types (sum|min|max|last|first) its select list needs:
// the default aggregate of the field's type for a bare field, the function's aggregate for a call, sum for the bucket
// fields of a quantile.
func (m *Model) AggTypes(q *Query) map[string][]string {
	ns := q.Namespace
	if ns == "" {
		ns = DefaultNamespace
	}
	kinds := m.kinds[ns+"|"+q.Metric]
	set := map[string]map[aggType]bool{}
	add := func(f string, a aggType) {
		if set[f] == nil {
			set[f] = map[aggType]bool{}
		}
		set[f][a] = true
	}
	var walk func(e Expr, parent string)
	walk = func(e Expr, parent string) {
		switch x := e.(type) {
		case FieldRef:
			k, ok := kinds[x.Name]
			if !ok {
				return
			}
			if parent == "" {
				add(x.Name, defaultAgg(k))
			} else {
				add(x.Name, aggFor(k, parent))
			}
		case Call:
			walk(x.Arg, x.Func)
		case Binary:
			walk(x.L, "")
			walk(x.R, "")
		case Paren:
			walk(x.E, "")
		case Quantile:
			for ub := range m.bounds[ns+"|"+q.Metric] {
				add(BucketFieldName(ub), aSum)
			}
		}
	}
	for _, it := range q.Items {
		walk(it.Expr, "")
	}
	out := map[string][]string{}
	for f, s := range set {
		for a := range s {
			out[f] = append(out[f], a.String())
		}
		sort.Strings(out[f])
	}
	return out
}

func hasQuantile(e Expr) bool {
	switch x := e.(type) {
	case Quantile:
		return true
	case Call:
		return hasQuantile(x.Arg)
	case Binary:
		return hasQuantile(x.L) || hasQuantile(x.R)
	case Paren:
		return hasQuantile(x.E)
	}
	return false
}

// InheritSchema adds the metrics, field types, histogram bounds and series the other model knows (without any of its
// points): a variation of a reference that lacks some points still knows every field that was written.
func (m *Model) InheritSchema(o *Model) {
	for k, v := range o.kinds {
		if m.kinds[k] == nil {
			m.kinds[k] = map[string]fieldKind{}
		}
		for f, kk := range v {
			m.kinds[k][f] = kk
		}
	}
	for k, v := range o.bounds {
		if m.bounds[k] == nil {
			m.bounds[k] = map[float64]bool{}
		}
		for b := range v {
			m.bounds[k][b] = true
		}
	}
}
