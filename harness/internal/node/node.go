package node

import (
	"fmt"
	"os"
	"path/filepath"
	"sort"
	"strings"
	"sync"
	"time"

	"github.com/lindb/common/pkg/fasttime"
	"github.com/lindb/common/pkg/ltoml"

	"github.com/lindb/lindb/config"
	"github.com/lindb/lindb/kv"
	"github.com/lindb/lindb/models"
	"github.com/lindb/lindb/pkg/option"
	"github.com/lindb/lindb/pkg/timeutil"
	"github.com/lindb/lindb/tsdb"
)

// IntervalSpec is one storage interval of the database (milliseconds).
type IntervalSpec struct {
	IntervalMs  int64
	RetentionMs int64
}

// Options configures the in-process storage node.
type Options struct {
	// Dir is the node directory; the engine lives in Dir/data (config TSDB.Dir), WAL config points at Dir/wal.
	Dir string
	// Database name (default "vdb").
	Database string
	// Intervals of the database option (default: 10s with 30 days retention, no rollup targets).
	Intervals []IntervalSpec
	// ShardIDs to create (default: shard 0). Row routing uses len(ShardIDs) as the number of shards, so
	// use 0..n-1 when Write (routing through BrokerBatchRows.NewShardGroupIterator) is used.
	ShardIDs []models.ShardID
	// Behind / Ahead of the database option (default "1d"); they are not enforced on the storage side
	// write path the helper drives.
	Behind, Ahead string
	// AvoidMemDBClockCollision (default true through Open): before a write creates a new memory database the
	// helper waits until lindb's 5ms fasttime clock has moved past the creation stamp of the previous memory
	// database of this process. memdb keys its metric level slot range by that stamp (see TickKey in doc.go).
	NoTickGuard bool
	// StrictTickGuard makes every written batch wait for a fresh fasttime tick (needed when flushes run concurrently
	// with writes, because then any batch may create a memory database).
	StrictTickGuard bool
	// ReplicaSequences makes Write behave like replica.localReplicator.Replica around DataFamily.WriteRows: it
	// validates and commits a per-family replica sequence for leader Leader (ValidateSequence / CommitSequence) and
	// registers an AckSequence callback on every family it writes to. The callback runs where the production
	// replicator's ack runs: inside DataFamily.Flush/Close after the table file was committed to the kv family and
	// before the flushed memory database is dropped. Node.AckHook, when set, is called from it (it may block to hold a
	// flush in that window).
	ReplicaSequences bool
	Leader           int32
}

// Node is a real tsdb.Engine with one database opened in a directory.
type Node struct {
	Opts   Options
	Engine tsdb.Engine
	DB     tsdb.Database

	// AckHook: see Options.ReplicaSequences.
	AckHook func(f tsdb.DataFamily, seq int64)

	mu        sync.Mutex
	seqs      map[string]int64 // family indicator -> last committed replica sequence
	acked     map[string]bool  // families with a registered ack callback
	lastTick  int64            // fasttime.UnixNano() observed at the last write that may have created a memory database
	closed    bool
	writeLock sync.Mutex // serialises Write calls per node unless WriteConcurrent is used
}

func (o *Options) defaults() {
	if o.Database == "" {
		o.Database = "vdb"
	}
	if len(o.Intervals) == 0 {
		o.Intervals = []IntervalSpec{{IntervalMs: 10_000, RetentionMs: 30 * 24 * 3600_000}}
	}
	if len(o.ShardIDs) == 0 {
		o.ShardIDs = []models.ShardID{0}
	}
	if o.Behind == "" {
		o.Behind = "1d"
	}
	if o.Ahead == "" {
		o.Ahead = "1d"
	}
}

// DatabaseOption returns the option.DatabaseOption built from the options.
func (o *Options) DatabaseOption() *option.DatabaseOption {
	opt := &option.DatabaseOption{Behind: o.Behind, Ahead: o.Ahead}
	for _, iv := range o.Intervals {
		opt.Intervals = append(opt.Intervals, option.Interval{
			Interval:  timeutil.Interval(iv.IntervalMs),
			Retention: timeutil.Interval(iv.RetentionMs),
		})
	}
	sort.Sort(opt.Intervals)
	return opt
}

// StorageConfig returns the global storage configuration the helper installs: lindb's defaults with the
// directories under dir and every clock/size driven background flush pushed out of reach.
func StorageConfig(dir string) *config.StorageBase {
	cfg := config.NewDefaultStorageBase()
	cfg.TSDB.Dir = filepath.Join(dir, "data")
	cfg.WAL.Dir = filepath.Join(dir, "wal")
	cfg.TSDB.MutableMemDBTTL = ltoml.Duration(1000 * time.Hour)
	cfg.TSDB.MaxMemDBSize = ltoml.Size(64 << 30)
	cfg.TSDB.MaxMemUsageBeforeFlush = 0.999
	cfg.TSDB.FlushConcurrency = 2
	return cfg
}

// Open installs the global storage config for dir, creates (or loads) the engine and creates the shards.
// Only one Node may be open per process: lindb keeps the kv store manager, the family manager and the storage
// config in process-wide singletons.
func Open(opts Options) (*Node, error) {
	opts.defaults()
	if opts.Dir == "" {
		return nil, fmt.Errorf("node: Dir is required")
	}
	if os.Getenv("TZ") != "UTC" && time.Local != time.UTC {
		// lindb derives segment/family boundaries from time.Local; keep the process on UTC.
		time.Local = time.UTC
	}
	config.SetGlobalStorageConfig(StorageConfig(opts.Dir))
	engine, err := tsdb.NewEngine()
	if err != nil {
		return nil, fmt.Errorf("node: new engine: %w", err)
	}
	if err := engine.CreateShards(opts.Database, opts.DatabaseOption(), opts.ShardIDs...); err != nil {
		engine.Close()
		return nil, fmt.Errorf("node: create shards: %w", err)
	}
	db, ok := engine.GetDatabase(opts.Database)
	if !ok {
		engine.Close()
		return nil, fmt.Errorf("node: database %s missing after CreateShards", opts.Database)
	}
	return &Node{Opts: opts, Engine: engine, DB: db, seqs: map[string]int64{}, acked: map[string]bool{}}, nil
}

// Close closes the engine (flushes metadata, index and all memory databases like a clean shutdown does).
func (n *Node) Close() {
	n.mu.Lock()
	if n.closed {
		n.mu.Unlock()
		return
	}
	n.closed = true
	n.mu.Unlock()
	n.Engine.Close()
}

// Reopen closes the engine and opens the same directory again (load path of engine, database, shards, kv stores).
// Cluster objects built on the old Node must be rebuilt with NewCluster.
func (n *Node) Reopen() (*Node, error) {
	n.Close()
	return Open(n.Opts)
}

// beginReplica does what localReplicator does before WriteRows; it returns the sequence to commit.
func (n *Node) beginReplica(f tsdb.DataFamily) int64 {
	if !n.Opts.ReplicaSequences {
		return -1
	}
	key := f.Indicator()
	n.mu.Lock()
	register := !n.acked[key]
	n.acked[key] = true
	seq := n.seqs[key] + 1
	n.mu.Unlock()
	if register {
		fam := f
		f.AckSequence(n.Opts.Leader, func(seq int64) {
			if h := n.AckHook; h != nil {
				h(fam, seq)
			}
		})
		f.Retain()
	}
	for !f.ValidateSequence(n.Opts.Leader, seq) {
		seq++ // a reopened family already persisted higher sequences
	}
	return seq
}

func (n *Node) commitReplica(f tsdb.DataFamily, seq int64) {
	if seq < 0 {
		return
	}
	f.CommitSequence(n.Opts.Leader, seq)
	n.mu.Lock()
	n.seqs[f.Indicator()] = seq
	n.mu.Unlock()
}

// StorageIntervalMs returns the smallest (writable) interval.
func (n *Node) StorageIntervalMs() int64 {
	min := n.Opts.Intervals[0].IntervalMs
	for _, iv := range n.Opts.Intervals {
		if iv.IntervalMs < min {
			min = iv.IntervalMs
		}
	}
	return min
}

// NumShards returns the number of shards rows are routed over.
func (n *Node) NumShards() int { return len(n.Opts.ShardIDs) }

// Shard returns a shard of the database.
func (n *Node) Shard(id models.ShardID) (tsdb.Shard, bool) { return n.DB.GetShard(id) }

// Families returns the data families currently registered (opened) for a shard, sorted by family time.
func (n *Node) Families(id models.ShardID) []tsdb.DataFamily {
	shard, ok := n.DB.GetShard(id)
	if !ok {
		return nil
	}
	fs := tsdb.GetFamilyManager().GetFamiliesByShard(shard)
	sort.Slice(fs, func(i, j int) bool {
		if fs[i].FamilyTime() != fs[j].FamilyTime() {
			return fs[i].FamilyTime() < fs[j].FamilyTime()
		}
		return fs[i].Interval() < fs[j].Interval()
	})
	return fs
}

// AllFamilies returns the opened data families of all shards.
func (n *Node) AllFamilies() []tsdb.DataFamily {
	var rs []tsdb.DataFamily
	for _, id := range n.Opts.ShardIDs {
		rs = append(rs, n.Families(id)...)
	}
	return rs
}

// Family returns (creating it if needed) the writable data family of a shard containing ts.
func (n *Node) Family(id models.ShardID, ts int64) (tsdb.DataFamily, error) {
	shard, ok := n.DB.GetShard(id)
	if !ok {
		return nil, fmt.Errorf("node: shard %d not found", id)
	}
	ft := shard.CurrentInterval().Calculator().CalcFamilyTime(ts)
	return shard.GetOrCrateDataFamily(ft)
}

// HasMutableMemDB reports whether the family currently has a mutable memory database (a write will not create one).
func HasMutableMemDB(f tsdb.DataFamily) bool {
	for _, s := range f.GetState().MemoryDatabases {
		if s.State == "mutable" {
			return true
		}
	}
	return false
}

// MemDBCreatedTicks returns the creation stamps (lindb fasttime.UnixNano at creation) of the memory databases of a
// family, derived exactly from MemoryDatabase.Uptime() when the 5ms fasttime clock did not move during the call;
// ok=false if the clock kept moving for 50 attempts.
func MemDBCreatedTicks(f tsdb.DataFamily) (ticks map[string]int64, ok bool) {
	for attempt := 0; attempt < 50; attempt++ {
		before := fasttime.UnixNano()
		st := f.GetState()
		after := fasttime.UnixNano()
		if before != after {
			continue
		}
		ticks = map[string]int64{}
		for _, s := range st.MemoryDatabases {
			ticks[s.State] = before - int64(s.Uptime)
		}
		return ticks, true
	}
	return nil, false
}

// WaitNextTick blocks until lindb's fasttime clock (5ms resolution) has advanced past `after`.
// It is a workload pacing device (keeps generated histories away from a clock dependent edge), never an oracle.
func WaitNextTick(after int64) int64 {
	for {
		now := fasttime.UnixNano()
		if now > after {
			return now
		}
		time.Sleep(500 * time.Microsecond)
	}
}

// tickGuard is called before a batch is written into a family; mayCreate says the family had no mutable memory
// database when the helper looked. In strict mode (Options.StrictTickGuard, for workloads where a flush may switch
// the memory database between that look and the write) every batch waits.
func (n *Node) tickGuard(mayCreate bool) {
	if n.Opts.NoTickGuard {
		return
	}
	if !mayCreate && !n.Opts.StrictTickGuard {
		return
	}
	n.mu.Lock()
	last := n.lastTick
	n.mu.Unlock()
	if last != 0 {
		WaitNextTick(last)
	}
}

// tickMark records the clock after a batch that may have created a memory database.
func (n *Node) tickMark(mayCreate bool) {
	if n.Opts.NoTickGuard || (!mayCreate && !n.Opts.StrictTickGuard) {
		return
	}
	now := fasttime.UnixNano()
	n.mu.Lock()
	if now > n.lastTick {
		n.lastTick = now
	}
	n.mu.Unlock()
}

// ---------------------------------------------------------------------------------------------
// flush / compaction / rollup

// FlushMeta flushes the database metadata (namespace / metric / tag value / schema stores) and waits for it.
func (n *Node) FlushMeta() error {
	if err := n.DB.FlushMeta(); err != nil {
		return err
	}
	n.DB.WaitFlushMetaCompleted()
	return nil
}

// FlushIndex flushes the index database of the given shards (all when none given) and waits for it.
func (n *Node) FlushIndex(ids ...models.ShardID) error {
	if len(ids) == 0 {
		ids = n.Opts.ShardIDs
	}
	for _, id := range ids {
		shard, ok := n.DB.GetShard(id)
		if !ok {
			return fmt.Errorf("node: shard %d not found", id)
		}
		if err := shard.FlushIndex(); err != nil {
			return err
		}
		shard.WaitFlushIndexCompleted()
	}
	return nil
}

// FlushFamily flushes the memory database of one data family (DataFamily.Flush) after flushing metadata and the
// shard index, i.e. the order tsdb's dataFlushChecker.doFlush/flushShard uses.
func (n *Node) FlushFamily(f tsdb.DataFamily) error {
	if err := n.FlushMeta(); err != nil {
		return err
	}
	if err := n.FlushIndex(f.Shard().ShardID()); err != nil {
		return err
	}
	return f.Flush()
}

// FlushFamilies flushes metadata, then per shard the index and the selected families (all opened families when
// sel is nil): the production order of tsdb/data_flush_checker.go doFlush -> flushShard.
func (n *Node) FlushFamilies(sel func(f tsdb.DataFamily) bool) error {
	if err := n.FlushMeta(); err != nil {
		return err
	}
	for _, id := range n.Opts.ShardIDs {
		shard, ok := n.DB.GetShard(id)
		if !ok {
			continue
		}
		if err := shard.FlushIndex(); err != nil {
			return err
		}
		shard.WaitFlushIndexCompleted()
		for _, f := range n.Families(id) {
			if sel != nil && !sel(f) {
				continue
			}
			if err := f.Flush(); err != nil {
				return err
			}
		}
		shard.BufferManager().GarbageCollect()
	}
	return nil
}

// FlushAll flushes metadata, indexes and every opened data family.
func (n *Node) FlushAll() error { return n.FlushFamilies(nil) }

// StoreKind classifies a kv store of the node by its path.
func StoreKind(s kv.Store) string {
	p := s.Path()
	switch {
	case strings.Contains(p, string(filepath.Separator)+"segment"+string(filepath.Separator)):
		return "data"
	case strings.Contains(p, string(filepath.Separator)+"index"):
		return "index"
	case strings.Contains(p, string(filepath.Separator)+"meta"):
		return "meta"
	default:
		return "other"
	}
}

// CompactStores runs a full level-0 compaction (kv Family.Compact, which only acts when more than one level-0
// file exists) on every kv family of the stores selected by kind ("data", "index", "meta"; empty = all) and waits
// for the background jobs. It returns the number of families that had more than one level-0 file.
func (n *Node) CompactStores(kind string) int {
	compacted := 0
	for _, store := range kv.GetStoreManager().GetStores() {
		if kind != "" && StoreKind(store) != kind {
			continue
		}
		for _, name := range store.ListFamilyNames() {
			f := store.GetFamily(name)
			if f == nil {
				continue
			}
			snap := f.GetSnapshot()
			l0 := snap.GetCurrent().NumberOfFilesInLevel(0)
			snap.Close()
			if l0 > 1 {
				compacted++
			}
			f.Compact()
			kv.VerifFamilyWait(f)
		}
	}
	return compacted
}

// CompactFamily compacts the kv family of one data family and waits for the job; reports if there was work.
func CompactFamily(f tsdb.DataFamily) bool {
	kf := f.Family()
	snap := kf.GetSnapshot()
	l0 := snap.GetCurrent().NumberOfFilesInLevel(0)
	snap.Close()
	kf.Compact()
	kv.VerifFamilyWait(kf)
	return l0 > 1
}

// Level0Files returns the number of level-0 table files of a data family.
func Level0Files(f tsdb.DataFamily) int {
	snap := f.Family().GetSnapshot()
	defer snap.Close()
	return snap.GetCurrent().NumberOfFilesInLevel(0)
}

// ForceRollup runs Store.ForceRollup on every data store and waits for the rollup jobs of its families.
func (n *Node) ForceRollup() {
	for _, store := range kv.GetStoreManager().GetStores() {
		if StoreKind(store) != "data" {
			continue
		}
		store.ForceRollup()
		for _, name := range store.ListFamilyNames() {
			if f := store.GetFamily(name); f != nil {
				kv.VerifFamilyWait(f)
			}
		}
	}
}
