package node

import (
	"fmt"
	"os"
	"testing"
	"time"

	"github.com/lindb/lindb/models"
)

func TestLayouts(t *testing.T) {
	dir, _ := os.MkdirTemp("", "nodetest")
	defer os.RemoveAll(dir)
	n, err := Open(Options{Dir: dir, ShardIDs: []models.ShardID{0, 1, 2, 3}})
	if err != nil {
		t.Fatal(err)
	}
	defer n.Close()
	now := time.Now().UnixMilli()
	t0 := now - now%3600_000 - 2*3600_000
	m := NewModel(10_000)
	var pts []Point
	for i := 0; i < 12; i++ {
		pts = append(pts, Point{Metric: "m", Tags: map[string]string{"uid": fmt.Sprintf("u%d", i), "dc": []string{"a", "b"}[i%2]}, Timestamp: t0 + int64(i)*10_000,
			Fields: []Field{{Name: "f", Type: Sum, Value: float64(i + 1)}}})
	}
	rep, err := n.Write(pts)
	if err != nil {
		t.Fatal(err)
	}
	m.Add(pts)
	fmt.Printf("batches: %+v\n", rep.Batches)
	q := &Query{Metric: "m", Items: []SelectItem{{Expr: FieldRef{Name: "f"}}}, Start: t0, End: t0 + 3600_000 - 1000, GroupBy: []string{"uid"}}
	for _, lay := range []Layout{
		{},
		{Leaves: []LeafSpec{{Shards: []models.ShardID{0, 1}}, {Shards: []models.ShardID{2, 3}}}},
		{Leaves: []LeafSpec{{Shards: []models.ShardID{0}}, {Shards: []models.ShardID{1}}, {Shards: []models.ShardID{2}}, {Shards: []models.ShardID{3}}}, Intermediates: 1},
		{Leaves: []LeafSpec{{Shards: []models.ShardID{0, 1}}, {Shards: []models.ShardID{2, 3}}}, Intermediates: 2},
	} {
		c := NewCluster(n, lay)
		c.SetScheduler(&ResponseOrder{Receiver: c.RootID, Perm: []int{1, 0}})
		res := c.Query(q.SQL())
		diffs := Compare(m.Eval(q), res.ResultSet, q.GroupBy, CompareOptions{})
		fmt.Printf("layout leaves=%d inter=%d: err=%v stuck=%v held=%d diffs=%d stats=%+v elapsed=%v\n", len(c.Layout.Leaves), lay.Intermediates, res.Err, res.Stuck, res.Held, len(diffs), c.Stats(), res.Elapsed)
		c.Close()
	}
}
