package node

import (
	"bytes"
	"fmt"
	"math"
	"sort"

	protoMetricsV1 "github.com/lindb/common/proto/gen/v1/linmetrics"

	"github.com/lindb/lindb/models"
	"github.com/lindb/lindb/pkg/timeutil"
	"github.com/lindb/lindb/series/metric"
)

// FieldType is the type of a simple field as a client writes it.
type FieldType int

// Simple field types (the complete set of protoMetricsV1.SimpleFieldType).
const (
	Sum FieldType = iota + 1
	Min
	Max
	Last
	First
)

func (t FieldType) String() string {
	switch t {
	case Sum:
		return "sum"
	case Min:
		return "min"
	case Max:
		return "max"
	case Last:
		return "last"
	case First:
		return "first"
	}
	return "unknown"
}

func (t FieldType) proto() protoMetricsV1.SimpleFieldType {
	switch t {
	case Sum:
		return protoMetricsV1.SimpleFieldType_DELTA_SUM
	case Min:
		return protoMetricsV1.SimpleFieldType_Min
	case Max:
		return protoMetricsV1.SimpleFieldType_Max
	case Last:
		return protoMetricsV1.SimpleFieldType_LAST
	case First:
		return protoMetricsV1.SimpleFieldType_FIRST
	}
	return protoMetricsV1.SimpleFieldType_SIMPLE_UNSPECIFIED
}

// Field is one simple field value of a point.
type Field struct {
	Name  string    `json:"n"`
	Type  FieldType `json:"t"`
	Value float64   `json:"v"`
}

// Histogram is the compound field of a point. Bounds are the finite upper bounds in increasing order; the +Inf bucket
// is implicit: Counts has len(Bounds)+1 entries (per-bucket, not cumulative, counts), the last one is the +Inf bucket.
type Histogram struct {
	Bounds []float64 `json:"bounds"`
	Counts []float64 `json:"counts"`
	Sum    float64   `json:"sum"`
	Count  float64   `json:"count"`
	Min    float64   `json:"min"`
	Max    float64   `json:"max"`
}

// Point is one written data point (one row): a series (namespace, metric, tags), a timestamp and field values.
type Point struct {
	Namespace string            `json:"ns,omitempty"` // "" = lindb's default namespace "default-ns"
	Metric    string            `json:"m"`
	Tags      map[string]string `json:"tags,omitempty"`
	Timestamp int64             `json:"ts"`
	Fields    []Field           `json:"f,omitempty"`
	Histogram *Histogram        `json:"h,omitempty"`
}

// DefaultNamespace is the namespace lindb gives to metrics written without one.
const DefaultNamespace = "default-ns"

// NS returns the effective namespace of the point.
func (p *Point) NS() string {
	if p.Namespace == "" {
		return DefaultNamespace
	}
	return p.Namespace
}

// SeriesKey identifies the series of the point (namespace, metric, sorted tags).
func (p *Point) SeriesKey() string {
	keys := make([]string, 0, len(p.Tags))
	for k := range p.Tags {
		keys = append(keys, k)
	}
	sort.Strings(keys)
	var b bytes.Buffer
	b.WriteString(p.NS())
	b.WriteByte('|')
	b.WriteString(p.Metric)
	for _, k := range keys {
		b.WriteByte('|')
		b.WriteString(k)
		b.WriteByte('=')
		b.WriteString(p.Tags[k])
	}
	return b.String()
}

func (p *Point) toProto() *protoMetricsV1.Metric {
	m := &protoMetricsV1.Metric{Namespace: p.Namespace, Name: p.Metric, Timestamp: p.Timestamp}
	keys := make([]string, 0, len(p.Tags))
	for k := range p.Tags {
		keys = append(keys, k)
	}
	sort.Strings(keys)
	for _, k := range keys {
		m.Tags = append(m.Tags, &protoMetricsV1.KeyValue{Key: k, Value: p.Tags[k]})
	}
	for _, f := range p.Fields {
		m.SimpleFields = append(m.SimpleFields, &protoMetricsV1.SimpleField{Name: f.Name, Type: f.Type.proto(), Value: f.Value})
	}
	if h := p.Histogram; h != nil {
		cf := &protoMetricsV1.CompoundField{Min: h.Min, Max: h.Max, Sum: h.Sum, Count: h.Count}
		cf.ExplicitBounds = append(cf.ExplicitBounds, h.Bounds...)
		cf.ExplicitBounds = append(cf.ExplicitBounds, math.Inf(1))
		cf.Values = append(cf.Values, h.Counts...)
		m.CompoundField = cf
	}
	return m
}

// Batch is what one Write call delivered to one data family of one shard.
type Batch struct {
	ShardID    models.ShardID
	FamilyTime int64
	Rows       int
	Created    bool // the family had no mutable memory database before this batch
}

// WriteReport describes how the rows of a Write call were routed.
type WriteReport struct {
	Batches []Batch
	Rows    int
	// Order lists the indices of the written points in the order their rows reached DataFamily.WriteRows (lindb sorts
	// the rows of one call by shard and, when the call spans several data families, by timestamp).
	Order []int
}

func rowKey(name string, ts int64, tags map[string]string) string {
	keys := make([]string, 0, len(tags))
	for k := range tags {
		keys = append(keys, k)
	}
	sort.Strings(keys)
	var b bytes.Buffer
	fmt.Fprintf(&b, "%s|%d", name, ts)
	for _, k := range keys {
		b.WriteString("|" + k + "=" + tags[k])
	}
	return b.String()
}

// Write converts the points exactly like the broker's ingestion does (proto metric -> flat row through
// metric.NewProtoConverter(...).ConvertTo into a metric.BrokerBatchRows), routes the rows with the real
// BrokerBatchRows.NewShardGroupIterator(numOfShards) + FamilyRowsForNextShard(interval) (shard by tags hash, then
// grouped by data family), serialises each group with BrokerRow.WriteTo (the byte block the broker appends to the
// write-ahead log), and on the storage side does what replica.localReplicator.Replica does with such a block:
// StorageBatchRows.UnmarshalRows -> DataFamily.WriteRows (which looks up / creates metric, series, field ids through the
// memory index workers and waits for them).
//
// When Write returns, every row is visible to queries. The order in which the rows of one call reach a family is
// decided by lindb's (unstable) sorts; put points whose relative order matters into different Write calls.
func (n *Node) Write(points []Point) (WriteReport, error) {
	n.writeLock.Lock()
	defer n.writeLock.Unlock()
	return n.write(points, -1)
}

// WriteToShard is Write without routing: all rows go to the given shard (grouped by data family).
func (n *Node) WriteToShard(id models.ShardID, points []Point) (WriteReport, error) {
	n.writeLock.Lock()
	defer n.writeLock.Unlock()
	return n.write(points, int(id))
}

func (n *Node) write(points []Point, forceShard int) (WriteReport, error) {
	var rep WriteReport
	if len(points) == 0 {
		return rep, nil
	}
	limits := n.DB.GetLimits()
	if limits == nil {
		limits = models.NewDefaultLimits()
	}
	converter := metric.NewProtoConverter(limits)
	batch := metric.NewBrokerBatchRows()
	defer batch.Release()
	pending := map[string][]int{}
	for i := range points {
		k := rowKey(points[i].NS()+"/"+points[i].Metric, points[i].Timestamp, points[i].Tags)
		pending[k] = append(pending[k], i)
	}
	for i := range points {
		m := points[i].toProto()
		if err := batch.TryAppend(func(row *metric.BrokerRow) error {
			// a pooled batch keeps the flag of an earlier use (lindb never resets it); routing must see fresh rows
			row.IsOutOfTimeRange = false
			return converter.ConvertTo(m, row)
		}); err != nil {
			return rep, fmt.Errorf("node: convert point %d: %w", i, err)
		}
	}
	interval := timeutil.Interval(n.StorageIntervalMs())
	numShards := int32(n.NumShards())
	if forceShard >= 0 {
		numShards = 1
	}
	it := batch.NewShardGroupIterator(numShards)
	storageRows := metric.NewStorageBatchRows()
	for it.HasRowsForNextShard() {
		shardIdx, famIt := it.FamilyRowsForNextShard(interval)
		shardID := models.ShardID(shardIdx)
		if forceShard >= 0 {
			shardID = models.ShardID(forceShard)
		} else if shardIdx < len(n.Opts.ShardIDs) {
			shardID = n.Opts.ShardIDs[shardIdx]
		}
		shard, ok := n.DB.GetShard(shardID)
		if !ok {
			return rep, fmt.Errorf("node: shard %d not found", shardID)
		}
		for famIt.HasNextFamily() {
			familyTime, rows := famIt.NextFamily()
			var block bytes.Buffer
			for i := range rows {
				if _, err := rows[i].WriteTo(&block); err != nil {
					return rep, err
				}
			}
			family, err := shard.GetOrCrateDataFamily(familyTime)
			if err != nil {
				return rep, fmt.Errorf("node: data family %d of shard %d: %w", familyTime, shardID, err)
			}
			created := !HasMutableMemDB(family)
			n.tickGuard(created)
			storageRows.UnmarshalRows(block.Bytes())
			for _, sr := range storageRows.Rows() {
				tags := map[string]string{}
				it := sr.NewKeyValueIterator()
				for it.HasNext() {
					tags[string(it.NextKey())] = string(it.NextValue())
				}
				k := rowKey(string(sr.NameSpace())+"/"+string(sr.Name()), sr.Timestamp(), tags)
				if idxs := pending[k]; len(idxs) > 0 {
					rep.Order = append(rep.Order, idxs[0])
					pending[k] = idxs[1:]
				}
			}
			seq := n.beginReplica(family)
			err = family.WriteRows(storageRows.Rows())
			n.commitReplica(family, seq)
			n.tickMark(created)
			if err != nil {
				return rep, fmt.Errorf("node: write rows: %w", err)
			}
			rep.Batches = append(rep.Batches, Batch{ShardID: shardID, FamilyTime: familyTime, Rows: storageRows.Len(), Created: created})
			rep.Rows += storageRows.Len()
		}
	}
	return rep, nil
}

// ShardOf returns the shard index the real routing assigns to the series of a point for numOfShards shards.
func ShardOf(p Point, numOfShards int) (int, error) {
	converter := metric.NewProtoConverter(models.NewDefaultLimits())
	batch := metric.NewBrokerBatchRows()
	defer batch.Release()
	if err := batch.TryAppend(func(row *metric.BrokerRow) error {
		row.IsOutOfTimeRange = false
		return converter.ConvertTo(p.toProto(), row)
	}); err != nil {
		return 0, err
	}
	it := batch.NewShardGroupIterator(int32(numOfShards))
	if !it.HasRowsForNextShard() {
		return 0, fmt.Errorf("node: no rows")
	}
	idx, _ := it.FamilyRowsForNextShard(timeutil.Interval(10_000))
	return idx, nil
}
