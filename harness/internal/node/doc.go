// Package node is an in-process lindb storage node plus a loopback query cluster, for engines that need the real
// write path and the real root -> (intermediate ->) leaf query path without network, etcd or a broker process.
//
// Everything below runs lindb's own code (imported from /repo); the package only supplies what production gets from
// rpc/grpc, the broker state manager and the flush checker's timers.
//
// # Process rules
//
// lindb keeps the storage config (config.SetGlobalStorageConfig), the kv store manager and the data family manager in
// process-wide singletons: one Node per process at a time (Open ... Close, then another Open is fine), and run cases
// in child processes. Set TZ=UTC for the children (lindb derives day segments and hour families from time.Local;
// Open also forces time.Local to UTC). LOG_LEVEL=fatal silences lindb's logger.
//
// # Storage node
//
//	n, err := node.Open(node.Options{Dir: dir, ShardIDs: []models.ShardID{0, 1}})   // defaults: db "vdb", 10s/30d, shard 0
//	rep, err := n.Write(points)          // see below
//	n.FlushAll()                         // FlushMeta -> per shard FlushIndex -> every opened DataFamily.Flush (+ buffer GC)
//	n.FlushFamily(f) / n.FlushMeta() / n.FlushIndex(ids...) / n.FlushFamilies(selector)
//	n.CompactStores("data"|"index"|"meta"|"")   // kv Family.Compact on every family of the selected stores + wait
//	node.CompactFamily(f), node.Level0Files(f), n.ForceRollup()
//	n2, err := n.Reopen()                // Engine.Close (flushes everything) + load from the same directory
//	n.Families(shard) / n.AllFamilies()  // opened data families; n.Family(shard, ts) creates/returns the family of ts
//	n.FileBlocks(f, ns, metric)          // which table files hold the metric, with which fields / slots / series count
//	n.SchemaOf(ns, metric)               // field ids and tag keys the metadata database resolves
//
// StorageConfig pushes the clock/size driven background flush out of reach (memdb TTL 1000h, 64GiB), so memory
// databases are flushed only when the engine says so.
//
// Write does what production does between the ingestion handler and the memory database: proto metric ->
// metric.NewProtoConverter(limits).ConvertTo -> BrokerBatchRows -> NewShardGroupIterator(numShards) (shard by tag
// hash) -> FamilyRowsForNextShard(interval) (group by data family; lindb sorts the rows of a call by timestamp when
// the call spans several families) -> BrokerRow.WriteTo (the byte block that would go into the WAL) ->
// StorageBatchRows.UnmarshalRows -> shard.GetOrCrateDataFamily(familyTime).WriteRows (memdb write, metric/series/
// field id generation through the index and metadata workers, waited for). When Write returns every row is
// queryable. WriteReport.Order gives the order in which lindb applied the rows. WriteToShard bypasses routing;
// ShardOf tells the shard a series is routed to.
//
// Options.ReplicaSequences makes Write also do what replica.localReplicator does around WriteRows (ValidateSequence /
// CommitSequence per family and leader) and registers an AckSequence callback per family; Node.AckHook is called from
// it - inside DataFamily.Flush after the table file is committed and before the flushed memory database is detached -
// and may block to hold a flush exactly there. (It is also called once when a callback is registered on a family that
// already has persisted sequences, i.e. after a reopen; install the hook only around the flush you want to hold.)
// Other points of a flush can be held with internal/seam.InstallKV and an Interceptor that blocks on labels such as
// "create .../segment/day/20260924/7/000012.sst" (see cmd/c11/conc.go).
//
// Clock dependent edge: a memory database is keyed by lindb's 5ms fasttime clock inside the shard level series index.
// Two memory databases of one shard created in the same tick used to collide (C11 finding, repaired by lindb commit
// 1302c79 which makes the creation stamp unique; before that commit data was lost). Write still waits for the next tick
// before a batch that will create a memory database, so that engines behave the same on older trees
// (Options.NoTickGuard switches that off - the C11 engine does, to keep the case exercised; Options.StrictTickGuard
// paces every batch - only needed on a tree without the repair when flushes run concurrently with writes).
// MemDBCreatedTicks(f) reads the creation stamps back exactly.
//
// # Loopback query cluster
//
//	c := node.NewCluster(n, node.Layout{})                       // one leaf owning all shards, direct root -> leaf plan
//	c := node.NewCluster(n, node.Layout{
//	        Leaves:        []node.LeafSpec{{Shards: []models.ShardID{0, 1}}, {Shards: []models.ShardID{2}}},
//	        Intermediates: 2,                                     // live broker nodes for flow.BuildPhysicalPlan
//	})
//	res := c.Query("select f from 'm' where time >= '2026-09-24 01:00:00' and time <= '2026-09-24 01:59:59' group by host")
//	res.ResultSet / res.Err / res.Stuck / res.TimedOut / res.Statement
//	c.Close()                                                     // before Node.Reopen/Close; build a new Cluster afterwards
//
// Query = sql.Parse + query.MetricDataSearch at the root with a query.NewTaskManager, a Chooser and a loopback
// rpc.TransportManager. The Chooser embeds the broker.StateManager interface (nil) and overrides Choose,
// GetDatabaseCfg, GetQueryableReplicas, GetLiveNodes, so RootMetricContext.MakePlan runs the real
// calcTimeRangeAndInterval; Choose mirrors the production stateManager.Choose (compute targets via
// flow.BuildPhysicalPlan when numOfNodes > 1, > 1 leaf and Layout.Intermediates > 0; otherwise one target per leaf).
// Cluster.ChooseFn replaces the plan construction (c.Chooser().LeafPlan(db) gives the direct plan to start from).
// Leaves run query.NewLeafTaskProcessor over the node's engine with a loopback rpc.TaskServerFactory; intermediates run
// query.NewIntermediateTaskProcessor. Requests and responses are the real protobuf messages.
//
// Delivery order: c.SetScheduler(s). A Scheduler picks which pending message is delivered next (or holds all of
// them); FIFO is the default, ResponseOrder{Receiver: c.RootID, Perm: []int{2,0,1}} holds the responses for a node
// until nothing else can happen and then releases them in the given permutation. c.PreDeliver may sleep before a
// delivery (delays). c.OnLeafResult observes every TimeSeriesList a leaf sends. c.Trace(true) records transport events.
//
// Quiescence: every queued message, every delivery, every running leaf processor and every task submitted to the
// database's Filtering/Grouping/Scanner pools and to the brokers' query pools is counted (the pools are wrapped by
// counting pools around the real concurrent.Pool). c.Quiescent() is true when all of that is zero. A query is reported
// Stuck - "never answers" decided logically - when the cluster is quiescent, and the goroutine of the root's
// MetricDataSearch call and every running intermediate processor are parked in MetricContext.waitResponse (checked on a
// goroutine dump), three times in a row a Grace period apart, and the root then returns no result when cancelled.
// Watchdog (default 120s) only bounds a query; hitting it gives TimedOut (inconclusive). One query at a time per Cluster.
//
// # Reference model
//
//	m := node.NewModel(10_000)                 // storage intervals in ms
//	m.Add(points)                              // once per Write call, in call order
//	q := &node.Query{Metric: "m", Items: []node.SelectItem{{Expr: node.FieldRef{Name: "f"}},
//	        {Expr: node.Call{Func: "max", Arg: node.FieldRef{Name: "g"}}, Alias: "mg"}},
//	        Start: t0, End: t1, IntervalMs: 60_000, Cond: node.TagCmp{Key: "host", Op: "=", Values: []string{"a"}},
//	        GroupBy: []string{"dc"}}
//	exp := m.Eval(q)                           // q.SQL() is the text for Cluster.Query
//	diffs := node.Compare(exp, res.ResultSet, q.GroupBy, node.CompareOptions{})
//
// The model stores every point; Eval buckets by the storage slot, combines the points of one (series, slot) by the
// field type, aggregates cells into (group, bucket) with the aggregate the function reads and evaluates the select
// expressions. It encodes lindb's language as read from the code: PlanOf (range truncation, automatic interval for
// long ranges, interval rounded down to a multiple of the storage interval, inclusive end), Supported (functions per
// field type), default function = the field type's aggregate, rate = value / interval seconds, binary operators with
// a missing operand = 0 (marked Lenient: absent is accepted too), division by zero = 0, quantile = Prometheus
// histogram_quantile over the buckets that have data (empty buckets: 0 or absent; Expected.ZeroFill), series lacking a
// group-by key are left out, negated tag atoms require the key. ExpValue.Possible lists the admissible values: one for
// sum/min/max, several where first/last values meet ("one of the contributed values"); ExpValue.Arrival is the value
// under the arrival rule for a single cell (CompareOptions.Arrival checks it). Canonical renders a ResultSet for
// result-to-result comparisons (C12). Model.Clone / InheritSchema help building variations of a reference.
package node
