package node

import (
	"context"
	"fmt"
	"reflect"
	"runtime"
	"sort"
	"strconv"
	"strings"
	"sync"
	"time"
	"unsafe"

	commonmodels "github.com/lindb/common/models"
	commontimeutil "github.com/lindb/common/pkg/timeutil"
	"google.golang.org/grpc"

	"github.com/lindb/lindb/constants"
	"github.com/lindb/lindb/coordinator/broker"
	"github.com/lindb/lindb/flow"
	"github.com/lindb/lindb/internal/concurrent"
	"github.com/lindb/lindb/internal/linmetric"
	"github.com/lindb/lindb/metrics"
	"github.com/lindb/lindb/models"
	protoCommonV1 "github.com/lindb/lindb/proto/gen/v1/common"
	"github.com/lindb/lindb/query"
	"github.com/lindb/lindb/rpc"
	"github.com/lindb/lindb/sql"
	"github.com/lindb/lindb/sql/stmt"
)

// MsgKind is the kind of a transported message.
type MsgKind int

// Message kinds.
const (
	Request MsgKind = iota
	Response
)

func (k MsgKind) String() string {
	if k == Request {
		return "request"
	}
	return "response"
}

// Msg is one message carried by the loopback transport.
type Msg struct {
	Seq  int64 // send order (1,2,3,...)
	Kind MsgKind
	From string // sender node id
	To   string // receiver node id
	Req  *protoCommonV1.TaskRequest
	Resp *protoCommonV1.TaskResponse
}

// Scheduler decides the delivery order of the loopback transport.
//
// Pick is called (with the cluster's lock held - do not call back into the Cluster) whenever the pending set or the
// activity changed. pending is in send order. othersIdle is true when nothing else can happen before a delivery:
// no message is being delivered, no processor is running and every worker pool is idle. Return the index of the
// message to deliver now or -1 to hold all of them. A scheduler that holds while othersIdle is true freezes the
// cluster until SetScheduler/Kick is called; a query waiting on it is then reported as Stuck with Held messages.
type Scheduler interface {
	Pick(pending []*Msg, othersIdle bool) int
}

// FIFO delivers messages in send order, immediately.
type FIFO struct{}

// Pick implements Scheduler.
func (FIFO) Pick(pending []*Msg, _ bool) int {
	if len(pending) == 0 {
		return -1
	}
	return 0
}

// ResponseOrder holds every response addressed to Receiver until the cluster is otherwise idle (so all responses
// that will ever come have arrived) and then releases them in the order given by Perm: the i-th response delivered
// is the one whose rank (by send order among the held responses) is Perm[i]; ranks outside Perm follow in send order.
// Requests and other responses are delivered FIFO.
type ResponseOrder struct {
	Receiver string
	Perm     []int

	released []*Msg
	armed    bool
}

// Pick implements Scheduler.
func (s *ResponseOrder) Pick(pending []*Msg, othersIdle bool) int {
	if s.armed {
		for len(s.released) > 0 {
			want := s.released[0]
			for i, m := range pending {
				if m == want {
					s.released = s.released[1:]
					return i
				}
			}
			s.released = s.released[1:]
		}
		s.armed = false
	}
	var held []int
	for i, m := range pending {
		if m.Kind == Response && m.To == s.Receiver {
			held = append(held, i)
			continue
		}
		return i
	}
	if len(held) == 0 || !othersIdle {
		return -1
	}
	order := make([]*Msg, 0, len(held))
	used := make([]bool, len(held))
	for _, r := range s.Perm {
		if r >= 0 && r < len(held) && !used[r] {
			used[r] = true
			order = append(order, pending[held[r]])
		}
	}
	for r, i := range held {
		if !used[r] {
			order = append(order, pending[i])
		}
	}
	s.released = order[1:]
	s.armed = true
	for i, m := range pending {
		if m == order[0] {
			return i
		}
	}
	return held[0]
}

// LeafSpec is one storage (leaf) node of the loopback cluster and the shards it answers for.
type LeafSpec struct {
	ID     string // node indicator "ip:port"; generated when empty
	Shards []models.ShardID
}

// Layout describes the loopback cluster around one engine.
type Layout struct {
	// Leaves own disjoint subsets of the engine's shards (default: one leaf owning all shards).
	Leaves []LeafSpec
	// Intermediates is the number of broker nodes that run query.NewIntermediateTaskProcessor. They are the "live
	// broker nodes" flow.BuildPhysicalPlan chooses compute targets from. With 0 intermediates the chooser always
	// builds the direct root -> leaves plan.
	Intermediates int
	// MaxComputeTargets caps the number of compute targets (0 = what the root asks for).
	MaxComputeTargets int
}

// Cluster is an in-process query cluster around one Node: a root (broker) that runs query.MetricDataSearch, optional
// intermediate brokers and leaf (storage) nodes running query.NewLeafTaskProcessor over the same engine, connected
// by a loopback implementation of rpc.TransportManager / rpc.TaskServerFactory that carries the real protobuf
// messages and knows when it is quiescent.
type Cluster struct {
	Node   *Node
	Layout Layout
	RootID string
	// Watchdog bounds a query (context deadline and SearchMgr.Timeout). It is never an oracle: a query that hits it is
	// reported as TimedOut (inconclusive); "never answers" is decided by quiescence (Stuck).
	Watchdog time.Duration
	// Grace is how long the cluster must stay quiescent, with the root still waiting, before a query is declared Stuck.
	Grace time.Duration
	// ChooseFn, when set, replaces the chooser's physical plan construction.
	ChooseFn func(c *Cluster, database string, numOfNodes int) ([]*models.PhysicalPlan, error)
	// PreDeliver, when set, is called (without locks) right before a message is handed to its receiver; it may sleep.
	PreDeliver func(m *Msg)
	// OnLeafResult, when set, observes every response payload a leaf sends (the property's observation point
	// "TimeSeriesList sent by the leaf task processor").
	OnLeafResult func(leaf string, resp *protoCommonV1.TaskResponse)

	mu         sync.Mutex
	cond       *sync.Cond
	sched      Scheduler
	pending    []*Msg
	active     int // deliveries in progress + running processors + pool tasks queued/running
	seq        int64
	closed     bool
	trace      []string
	traceOn    bool
	endpoint   map[string]*endpoint
	leaves     []*endpoint
	inters     []*endpoint
	root       *endpoint
	chooser    *Chooser
	pools      []*countPool
	stats      ClusterStats
	queryTrace []string       // transport events since the current query started
	waiters    map[int64]bool // goroutine ids of the uncounted helpers: the root's search call and running intermediate processors
}

// ClusterStats counts what the transport carried.
type ClusterStats struct {
	Requests, Responses   int
	ErrorResponses        int
	LeafProcess, Intermed int
}

type endpoint struct {
	id        string
	kind      string // root | intermediate | leaf
	node      models.StatelessNode
	shards    []models.ShardID
	processor query.TaskProcessor
	taskMgr   query.TaskManager
	transport *transport
	factory   *serverFactory
}

// NewCluster wires the loopback cluster. It replaces the three query pools of the database (tsdb.ExecutorPool
// Filtering/Grouping/Scanner) by counting wrappers around the real pools, so that quiescence can be observed.
func NewCluster(n *Node, layout Layout) *Cluster {
	c := &Cluster{Node: n, Layout: layout, Watchdog: 120 * time.Second, Grace: time.Second,
		sched: FIFO{}, endpoint: map[string]*endpoint{}, waiters: map[int64]bool{}}
	c.cond = sync.NewCond(&c.mu)
	if len(c.Layout.Leaves) == 0 {
		c.Layout.Leaves = []LeafSpec{{Shards: append([]models.ShardID(nil), n.Opts.ShardIDs...)}}
	}
	// counting wrappers for the leaf side pools (shared by all leaves: one engine, one database)
	ep := n.DB.ExecutorPool()
	ep.Filtering = c.wrapPool(ep.Filtering)
	ep.Grouping = c.wrapPool(ep.Grouping)
	ep.Scanner = c.wrapPool(ep.Scanner)

	c.chooser = &Chooser{c: c}
	mk := func(kind string, idx int) *endpoint {
		var node models.StatelessNode
		switch kind {
		case "root":
			node = models.StatelessNode{HostIP: "10.0.0.1", GRPCPort: 9000}
		case "intermediate":
			node = models.StatelessNode{HostIP: fmt.Sprintf("10.0.1.%d", idx+1), GRPCPort: 9000}
		default:
			node = models.StatelessNode{HostIP: fmt.Sprintf("10.0.2.%d", idx+1), GRPCPort: 2891}
		}
		e := &endpoint{id: node.Indicator(), kind: kind, node: node}
		e.transport = &transport{c: c, self: e.id}
		e.factory = &serverFactory{c: c, self: e.id}
		return e
	}
	newBrokerPool := func(name string) concurrent.Pool {
		p := c.wrapPool(concurrent.NewPool(name, 8, time.Second*5,
			metrics.NewConcurrentStatistics(name, linmetric.BrokerRegistry)))
		p.(*countPool).owned = true
		return p
	}
	c.root = mk("root", 0)
	c.RootID = c.root.id
	c.root.taskMgr = query.NewTaskManager(newBrokerPool("verif-root-query"), linmetric.BrokerRegistry)
	c.endpoint[c.root.id] = c.root
	for i := 0; i < layout.Intermediates; i++ {
		e := mk("intermediate", i)
		e.taskMgr = query.NewTaskManager(newBrokerPool(fmt.Sprintf("verif-inter%d-query", i)), linmetric.BrokerRegistry)
		e.processor = query.NewIntermediateTaskProcessor(e.node, c.Watchdog, c.chooser, e.taskMgr, e.transport)
		c.inters = append(c.inters, e)
		c.endpoint[e.id] = e
	}
	for i := range c.Layout.Leaves {
		e := mk("leaf", i)
		if c.Layout.Leaves[i].ID != "" {
			e.id = c.Layout.Leaves[i].ID
			if parsed, err := models.ParseNode(e.id); err == nil {
				if sn, ok := parsed.(*models.StatelessNode); ok {
					e.node = *sn
				}
			}
			e.transport.self, e.factory.self = e.id, e.id
		}
		c.Layout.Leaves[i].ID = e.id
		e.shards = c.Layout.Leaves[i].Shards
		leafNode := e.node
		e.processor = query.NewLeafTaskProcessor(&leafNode, n.Engine, e.factory)
		c.leaves = append(c.leaves, e)
		c.endpoint[e.id] = e
	}
	go c.dispatch()
	return c
}

// Close stops the dispatcher and restores nothing else (the Node stays usable; build a new Cluster to query again).
func (c *Cluster) Close() {
	c.mu.Lock()
	c.closed = true
	c.mu.Unlock()
	c.cond.Broadcast()
	for _, p := range c.pools {
		if p.owned {
			p.inner.Stop()
		}
	}
	// give the database its real pools back
	ep := c.Node.DB.ExecutorPool()
	if p, ok := ep.Filtering.(*countPool); ok && p.c == c {
		ep.Filtering = p.inner
	}
	if p, ok := ep.Grouping.(*countPool); ok && p.c == c {
		ep.Grouping = p.inner
	}
	if p, ok := ep.Scanner.(*countPool); ok && p.c == c {
		ep.Scanner = p.inner
	}
}

// SetScheduler installs the delivery policy (FIFO by default).
func (c *Cluster) SetScheduler(s Scheduler) {
	c.mu.Lock()
	if s == nil {
		s = FIFO{}
	}
	c.sched = s
	c.mu.Unlock()
	c.cond.Broadcast()
}

// Kick makes the dispatcher consult the scheduler again.
func (c *Cluster) Kick() { c.cond.Broadcast() }

// Trace switches recording of transport events on or off and returns what was recorded so far.
func (c *Cluster) Trace(on bool) []string {
	c.mu.Lock()
	defer c.mu.Unlock()
	t := c.trace
	c.trace = nil
	c.traceOn = on
	return t
}

// Stats returns transport counters.
func (c *Cluster) Stats() ClusterStats {
	c.mu.Lock()
	defer c.mu.Unlock()
	return c.stats
}

// LeafIDs returns the node ids of the leaves in layout order.
func (c *Cluster) LeafIDs() []string {
	var ids []string
	for _, l := range c.leaves {
		ids = append(ids, l.id)
	}
	return ids
}

// IntermediateIDs returns the node ids of the intermediate brokers.
func (c *Cluster) IntermediateIDs() []string {
	var ids []string
	for _, l := range c.inters {
		ids = append(ids, l.id)
	}
	return ids
}

// Chooser returns the flow.NodeChoose / broker.StateManager fake of the cluster.
func (c *Cluster) Chooser() *Chooser { return c.chooser }

func (c *Cluster) tracef(format string, args ...interface{}) {
	if c.traceOn {
		c.trace = append(c.trace, fmt.Sprintf(format, args...))
	}
	if len(c.queryTrace) < 200 {
		c.queryTrace = append(c.queryTrace, fmt.Sprintf(format, args...))
	}
}

// begin/end bracket one unit of activity (a delivery, a running processor, a queued or running pool task).
func (c *Cluster) begin() {
	c.mu.Lock()
	c.active++
	c.mu.Unlock()
}

func (c *Cluster) end() {
	c.mu.Lock()
	c.active--
	c.mu.Unlock()
	c.cond.Broadcast()
}

// Quiescent reports whether every request and response handed to the transport has been delivered, no processor is
// running and every worker pool is idle. With held messages (a scheduler returning -1) it is false; see Held.
func (c *Cluster) Quiescent() bool {
	c.mu.Lock()
	defer c.mu.Unlock()
	return c.active == 0 && len(c.pending) == 0
}

// Held reports the number of undelivered messages while nothing else is active (a scheduler is holding them).
func (c *Cluster) Held() int {
	c.mu.Lock()
	defer c.mu.Unlock()
	if c.active == 0 {
		return len(c.pending)
	}
	return 0
}

func (c *Cluster) send(m *Msg) {
	c.mu.Lock()
	c.seq++
	m.Seq = c.seq
	c.pending = append(c.pending, m)
	if m.Kind == Request {
		c.stats.Requests++
	} else {
		c.stats.Responses++
		if m.Resp.ErrMsg != "" {
			c.stats.ErrorResponses++
		}
	}
	c.tracef("send #%d %s %s -> %s", m.Seq, m.Kind, m.From, m.To)
	c.mu.Unlock()
	c.cond.Broadcast()
}

func (c *Cluster) dispatch() {
	for {
		c.mu.Lock()
		var m *Msg
		for {
			if c.closed {
				c.mu.Unlock()
				return
			}
			idx := c.sched.Pick(c.pending, c.active == 0)
			if idx >= 0 && idx < len(c.pending) {
				m = c.pending[idx]
				c.pending = append(c.pending[:idx:idx], c.pending[idx+1:]...)
				c.active++
				c.tracef("deliver #%d %s %s -> %s", m.Seq, m.Kind, m.From, m.To)
				break
			}
			c.cond.Wait()
		}
		pre := c.PreDeliver
		c.mu.Unlock()
		if pre != nil {
			pre(m)
		}
		c.deliver(m)
		c.end()
	}
}

func (c *Cluster) deliver(m *Msg) {
	to := c.endpoint[m.To]
	if to == nil {
		c.mu.Lock()
		c.tracef("drop #%d: unknown node %s", m.Seq, m.To)
		c.mu.Unlock()
		return
	}
	switch m.Kind {
	case Response:
		if to.taskMgr == nil {
			return
		}
		// rpc's task client hands responses to the node's TaskReceiver, which submits to its (counted) worker pool
		_ = to.taskMgr.Receive(m.Resp, m.From)
	case Request:
		if to.processor == nil {
			// not a node that serves requests: what a broker without handler would do - nothing arrives
			return
		}
		stream := &stream{c: c, from: to.id, to: m.From, ctx: context.Background()}
		// A leaf's Process never blocks (it starts the leaf pipeline and returns): it counts as activity. An
		// intermediate's Process blocks in WaitResponse until its leaves answered: counting it would hide a cluster
		// that waits forever, so it is not counted (its CPU phases are covered by the Grace period of Query).
		counted := to.kind == "leaf"
		c.mu.Lock()
		if counted {
			c.stats.LeafProcess++
			c.active++
		} else {
			c.stats.Intermed++
		}
		c.mu.Unlock()
		// query.TaskHandler.process: one pool task per request; errors and panics are answered with an error response
		go func() {
			if counted {
				defer c.end()
			} else {
				gid := goid()
				c.mu.Lock()
				c.waiters[gid] = true
				c.mu.Unlock()
				defer func() {
					c.mu.Lock()
					delete(c.waiters, gid)
					c.mu.Unlock()
					c.cond.Broadcast()
				}()
			}
			taskCtx := flow.NewTaskContextWithTimeout(context.Background(), c.Watchdog)
			sendErr := func(err error) {
				_ = stream.Send(&protoCommonV1.TaskResponse{
					RequestID: m.Req.RequestID,
					Completed: true,
					ErrMsg:    err.Error(),
					SendTime:  commontimeutil.NowNano(),
				})
			}
			defer func() {
				if r := recover(); r != nil {
					sendErr(fmt.Errorf("%v", r))
				}
			}()
			if err := to.processor.Process(taskCtx, stream, m.Req); err != nil {
				sendErr(err)
			}
		}()
	}
}

// ---------------------------------------------------------------------------------------------
// rpc.TransportManager, rpc.TaskServerFactory, server stream

type transport struct {
	c    *Cluster
	self string
}

func (t *transport) SendRequest(targetNodeID string, req *protoCommonV1.TaskRequest) error {
	t.c.send(&Msg{Kind: Request, From: t.self, To: targetNodeID, Req: req})
	return nil
}

func (t *transport) SendResponse(targetNodeID string, resp *protoCommonV1.TaskResponse) error {
	t.c.send(&Msg{Kind: Response, From: t.self, To: targetNodeID, Resp: resp})
	return nil
}

type serverFactory struct {
	c    *Cluster
	self string
}

func (f *serverFactory) GetStream(node string) protoCommonV1.TaskService_HandleServer {
	return &stream{c: f.c, from: f.self, to: node, ctx: context.Background()}
}
func (f *serverFactory) Register(string, protoCommonV1.TaskService_HandleServer) int64 { return 0 }
func (f *serverFactory) Deregister(int64, string) bool                                 { return true }
func (f *serverFactory) Nodes() []models.Node                                          { return nil }

type stream struct {
	grpc.ServerStream
	c        *Cluster
	from, to string
	ctx      context.Context
}

func (s *stream) Context() context.Context { return s.ctx }

func (s *stream) Send(resp *protoCommonV1.TaskResponse) error {
	if e := s.c.endpoint[s.from]; e != nil && e.kind == "leaf" && s.c.OnLeafResult != nil {
		s.c.OnLeafResult(s.from, resp)
	}
	s.c.send(&Msg{Kind: Response, From: s.from, To: s.to, Resp: resp})
	return nil
}

func (s *stream) Recv() (*protoCommonV1.TaskRequest, error) {
	return nil, fmt.Errorf("loopback stream: Recv is not used")
}

var (
	_ rpc.TransportManager  = (*transport)(nil)
	_ rpc.TaskServerFactory = (*serverFactory)(nil)
)

// ---------------------------------------------------------------------------------------------
// counting pool

// countPool wraps a real concurrent.Pool: every submitted task counts as cluster activity from Submit until it has
// run (or panicked). The wrapped task keeps the original panic handler.
type countPool struct {
	c     *Cluster
	inner concurrent.Pool
	owned bool
}

func (c *Cluster) wrapPool(p concurrent.Pool) concurrent.Pool {
	if cp, ok := p.(*countPool); ok {
		// a previous cluster on the same database: re-wrap its inner pool
		p = cp.inner
	}
	cp := &countPool{c: c, inner: p}
	c.pools = append(c.pools, cp)
	return cp
}

func taskPanicHandle(t *concurrent.Task) func(error) {
	v := reflect.ValueOf(t).Elem().FieldByName("panicHandle")
	if !v.IsValid() || v.IsNil() {
		return nil
	}
	h, _ := reflect.NewAt(v.Type(), unsafe.Pointer(v.UnsafeAddr())).Elem().Interface().(func(error))
	return h
}

func (p *countPool) Submit(ctx context.Context, task *concurrent.Task) {
	if task == nil {
		return
	}
	select {
	case <-ctx.Done():
		return // the real pool rejects tasks of a finished context
	default:
	}
	p.c.begin()
	ph := taskPanicHandle(task)
	p.inner.Submit(context.Background(), concurrent.NewTask(func() {
		defer p.c.end()
		task.Exec()
	}, ph))
}

func (p *countPool) Stopped() bool { return p.inner.Stopped() }
func (p *countPool) Stop()         { p.inner.Stop() }

// ---------------------------------------------------------------------------------------------
// chooser

// Chooser is the flow.NodeChoose the root and the intermediates use. It embeds the broker.StateManager interface
// (left nil) and overrides the methods the query path calls, so RootMetricContext.MakePlan takes its
// `Choose.(broker.StateManager)` branch and runs the real calcTimeRangeAndInterval with the database option.
type Chooser struct {
	broker.StateManager
	c *Cluster
}

// GetCurrentNode returns the root node.
func (ch *Chooser) GetCurrentNode() models.StatelessNode { return ch.c.root.node }

// GetLiveNodes returns the intermediate brokers (the nodes compute targets are chosen from).
func (ch *Chooser) GetLiveNodes() []models.StatelessNode {
	var rs []models.StatelessNode
	for _, e := range ch.c.inters {
		rs = append(rs, e.node)
	}
	return rs
}

// GetDatabaseCfg returns the database config (with the engine's option) of the node's database.
func (ch *Chooser) GetDatabaseCfg(name string) (models.Database, bool) {
	if name != ch.c.Node.Opts.Database {
		return models.Database{}, false
	}
	return models.Database{
		Name:          name,
		Option:        ch.c.Node.Opts.DatabaseOption(),
		NumOfShard:    ch.c.Node.NumShards(),
		ReplicaFactor: 1,
	}, true
}

// GetDatabases returns the one database.
func (ch *Chooser) GetDatabases() []models.Database {
	db, _ := ch.GetDatabaseCfg(ch.c.Node.Opts.Database)
	return []models.Database{db}
}

// GetQueryableReplicas returns leaf node id => shard ids of the layout.
func (ch *Chooser) GetQueryableReplicas(name string) (map[string][]models.ShardID, error) {
	if name != ch.c.Node.Opts.Database {
		return nil, nil
	}
	rs := map[string][]models.ShardID{}
	for _, l := range ch.c.leaves {
		rs[l.id] = append([]models.ShardID(nil), l.shards...)
	}
	return rs, nil
}

// Choose mirrors coordinator/broker stateManager.Choose: compute targets (flow.BuildPhysicalPlan over the live
// broker nodes) when more than one node is wanted and more than one storage node holds replicas, otherwise the
// direct plan with one target per storage node.
func (ch *Chooser) Choose(database string, numOfNodes int) ([]*models.PhysicalPlan, error) {
	if ch.c.ChooseFn != nil {
		return ch.c.ChooseFn(ch.c, database, numOfNodes)
	}
	replicas, err := ch.GetQueryableReplicas(database)
	if err != nil {
		return nil, err
	}
	if len(replicas) == 0 {
		return nil, constants.ErrReplicaNotFound
	}
	if numOfNodes > 1 && len(replicas) > 1 && len(ch.c.inters) > 0 {
		if ch.c.Layout.MaxComputeTargets > 0 && numOfNodes > ch.c.Layout.MaxComputeTargets {
			numOfNodes = ch.c.Layout.MaxComputeTargets
		}
		return []*models.PhysicalPlan{flow.BuildPhysicalPlan(database, ch.GetLiveNodes(), numOfNodes)}, nil
	}
	return []*models.PhysicalPlan{ch.LeafPlan(database)}, nil
}

// LeafPlan builds the direct plan: one target per leaf with its shards (targets in leaf id order).
func (ch *Chooser) LeafPlan(database string) *models.PhysicalPlan {
	plan := &models.PhysicalPlan{Database: database}
	ids := make([]string, 0, len(ch.c.leaves))
	byID := map[string]*endpoint{}
	for _, l := range ch.c.leaves {
		ids = append(ids, l.id)
		byID[l.id] = l
	}
	sort.Strings(ids)
	for _, id := range ids {
		plan.AddTarget(&models.Target{Indicator: id, ShardIDs: append([]models.ShardID(nil), byID[id].shards...)})
	}
	return plan
}

// ---------------------------------------------------------------------------------------------
// query

// QueryResult is the outcome of one query through the cluster.
type QueryResult struct {
	SQL       string
	Statement *stmt.Query // the parsed statement; the root's MakePlan has filled TimeRange/Interval/IntervalRatio/StorageInterval
	ResultSet *commonmodels.ResultSet
	Err       error // error returned by sql.Parse or query.MetricDataSearch
	ParseErr  bool  // Err comes from the parser
	// Stuck: the cluster became quiescent (everything delivered, all processors and pools idle) and stayed so for Grace
	// while the root was still waiting. Held > 0 says a scheduler was holding messages at that time.
	Stuck bool
	Held  int
	// TimedOut: the watchdog fired while the cluster was not quiescent (inconclusive, never a verdict).
	TimedOut bool
	Elapsed  time.Duration
	// LateAnswer: the stuck condition was met but the root delivered its result when it was cancelled (observation).
	LateAnswer bool
	// StuckDump holds, for a stuck query, the transport events of the query and the goroutine dump taken when the
	// verdict was reached.
	StuckDump string
}

// Query parses sqlText and runs it as a metric data query: sql.Parse -> query.MetricDataSearch at the root.
func (c *Cluster) Query(sqlText string) *QueryResult {
	res := &QueryResult{SQL: sqlText}
	start := time.Now()
	defer func() { res.Elapsed = time.Since(start) }()
	st, err := sql.Parse(sqlText)
	if err != nil {
		res.Err, res.ParseErr = err, true
		return res
	}
	q, ok := st.(*stmt.Query)
	if !ok {
		res.Err, res.ParseErr = fmt.Errorf("not a metric query statement: %T", st), true
		return res
	}
	res.Statement = q
	return c.run(res, q)
}

// QueryStatement runs an already built statement.
func (c *Cluster) QueryStatement(q *stmt.Query, sqlText string) *QueryResult {
	res := &QueryResult{SQL: sqlText, Statement: q}
	start := time.Now()
	defer func() { res.Elapsed = time.Since(start) }()
	return c.run(res, q)
}

func (c *Cluster) run(res *QueryResult, q *stmt.Query) *QueryResult {
	c.mu.Lock()
	c.queryTrace = nil
	c.mu.Unlock()
	ctx, cancel := context.WithTimeout(context.Background(), c.Watchdog)
	defer cancel()
	type out struct {
		rs  any
		err error
	}
	done := make(chan out, 1)
	go func() {
		gid := goid()
		c.mu.Lock()
		c.waiters[gid] = true
		c.mu.Unlock()
		defer func() {
			c.mu.Lock()
			delete(c.waiters, gid)
			c.mu.Unlock()
		}()
		defer func() {
			if r := recover(); r != nil {
				done <- out{nil, fmt.Errorf("panic in MetricDataSearch: %v", r)}
			}
		}()
		rs, err := query.MetricDataSearch(ctx, &models.ExecuteParam{Database: c.Node.Opts.Database, SQL: res.SQL}, q,
			&query.SearchMgr{
				Timeout:      c.Watchdog,
				CurNode:      c.root.node,
				Choose:       c.chooser,
				TaskMgr:      c.root.taskMgr,
				TransportMgr: c.root.transport,
			})
		done <- out{rs, err}
	}()
	// The root's own planning and its wake-up after the last response are plain CPU work of one goroutine that the
	// harness cannot bracket; the Grace period (re-armed by any activity) covers them.
	tick := time.NewTicker(2 * time.Millisecond)
	defer tick.Stop()
	var quietSince time.Time
	confirmations := 0
	for {
		select {
		case o := <-done:
			res.Err = o.err
			if rs, ok := o.rs.(*commonmodels.ResultSet); ok {
				res.ResultSet = rs
			}
			if o.err != nil && o.err == constants.ErrTimeout {
				res.TimedOut = true
			}
			return res
		case <-tick.C:
			c.mu.Lock()
			idle := c.active == 0
			held := len(c.pending)
			c.mu.Unlock()
			if !idle {
				quietSince = time.Time{}
				confirmations = 0
				continue
			}
			if quietSince.IsZero() {
				quietSince = time.Now()
				continue
			}
			if time.Since(quietSince) >= c.Grace {
				if !c.allWaitersBlocked() {
					// a helper goroutine (the root's search call or an intermediate processor) is still running or
					// runnable: it is working or about to (slow machine), not waiting for a response
					quietSince = time.Time{}
					confirmations = 0
					continue
				}
				// the condition has to be observed three times, a grace period apart, before it becomes a verdict
				if confirmations++; confirmations < 3 {
					quietSince = time.Now()
					continue
				}
				res.Stuck, res.Held = true, held
				buf := make([]byte, 1<<20)
				n := runtime.Stack(buf, true)
				c.mu.Lock()
				res.StuckDump = fmt.Sprintf("transport events of this query: %v\nactive=%d pending=%d\n%s", c.queryTrace, c.active, len(c.pending), buf[:n])
				c.mu.Unlock()
				cancel()
				o := <-done
				res.Err = o.err
				if rs, ok := o.rs.(*commonmodels.ResultSet); ok && o.err == nil {
					// the root did produce its answer after all (it was about to be woken): not stuck
					res.ResultSet, res.Stuck, res.Held, res.LateAnswer = rs, false, 0, true
				}
				return res
			}
		}
	}
}

// goid returns the id of the calling goroutine.
func goid() int64 {
	var buf [64]byte
	n := runtime.Stack(buf[:], false)
	// "goroutine 123 [running]:"
	fields := strings.Fields(string(buf[:n]))
	if len(fields) < 2 {
		return -1
	}
	id, _ := strconv.ParseInt(fields[1], 10, 64)
	return id
}

// allWaitersBlocked reports whether every uncounted helper goroutine (the root's MetricDataSearch call, running
// intermediate processors) is parked in MetricContext.waitResponse, i.e. is waiting for a response. Together with an
// idle transport this is the logical condition "the query can never answer": nothing is in flight, nobody is
// computing, and the waiters wait for messages nobody will send.
func (c *Cluster) allWaitersBlocked() bool {
	c.mu.Lock()
	ids := make([]int64, 0, len(c.waiters))
	for id := range c.waiters {
		ids = append(ids, id)
	}
	c.mu.Unlock()
	if len(ids) == 0 {
		return false
	}
	buf := make([]byte, 4<<20)
	n := runtime.Stack(buf, true)
	blocks := strings.Split(string(buf[:n]), "\n\n")
	for _, id := range ids {
		prefix := fmt.Sprintf("goroutine %d [", id)
		found := false
		for _, b := range blocks {
			if !strings.HasPrefix(b, prefix) {
				continue
			}
			found = true
			state := b[len(prefix):]
			if i := strings.IndexByte(state, ']'); i >= 0 {
				state = state[:i]
			}
			if !(strings.HasPrefix(state, "select") || strings.HasPrefix(state, "chan receive")) {
				return false
			}
			if !strings.Contains(b, "waitResponse") {
				return false
			}
		}
		if !found {
			return false
		}
	}
	return true
}

// WaitQuiescent blocks until the cluster is quiescent or the timeout (a watchdog) expires.
func (c *Cluster) WaitQuiescent(timeout time.Duration) bool {
	deadline := time.Now().Add(timeout)
	for time.Now().Before(deadline) {
		if c.Quiescent() {
			return true
		}
		time.Sleep(time.Millisecond)
	}
	return c.Quiescent()
}
