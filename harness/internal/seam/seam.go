// Package seam installs wrappers into lindb's function-variable seams (through the verif hooks) so that
// every mutating file-system operation of kv, kv/version, kv/table, pkg/queue and the index sequence
// file runs through an Interceptor (normally an imgfs.World, which images the directory after each
// operation). It also lets engines observe/delay selected operations (delete, unmap, list).
package seam

import (
	"os"
	"sync"

	"github.com/lindb/lindb/index"
	"github.com/lindb/lindb/kv"
	"github.com/lindb/lindb/kv/table"
	"github.com/lindb/lindb/kv/version"
	"github.com/lindb/lindb/pkg/bufioutil"
	"github.com/lindb/lindb/pkg/lockers"
	"github.com/lindb/lindb/pkg/queue"
	"github.com/lindb/lindb/pkg/queue/page"
)

// Interceptor runs an operation (imgfs.World.Do has this shape).
type Interceptor interface {
	Do(label string, op func() error) error
}

// Direct is an Interceptor that just runs the operation.
type Direct struct{}

// Do runs op.
func (Direct) Do(_ string, op func() error) error { return op() }

// Observer gets called around selected operations (outside the interceptor's lock for Before*,
// so it may sleep to widen windows). Any field may be nil.
type Observer struct {
	AfterListDir    func(path string, names []string)
	BeforeRemove    func(path string)                                  // kv.removeFunc (manifest files)
	BeforeRemoveDir func(path string)                                  // kv.removeDirFunc (table files)
	AfterMap        func(path string)                                  // table file mapped
	BeforeUnmap     func(path string)                                  // table file about to be unmapped
	AfterUnmap      func(path string)                                  // table file unmapped
	PageWrite       func(path string, kind string, offset, length int) // before a store into a queue page
	PageWriteData   func(path string, offset int, data []byte)         // before the payload store of an append (may block)
	PageWriteDone   func()                                             // after the payload store of an append
}

// NoFsync makes wrapped buffered writers skip the fsync(2) of Sync (the flush to the kernel still happens).
var NoFsync bool

var (
	mu       sync.Mutex
	origKV   *kv.VerifSeams
	origVer  *version.VerifSeams
	origTbl  *table.VerifSeams
	origIdx  *index.VerifSeams
	origPage func(path string, pageSize int) (page.Factory, error)
)

func saveOrig() {
	if origKV == nil {
		a := kv.VerifGetSeams()
		origKV = &a
		b := version.VerifGetSeams()
		origVer = &b
		c := table.VerifGetSeams()
		origTbl = &c
		d := index.VerifGetSeams()
		origIdx = &d
		origPage = queue.VerifGetPageFactory()
	}
}

// Restore puts the original lindb functions back.
func Restore() {
	mu.Lock()
	defer mu.Unlock()
	if origKV == nil {
		return
	}
	kv.VerifSetSeams(*origKV)
	version.VerifSetSeams(*origVer)
	table.VerifSetSeams(*origTbl)
	index.VerifSetSeams(*origIdx)
	queue.VerifSetPageFactory(origPage)
}

// InstallKV routes the kv, kv/version and kv/table seams through ic and obs.
func InstallKV(ic Interceptor, obs *Observer) {
	mu.Lock()
	defer mu.Unlock()
	saveOrig()
	if obs == nil {
		obs = &Observer{}
	}
	okv, over, otbl := *origKV, *origVer, *origTbl
	kv.VerifSetSeams(kv.VerifSeams{
		MkDir: func(path string) error {
			return ic.Do("mkdir "+path, func() error { return okv.MkDir(path) })
		},
		EncodeToml: func(fileName string, v interface{}) error {
			return ic.Do("toml "+fileName, func() error { return okv.EncodeToml(fileName, v) })
		},
		NewFileLock: func(fileName string) (lockers.FileLock, error) {
			var l lockers.FileLock
			err := ic.Do("lockfile "+fileName, func() error {
				var e error
				l, e = okv.NewFileLock(fileName)
				return e
			})
			return l, err
		},
		ListDir: func(path string) ([]string, error) {
			names, err := okv.ListDir(path)
			if obs.AfterListDir != nil {
				obs.AfterListDir(path, names)
			}
			return names, err
		},
		Remove: func(name string) error {
			if obs.BeforeRemove != nil {
				obs.BeforeRemove(name)
			}
			return ic.Do("remove "+name, func() error { return okv.Remove(name) })
		},
		RemoveDir: func(path string) error {
			if obs.BeforeRemoveDir != nil {
				obs.BeforeRemoveDir(path)
			}
			return ic.Do("removedir "+path, func() error { return okv.RemoveDir(path) })
		},
	})
	version.VerifSetSeams(version.VerifSeams{
		NewBufferWriter: func(fileName string) (bufioutil.BufioWriter, error) {
			var w bufioutil.BufioWriter
			err := ic.Do("create "+fileName, func() error {
				var e error
				w, e = over.NewBufferWriter(fileName)
				return e
			})
			if err != nil {
				return nil, err
			}
			return &bufWriter{real: w, ic: ic, name: fileName}, nil
		},
		WriteFile: func(name string, data []byte, perm os.FileMode) error {
			return ic.Do("writefile "+name, func() error { return over.WriteFile(name, data, perm) })
		},
		Rename: func(oldpath, newpath string) error {
			return ic.Do("rename "+oldpath+" "+newpath, func() error { return over.Rename(oldpath, newpath) })
		},
	})
	table.VerifSetSeams(table.VerifSeams{
		NewBufioWriter: func(fileName string) (bufioutil.BufioWriter, error) {
			var w bufioutil.BufioWriter
			err := ic.Do("create "+fileName, func() error {
				var e error
				w, e = otbl.NewBufioWriter(fileName)
				return e
			})
			if err != nil {
				return nil, err
			}
			return &bufWriter{real: w, ic: ic, name: fileName}, nil
		},
		Map: func(f *os.File) ([]byte, error) {
			data, err := otbl.Map(f)
			if err == nil && obs.AfterMap != nil {
				obs.AfterMap(f.Name())
			}
			return data, err
		},
		Unmap: func(f *os.File, data []byte) error {
			name := f.Name()
			if obs.BeforeUnmap != nil {
				obs.BeforeUnmap(name)
			}
			err := otbl.Unmap(f, data)
			if obs.AfterUnmap != nil {
				obs.AfterUnmap(name)
			}
			return err
		},
	})
}

// bufWriter wraps a lindb BufioWriter; every call that can reach the file system goes through the interceptor.
type bufWriter struct {
	real bufioutil.BufioWriter
	ic   Interceptor
	name string
}

func (b *bufWriter) Write(p []byte) (n int, err error) {
	err = b.ic.Do("write "+b.name, func() error {
		var e error
		n, e = b.real.Write(p)
		return e
	})
	return n, err
}

func (b *bufWriter) Close() error {
	return b.ic.Do("close "+b.name, func() error { return b.real.Close() })
}

func (b *bufWriter) Reset(fileName string) error {
	err := b.ic.Do("reset "+fileName, func() error { return b.real.Reset(fileName) })
	if err == nil {
		b.name = fileName
	}
	return err
}

func (b *bufWriter) Sync() error {
	if NoFsync {
		// Flush hands the buffered bytes to the kernel exactly like Sync does; only the fsync(2) is skipped.
		// Under the process-kill fault model (page cache survives) both leave the same crash states.
		return b.ic.Do("sync "+b.name, func() error { return b.real.Flush() })
	}
	return b.ic.Do("sync "+b.name, func() error { return b.real.Sync() })
}

func (b *bufWriter) Flush() error {
	return b.ic.Do("flush "+b.name, func() error { return b.real.Flush() })
}

func (b *bufWriter) Size() int64 { return b.real.Size() }

// InstallIndexSequence routes the index sequence file's sync through ic.
func InstallIndexSequence(ic Interceptor) {
	mu.Lock()
	defer mu.Unlock()
	saveOrig()
	oidx := *origIdx
	index.VerifSetSeams(index.VerifSeams{
		RWMap: func(f *os.File, size int) ([]byte, error) {
			var data []byte
			err := ic.Do("seqmap "+f.Name(), func() error {
				var e error
				data, e = oidx.RWMap(f, size)
				return e
			})
			return data, err
		},
		Sync: func(data []byte) error {
			return ic.Do("seqsync", func() error { return oidx.Sync(data) })
		},
	})
}

// InstallQueuePages wraps every mapped page of every queue created from now on.
func InstallQueuePages(ic Interceptor, obs *Observer) {
	mu.Lock()
	defer mu.Unlock()
	saveOrig()
	if obs == nil {
		obs = &Observer{}
	}
	orig := origPage
	queue.VerifSetPageFactory(func(path string, pageSize int) (page.Factory, error) {
		var f page.Factory
		err := ic.Do("pagefactory "+path, func() error {
			var e error
			f, e = orig(path, pageSize)
			return e
		})
		if err != nil {
			return nil, err
		}
		return &pageFactory{Factory: f, ic: ic, obs: obs, pages: map[int64]*mappedPage{}}, nil
	})
}

type pageFactory struct {
	page.Factory
	ic    Interceptor
	obs   *Observer
	mu    sync.Mutex
	pages map[int64]*mappedPage
}

func (f *pageFactory) wrap(index int64, p page.MappedPage) page.MappedPage {
	f.mu.Lock()
	defer f.mu.Unlock()
	if w, ok := f.pages[index]; ok && w.MappedPage == p {
		return w
	}
	w := &mappedPage{MappedPage: p, ic: f.ic, obs: f.obs}
	f.pages[index] = w
	return w
}

func (f *pageFactory) AcquirePage(index int64) (page.MappedPage, error) {
	var p page.MappedPage
	err := f.ic.Do("acquirepage", func() error {
		var e error
		p, e = f.Factory.AcquirePage(index)
		return e
	})
	if err != nil {
		return nil, err
	}
	return f.wrap(index, p), nil
}

func (f *pageFactory) GetPage(index int64) (page.MappedPage, bool) {
	p, ok := f.Factory.GetPage(index)
	if !ok {
		return nil, false
	}
	return f.wrap(index, p), true
}

func (f *pageFactory) TruncatePages(index int64) {
	_ = f.ic.Do("truncatepages", func() error { f.Factory.TruncatePages(index); return nil })
}

func (f *pageFactory) Close() error {
	return f.ic.Do("closefactory", func() error { return f.Factory.Close() })
}

type mappedPage struct {
	page.MappedPage
	ic  Interceptor
	obs *Observer
}

func (p *mappedPage) WriteBytes(data []byte, offset int) {
	if p.obs.PageWrite != nil {
		p.obs.PageWrite(p.FilePath(), "bytes", offset, len(data))
	}
	if p.obs.PageWriteData != nil {
		p.obs.PageWriteData(p.FilePath(), offset, data)
	}
	_ = p.ic.Do("page.bytes "+p.FilePath(), func() error { p.MappedPage.WriteBytes(data, offset); return nil })
	if p.obs.PageWriteDone != nil {
		p.obs.PageWriteDone()
	}
}

func (p *mappedPage) PutUint64(value uint64, offset int) {
	if p.obs.PageWrite != nil {
		p.obs.PageWrite(p.FilePath(), "u64", offset, 8)
	}
	_ = p.ic.Do("page.u64 "+p.FilePath(), func() error { p.MappedPage.PutUint64(value, offset); return nil })
}

func (p *mappedPage) PutUint32(value uint32, offset int) {
	if p.obs.PageWrite != nil {
		p.obs.PageWrite(p.FilePath(), "u32", offset, 4)
	}
	_ = p.ic.Do("page.u32 "+p.FilePath(), func() error { p.MappedPage.PutUint32(value, offset); return nil })
}

func (p *mappedPage) PutUint8(value uint8, offset int) {
	if p.obs.PageWrite != nil {
		p.obs.PageWrite(p.FilePath(), "u8", offset, 1)
	}
	_ = p.ic.Do("page.u8 "+p.FilePath(), func() error { p.MappedPage.PutUint8(value, offset); return nil })
}

func (p *mappedPage) Sync() error {
	return p.ic.Do("page.sync "+p.FilePath(), func() error { return p.MappedPage.Sync() })
}

func (p *mappedPage) Close() error {
	return p.ic.Do("page.close "+p.FilePath(), func() error { return p.MappedPage.Close() })
}
