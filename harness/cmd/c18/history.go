package main

// Part 2 of C18: the real master state manager on an in-memory repository, driven synchronously with
// discovery events produced by a generated "world" (storage nodes registering / dying, users saving /
// growing / dropping databases, the master's own writes on the assignment prefix coming back as
// watch events). After EVERY delivered event the invariants are evaluated on GetStorageState().

import (
	"context"
	"encoding/json"
	"fmt"
	"hash/fnv"
	"math/rand"
	"sort"
	"strconv"
	"strings"

	"go.uber.org/zap"
	"go.uber.org/zap/zapcore"

	"github.com/lindb/common/pkg/encoding"
	"github.com/lindb/common/pkg/logger"

	"github.com/lindb/lindb/constants"
	"github.com/lindb/lindb/coordinator/discovery"
	"github.com/lindb/lindb/coordinator/master"
	"github.com/lindb/lindb/models"

	"github.com/lindb/lindb/verif/internal/core"
)

// ---- capture of error-level log lines of lindb (a recovered panic in processEvent is only visible there)

var errorLogs []string

type capCore struct{}

func (capCore) Enabled(l zapcore.Level) bool        { return l >= zapcore.ErrorLevel }
func (c capCore) With([]zapcore.Field) zapcore.Core { return c }
func (c capCore) Check(e zapcore.Entry, ce *zapcore.CheckedEntry) *zapcore.CheckedEntry {
	if c.Enabled(e.Level) {
		return ce.AddCore(e, c)
	}
	return ce
}
func (capCore) Write(e zapcore.Entry, fields []zapcore.Field) error {
	enc := zapcore.NewMapObjectEncoder()
	for _, f := range fields {
		if f.Key == "err" || f.Key == "error" {
			f.AddTo(enc)
		}
	}
	errorLogs = append(errorLogs, fmt.Sprintf("%s %v", e.Message, enc.Fields))
	return nil
}
func (capCore) Sync() error { return nil }

func installLogCapture() { logger.DefaultLogger.Store(zap.New(capCore{})) }

// ---- snapshots of the exposed state

type shardSnap struct {
	DB       string `json:"db"`
	ID       int    `json:"shard"`
	Replicas []int  `json:"replicas"`
	State    int    `json:"state"` // models.ShardStateType: 2 online, 3 offline
	Leader   int    `json:"leader"`
}

type snap struct {
	Live   []int                    `json:"live_nodes"`
	Shards []shardSnap              `json:"shard_states"`
	Assign map[string]map[int][]int `json:"shard_assignments"`
}

func takeSnap(st *models.StorageState) *snap {
	s := &snap{Assign: map[string]map[int][]int{}}
	for id := range st.LiveNodes {
		s.Live = append(s.Live, int(id))
	}
	sort.Ints(s.Live)
	for db, shards := range st.ShardStates {
		for id, sh := range shards {
			s.Shards = append(s.Shards, shardSnap{DB: db, ID: int(id), Replicas: ints(sh.Replica.Replicas), State: int(sh.State), Leader: int(sh.Leader)})
			if int(sh.ID) != int(id) {
				s.Shards[len(s.Shards)-1].ID = int(id)
				s.Shards[len(s.Shards)-1].State = -1000 - int(sh.ID) // flagged by the oracle as a malformed state
			}
		}
	}
	sort.Slice(s.Shards, func(i, j int) bool {
		if s.Shards[i].DB != s.Shards[j].DB {
			return s.Shards[i].DB < s.Shards[j].DB
		}
		return s.Shards[i].ID < s.Shards[j].ID
	})
	for db, sa := range st.ShardAssignments {
		m := map[int][]int{}
		if sa != nil {
			for id, r := range sa.Shards {
				if r != nil {
					m[int(id)] = ints(r.Replicas)
				} else {
					m[int(id)] = nil
				}
			}
		}
		s.Assign[db] = m
	}
	return s
}

func (s *snap) hasLive(n int) bool {
	i := sort.SearchInts(s.Live, n)
	return i < len(s.Live) && s.Live[i] == n
}

func (s *snap) digest(h *uint64) {
	f := fnv.New64a()
	fmt.Fprint(f, *h, s.Live)
	for _, sh := range s.Shards {
		fmt.Fprint(f, sh.DB, sh.ID, sh.Replicas, sh.State, sh.Leader)
	}
	*h = f.Sum64()
}

func sameInts(a, b []int) bool {
	if len(a) != len(b) {
		return false
	}
	for i := range a {
		if a[i] != b[i] {
			return false
		}
	}
	return true
}

func containsInt(a []int, v int) bool {
	for _, x := range a {
		if x == v {
			return true
		}
	}
	return false
}

// ---- result of a worker

type childViolation struct {
	Class   string `json:"class"`
	Message string `json:"message"`
	Witness any    `json:"witness"`
	Count   int    `json:"count"`
}

type childResult struct {
	Counters   map[string]int64           `json:"counters"`
	Nontrivial []string                   `json:"nontrivial"`
	Violations map[string]*childViolation `json:"violations"`
	Digests    map[int]uint64             `json:"digests"`
	Samples    []any                      `json:"samples"`
	Evals      int64                      `json:"evals"`
	MaxLen     int                        `json:"max_len"`
	Done       bool                       `json:"done"`
}

func newChildResult() *childResult {
	return &childResult{Counters: map[string]int64{}, Violations: map[string]*childViolation{}, Digests: map[int]uint64{}}
}

func (r *childResult) count(name string, n int) { r.Counters["p2_"+name] += int64(n) }

func (r *childResult) violation(class, msg string, witness func() any) {
	if v, ok := r.Violations[class]; ok {
		v.Count++
		return
	}
	r.Violations[class] = &childViolation{Class: class, Message: msg, Witness: witness(), Count: 1}
}

// ---- the world

const (
	qNodes = iota
	qCfg
	qAssign
)

type qev struct {
	seq int
	ev  *discovery.Event
}

type world struct {
	idx     int
	rnd     *rand.Rand
	repo    *memRepo
	sm      master.StateManager
	res     *childResult
	verbose bool

	pool   []int    // node ids this history plays with
	dbs    []string // database names
	lagged bool

	seq       int
	queues    [3][]qev
	delivered int
	expLive   map[int]bool // nodes whose last DELIVERED node event was a start-up
	clock     int64

	prev *snap
	log  []logEntry
	sig  []byte // signature of the history (event kinds + transitions) for distinctness
	hash uint64

	interesting bool
	staleAssign map[string][]byte  // assignment record that survived a drop the master handled (a defect): the next create is judged as a fresh creation
	dropped     map[string]dropRec // what the master knew about a database when it handled its drop
	recreate    bool               // the config event being handled (re-)creates a database over such a stale record
	length      int                // target number of delivered events (<= 60)
	synced      bool               // the CURRENT master has written /storage/state at least once
	failovers   int
	badPrev     map[string]bool // invariant breaks present after the previous event (reported once, at the event that introduced them)
	badNow      map[string]bool
}

type dropRec struct {
	shards, rf int
	live       []int
}

// flag reports a broken invariant, classed by the event after which it FIRST shows in this history.
func (w *world) flag(kind, subject string, et discovery.EventType, msg string, wit func() any) {
	w.badNow[kind+"|"+subject] = true
	if w.badPrev[kind+"|"+subject] {
		return
	}
	w.res.violation(kind+"/after-"+et.String(), msg, wit)
}

func (w *world) flagShard(kind string, sh *shardSnap, cur *snap, et discovery.EventType, msg string, wit func() any) {
	w.flag(kind, sh.DB+"/"+strconv.Itoa(sh.ID), et,
		fmt.Sprintf("%s: %s/%d replicas=%v live=%v leader=%d state=%d", msg, sh.DB, sh.ID, sh.Replicas, cur.Live, sh.Leader, sh.State), wit)
}

func livePath(id int) string { return constants.GetStorageLiveNodePath(strconv.Itoa(id)) }

// logEntry is formatted only when somebody reads the log (witness, sample, verbose re-run).
type logEntry struct {
	format string
	args   []any
}

func (w *world) logf(format string, args ...any) {
	w.log = append(w.log, logEntry{format, args})
	if w.verbose {
		fmt.Printf(format+"\n", args...)
	}
}

func (w *world) logLines() []string {
	out := make([]string, len(w.log))
	for i, e := range w.log {
		out[i] = fmt.Sprintf(e.format, e.args...)
	}
	return out
}

type lazyEvent struct{ ev *discovery.Event }

func (l lazyEvent) String() string { return describe(l.ev) }

func (w *world) witness(ev *discovery.Event, cur *snap, extra any) func() any {
	return func() any {
		return map[string]any{
			"history_index": w.idx, "lagged_delivery": w.lagged, "node_pool": w.pool,
			"how_to_rerun":  fmt.Sprintf("VERIF_SEED=<seed> bin/c18 history %d", w.idx),
			"event":         describe(ev),
			"state_before":  w.prev,
			"state_after":   cur,
			"log":           w.logLines(),
			"extra":         extra,
			"repo_live_now": w.repoLive(),
		}
	}
}

func describe(ev *discovery.Event) string {
	if ev == nil {
		return ""
	}
	v := string(ev.Value)
	if len(v) > 300 {
		v = v[:300] + "..."
	}
	return fmt.Sprintf("%s key=%s value=%s", ev.Type.String(), ev.Key, v)
}

// route turns repository mutations on watched prefixes into queued discovery events (what etcd watches would deliver).
func (w *world) route(ops []repoOp, origin string) {
	for _, op := range ops {
		var q int
		var put, del discovery.EventType
		switch {
		case strings.HasPrefix(op.Key, constants.StorageLiveNodesPath+"/"):
			q, put, del = qNodes, discovery.NodeStartup, discovery.NodeFailure
		case strings.HasPrefix(op.Key, constants.DatabaseConfigPath+"/"):
			q, put, del = qCfg, discovery.DatabaseConfigChanged, discovery.DatabaseConfigDeletion
		case strings.HasPrefix(op.Key, constants.ShardAssignmentPath+"/"):
			q, put, del = qAssign, discovery.ShardAssignmentChanged, discovery.ShardAssignmentDeletion
		default:
			continue
		}
		if op.Del {
			if !op.Existed {
				continue
			}
			w.enqueue(q, &discovery.Event{Type: del, Key: op.Key}, origin)
		} else {
			w.enqueue(q, &discovery.Event{Type: put, Key: op.Key, Value: op.Val}, origin)
		}
	}
}

func (w *world) enqueue(q int, ev *discovery.Event, origin string) {
	w.seq++
	w.queues[q] = append(w.queues[q], qev{w.seq, ev})
	w.logf("  queue[%d] #%d (%s) %s", q, w.seq, origin, lazyEvent{ev})
}

func (w *world) pending() int { return len(w.queues[0]) + len(w.queues[1]) + len(w.queues[2]) }

func (w *world) put(key string, val []byte) {
	_ = w.repo.Put(context.TODO(), key, val)
	w.route(w.repo.takeOps(), "world")
}

func (w *world) del(key string) {
	_ = w.repo.Delete(context.TODO(), key)
	w.route(w.repo.takeOps(), "world")
}

// repoLive lists the ids registered under /storage/live/nodes in the repository (key suffix = node id, see the assumptions).
func (w *world) repoLive() []int {
	kvs, _ := w.repo.List(context.TODO(), constants.StorageLiveNodesPath+"/")
	out := make([]int, 0, len(kvs))
	for _, kv := range kvs {
		if id, err := strconv.Atoi(kv.Key[strings.LastIndex(kv.Key, "/")+1:]); err == nil {
			out = append(out, id)
		}
	}
	return out
}

func (w *world) registered(id int) bool {
	_, ok := w.repo.peek(livePath(id))
	return ok
}

func (w *world) nodeUp(id int) {
	w.clock++
	n := models.StatefulNode{StatelessNode: models.StatelessNode{HostIP: fmt.Sprintf("10.0.0.%d", id), HostName: fmt.Sprintf("s%d", id),
		GRPCPort: 2891, HTTPPort: 2892, OnlineTime: w.clock}, ID: models.NodeID(id)}
	data, _ := json.Marshal(&n)
	w.logf("world: storage node %d registers", id)
	w.put(livePath(id), data)
}

func (w *world) nodeDown(id int) {
	w.logf("world: storage node %d loses its registration", id)
	w.del(livePath(id))
}

func (w *world) repoCfg(name string) *models.Database {
	data, ok := w.repo.peek(constants.GetDatabaseConfigPath(name))
	if !ok {
		return nil
	}
	cfg := &models.Database{}
	if json.Unmarshal(data, cfg) != nil {
		return nil
	}
	return cfg
}

func (w *world) repoAssign(name string) *models.ShardAssignment {
	data, ok := w.repo.peek(constants.GetDatabaseAssignPath(name))
	if !ok {
		return nil
	}
	sa := &models.ShardAssignment{}
	if json.Unmarshal(data, sa) != nil {
		return nil
	}
	return sa
}

func (w *world) saveCfg(cfg *models.Database, what string) {
	data, _ := json.Marshal(cfg)
	w.logf("world: %s database %s shards=%d replicaFactor=%d", what, cfg.Name, cfg.NumOfShard, cfg.ReplicaFactor)
	w.put(constants.GetDatabaseConfigPath(cfg.Name), data)
}

// act performs one world action.
func (w *world) act() {
	r := w.rnd
	p := r.Intn(100)
	switch {
	case p < 20: // node up (or re-registration of a registered node)
		w.nodeUp(w.pool[r.Intn(len(w.pool))])
	case p < 40: // node down; for a node that is not registered: a repeated / stale failure event
		id := w.pool[r.Intn(len(w.pool))]
		if w.registered(id) {
			w.nodeDown(id)
		} else if r.Intn(2) == 0 {
			w.logf("world: repeated failure notification for node %d (not registered)", id)
			w.enqueue(qNodes, &discovery.Event{Type: discovery.NodeFailure, Key: livePath(id)}, "stale")
		} else {
			w.nodeUp(id)
		}
	case p < 43: // failure of a node nobody knows / unparsable key
		switch r.Intn(3) {
		case 0:
			w.enqueue(qNodes, &discovery.Event{Type: discovery.NodeFailure, Key: livePath(900 + r.Intn(5))}, "unknown-node")
		case 1:
			w.enqueue(qNodes, &discovery.Event{Type: discovery.NodeFailure, Key: constants.StorageLiveNodesPath + "/not-a-number"}, "bad-key")
		default:
			w.enqueue(qNodes, &discovery.Event{Type: discovery.NodeFailure, Key: constants.StorageLiveNodesPath + "/-1"}, "bad-key")
		}
	case p < 49: // flap: registers and dies (and maybe returns) before the master hears anything
		id := w.pool[r.Intn(len(w.pool))]
		w.nodeUp(id)
		w.nodeDown(id)
		if r.Intn(2) == 0 {
			w.nodeUp(id)
		}
	case p < 51 && w.failovers < 2 && w.delivered+w.pending()+20 < w.length: // the master dies; a fresh state manager starts on the same repository
		w.failover()
	case p < 59: // kill every registered replica of one shard / everything
		st := w.sm.GetStorageState()
		var targets []int
		if r.Intn(4) == 0 || len(st.ShardStates) == 0 {
			targets = w.repoLive()
		} else {
			cur := takeSnap(st)
			if len(cur.Shards) > 0 {
				targets = cur.Shards[r.Intn(len(cur.Shards))].Replicas
			}
		}
		for _, id := range targets {
			if w.registered(id) {
				w.nodeDown(id)
			}
		}
	case p < 64: // bring back one replica of an offline shard
		cur := takeSnap(w.sm.GetStorageState())
		var off []shardSnap
		for _, sh := range cur.Shards {
			if sh.State == int(models.OfflineShard) && len(sh.Replicas) > 0 {
				off = append(off, sh)
			}
		}
		if len(off) == 0 {
			w.nodeUp(w.pool[r.Intn(len(w.pool))])
			return
		}
		sh := off[r.Intn(len(off))]
		w.nodeUp(sh.Replicas[r.Intn(len(sh.Replicas))])
	case p < 86: // save a database: create / grow / re-save / shrink
		name := w.dbs[r.Intn(len(w.dbs))]
		if r.Intn(2) == 0 { // prefer giving a dropped name a new life (same name, new shape, whatever nodes are alive now)
			for _, d := range w.dbs {
				if _, was := w.dropped[d]; was && w.repoCfg(d) == nil {
					name = d
				}
			}
		}
		cfg := w.repoCfg(name)
		if cfg == nil {
			n := 1 + r.Intn(24)
			if r.Intn(2) == 0 {
				n = 1 + r.Intn(6)
			}
			rf := 1 + r.Intn(3)
			if r.Intn(8) == 0 {
				rf = 1 + r.Intn(len(w.pool)+1)
			}
			w.saveCfg(&models.Database{Name: name, NumOfShard: n, ReplicaFactor: rf}, "create")
			return
		}
		switch q := r.Intn(100); {
		case q < 65:
			cfg.NumOfShard += 1 + r.Intn(6)
			if q < 10 {
				cfg.ReplicaFactor = 1 + r.Intn(4)
			}
			w.saveCfg(cfg, "grow")
		case q < 92:
			w.saveCfg(cfg, "re-save")
		default:
			if cfg.NumOfShard > 1 {
				cfg.NumOfShard -= 1 + r.Intn(cfg.NumOfShard-1)
			}
			w.saveCfg(cfg, "shrink")
		}
	case p < 91: // drop database as the broker's "drop database" does: config, then assignment
		// (the second delete is redundant with the master's own DropDatabaseAssignment; half of the drops leave it to the master,
		// as when the broker fails between its two deletes)
		name := w.dbs[r.Intn(len(w.dbs))]
		if r.Intn(2) == 0 {
			w.logf("world: drop database %s (config and assignment record)", name)
			w.del(constants.GetDatabaseConfigPath(name))
			w.del(constants.GetDatabaseAssignPath(name))
		} else {
			w.logf("world: drop database %s (config only; the assignment record is the master's to remove)", name)
			w.del(constants.GetDatabaseConfigPath(name))
		}
	case p < 95: // somebody writes an assignment by hand (contiguous shard ids, arbitrary nodes incl. dead / unknown)
		name := w.dbs[r.Intn(len(w.dbs))]
		if r.Intn(5) == 0 {
			name = "orphan"
		}
		delete(w.staleAssign, name)
		sa := models.NewShardAssignment(name)
		univ := append(append([]int(nil), w.pool...), 777, 778)
		k := 1 + r.Intn(6)
		for s := 0; s < k; s++ {
			perm := r.Perm(len(univ))
			for j := 0; j < 1+r.Intn(3) && j < len(perm); j++ {
				sa.AddReplica(models.ShardID(s), models.NodeID(univ[perm[j]]))
			}
		}
		data, _ := json.Marshal(sa)
		w.logf("world: hand-written assignment for %s: %s", name, data)
		w.put(constants.GetDatabaseAssignPath(name), data)
	default: // malformed input
		switch r.Intn(5) {
		case 0:
			w.enqueue(qNodes, &discovery.Event{Type: discovery.NodeStartup, Key: livePath(w.pool[0]), Value: []byte("{not json")}, "malformed")
		case 1:
			w.enqueue(qCfg, &discovery.Event{Type: discovery.DatabaseConfigChanged, Key: constants.GetDatabaseConfigPath("bad"), Value: []byte("[1,2")}, "malformed")
		case 2:
			w.enqueue(qCfg, &discovery.Event{Type: discovery.DatabaseConfigChanged, Key: constants.GetDatabaseConfigPath(""), Value: []byte(`{"name":"","numOfShard":3,"replicaFactor":1}`)}, "malformed")
		case 3:
			w.enqueue(qAssign, &discovery.Event{Type: discovery.ShardAssignmentChanged, Key: constants.GetDatabaseAssignPath("bad"), Value: []byte("{{")}, "malformed")
		default: // an event type the master does not handle
			w.enqueue(qCfg, &discovery.Event{Type: discovery.StorageStateChanged, Key: constants.StorageStatePath, Value: []byte("{}")}, "foreign")
		}
	}
}

// failover replaces the state manager by a fresh one (new elected master). Its state machines list every
// watched prefix and emit one event per existing key; what was queued for the old master is gone.
func (w *world) failover() {
	w.failovers++
	w.res.count("master_failovers", 1)
	w.logf("world: master fails over - a fresh state manager starts on the same repository and replays every watched key")
	w.sm.Close()
	w.sm = master.NewStateManager(context.Background(), w.repo, nil)
	w.queues = [3][]qev{}
	w.expLive = map[int]bool{}
	w.prev = takeSnap(w.sm.GetStorageState())
	w.badPrev = nil
	w.synced = false
	for _, pre := range []string{constants.StorageLiveNodesPath, constants.DatabaseConfigPath, constants.ShardAssignmentPath} {
		kvs, _ := w.repo.List(context.TODO(), pre+"/")
		for _, kv := range kvs {
			w.route([]repoOp{{Key: kv.Key, Val: kv.Value}}, "initial listing")
		}
	}
}

func (w *world) deliverNext() {
	q := -1
	if w.lagged {
		var nonEmpty []int
		for i := range w.queues {
			if len(w.queues[i]) > 0 {
				nonEmpty = append(nonEmpty, i)
			}
		}
		if len(nonEmpty) == 0 {
			return
		}
		q = nonEmpty[w.rnd.Intn(len(nonEmpty))]
	} else {
		best := 1 << 60
		for i := range w.queues {
			if len(w.queues[i]) > 0 && w.queues[i][0].seq < best {
				best, q = w.queues[i][0].seq, i
			}
		}
		if q < 0 {
			return
		}
	}
	e := w.queues[q][0]
	w.queues[q] = w.queues[q][1:]
	w.deliver(e)
}

func nameFromKey(key, prefix string) string { return strings.TrimPrefix(key, prefix+"/") }

// deliver feeds one event into the real state manager and evaluates every oracle afterwards.
func (w *world) deliver(e qev) {
	ev := e.ev
	res := w.res
	w.delivered++
	w.logf("deliver #%d %s", e.seq, lazyEvent{ev})
	res.count("events_"+ev.Type.String(), 1)

	// what the event is about
	evDB, evNode, evNodeOK := "", 0, false
	var cfg *models.Database
	var before *models.ShardAssignment
	var liveRepo []int
	var knownDrop *dropRec
	recordBeforeDrop := false
	w.recreate = false
	switch ev.Type {
	case discovery.NodeStartup:
		var n models.StatefulNode
		if json.Unmarshal(ev.Value, &n) == nil {
			evNode, evNodeOK = int(n.ID), true
			w.expLive[evNode] = true
		}
	case discovery.NodeFailure:
		i := strings.LastIndex(ev.Key, "/")
		if id, err := strconv.ParseInt(ev.Key[i+1:], 10, 64); err == nil {
			evNode, evNodeOK = int(id), true
			delete(w.expLive, evNode)
		}
	case discovery.DatabaseConfigChanged:
		c := &models.Database{}
		if json.Unmarshal(ev.Value, c) == nil {
			cfg = c
			evDB = c.Name
			before = w.repoAssign(c.Name)
			liveRepo = w.repoLive()
			if stale, ok := w.staleAssign[c.Name]; ok {
				if now, ok := w.repo.peek(constants.GetDatabaseAssignPath(c.Name)); ok && string(now) == string(stale) {
					before, w.recreate = nil, true // the record belongs to the dropped database: this is a creation
				}
			}
		}
	case discovery.DatabaseConfigDeletion:
		evDB = nameFromKey(ev.Key, constants.DatabaseConfigPath)
		for _, d := range w.sm.GetDatabases() {
			if d.Name == evDB {
				knownDrop = &dropRec{shards: d.NumOfShard, rf: d.ReplicaFactor, live: w.repoLiveSorted()}
			}
		}
		_, recordBeforeDrop = w.repo.peek(constants.GetDatabaseAssignPath(evDB))
	case discovery.ShardAssignmentChanged:
		sa := &models.ShardAssignment{}
		if json.Unmarshal(ev.Value, sa) == nil {
			evDB = sa.Name
		}
	case discovery.ShardAssignmentDeletion:
		evDB = nameFromKey(ev.Key, constants.ShardAssignmentPath)
	}
	errorLogs = errorLogs[:0]

	master.VerifProcessEvent(w.sm, ev)

	ops := w.repo.takeOps()
	w.route(ops, "master")
	for _, op := range ops {
		if !op.Del && op.Key == constants.StorageStatePath {
			w.synced = true
		}
	}
	cur := takeSnap(w.sm.GetStorageState())
	res.Evals++
	cur.digest(&w.hash)

	panicked := ""
	for _, l := range errorLogs {
		if strings.Contains(l, "panic when process discovery event") {
			panicked = l
		}
	}
	wit := w.witness(ev, cur, nil)

	// --- recovered panic inside the handler: only the unimplemented shrink may do that
	shrink := cfg != nil && before != nil && len(before.Shards) > cfg.NumOfShard
	if panicked != "" {
		if shrink && strings.Contains(panicked, "not implemented") {
			res.count("shrink_requests_ended_in_recovered_panic", 1)
		} else {
			res.violation("C18/panic-in-event-handler/"+ev.Type.String(), "processEvent recovered a panic: "+panicked, wit)
		}
	}

	// --- a drop the master handled leaves no assignment record of that database in the repository
	if knownDrop != nil {
		res.count("drops_handled_by_the_master", 1)
		if recordBeforeDrop {
			res.count("drops_where_the_master_had_to_remove_the_assignment_record", 1)
		}
		w.dropped[evDB] = *knownDrop
		if rec, ok := w.repo.peek(constants.GetDatabaseAssignPath(evDB)); ok {
			w.staleAssign[evDB] = rec
			res.violation("C18/sm-drop-left-assignment-record", fmt.Sprintf("database %s was dropped but %s still holds %s", evDB, constants.GetDatabaseAssignPath(evDB), rec), wit)
		} else {
			delete(w.staleAssign, evDB)
		}
	}

	// --- placement clauses, on what the state manager wrote for a database config event
	if ev.Type == discovery.DatabaseConfigChanged {
		w.checkCfgEvent(ev, cfg, before, liveRepo, ops, cur)
	} else {
		for _, op := range ops {
			if !op.Del && strings.HasPrefix(op.Key, constants.ShardAssignmentPath+"/") {
				res.violation("C18/sm-assignment-written-by-"+ev.Type.String(), "state manager wrote "+op.Key+" while handling "+describe(ev), wit)
			}
		}
	}

	// --- leadership clauses on the exposed state
	w.checkState(ev, evDB, evNode, evNodeOK, cur, ops)

	w.prev = cur
}

func relabel(class, from, to string) string {
	if strings.HasPrefix(class, from) {
		return to + class[len(from):]
	}
	return class
}

func (w *world) checkCfgEvent(ev *discovery.Event, cfg *models.Database, before *models.ShardAssignment, liveRepo []int,
	ops []repoOp, cur *snap) {
	res := w.res
	var puts []repoOp
	name := ""
	if cfg != nil {
		name = cfg.Name
	}
	for _, op := range ops {
		if strings.HasPrefix(op.Key, constants.ShardAssignmentPath+"/") {
			if op.Del || name == "" || op.Key != constants.GetDatabaseAssignPath(name) {
				res.violation("C18/sm-touched-foreign-assignment", fmt.Sprintf("handling %s the state manager changed %s (del=%v)", describe(ev), op.Key, op.Del), w.witness(ev, cur, nil))
				continue
			}
			puts = append(puts, op)
		}
	}
	wit := w.witness(ev, cur, map[string]any{"assignment_before": renderAssignment(before), "alive_in_repo": liveRepo})
	if cfg == nil || name == "" {
		if len(puts) > 0 {
			res.violation("C18/sm-assignment-from-invalid-config", "an invalid database config produced an assignment: "+describe(ev), wit)
		}
		return
	}
	for i := 1; i < len(puts); i++ {
		if string(puts[i].Val) != string(puts[0].Val) {
			res.violation("C18/sm-assignment-puts-differ", "the assignment writes of one event differ", wit)
		}
	}
	after := w.repoAssign(name)
	wit = w.witness(ev, cur, map[string]any{"assignment_before": renderAssignment(before), "assignment_after": renderAssignment(after), "alive_in_repo": liveRepo})
	alive := make([]models.NodeID, len(liveRepo))
	for i, n := range liveRepo {
		alive[i] = models.NodeID(n)
	}
	rf, n := cfg.ReplicaFactor, cfg.NumOfShard
	feasible := rf >= 1 && rf <= len(alive)
	if len(puts) > 0 && after == nil {
		res.violation("C18/sm-assignment-unreadable", "the written assignment cannot be decoded", wit)
		return
	}
	report := func(vs []vio, from, to string) {
		for _, v := range vs {
			res.violation(relabel(v.class, from, to), fmt.Sprintf("%s (alive in repo %v): %s", describe(ev), liveRepo, v.msg), wit)
		}
	}
	switch {
	case before == nil:
		cp := "C18/sm-create-"
		if w.recreate {
			cp = "C18/sm-recreate-" // judged as a creation although a record of the dropped database is still there
		}
		if n >= 1 && feasible {
			if len(puts) == 0 {
				res.violation(cp+"missing-assignment", fmt.Sprintf("no assignment written for %s with %d alive nodes", describe(ev), len(alive)), wit)
				return
			}
			res.count("assignments_created", 1)
			if d, was := w.dropped[name]; was {
				res.count("recreations_of_a_dropped_database", 1)
				if d.shards != n || d.rf != rf {
					res.count("recreations_with_other_shard_count_or_replica_factor", 1)
				}
				ls := append([]int(nil), liveRepo...)
				sort.Ints(ls)
				if !sameInts(ls, d.live) {
					res.count("recreations_over_an_alive_set_changed_since_the_drop", 1)
				}
				delete(w.dropped, name)
			}
			if rf >= 2 && n > len(alive) {
				res.count("assignments_created_with_wraparound_and_replicas", 1)
			}
			if after.Name != name {
				res.violation(cp+"name", fmt.Sprintf("assignment for %s carries name %q", name, after.Name), wit)
			}
			report(checkShards(alive, after, 0, n, rf, rf), "C18/assign-", cp)
		} else {
			res.count("create_requests_infeasible", 1)
			if len(puts) > 0 {
				res.violation(cp+"infeasible-accepted", fmt.Sprintf("assignment written although shards=%d rf=%d alive=%d", n, rf, len(alive)), wit)
			}
		}
	case len(before.Shards) < n:
		old := cloneAssignment(before)
		if feasible {
			if len(puts) == 0 {
				res.violation("C18/sm-grow-missing-assignment", fmt.Sprintf("growth %d->%d of %s wrote nothing with %d alive nodes", len(before.Shards), n, name, len(alive)), wit)
				return
			}
			res.count("assignments_grown", 1)
			if !sameLiveAsAssignment(alive, before) {
				res.count("assignments_grown_over_changed_alive_set", 1)
			}
			report(checkUntouched(old, after), "C18/grow-", "C18/sm-grow-")
			report(checkShards(alive, after, len(before.Shards), n, rf, 2*rf), "C18/assign-", "C18/sm-grow-new-")
		} else {
			res.count("grow_requests_infeasible", 1)
			if len(puts) > 0 && (len(after.Shards) != len(old) || len(checkUntouched(old, after)) > 0) {
				res.violation("C18/sm-grow-infeasible-accepted", fmt.Sprintf("growth accepted although rf=%d alive=%d", rf, len(alive)), wit)
			}
		}
	default: // same size (re-save) or smaller (shrink, unimplemented): nothing may move
		old := cloneAssignment(before)
		if len(before.Shards) == n {
			res.count("resaves", 1)
		}
		if after == nil || len(after.Shards) != len(old) || len(checkUntouched(old, after)) > 0 {
			res.violation("C18/sm-resave-changed-assignment", fmt.Sprintf("config with %d shards over an assignment of %d shards changed the assignment", n, len(old)), wit)
		}
	}
}

func sameLiveAsAssignment(alive []models.NodeID, sa *models.ShardAssignment) bool {
	set := map[models.NodeID]bool{}
	for _, n := range alive {
		set[n] = true
	}
	for _, r := range sa.Shards {
		for _, n := range r.Replicas {
			if !set[n] {
				return false
			}
		}
	}
	return true
}

func (w *world) checkState(ev *discovery.Event, evDB string, evNode int, evNodeOK bool, cur *snap, ops []repoOp) {
	res := w.res
	prev := w.prev
	wit := w.witness(ev, cur, nil)
	et := ev.Type
	w.badNow = map[string]bool{}
	defer func() { w.badPrev = w.badNow }()

	// master's view of the alive set follows exactly the node events delivered to it
	exp := make([]int, 0, len(w.expLive))
	for n := range w.expLive {
		exp = append(exp, n)
	}
	sort.Ints(exp)
	if !sameInts(exp, cur.Live) {
		w.flag("C18/live-nodes-wrong", "", et, fmt.Sprintf("live nodes %v, delivered node events imply %v", cur.Live, exp), wit)
	}
	if !sameInts(cur.Live, w.repoLiveSorted()) {
		res.count("evaluations_with_master_view_behind_repo", 1)
	}

	// shape: shard states and assignments cover the same databases and shards with the same replicas
	perDB := map[string]int{}
	for _, sh := range cur.Shards {
		perDB[sh.DB]++
		a, ok := cur.Assign[sh.DB]
		if !ok {
			res.violation("C18/state-shape", fmt.Sprintf("shard state for %s/%d without an assignment in the state", sh.DB, sh.ID), wit)
			continue
		}
		if r, ok := a[sh.ID]; !ok || !sameInts(r, sh.Replicas) {
			res.violation("C18/state-replica-mismatch", fmt.Sprintf("%s/%d: shard state lists replicas %v, assignment %v", sh.DB, sh.ID, sh.Replicas, r), wit)
		}
	}
	for db, a := range cur.Assign {
		if perDB[db] != len(a) {
			res.violation("C18/state-shape", fmt.Sprintf("database %s: %d assigned shards, %d shard states", db, len(a), perDB[db]), wit)
		}
	}
	// the other exposure of the assignments
	views := w.sm.GetShardAssignments()
	if len(views) != len(cur.Assign) {
		res.violation("C18/assignment-views-differ", fmt.Sprintf("GetShardAssignments has %d databases, storage state %d", len(views), len(cur.Assign)), wit)
	}
	for i := range views {
		a, ok := cur.Assign[views[i].Name]
		if !ok || len(a) != len(views[i].Shards) {
			res.violation("C18/assignment-views-differ", fmt.Sprintf("GetShardAssignments and storage state disagree on %s", views[i].Name), wit)
			continue
		}
		for id, r := range views[i].Shards {
			if r == nil || !sameInts(a[int(id)], ints(r.Replicas)) {
				res.violation("C18/assignment-views-differ", fmt.Sprintf("GetShardAssignments and storage state disagree on %s/%d", views[i].Name, id), wit)
			}
		}
	}
	known := map[string]bool{}
	for _, d := range w.sm.GetDatabases() {
		known[d.Name] = true
	}
	for db := range cur.Assign {
		if !known[db] {
			res.count("evaluations_with_state_for_a_database_the_master_has_no_config_for", 1)
			break
		}
	}

	// the property: online <=> some replica alive; leader of an online shard is an alive replica of it
	for i := range cur.Shards {
		sh := cur.Shards[i]
		alive := 0
		for _, r := range sh.Replicas {
			if cur.hasLive(r) {
				alive++
			}
		}
		switch sh.State {
		case int(models.OnlineShard):
			res.count("shard_evaluations_online", 1)
			if alive < len(sh.Replicas) {
				res.count("shard_evaluations_online_with_some_dead_replica", 1)
			}
			if alive == 0 {
				w.flagShard("C18/online-without-alive-replica", &sh, cur, et, "shard reported online, no replica alive", wit)
			}
			if !containsInt(sh.Replicas, sh.Leader) {
				w.flagShard("C18/leader-not-a-replica", &sh, cur, et, "leader is not a replica of the shard", wit)
			} else if !cur.hasLive(sh.Leader) {
				w.flagShard("C18/leader-dead", &sh, cur, et, "leader of an online shard is not alive", wit)
			}
		case int(models.OfflineShard):
			res.count("shard_evaluations_offline", 1)
			if alive > 0 {
				w.flagShard("C18/offline-with-alive-replica", &sh, cur, et, "shard reported offline although a replica is alive", wit)
			}
			if sh.Leader != int(models.NoLeader) {
				w.flagShard("C18/offline-shard-has-leader", &sh, cur, et, "offline shard still names a leader", wit)
			}
		default:
			w.flagShard("C18/shard-state-neither-online-nor-offline", &sh, cur, et, "shard state is neither online nor offline", wit)
		}
	}

	// beyond the statement: what an event may change, and leaders do not move without a cause
	pm := map[string]*shardSnap{}
	for i := range prev.Shards {
		pm[prev.Shards[i].DB+"/"+strconv.Itoa(prev.Shards[i].ID)] = &prev.Shards[i]
	}
	assignEv := et == discovery.ShardAssignmentChanged
	trans := [4]int{}
	for i := range cur.Shards {
		sh := &cur.Shards[i]
		key := sh.DB + "/" + strconv.Itoa(sh.ID)
		p := pm[key]
		delete(pm, key)
		if p == nil {
			if !(assignEv && sh.DB == evDB) {
				res.violation("C18/unrelated-shard-changed/"+et.String(), fmt.Sprintf("shard %s appeared while handling %s", key, describe(ev)), wit)
			}
			continue
		}
		changed := !sameInts(p.Replicas, sh.Replicas) || p.State != sh.State || p.Leader != sh.Leader
		if changed {
			ok := assignEv && sh.DB == evDB
			if et == discovery.NodeStartup && evNodeOK && containsInt(sh.Replicas, evNode) && sameInts(p.Replicas, sh.Replicas) {
				ok = true
			}
			if et == discovery.NodeFailure && evNodeOK && p.Leader == evNode && sameInts(p.Replicas, sh.Replicas) {
				ok = true
			}
			if !ok {
				res.violation("C18/unrelated-shard-changed/"+et.String(), fmt.Sprintf("shard %s went from %+v to %+v while handling %s", key, *p, *sh, describe(ev)), wit)
			}
		}
		if !(assignEv && sh.DB == evDB) && p.State == int(models.OnlineShard) && cur.hasLive(p.Leader) && containsInt(sh.Replicas, p.Leader) &&
			(sh.State != int(models.OnlineShard) || sh.Leader != p.Leader) {
			res.violation("C18/leader-moved-without-cause/"+et.String(), fmt.Sprintf("shard %s: leader %d is still alive but state went from %+v to %+v", key, p.Leader, *p, *sh), wit)
		}
		// observations
		if et == discovery.NodeFailure && evNodeOK {
			switch {
			case p.State == int(models.OnlineShard) && p.Leader == evNode && sh.State == int(models.OnlineShard) && sh.Leader != evNode:
				trans[0]++
			case p.State == int(models.OnlineShard) && sh.State == int(models.OfflineShard):
				trans[1]++
			case p.State == int(models.OnlineShard) && containsInt(p.Replicas, evNode) && p.Leader != evNode:
				res.count("follower_failures_under_an_alive_leader", 1)
			}
		}
		if et == discovery.NodeStartup && p.State == int(models.OfflineShard) && sh.State == int(models.OnlineShard) {
			trans[2]++
		}
		if assignEv && changed {
			trans[3]++
		}
	}
	for key := range pm {
		db := key[:strings.LastIndex(key, "/")]
		if !((assignEv || et == discovery.DatabaseConfigDeletion) && db == evDB) {
			res.violation("C18/unrelated-shard-changed/"+et.String(), fmt.Sprintf("shard %s vanished while handling %s", key, describe(ev)), wit)
		}
	}
	res.count("leader_failovers", trans[0])
	res.count("shards_went_offline", trans[1])
	res.count("shards_revived_by_node_startup", trans[2])
	res.count("shard_states_rebuilt_by_assignment_event", trans[3])
	if trans[0]+trans[1]+trans[2] > 0 {
		w.interesting = true
	}
	if et == discovery.NodeFailure && evNodeOK && !prev.hasLive(evNode) {
		res.count("failures_of_nodes_the_master_did_not_consider_alive", 1)
	}
	if et == discovery.NodeStartup && evNodeOK && prev.hasLive(evNode) {
		res.count("startups_of_nodes_already_alive", 1)
	}
	w.sig = append(w.sig, byte(et), byte(trans[0]), byte(trans[1]), byte(trans[2]), byte(trans[3]))

	// what the rest of the cluster reads: the state synced to the repository equals the state in memory
	if data, ok := w.repo.peek(constants.StorageStatePath); ok && w.synced {
		// fast path: the in-memory state, marshalled the way syncState does it, is byte-identical to what the repository holds
		if string(encoding.JSONMarshal(w.sm.GetStorageState())) != string(data) {
			st := models.NewStorageState()
			if err := json.Unmarshal(data, st); err != nil {
				res.violation("C18/synced-state-unreadable", "storage state in the repository cannot be decoded: "+err.Error(), wit)
			} else {
				synced := takeSnap(st)
				a, _ := json.Marshal(synced)
				b, _ := json.Marshal(cur)
				if string(a) != string(b) {
					w.flag("C18/synced-state-stale", "", et, fmt.Sprintf("repository has %s, memory has %s", a, b), wit)
				} else {
					res.count("synced_state_compared_structurally", 1)
				}
			}
		}
	} else if len(cur.Live)+len(cur.Shards) > 0 {
		w.flag("C18/synced-state-stale", "", et, "state changed but was never synced to the repository", wit)
	}
}

func (w *world) repoLiveSorted() []int {
	l := w.repoLive()
	sort.Ints(l)
	return l
}

// runHistory generates and runs history idx (a function of VERIF_SEED and idx only).
func runHistory(c *core.Ctx, idx int, res *childResult, verbose bool) {
	rnd := c.Rand(fmt.Sprintf("history-%d", idx))
	rand.Seed(rnd.Int63()) //nolint:staticcheck // the state manager asks the global source for the random start
	repo := newMemRepo()
	w := &world{idx: idx, rnd: rnd, repo: repo, res: res, verbose: verbose, expLive: map[int]bool{}, dbs: []string{"db0", "db1", "db2"},
		staleAssign: map[string][]byte{}, dropped: map[string]dropRec{}}
	w.sm = master.NewStateManager(context.Background(), repo, nil)
	defer func() { w.sm.Close() }()
	w.prev = takeSnap(w.sm.GetStorageState())

	np := 1 + rnd.Intn(9)
	perm := rnd.Perm(30)
	for i := 0; i < np; i++ {
		w.pool = append(w.pool, perm[i]+1)
	}
	w.lagged = rnd.Intn(100) < 60
	length := 5 + rnd.Intn(56)
	w.length = length
	w.logf("history %d: node pool %v, lagged=%v, target length %d", idx, w.pool, w.lagged, length)
	up := rnd.Intn(np + 1)
	for i := 0; i < up && i < length/2; i++ {
		w.nodeUp(w.pool[i])
	}
	for w.delivered+w.pending() < length-2 {
		w.act()
		if w.lagged {
			for k := rnd.Intn(4); k > 0 && w.pending() > 0 && w.delivered < length; k-- {
				w.deliverNext()
			}
		} else {
			for w.pending() > 0 {
				w.deliverNext()
			}
		}
	}
	for w.pending() > 0 {
		w.deliverNext()
	}
	if w.delivered > res.MaxLen {
		res.MaxLen = w.delivered
	}
	res.count("histories", 1)
	if w.lagged {
		res.count("histories_with_lagging_cross_prefix_delivery", 1)
	}
	res.Digests[idx] = w.hash
	if w.interesting {
		h := fnv.New64a()
		h.Write(w.sig)
		res.Nontrivial = append(res.Nontrivial, "h/"+strconv.FormatUint(h.Sum64(), 36))
		if len(res.Samples) < 1 && w.delivered <= 25 {
			res.Samples = append(res.Samples, map[string]any{"part": "history", "index": idx, "log": w.logLines(), "final_state": w.prev})
		}
	}
}
