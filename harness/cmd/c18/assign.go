package main

// Part 1 of C18: master.ShardAssignment / master.ModifyShardAssignment, exhaustively over the
// bounded configuration space. The oracle only looks at the returned assignment.

import (
	"fmt"
	"math/rand"
	"runtime"
	"sort"
	"sync"

	"github.com/lindb/lindb/coordinator/master"
	"github.com/lindb/lindb/models"

	"github.com/lindb/lindb/verif/internal/core"
)

type vio struct {
	class string
	msg   string
}

// checkShards evaluates the placement clauses of the property on the shards [from,to) of sa, which
// were produced by ONE assignment call over the alive node list `alive` with replica factor rf.
// spreadLimit > 0 additionally bounds (max-min) of the per-node total replica count of these shards.
func checkShards(alive []models.NodeID, sa *models.ShardAssignment, from, to, rf, spreadLimit int) []vio {
	var out []vio
	if sa == nil {
		return []vio{{"C18/assign-nil", "nil assignment"}}
	}
	aliveSet := make(map[models.NodeID]bool, len(alive))
	for _, n := range alive {
		aliveSet[n] = true
	}
	if len(sa.Shards) != to {
		out = append(out, vio{"C18/assign-shard-count", fmt.Sprintf("assignment has %d shards, want %d", len(sa.Shards), to)})
	}
	first := map[models.NodeID]int{}
	total := map[models.NodeID]int{}
	firsts := make([]models.NodeID, 0, to-from)
	complete := true
	for id := from; id < to; id++ {
		rep, ok := sa.Shards[models.ShardID(id)]
		if !ok || rep == nil {
			out = append(out, vio{"C18/assign-shard-missing", fmt.Sprintf("shard %d missing (ids must be %d..%d)", id, from, to-1)})
			complete = false
			continue
		}
		if len(rep.Replicas) != rf {
			out = append(out, vio{"C18/assign-replica-count", fmt.Sprintf("shard %d has %d replicas %v, replica factor %d", id, len(rep.Replicas), rep.Replicas, rf)})
		}
		seen := map[models.NodeID]bool{}
		for _, r := range rep.Replicas {
			if seen[r] {
				out = append(out, vio{"C18/assign-duplicate-replica", fmt.Sprintf("shard %d lists node %d twice: %v", id, r, rep.Replicas)})
			}
			seen[r] = true
			if !aliveSet[r] {
				out = append(out, vio{"C18/assign-node-not-alive", fmt.Sprintf("shard %d replica %d is not in the alive set %v", id, r, alive)})
			}
			total[r]++
		}
		if len(rep.Replicas) > 0 {
			first[rep.Replicas[0]]++
			firsts = append(firsts, rep.Replicas[0])
		} else {
			complete = false
		}
	}
	if len(alive) > 0 && to > from {
		mn, mx := 1<<30, -1
		tmn, tmx := 1<<30, -1
		for _, n := range alive {
			if first[n] < mn {
				mn = first[n]
			}
			if first[n] > mx {
				mx = first[n]
			}
			if total[n] < tmn {
				tmn = total[n]
			}
			if total[n] > tmx {
				tmx = total[n]
			}
		}
		if mx-mn > 1 {
			out = append(out, vio{"C18/assign-first-replica-unbalanced",
				fmt.Sprintf("first-replica counts per node differ by %d (min %d max %d) over shards %d..%d: %v", mx-mn, mn, mx, from, to-1, first)})
		}
		if spreadLimit > 0 && tmx-tmn > spreadLimit {
			out = append(out, vio{"C18/assign-total-replicas-unbalanced",
				fmt.Sprintf("total replica counts per node differ by %d (> %d) over shards %d..%d: %v", tmx-tmn, spreadLimit, from, to-1, total)})
		}
		// beyond the statement (goal 2 in the header of shard_assign.go): the followers of the shards that
		// share a first replica are spread over the OTHER nodes – per replica position, counts differ by <= 1
		if complete && rf >= 2 && len(alive) >= 2 {
			type fk struct {
				first models.NodeID
				pos   int
			}
			spread := map[fk]map[models.NodeID]int{}
			for id := from; id < to; id++ {
				reps := sa.Shards[models.ShardID(id)].Replicas
				for j := 1; j < len(reps); j++ {
					k := fk{reps[0], j}
					if spread[k] == nil {
						spread[k] = map[models.NodeID]int{}
					}
					spread[k][reps[j]]++
				}
			}
		spreadLoop:
			for k, m := range spread {
				mn, mx := 1<<30, -1
				for _, n := range alive {
					if n == k.first {
						continue
					}
					if m[n] < mn {
						mn = m[n]
					}
					if m[n] > mx {
						mx = m[n]
					}
				}
				if mx-mn > 1 {
					out = append(out, vio{"C18/assign-followers-of-a-node-not-spread",
						fmt.Sprintf("shards %d..%d led by node %d: replica #%d lands %v on the other nodes (differs by %d)", from, to-1, k.first, k.pos+1, m, mx-mn)})
					break spreadLoop
				}
			}
		}
		// round-robin proper: any min(n, #shards) consecutive shards have pairwise distinct first replicas
		if complete {
			w := len(alive)
			if len(firsts) < w {
				w = len(firsts)
			}
		windows:
			for s := 0; s+w <= len(firsts); s++ {
				seen := map[models.NodeID]bool{}
				for _, f := range firsts[s : s+w] {
					if seen[f] {
						out = append(out, vio{"C18/assign-first-replica-not-round-robin",
							fmt.Sprintf("shards %d..%d: first replicas %v repeat node %d within %d consecutive shards", from+s, from+s+w-1, firsts[s:s+w], f, w)})
						break windows
					}
					seen[f] = true
				}
			}
		}
	}
	return out
}

func cloneAssignment(sa *models.ShardAssignment) map[models.ShardID][]models.NodeID {
	out := make(map[models.ShardID][]models.NodeID, len(sa.Shards))
	for id, r := range sa.Shards {
		if r == nil {
			out[id] = nil
			continue
		}
		out[id] = append([]models.NodeID(nil), r.Replicas...)
	}
	return out
}

// checkUntouched: every shard of `before` is still there with the identical replica list.
func checkUntouched(before map[models.ShardID][]models.NodeID, sa *models.ShardAssignment) []vio {
	var out []vio
	ids := make([]int, 0, len(before))
	for id := range before {
		ids = append(ids, int(id))
	}
	sort.Ints(ids)
	for _, i := range ids {
		id := models.ShardID(i)
		now, ok := sa.Shards[id]
		if !ok || now == nil {
			out = append(out, vio{"C18/grow-existing-shard-removed", fmt.Sprintf("existing shard %d disappeared", id)})
			continue
		}
		if !sameNodes(before[id], now.Replicas) {
			out = append(out, vio{"C18/grow-existing-shard-moved", fmt.Sprintf("existing shard %d changed from %v to %v", id, before[id], now.Replicas)})
		}
	}
	return out
}

func sameNodes(a, b []models.NodeID) bool {
	if len(a) != len(b) {
		return false
	}
	for i := range a {
		if a[i] != b[i] {
			return false
		}
	}
	return true
}

// nodeList returns n distinct, unsorted, non-contiguous node ids (deterministic in rnd).
func nodeList(rnd *rand.Rand, n int) []models.NodeID {
	perm := rnd.Perm(60)
	out := make([]models.NodeID, n)
	for i := 0; i < n; i++ {
		out[i] = models.NodeID(perm[i] + 1)
	}
	return out
}

// seedTable finds, for a node count n, one math/rand seed per pair (a,b) such that after rand.Seed(seed)
// the first two rand.Intn(n) values are a and b (that is what the code under test draws for a random start).
func seedTable(n int) [][]int64 {
	tab := make([][]int64, n)
	for i := range tab {
		tab[i] = make([]int64, n)
		for j := range tab[i] {
			tab[i][j] = -1
		}
	}
	missing := n * n
	for s := int64(1); missing > 0; s++ {
		r := rand.New(rand.NewSource(s))
		a, b := r.Intn(n), r.Intn(n)
		if tab[a][b] < 0 {
			tab[a][b] = s
			missing--
		}
	}
	return tab
}

type asgCase struct {
	Call     string `json:"call"`
	Nodes    []int  `json:"alive_nodes"`
	Shards   int    `json:"num_of_shard"`
	RF       int    `json:"replica_factor"`
	Start    int    `json:"fixed_start_index"`
	RandSeed int64  `json:"math_rand_seed,omitempty"`
	Existing int    `json:"existing_shards,omitempty"`
	Nodes2   []int  `json:"alive_nodes_at_growth,omitempty"`
	RF2      int    `json:"replica_factor_at_growth,omitempty"`
	Start1   int    `json:"fixed_start_index_of_creation,omitempty"`
	Result   any    `json:"result,omitempty"`
}

func ints(ns []models.NodeID) []int {
	out := make([]int, len(ns))
	for i, n := range ns {
		out[i] = int(n)
	}
	return out
}

func renderAssignment(sa *models.ShardAssignment) any {
	if sa == nil {
		return nil
	}
	out := map[string][]int{}
	for id, r := range sa.Shards {
		if r != nil {
			out[fmt.Sprint(int(id))] = ints(r.Replicas)
		}
	}
	return out
}

// runCreate calls the real ShardAssignment and evaluates it. It returns the assignment (nil on error/panic).
func runCreate(c *core.Ctx, nodes []models.NodeID, shards, rf, start int, startShard models.ShardID, randSeed int64) (sa *models.ShardAssignment) {
	cfg := &models.Database{Name: "db", NumOfShard: shards, ReplicaFactor: rf}
	in := append([]models.NodeID(nil), nodes...)
	cs := asgCase{Call: "ShardAssignment", Nodes: ints(nodes), Shards: shards, RF: rf, Start: start, RandSeed: randSeed}
	defer func() {
		if r := recover(); r != nil {
			c.Violation("C18/assign-panic", fmt.Sprintf("ShardAssignment panicked: %v (nodes=%d shards=%d rf=%d start=%d)", r, len(nodes), shards, rf, start), cs)
			sa = nil
		}
	}()
	sa, err := master.ShardAssignment(in, cfg, start, startShard)
	c.Eval(1)
	feasible := shards > 0 && rf > 0 && rf <= len(nodes)
	if !feasible {
		c.Count("p1_infeasible_requests", 1)
		if err == nil {
			cs.Result = renderAssignment(sa)
			c.Violation("C18/assign-infeasible-accepted",
				fmt.Sprintf("ShardAssignment accepted shards=%d rf=%d over %d nodes", shards, rf, len(nodes)), cs)
		}
		return nil
	}
	if err != nil {
		c.Violation("C18/assign-feasible-rejected", fmt.Sprintf("ShardAssignment rejected shards=%d rf=%d over %d nodes: %v", shards, rf, len(nodes), err), cs)
		return nil
	}
	if !sameNodes(in, nodes) {
		c.Violation("C18/assign-input-mutated", fmt.Sprintf("ShardAssignment changed its node list argument from %v to %v", nodes, in), cs)
	}
	if sa != nil && sa.Name != "db" {
		c.Violation("C18/assign-name", fmt.Sprintf("assignment carries database name %q", sa.Name), cs)
	}
	vs := checkShards(nodes, sa, 0, shards, rf, rf)
	for _, v := range vs {
		cs.Result = renderAssignment(sa)
		c.Violation(v.class, fmt.Sprintf("ShardAssignment(nodes=%v shards=%d rf=%d start=%d randseed=%d): %s", ints(nodes), shards, rf, start, randSeed, v.msg), cs)
	}
	if len(vs) == 0 && len(nodes) == 5 && shards == 10 && rf == 3 && start == 0 && startShard == -1 {
		c.Sample(map[string]any{"part": "assignment", "case": cs, "result": renderAssignment(sa)})
	}
	return sa
}

// runGrow builds an assignment of s1 shards (fixed start f1 over nodes1/rf1), then calls the real
// ModifyShardAssignment exactly like the state manager does (start shard = number of existing shards).
func runGrow(c *core.Ctx, nodes1 []models.NodeID, rf1, s1, f1 int, nodes2 []models.NodeID, rf2, s2, start2 int, randSeed int64) {
	cs := asgCase{Call: "ModifyShardAssignment", Nodes: ints(nodes1), Shards: s2, RF: rf1, Start: start2, RandSeed: randSeed,
		Existing: s1, Nodes2: ints(nodes2), RF2: rf2, Start1: f1}
	defer func() {
		if r := recover(); r != nil {
			c.Violation("C18/grow-panic", fmt.Sprintf("ModifyShardAssignment panicked: %v", r), cs)
		}
	}()
	sa, err := master.ShardAssignment(append([]models.NodeID(nil), nodes1...), &models.Database{Name: "db", NumOfShard: s1, ReplicaFactor: rf1}, f1, -1)
	if err != nil || sa == nil {
		return // reported by the create part
	}
	before := cloneAssignment(sa)
	in := append([]models.NodeID(nil), nodes2...)
	if randSeed != 0 {
		rand.Seed(randSeed) //nolint:staticcheck // the code under test draws from the global source
	}
	err = master.ModifyShardAssignment(in, &models.Database{Name: "db", NumOfShard: s2, ReplicaFactor: rf2}, sa, start2, models.ShardID(len(sa.Shards)))
	c.Eval(1)
	feasible := s2 > s1 && rf2 > 0 && rf2 <= len(nodes2)
	if !feasible {
		c.Count("p1_infeasible_requests", 1)
		if err == nil {
			cs.Result = renderAssignment(sa)
			c.Violation("C18/grow-infeasible-accepted", fmt.Sprintf("ModifyShardAssignment accepted %d->%d shards rf=%d over %d nodes", s1, s2, rf2, len(nodes2)), cs)
		}
		for _, v := range checkUntouched(before, sa) {
			c.Violation(v.class+"-on-error", "rejected growth still changed the assignment: "+v.msg, cs)
		}
		if len(sa.Shards) != s1 {
			c.Violation("C18/grow-error-added-shards", fmt.Sprintf("rejected growth left %d shards, had %d", len(sa.Shards), s1), cs)
		}
		return
	}
	if err != nil {
		c.Violation("C18/grow-feasible-rejected", fmt.Sprintf("ModifyShardAssignment rejected %d->%d shards rf=%d over %d nodes: %v", s1, s2, rf2, len(nodes2), err), cs)
		return
	}
	vs := checkUntouched(before, sa)
	vs = append(vs, checkShards(nodes2, sa, s1, s2, rf2, 2*rf2)...)
	for _, v := range vs {
		cs.Result = renderAssignment(sa)
		class := v.class
		if len(class) > 11 && class[:11] == "C18/assign-" {
			class = "C18/grow-new-" + class[11:]
		}
		c.Violation(class, fmt.Sprintf("ModifyShardAssignment(%d->%d shards, nodes=%v rf=%d start=%d randseed=%d): %s", s1, s2, ints(nodes2), rf2, start2, randSeed, v.msg), cs)
	}
}

// part1 runs the assignment part. Fixed start indexes run on all cores; the random-start cases run on
// one goroutine because they steer the process-wide math/rand source.
func part1(c *core.Ctx) {
	maxN := c.Pick(9, 12)
	maxS := c.Pick(24, 40)
	growN := 9
	growS := 24
	nodesFor := map[int][]models.NodeID{}
	rnd := c.Rand("p1-nodes")
	for n := 1; n <= maxN; n++ {
		nodesFor[n] = nodeList(rnd, n)
	}

	var wg sync.WaitGroup
	wg.Add(1)
	go func() { // fixed start indexes, parallel
		defer wg.Done()
		type job struct{ n, rf int }
		var jobs []job
		for n := 1; n <= maxN; n++ {
			for rf := 0; rf <= n+1; rf++ {
				jobs = append(jobs, job{n, rf})
			}
		}
		core.Parallel(len(jobs), runtime.NumCPU(), func(i int) {
			n, rf := jobs[i].n, jobs[i].rf
			nodes := nodesFor[n]
			for shards := 0; shards <= maxS; shards++ {
				for f := 0; f < 2*n; f++ {
					for _, startShard := range []models.ShardID{-1, 0} {
						if startShard == 0 && f >= n {
							continue
						}
						sa := runCreate(c, nodes, shards, rf, f, startShard, 0)
						if sa != nil {
							c.Count("p1_create_fixed_start", 1)
							if rf >= 2 && shards > n {
								c.Nontrivial(fmt.Sprintf("c/%d/%d/%d/f%d", n, shards, rf, f))
							}
							// determinism with a fixed start: same call, same answer
							if startShard == -1 && f < n {
								sb, _ := master.ShardAssignment(append([]models.NodeID(nil), nodes...),
									&models.Database{Name: "db", NumOfShard: shards, ReplicaFactor: rf}, f, 0)
								if sb == nil || len(checkUntouched(cloneAssignment(sa), sb)) > 0 || len(sb.Shards) != len(sa.Shards) {
									c.Violation("C18/assign-fixed-start-not-deterministic",
										fmt.Sprintf("two calls with fixed start %d (nodes=%d shards=%d rf=%d) differ", f, n, shards, rf), nil)
								}
							}
						}
					}
				}
			}
			// growth with fixed starts (same alive set, same replica factor), every s1 < s2
			if n <= growN && rf >= 1 && rf <= n {
				for s1 := 1; s1 < growS; s1++ {
					f1 := (s1 + rf) % n
					for s2 := s1 + 1; s2 <= growS; s2++ {
						for f2 := 0; f2 < n; f2++ {
							runGrow(c, nodes, rf, s1, f1, nodes, rf, s2, f2, 0)
							c.Count("p1_grow_fixed_start", 1)
							if rf >= 2 {
								c.Nontrivial(fmt.Sprintf("g/%d/%d/%d/%d/f%d", n, rf, s1, s2, f2))
							}
						}
					}
				}
				if !c.Quick() { // every creation start as well
					for s1 := 1; s1 < growS; s1++ {
						for f1 := 0; f1 < n; f1++ {
							for s2 := s1 + 1; s2 <= growS; s2++ {
								for f2 := 0; f2 < n; f2++ {
									runGrow(c, nodes, rf, s1, f1, nodes, rf, s2, f2, 0)
									c.Count("p1_grow_fixed_start", 1)
								}
							}
						}
					}
				}
				// rejected growth: not more shards / replica factor out of range
				runGrow(c, nodes, rf, 5, 0, nodes, rf, 5, 0, 0)
				runGrow(c, nodes, rf, 5, 0, nodes, rf, 3, 0, 0)
				runGrow(c, nodes, rf, 5, 0, nodes, n+1, 8, 0, 0)
				runGrow(c, nodes, rf, 5, 0, nodes, 0, 8, 0, 0)
			}
		})
	}()

	// random start (fixedStartIndex = -1): all n*n outcomes of the two draws, single goroutine
	type obsKey struct{ n, first, second int }
	observed := map[obsKey]bool{}
	firstSeen := map[[2]int]bool{}
	pos := func(nodes []models.NodeID, id models.NodeID) int {
		for i, n := range nodes {
			if n == id {
				return i
			}
		}
		return -1
	}
	for n := 1; n <= maxN; n++ {
		nodes := nodesFor[n]
		tab := seedTable(n)
		for rf := 1; rf <= n; rf++ {
			for shards := 1; shards <= maxS; shards++ {
				for a := 0; a < n; a++ {
					for b := 0; b < n; b++ {
						seed := tab[a][b]
						rand.Seed(seed) //nolint:staticcheck
						sa := runCreate(c, nodes, shards, rf, -1, -1, seed)
						c.Count("p1_create_random_start", 1)
						if sa == nil {
							continue
						}
						if rf >= 2 && shards > n {
							c.Nontrivial(fmt.Sprintf("c/%d/%d/%d/r%d.%d", n, shards, rf, a, b))
						}
						if r0 := sa.Shards[0]; r0 != nil && len(r0.Replicas) > 0 {
							fp := pos(nodes, r0.Replicas[0])
							firstSeen[[2]int{n, fp}] = true
							if len(r0.Replicas) > 1 {
								observed[obsKey{n, fp, pos(nodes, r0.Replicas[1])}] = true
							}
						}
					}
				}
			}
		}
		// growth with a random start, every s1 < s2 (bounded to the design's 9 x 24)
		if n <= growN {
			for rf := 1; rf <= n; rf++ {
				for s1 := 1; s1 < growS; s1++ {
					for s2 := s1 + 1; s2 <= growS; s2++ {
						if c.Quick() && (s2-s1)%3 != 1 && s2 != growS {
							continue // quick: every s1, growth by 1,4,7,... and up to the bound
						}
						for a := 0; a < n; a++ {
							for b := 0; b < n; b++ {
								runGrow(c, nodes, rf, s1, (s1+rf)%n, nodes, rf, s2, -1, tab[a][b])
								c.Count("p1_grow_random_start", 1)
							}
						}
					}
				}
			}
		}
	}
	// measured control over the random start: every first position and every (first, second) pair seen
	for n := 1; n <= maxN; n++ {
		for p := 0; p < n; p++ {
			if !firstSeen[[2]int{n, p}] {
				c.Inconclusive("random start: with %d nodes the first replica of shard 0 never landed on list position %d – math/rand not under control", n, p)
			}
		}
		if n >= 2 {
			cnt := 0
			for k := range observed {
				if k.n == n {
					cnt++
				}
			}
			c.Count("p1_random_start_first_second_pairs_seen", cnt)
			if cnt != n*(n-1) {
				c.Inconclusive("random start: with %d nodes only %d of %d (first, second replica) placements of shard 0 were observed", n, cnt, n*(n-1))
			}
		}
	}

	// exploration on top: growth over a DIFFERENT alive set / replica factor than creation
	xr := c.Rand("p1-grow-different-nodes")
	nx := c.Pick(20_000, 400_000)
	for i := 0; i < nx; i++ {
		n1 := 1 + xr.Intn(9)
		n2 := 1 + xr.Intn(9)
		all := nodeList(xr, 18)
		nodes1 := all[:n1]
		off := xr.Intn(18 - n2 + 1)
		nodes2 := all[off : off+n2]
		rf1 := 1 + xr.Intn(n1)
		rf2 := 1 + xr.Intn(n2)
		s1 := 1 + xr.Intn(23)
		s2 := s1 + 1 + xr.Intn(24-s1)
		start2 := xr.Intn(n2+1) - 1
		seed := int64(0)
		if start2 < 0 {
			seed = 1 + xr.Int63n(1<<40)
		}
		runGrow(c, nodes1, rf1, s1, xr.Intn(n1), nodes2, rf2, s2, start2, seed)
		c.Count("p1_grow_other_alive_set", 1)
	}
	wg.Wait()
	c.Set("exhaustive", true)
	c.Set("exhaustive_scope", fmt.Sprintf("part 1 only: ShardAssignment over every (alive nodes 1..%d, shards 0..%d, replica factor 0..nodes+1, fixed start 0..2*nodes-1, and all nodes^2 outcomes of the two random draws); "+
		"ModifyShardAssignment over every (nodes 1..%d, replica factor 1..nodes, existing shards s1 < target s2 <= %d, fixed start 0..nodes-1; random start: all nodes^2 draws, %s). Part 2 (event histories) is sampled.",
		maxN, maxS, growN, growS, map[bool]string{true: "growth sizes 1,4,7,.. and up to the bound", false: "every s2"}[c.Quick()]))
}
