package main

// In-memory state.Repository for the master state manager. It stores key/values and logs every
// mutation; it does NOT deliver watch events – the engine turns logged mutations on watched prefixes
// into discovery events itself (see history.go).

import (
	"context"
	"errors"
	"sort"
	"strings"
	"sync"

	"github.com/lindb/lindb/pkg/state"
)

type repoOp struct {
	Del     bool
	Key     string
	Val     []byte
	Existed bool
}

type memRepo struct {
	mu  sync.Mutex
	kv  map[string][]byte
	ops []repoOp
}

var errUnsupported = errors.New("c18 memRepo: operation not supported")

func newMemRepo() *memRepo { return &memRepo{kv: map[string][]byte{}} }

func (r *memRepo) Get(_ context.Context, key string) ([]byte, error) {
	r.mu.Lock()
	defer r.mu.Unlock()
	v, ok := r.kv[key]
	if !ok {
		return nil, state.ErrNotExist
	}
	return append([]byte(nil), v...), nil
}

func (r *memRepo) peek(key string) ([]byte, bool) {
	r.mu.Lock()
	defer r.mu.Unlock()
	v, ok := r.kv[key]
	return v, ok
}

func (r *memRepo) List(_ context.Context, prefix string) ([]state.KeyValue, error) {
	r.mu.Lock()
	defer r.mu.Unlock()
	var out []state.KeyValue
	for k, v := range r.kv {
		if strings.HasPrefix(k, prefix) {
			out = append(out, state.KeyValue{Key: k, Value: append([]byte(nil), v...)})
		}
	}
	sort.Slice(out, func(i, j int) bool { return out[i].Key < out[j].Key }) // etcd answers in key order
	return out, nil
}

func (r *memRepo) WalkEntry(ctx context.Context, prefix string, fn func(key, value []byte)) error {
	kvs, _ := r.List(ctx, prefix)
	for _, kv := range kvs {
		fn([]byte(kv.Key), kv.Value)
	}
	return nil
}

func (r *memRepo) Put(_ context.Context, key string, val []byte) error {
	r.mu.Lock()
	defer r.mu.Unlock()
	_, existed := r.kv[key]
	cp := append([]byte(nil), val...)
	r.kv[key] = cp
	r.ops = append(r.ops, repoOp{Key: key, Val: cp, Existed: existed})
	return nil
}

func (r *memRepo) Delete(_ context.Context, key string) error {
	r.mu.Lock()
	defer r.mu.Unlock()
	_, existed := r.kv[key]
	delete(r.kv, key)
	r.ops = append(r.ops, repoOp{Del: true, Key: key, Existed: existed})
	return nil
}

// takeOps returns and clears the mutation log.
func (r *memRepo) takeOps() []repoOp {
	r.mu.Lock()
	defer r.mu.Unlock()
	ops := r.ops
	r.ops = nil
	return ops
}

func (r *memRepo) PutWithTX(context.Context, string, []byte, func([]byte) error) (bool, error) {
	return false, errUnsupported
}
func (r *memRepo) Heartbeat(context.Context, string, []byte, int64) (<-chan state.Closed, error) {
	return nil, errUnsupported
}
func (r *memRepo) Elect(context.Context, string, []byte, int64) (bool, <-chan state.Closed, error) {
	return false, nil, errUnsupported
}
func (r *memRepo) Watch(context.Context, string, bool) state.WatchEventChan       { return nil }
func (r *memRepo) WatchPrefix(context.Context, string, bool) state.WatchEventChan { return nil }
func (r *memRepo) Batch(context.Context, state.Batch) (bool, error)               { return false, errUnsupported }
func (r *memRepo) NextSequence(context.Context, string) (int64, error)            { return 0, errUnsupported }
func (r *memRepo) NewTransaction() state.Transaction                              { return nil }
func (r *memRepo) Commit(context.Context, state.Transaction) error                { return errUnsupported }
func (r *memRepo) Close() error                                                   { return nil }

var _ state.Repository = (*memRepo)(nil)
