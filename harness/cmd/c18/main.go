// C18 — shard placement and shard leadership stay valid under any node churn.
//
// Part 1 (assign.go): master.ShardAssignment / ModifyShardAssignment exhaustively over the bounded
// configuration space, every fixed start index and every outcome of the random start.
// Part 2 (history.go): the real master StateManager on an in-memory repository, driven synchronously
// through master.VerifProcessEvent with generated event histories; the invariants are evaluated on
// GetStorageState() after every event. Histories run in child processes, one goroutine each, because the
// random start of the state manager's assignments comes from the process-wide math/rand source, which
// is re-seeded per history to keep the workload a function of (VERIF_SEED, tier).
package main

import (
	"encoding/json"
	"fmt"
	"os"
	"path/filepath"
	"runtime"
	"runtime/debug"
	"runtime/pprof"
	"sort"
	"strconv"
	"strings"
	"sync"
	"time"

	"github.com/lindb/lindb/verif/internal/core"
)

const historiesQuick, historiesThorough = 60_000, 4_000_000

func main() {
	if len(os.Args) > 1 && os.Args[1] == "worker" {
		worker()
		return
	}
	if len(os.Args) > 2 && os.Args[1] == "history" { // triage helper: re-run one history verbosely
		c := core.New("C18", "exploration")
		installLogCapture()
		idx, _ := strconv.Atoi(os.Args[2])
		res := newChildResult()
		runHistory(c, idx, res, true)
		for _, v := range res.Violations {
			fmt.Printf("VIOLATION %s x%d: %s\n", v.Class, v.Count, v.Message)
		}
		return
	}

	c := core.New("C18", "exploration")
	c.SetRule("part 1: every (alive nodes, shards, replica factor, start) within the bounds is one case; non-trivial = replica factor >= 2 and more shards than nodes (first replicas wrap around), " +
		"distinct by (nodes, shards, replica factor, start / random draws) resp. (nodes, rf, existing, target, start) for growth. " +
		"part 2: one case = one evaluation of GetStorageState() after a delivered event; a history is non-trivial if a node event made a leader fail over, a shard go offline or an offline shard come back; " +
		"histories are distinct by the sequence of (event type, transition counts).")
	c.Assume("storage nodes register under /storage/live/nodes/<id> with a value carrying the same id (app/storage/runtime.go); node ids >= 1")
	c.Assume("a watch delivers the events of one prefix in order; events of different prefixes may interleave arbitrarily (one watcher goroutine per prefix feeding one channel)")
	c.Assume("'alive' for the leadership clauses is the state manager's own view (StorageState.LiveNodes) after the events delivered so far; 'alive at creation' is the content of /storage/live/nodes in the repository when the config event is handled")
	c.Assume("repository operations do not fail (no injected etcd errors)")
	c.Assume("math/rand.Seed steers the random start (go < 1.24 semantics; verified at run time by observing every start position)")

	var wg sync.WaitGroup
	wg.Add(1)
	go func() { defer wg.Done(); part2(c) }()
	part1(c)
	wg.Wait()
	c.Finish()
}

func worker() {
	// worker <index> <workers> <histories> <out.json>
	widx, _ := strconv.Atoi(os.Args[2])
	workers, _ := strconv.Atoi(os.Args[3])
	total, _ := strconv.Atoi(os.Args[4])
	out := os.Args[5]
	c := core.New("C18", "exploration")
	installLogCapture()
	debug.SetGCPercent(400)
	if pf := os.Getenv("VERIF_C18_PROFILE"); pf != "" {
		f, _ := os.Create(pf)
		_ = pprof.StartCPUProfile(f)
		defer pprof.StopCPUProfile()
	}
	res := newChildResult()
	for i := widx; i < total; i += workers {
		if i%(workers*512) == widx {
			fmt.Printf("BEGIN history %d\n", i) // progress marker for the parent, before the case runs
		}
		runHistory(c, i, res, false)
	}
	res.Done = true
	data, err := json.Marshal(res)
	if err != nil {
		fmt.Println("marshal:", err)
		os.Exit(3)
	}
	if err := os.WriteFile(out, data, 0o644); err != nil {
		fmt.Println("write:", err)
		os.Exit(3)
	}
}

func part2(c *core.Ctx) {
	total := c.Pick(historiesQuick, historiesThorough)
	workers := runtime.NumCPU()
	if workers > 16 {
		workers = 16
	}
	if workers < 2 {
		workers = 2
	}
	dir := c.Scratch()
	results := make([]*childResult, workers)
	timeout := time.Duration(c.Pick(150, 5000)) * time.Second
	core.Parallel(workers, workers, func(i int) {
		outJSON := filepath.Join(dir, fmt.Sprintf("worker-%d.json", i))
		outLog := filepath.Join(dir, fmt.Sprintf("worker-%d.log", i))
		r := core.RunChild("", []string{"worker", strconv.Itoa(i), strconv.Itoa(workers), strconv.Itoa(total), outJSON},
			[]string{"VERIF_TIER=" + c.Tier, "VERIF_SEED=" + strconv.FormatInt(c.Seed, 10)}, timeout, outLog)
		if r.TimedOut {
			c.Inconclusive("history worker %d hit the watchdog (%s)", i, timeout)
			return
		}
		data, err := os.ReadFile(outJSON)
		res := newChildResult()
		if err == nil {
			err = json.Unmarshal(data, res)
		}
		if r.ExitCode != 0 || err != nil || !res.Done {
			tail := r.Output
			if len(tail) > 3000 {
				tail = tail[len(tail)-3000:]
			}
			if strings.Contains(tail, "lindb/coordinator/master") || strings.Contains(tail, "lindb/models") {
				c.Violation("C18/worker-crash-in-lindb", fmt.Sprintf("history worker %d died (exit %d) inside lindb code", i, r.ExitCode), map[string]any{"output_tail": tail})
			} else {
				c.Inconclusive("history worker %d failed: exit=%d err=%v output=%q", i, r.ExitCode, err, tail)
			}
			return
		}
		results[i] = res
	})
	digest := uint64(1469598103934665603)
	var idxs []int
	all := map[int]uint64{}
	maxLen := 0
	for _, res := range results {
		if res == nil {
			continue
		}
		c.Eval(int(res.Evals))
		for k, v := range res.Counters {
			c.Count(k, int(v))
		}
		for _, k := range res.Nontrivial {
			c.Nontrivial(k)
		}
		for _, s := range res.Samples {
			c.Sample(s)
		}
		if res.MaxLen > maxLen {
			maxLen = res.MaxLen
		}
		classes := make([]string, 0, len(res.Violations))
		for k := range res.Violations {
			classes = append(classes, k)
		}
		sort.Strings(classes)
		for _, k := range classes {
			v := res.Violations[k]
			n := v.Count
			if n > 1000 {
				n = 1000
			}
			for j := 0; j < n; j++ {
				c.Violation(v.Class, v.Message, v.Witness)
			}
		}
		for i, d := range res.Digests {
			all[i] = d
			idxs = append(idxs, i)
		}
	}
	sort.Ints(idxs)
	for _, i := range idxs {
		digest = (digest ^ all[i]) * 1099511628211
	}
	c.Set("history_state_digest", fmt.Sprintf("%016x", digest)) // equal for equal (seed, tier, lindb tree): the workload is deterministic
	c.Set("longest_history_events", maxLen)
	c.Set("history_workers", workers)
	// the run must have seen the situations the leadership clauses talk about
	for _, need := range []struct {
		name string
		min  int64
	}{
		{"p2_leader_failovers", 100}, {"p2_shards_went_offline", 100}, {"p2_shards_revived_by_node_startup", 100},
		{"p2_shard_evaluations_offline", 1000}, {"p2_shard_evaluations_online_with_some_dead_replica", 1000},
		{"p2_assignments_created", 100}, {"p2_assignments_grown", 100}, {"p2_follower_failures_under_an_alive_leader", 100},
	} {
		if c.Counter(need.name) < need.min && c.Violations() == 0 {
			c.Inconclusive("too few observations of %s: %d < %d", need.name, c.Counter(need.name), need.min)
		}
	}
}
