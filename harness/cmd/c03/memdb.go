package main

import (
	"bytes"
	"fmt"
	"math/rand"
	"sort"
	"strings"
	"time"

	protoMetricsV1 "github.com/lindb/common/proto/gen/v1/linmetrics"

	"github.com/lindb/lindb/config"
	"github.com/lindb/lindb/models"
	"github.com/lindb/lindb/pkg/option"
	"github.com/lindb/lindb/pkg/timeutil"
	"github.com/lindb/lindb/series/metric"
	"github.com/lindb/lindb/tsdb"
	"github.com/lindb/lindb/verif/internal/blocks"
)

// The "memdb" history writes through the REAL ingestion path of a storage node (tsdb engine -> shard -> data family
// -> memory database -> flush) instead of the harness' block writer, to show that the block shape behind
// C03/empty-series-bucket is what lindb itself flushes: a single-field metric gets 131200 series in hour H0 (series
// ids span three roaring buckets); in hour H1 only the series of some buckets report. The memory database names every
// series of the shard-level index in H1's flush and flushes nil for the silent ones, so one series bucket of the
// block has no bytes. Two such flushes are compacted and every cell is compared before/after.

func memdbRows(ts int64, from, to int, val float64) []*metric.StorageRow {
	ml := protoMetricsV1.MetricList{}
	for i := from; i < to; i++ {
		ml.Metrics = append(ml.Metrics, &protoMetricsV1.Metric{
			Name: "pods_ready", Namespace: "default-ns", Timestamp: ts,
			Tags:         []*protoMetricsV1.KeyValue{{Key: "pod", Value: fmt.Sprintf("p%07d", i)}},
			SimpleFields: []*protoMetricsV1.SimpleField{{Name: "f", Value: val, Type: protoMetricsV1.SimpleFieldType_DELTA_SUM}},
		})
	}
	var buf bytes.Buffer
	converter := metric.NewProtoConverter(models.NewDefaultLimits())
	_, _ = converter.MarshalProtoMetricListV1To(ml, &buf)
	var br metric.StorageBatchRows
	br.UnmarshalRows(buf.Bytes())
	return br.Rows()
}

func runMemdbHistory(rnd *rand.Rand, spec *histSpec, dir, logFile string) (res *histResult) {
	res = &histResult{Idx: spec.Idx, Kind: spec.Kind, Counters: map[string]int{}}
	fail := func(format string, args ...interface{}) *histResult {
		res.Fatal = fmt.Sprintf(format, args...)
		return res
	}
	logs := &logTail{path: logFile, filter: dir}
	logs.skipToEnd()
	config.SetGlobalStorageConfig(&config.StorageBase{TSDB: config.TSDB{Dir: dir}})
	eng, err := tsdb.NewEngine()
	if err != nil {
		return fail("tsdb.NewEngine: %v", err)
	}
	opt := &option.DatabaseOption{AutoCreateNS: true, Intervals: option.Intervals{{Interval: timeutil.Interval(10_000), Retention: timeutil.Interval(200 * 365 * 86400_000)}}}
	if err := eng.CreateShards("db", opt, models.ShardID(1)); err != nil {
		return fail("CreateShards: %v", err)
	}
	shard, _ := eng.GetShard("db", models.ShardID(1))
	db, _ := eng.GetDatabase("db")
	h0 := time.Now().Add(-4 * time.Hour).Truncate(time.Hour).UnixMilli() // only the family (hour) matters; slots are fixed below
	h1 := h0 + 3600_000
	const n = 131_200
	f0, err := shard.GetOrCrateDataFamily(h0 + 60_000)
	if err != nil {
		return fail("family H0: %v", err)
	}
	for i := 0; i < n; i += 10_000 {
		to := i + 10_000
		if to > n {
			to = n
		}
		if err := f0.WriteRows(memdbRows(h0+60_000, i, to, 1)); err != nil {
			return fail("WriteRows H0: %v", err)
		}
	}
	if err := f0.Flush(); err != nil {
		return fail("flush H0: %v", err)
	}
	_ = db.FlushMeta()
	_ = shard.FlushIndex()
	f1, err := shard.GetOrCrateDataFamily(h1 + 60_000)
	if err != nil {
		return fail("family H1: %v", err)
	}
	// which third of the pods stays silent in H1 (creation order = series id order)
	silent := rnd.Intn(3)
	spec.Steps = []string{"ingest 131200 series in H0", fmt.Sprintf("H1: pods of series bucket %d silent", silent), "flush", "flush", "compact"}
	groups := [][2]int{{100, 110}, {65_636, 65_646}, {131_172, 131_182}} // about the same rank inside their series bucket
	for round := 0; round < 2; round++ {
		ts := h1 + 60_000 + int64(round)*600_000 + int64(rnd.Intn(30))*10_000
		for g, r := range groups {
			if g == silent {
				continue
			}
			if err := f1.WriteRows(memdbRows(ts, r[0], r[1], float64(10+round))); err != nil {
				return fail("WriteRows H1: %v", err)
			}
		}
		if err := f1.Flush(); err != nil {
			return fail("flush H1: %v", err)
		}
	}
	fam := f1.Family()
	read := func() (*blocks.FamilyView, error) {
		snap := fam.GetSnapshot()
		defer snap.Close()
		return blocks.ReadFamily(snap, blocks.Options{}, nil)
	}
	before, err := read()
	if err != nil {
		return fail("read before: %v", err)
	}
	res.Steps = 1
	// does a flushed block really have a series bucket that is named but carries no data?
	emptyBucket := false
	for _, bvs := range before.Blocks {
		for _, bv := range bvs {
			named, withCells := map[uint32]bool{}, map[uint32]bool{}
			for _, s := range bv.Series {
				named[s>>16] = true
			}
			for k := range bv.Cells {
				withCells[k.Series>>16] = true
			}
			if len(bv.Fields) == 1 && len(withCells) < len(named) {
				emptyBucket = true
			}
			res.count("memdb_flushed_blocks", 1)
			res.count("memdb_series_named_by_flushed_blocks", len(bv.Series))
		}
	}
	if emptyBucket {
		res.count("memdb_flushes_with_empty_series_bucket", 1)
	}
	prefix := "C03/memdb/"
	if emptyBucket {
		prefix = "C03/empty-series-bucket/memdb/"
	}
	fam.Compact()
	waitIdle(fam)
	errs := logs.newErrors()
	after, err := read()
	if err != nil {
		res.violation(prefix+"unreadable-after-compaction", err.Error(), map[string]interface{}{"history": spec})
		return res
	}
	if fmt.Sprint(fileSummary(before)) == fmt.Sprint(fileSummary(after)) {
		res.count("compaction_jobs_failed", 1)
		res.violation(prefix+"compaction-job-fails", fmt.Sprintf("two tables flushed by the memory database (silent series bucket %d): Family.Compact changed nothing; lindb logged: %s",
			silent, strings.Join(errs, " | ")), map[string]interface{}{"history": spec, "files": fileSummary(before)})
		return res
	}
	sum := func(v *blocks.FamilyView) map[blocks.Cell]float64 {
		out := map[blocks.Cell]float64{}
		for m, bvs := range v.Blocks {
			for _, bv := range bvs {
				for k, x := range bv.Cells {
					out[blocks.Cell{Metric: m, Series: k.Series, Field: k.Field, Slot: k.Slot}] += x
				}
			}
		}
		return out
	}
	b, a := sum(before), sum(after)
	var lost, appeared, differs []string
	for c, v := range b {
		w, ok := a[c]
		switch {
		case !ok:
			lost = append(lost, cellString(c))
		case w != v:
			differs = append(differs, fmt.Sprintf("%s: %v -> %v", cellString(c), v, w))
		}
	}
	for c, w := range a {
		if _, ok := b[c]; !ok {
			appeared = append(appeared, fmt.Sprintf("%s = %v", cellString(c), w))
		}
	}
	sort.Strings(lost)
	sort.Strings(appeared)
	sort.Strings(differs)
	res.count("memdb_cells_compared_after_compact", len(b))
	res.count("compactions_merge", 1)
	wit := map[string]interface{}{"history": spec, "before": fileSummary(before), "after": fileSummary(after), "lost": firstN(lost, 20), "appeared": firstN(appeared, 20), "differs": firstN(differs, 20)}
	if len(lost) > 0 {
		res.violation(prefix+"cell-disappeared/sum", fmt.Sprintf("blocks flushed by the memory database (silent series bucket %d): %d of %d cells are gone after Family.Compact, e.g. %s", silent, len(lost), len(b), lost[0]), wit)
	}
	if len(appeared) > 0 {
		res.violation(prefix+"cell-appeared/sum", fmt.Sprintf("blocks flushed by the memory database (silent series bucket %d): %d cells exist after Family.Compact that no table had, e.g. %s", silent, len(appeared), appeared[0]), wit)
	}
	if len(differs) > 0 {
		res.violation(prefix+"value-differs/sum", fmt.Sprintf("blocks flushed by the memory database (silent series bucket %d): %d cells changed their value, e.g. %s", silent, len(differs), differs[0]), wit)
	}
	if len(lost)+len(appeared)+len(differs) == 0 {
		res.count("memdb_compactions_equal_before_after", 1)
		res.Nontrivial = append(res.Nontrivial, fmt.Sprintf("h%d/memdb", spec.Idx))
	}
	return res
}
