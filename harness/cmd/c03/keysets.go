package main

import (
	"bytes"
	"fmt"
	"math/rand"
	"sort"

	"github.com/lindb/lindb/kv/table"
	"github.com/lindb/lindb/kv/version"
	"github.com/lindb/lindb/verif/internal/blocks"
)

// History kind "keysets": wide merges over tables with DIFFERENT key sets.
//
// A compaction merges its input tables with a k-way merge (kv/table/iterator.go). What the merge has to get right
// depends on how many tables are live at once and on where each of them runs out of keys; the other kinds use 1-4
// metrics of which every file holds about three quarters, so most inputs of a compaction end at the same key.
// Here a universe of 5-8 small metrics is shared by 6-12 level-0 tables per round (later rounds add the overlapping
// level-1 tables), and every table holds its own subset of the metrics (random subset with a per-table density,
// contiguous run of metric ids with holes, one or two metrics, or all of them): tables start and end at different
// keys, so tables leave the merge one after the other while five or more others are still live.

// keysetsGen are the generator bounds of a keysets history: many small metrics (the cost of a history is the number
// of tables, not the size of the blocks).
func keysetsGen() blocks.GenOptions {
	return blocks.GenOptions{MaxMetrics: 8, MaxPool: 6, MaxSlot: 120, MaxFields: 3, MaxBaseLen: 10}
}

const keysetsMinMetrics = 5

// genKeysetsSteps: 2-3 rounds of "6..12 flushes, one compaction"; from the second round on the level-1 output of the
// previous round overlaps the new tables and becomes an input as well.
func genKeysetsSteps(rnd *rand.Rand, s *histSpec) {
	rounds := 2 + rnd.Intn(2)
	for r := 0; r < rounds; r++ {
		n := 6 + rnd.Intn(7)
		if r > 0 {
			n = 5 + rnd.Intn(7)
		}
		for i := 0; i < n; i++ {
			s.Steps = append(s.Steps, "flush")
		}
		switch rnd.Intn(8) {
		case 0:
			s.Steps = append(s.Steps, "force")
		case 1:
			s.Steps = append(s.Steps, "tick")
		default:
			s.Steps = append(s.Steps, "compact")
		}
		if r < rounds-1 && rnd.Intn(8) == 0 {
			s.Steps = append(s.Steps, "reopen")
		}
	}
	if rnd.Intn(3) == 0 {
		s.Steps = append(s.Steps, "reopen")
	}
	s.Threshold = 0
	if rnd.Intn(4) == 0 {
		// the level-1 output splits into several tables with disjoint key ranges: more inputs one level up, each of
		// them ending at a different key
		s.MaxFileSize = uint32([]int{512, 2048}[rnd.Intn(2)])
	}
}

// pickKeySubset chooses which metrics of the universe one table of a keysets history holds (never none).
func pickKeySubset(rnd *rand.Rand, u *blocks.Universe) (*blocks.Universe, string) {
	n := len(u.Metrics)
	keep := make([]bool, n)
	kind := ""
	switch rnd.Intn(6) {
	case 0, 1:
		kind = "random-density"
		p := 0.15 + 0.75*rnd.Float64()
		keep[rnd.Intn(n)] = true
		for i := range keep {
			if rnd.Float64() < p {
				keep[i] = true
			}
		}
	case 2, 3:
		kind = "run-with-holes"
		a := rnd.Intn(n)
		b := a + rnd.Intn(n-a)
		q := 0.5 + 0.5*rnd.Float64()
		for i := a; i <= b; i++ {
			if i == a || i == b || rnd.Float64() < q {
				keep[i] = true
			}
		}
	case 4:
		kind = "one-or-two"
		keep[rnd.Intn(n)] = true
		if rnd.Intn(2) == 0 {
			keep[rnd.Intn(n)] = true
		}
	default:
		kind = "half"
		keep[rnd.Intn(n)] = true
		for i := range keep {
			if rnd.Intn(2) == 0 {
				keep[i] = true
			}
		}
	}
	sub := &blocks.Universe{}
	for i, k := range keep {
		if k {
			sub.Metrics = append(sub.Metrics, u.Metrics[i])
		}
	}
	return sub, kind
}

// replayMergedIterator runs the real k-way merge (table.NewMergedIterator over the real readers' iterators, built the
// way compactJob.makeInputIterator builds it: upper-level tables first, then level 0) over the INPUT tables of the
// compaction that just ran, through the snapshot that was taken before it. The merge must hand out every
// (key, value) of every input exactly once and in ascending key order: compactJob.doMerge groups ADJACENT equal keys
// and the table builder drops a key that is not greater than the last one written.
func (h *history) replayMergedIterator(old version.Snapshot, before, after *blocks.FamilyView) {
	res := h.res
	var inputs []blocks.FileView
	for _, f := range before.Files {
		if after.File(f.Number) == nil {
			inputs = append(inputs, f)
		}
	}
	if len(inputs) < 2 {
		return
	}
	sort.SliceStable(inputs, func(i, j int) bool {
		if inputs[i].Level != inputs[j].Level {
			return inputs[i].Level > inputs[j].Level
		}
		return inputs[i].Number < inputs[j].Number
	})
	// shape of the merge (decided from the key sets of the input tables only)
	distinctSets := map[string]bool{}
	want := map[uint32]int{}
	var keySets []string
	for _, f := range inputs {
		distinctSets[fmt.Sprint(f.Keys)] = true
		keySets = append(keySets, fmt.Sprintf("L%d#%d:%v", f.Level, f.Number, f.Keys))
		for _, k := range f.Keys {
			want[k]++
		}
	}
	early := 0
	for i, f := range inputs {
		if len(f.Keys) == 0 {
			continue
		}
		last := f.Keys[len(f.Keys)-1]
		live := 0
		for j, g := range inputs {
			if j != i && len(g.Keys) > 0 && g.Keys[len(g.Keys)-1] > last {
				live++
			}
		}
		if live >= 5 {
			early++
		}
	}
	res.count("merge_replays", 1)
	nviol := len(res.Violations) + res.Counters["violations_suppressed_same_class_same_history"]
	defer func() {
		if len(res.Violations)+res.Counters["violations_suppressed_same_class_same_history"] > nviol {
			res.count("merge_replays_with_violation", 1)
		}
	}()
	if len(inputs) >= 6 {
		res.count("compactions_with_6_or_more_input_tables", 1)
		if len(distinctSets) >= 2 {
			res.count("compactions_with_6_or_more_input_tables_and_differing_key_sets", 1)
		}
		if early > 0 {
			res.count("compactions_where_a_table_ends_while_5_or_more_others_are_live", 1)
			res.count("input_tables_ending_while_5_or_more_others_are_live", early)
		}
	}
	switch n := len(inputs); {
	case n <= 5:
		res.count("compactions_by_input_tables.2-5", 1)
	case n <= 8:
		res.count("compactions_by_input_tables.6-8", 1)
	case n <= 12:
		res.count("compactions_by_input_tables.9-12", 1)
	default:
		res.count("compactions_by_input_tables.13+", 1)
	}

	var its []table.Iterator
	readers := make([]table.Reader, 0, len(inputs))
	for _, f := range inputs {
		rd, err := old.GetReader(table.FileNumber(f.Number))
		if err != nil || rd == nil {
			res.violation("C03/compact/merge-replay/input-table-unreadable",
				fmt.Sprintf("step %d (%s): input table %d cannot be opened through the snapshot taken before the compaction: %v", h.stepNo, h.stepOp, f.Number, err), h.witness(nil))
			return
		}
		readers = append(readers, rd)
		its = append(its, rd.Iterator())
	}
	type entry struct {
		key uint32
		val []byte
	}
	var emitted []entry
	mi := table.NewMergedIterator(its)
	limit := 0
	for _, n := range want {
		limit += n
	}
	for mi.HasNext() {
		emitted = append(emitted, entry{mi.Key(), mi.Value()})
		if len(emitted) > 2*limit+8 {
			break // a merge that never ends; reported below by the count check
		}
	}
	var seq []uint32
	for _, e := range emitted {
		seq = append(seq, e.key)
	}
	res.count("merge_replay_entries", len(emitted))
	extra := map[string]interface{}{"input_key_sets": keySets, "emitted_keys": seq}
	for i := 1; i < len(emitted); i++ {
		if emitted[i].key < emitted[i-1].key {
			res.violation("C03/compact/merged-iterator/keys-not-ascending",
				fmt.Sprintf("step %d (%s): the merged iterator over the %d input tables of this compaction emits key %d after key %d (position %d); emitted keys %v; input key sets %v",
					h.stepNo, h.stepOp, len(inputs), emitted[i].key, emitted[i-1].key, i, seq, keySets), h.witness(extra))
			break
		}
	}
	got := map[uint32]int{}
	for _, e := range emitted {
		got[e.key]++
	}
	keys := map[uint32]bool{}
	for k := range want {
		keys[k] = true
	}
	for k := range got {
		keys[k] = true
	}
	var sorted []uint32
	for k := range keys {
		sorted = append(sorted, k)
	}
	sort.Slice(sorted, func(i, j int) bool { return sorted[i] < sorted[j] })
	for _, k := range sorted {
		if got[k] != want[k] {
			res.violation("C03/compact/merged-iterator/entry-count-differs",
				fmt.Sprintf("step %d (%s): key %d is held by %d input tables, the merged iterator emits it %d times; emitted keys %v; input key sets %v",
					h.stepNo, h.stepOp, k, want[k], got[k], seq, keySets), h.witness(extra))
			return
		}
	}
	// every emitted value is the value of that key in exactly one input table
	for _, k := range sorted {
		var vals [][]byte
		for i, f := range inputs {
			if idx := sort.Search(len(f.Keys), func(x int) bool { return f.Keys[x] >= k }); idx < len(f.Keys) && f.Keys[idx] == k {
				v, err := readers[i].Get(k)
				if err != nil {
					res.violation("C03/compact/merge-replay/input-table-unreadable",
						fmt.Sprintf("step %d (%s): input table %d iterates key %d but Get fails: %v", h.stepNo, h.stepOp, f.Number, k, err), h.witness(nil))
					return
				}
				vals = append(vals, v)
			}
		}
		for _, e := range emitted {
			if e.key != k {
				continue
			}
			found := -1
			for i, v := range vals {
				if v != nil && bytes.Equal(v, e.val) {
					found = i
					break
				}
			}
			if found < 0 {
				res.violation("C03/compact/merged-iterator/value-not-from-an-input",
					fmt.Sprintf("step %d (%s): the merged iterator emits for key %d a value of %d bytes that is not the (remaining) value of any input table; input key sets %v",
						h.stepNo, h.stepOp, k, len(e.val), keySets), h.witness(extra))
				return
			}
			vals[found] = nil
		}
	}
	res.count("merge_replays_checked_complete", 1)
}
