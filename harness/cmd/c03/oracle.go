package main

import (
	"fmt"
	"math"
	"math/rand"
	"sort"
	"strings"

	"github.com/lindb/lindb/pkg/timeutil"
	"github.com/lindb/lindb/series/field"
	"github.com/lindb/lindb/verif/internal/blocks"
)

// pending collects, per violation class, the smallest offending item of one check pass so that the reported witness
// does not depend on map iteration order.
type pending struct {
	best  map[string]string // class -> sort key of the best item
	msg   map[string]string
	extra map[string]map[string]interface{}
	n     map[string]int
}

func newPending() *pending {
	return &pending{best: map[string]string{}, msg: map[string]string{}, extra: map[string]map[string]interface{}{}, n: map[string]int{}}
}

func (p *pending) add(class, key string, msg func() (string, map[string]interface{})) {
	p.n[class]++
	if b, ok := p.best[class]; ok && b <= key {
		return
	}
	p.best[class] = key
	m, e := msg()
	p.msg[class], p.extra[class] = m, e
}

func (h *history) flushPending(p *pending) {
	classes := make([]string, 0, len(p.best))
	for c := range p.best {
		classes = append(classes, c)
	}
	sort.Strings(classes)
	for _, c := range classes {
		h.res.violation(c, fmt.Sprintf("step %d (%s): %s [%d such items in this step]", h.stepNo, h.stepOp, p.msg[c], p.n[c]), h.witness(p.extra[c]))
	}
}

func cellKeyString(c blocks.Cell) string {
	return fmt.Sprintf("%010d/%010d/%03d/%05d", c.Metric, c.Series, c.Field, c.Slot)
}

func cellString(c blocks.Cell) string {
	return fmt.Sprintf("metric=%d series=%d field=%d slot=%d", c.Metric, c.Series, c.Field, c.Slot)
}

type obsVal struct {
	File  int64   `json:"file"`
	Level int     `json:"level"`
	Value float64 `json:"value"`
}

func obsValues(o []obsVal) []float64 {
	out := make([]float64, len(o))
	for i := range o {
		out[i] = o[i].Value
	}
	return out
}

func sameFloat(a, b float64) bool { return math.Float64bits(a) == math.Float64bits(b) || a == b }

// checkAgainstRef compares everything a reader observes in the family with the naive cell map:
// no metric, field, series or cell appears or disappears; sum/histogram/min/max cells equal the aggregate over all
// flushed contributions exactly; every first/last value held by some file is one of the contributed values.
func (h *history) checkAgainstRef(view *blocks.FamilyView) {
	ph, ref := h.phase, h.ref
	p := newPending()
	for _, n := range view.Notes {
		n := n
		p.add("C03/"+ph+"/kv-lookup-anomaly", n, func() (string, map[string]interface{}) { return n, nil })
	}
	for m := range view.Blocks {
		if _, ok := ref.Series[m]; !ok {
			m := m
			p.add(h.class(m, ph+"/metric-appeared"), fmt.Sprintf("%010d", m), func() (string, map[string]interface{}) {
				return fmt.Sprintf("metric key %d is readable but was never flushed", m), nil
			})
		}
	}
	for _, m := range ref.Metrics() {
		if len(view.Blocks[m]) == 0 {
			m := m
			p.add(h.class(m, ph+"/metric-disappeared"), fmt.Sprintf("%010d", m), func() (string, map[string]interface{}) {
				return fmt.Sprintf("metric key %d was flushed but no table of the current version holds it; files: %v", m, fileSummary(view)), nil
			})
		}
	}
	obs := map[blocks.Cell][]obsVal{}
	for m, bvs := range view.Blocks {
		m := m
		fieldsSeen := map[field.ID]bool{}
		seriesSeen := map[uint32]bool{}
		for _, bv := range bvs {
			bv := bv
			for _, n := range bv.LoadNotes {
				n := n
				p.add(h.class(m, ph+"/reader-anomaly"), fmt.Sprintf("%010d/%06d", m, bv.File), func() (string, map[string]interface{}) {
					return fmt.Sprintf("metric %d table %d: %s", m, bv.File, n), nil
				})
			}
			for i, fm := range bv.Fields {
				fm := fm
				if i > 0 && bv.Fields[i-1].ID >= fm.ID {
					p.add(h.class(m, ph+"/block-field-ids-not-ascending"), fmt.Sprintf("%010d/%06d", m, bv.File), func() (string, map[string]interface{}) {
						return fmt.Sprintf("metric %d table %d: field metas %v", m, bv.File, metaStrings(bv.Fields)), nil
					})
				}
				fieldsSeen[fm.ID] = true
				t, ok := ref.Types[blocks.MetricField{Metric: m, Field: fm.ID}]
				if !ok {
					p.add(h.class(m, ph+"/field-appeared"), fmt.Sprintf("%010d/%03d", m, fm.ID), func() (string, map[string]interface{}) {
						return fmt.Sprintf("metric %d table %d carries field %d (%s) that no flushed block had; flushed fields %v", m, bv.File, fm.ID, fm.Type, metaStrings(ref.Fields(m))), nil
					})
				} else if t != fm.Type {
					p.add(h.class(m, ph+"/field-type-changed"), fmt.Sprintf("%010d/%03d", m, fm.ID), func() (string, map[string]interface{}) {
						return fmt.Sprintf("metric %d table %d: field %d has type %s, flushed as %s", m, bv.File, fm.ID, fm.Type, t), nil
					})
				}
			}
			for _, s := range bv.Series {
				seriesSeen[s] = true
				if _, ok := ref.Series[m][s]; !ok {
					s := s
					p.add(h.class(m, ph+"/series-appeared"), fmt.Sprintf("%010d/%010d", m, s), func() (string, map[string]interface{}) {
						return fmt.Sprintf("metric %d table %d names series %d that no flushed block named", m, bv.File, s), nil
					})
				}
			}
			for k, v := range bv.Cells {
				c := blocks.Cell{Metric: m, Series: k.Series, Field: k.Field, Slot: k.Slot}
				obs[c] = append(obs[c], obsVal{bv.File, bv.Level, v})
			}
		}
		for _, fm := range ref.Fields(m) {
			if !fieldsSeen[fm.ID] {
				fm := fm
				p.add(h.class(m, ph+"/field-disappeared"), fmt.Sprintf("%010d/%03d", m, fm.ID), func() (string, map[string]interface{}) {
					return fmt.Sprintf("metric %d: flushed field %d (%s) is in no block of the current version", m, fm.ID, fm.Type), nil
				})
			}
		}
		for s := range ref.Series[m] {
			if !seriesSeen[s] {
				s := s
				p.add(h.class(m, ph+"/series-disappeared"), fmt.Sprintf("%010d/%010d", m, s), func() (string, map[string]interface{}) {
					return fmt.Sprintf("metric %d: series %d was named by a flushed block but by no block of the current version", m, s), nil
				})
			}
		}
	}
	compared := 0
	for c, contribs := range ref.Cells {
		c, contribs := c, contribs
		t := ref.Types[blocks.MetricField{Metric: c.Metric, Field: c.Field}]
		o, ok := obs[c]
		if !ok {
			p.add(h.class(c.Metric, ph+"/cell-disappeared/"+t.String()), cellKeyString(c), func() (string, map[string]interface{}) {
				return fmt.Sprintf("%s (%s): flushed contributions %v, a reader finds no value", cellString(c), t, contribs), map[string]interface{}{"cell": c, "contributions": contribs}
			})
			continue
		}
		compared++
		vals := blocks.Values(contribs)
		want, exact := blocks.Aggregate(t, vals)
		if exact {
			got, _ := blocks.Aggregate(t, obsValues(o))
			if !sameFloat(got, want) {
				p.add(h.class(c.Metric, ph+"/value-differs/"+t.String()), cellKeyString(c), func() (string, map[string]interface{}) {
					return fmt.Sprintf("%s (%s): flushed contributions %v aggregate to %v, a reader aggregates the tables' values %v to %v", cellString(c), t, contribs, want, o, got),
						map[string]interface{}{"cell": c, "contributions": contribs, "observed": o, "want": want, "got": got}
				})
			}
		} else {
			for _, ov := range o {
				if !blocks.OneOf(ov.Value, vals) {
					ov := ov
					p.add(h.class(c.Metric, ph+"/value-not-contributed/"+t.String()), cellKeyString(c), func() (string, map[string]interface{}) {
						return fmt.Sprintf("%s (%s): table %d holds %v, which is none of the flushed contributions %v", cellString(c), t, ov.File, ov.Value, contribs),
							map[string]interface{}{"cell": c, "contributions": contribs, "observed": o}
					})
				}
			}
		}
	}
	for c, o := range obs {
		if _, ok := ref.Cells[c]; !ok {
			c, o := c, o
			t := ref.Types[blocks.MetricField{Metric: c.Metric, Field: c.Field}]
			p.add(h.class(c.Metric, ph+"/cell-appeared/"+t.String()), cellKeyString(c), func() (string, map[string]interface{}) {
				return fmt.Sprintf("%s (%s): a reader finds %v although no flushed block had a value there", cellString(c), t, o), map[string]interface{}{"cell": c, "observed": o}
			})
		}
	}
	h.res.count("cells_compared_after_"+h.phase, compared)
	h.flushPending(p)
}

// checkFlushTransition: a flush adds exactly one level-0 table holding exactly the written blocks (header round trip).
func (h *history) checkFlushTransition(before, after *blocks.FamilyView, blks []*blocks.Block) {
	p := newPending()
	var added []blocks.FileView
	for _, f := range after.Files {
		if before.File(f.Number) == nil {
			added = append(added, f)
		}
	}
	for _, f := range before.Files {
		if after.File(f.Number) == nil {
			f := f
			p.add("C03/flush/file-removed", fmt.Sprint(f.Number), func() (string, map[string]interface{}) {
				return fmt.Sprintf("table %d vanished during a flush", f.Number), nil
			})
		}
	}
	var want []uint32
	for _, b := range blks {
		want = append(want, b.Metric)
	}
	if len(added) != 1 || added[0].Level != 0 || fmt.Sprint(added[0].Keys) != fmt.Sprint(want) {
		p.add("C03/flush/file-set", "", func() (string, map[string]interface{}) {
			return fmt.Sprintf("flush of metrics %v added tables %+v", want, added), nil
		})
		h.flushPending(p)
		return
	}
	for _, b := range blks {
		b := b
		var bv *blocks.BlockView
		for _, x := range after.Blocks[b.Metric] {
			if x.File == added[0].Number {
				bv = x
			}
		}
		if bv == nil {
			p.add("C03/flush/block-missing", fmt.Sprint(b.Metric), func() (string, map[string]interface{}) {
				return "block of metric " + fmt.Sprint(b.Metric) + " not found in the new table", nil
			})
			continue
		}
		var named []uint32
		for i := range b.Series {
			named = append(named, b.Series[i].ID)
		}
		if fmt.Sprint(metaStrings(bv.Fields)) != fmt.Sprint(metaStrings(b.Fields)) || bv.Range != b.Range || fmt.Sprint(bv.Series) != fmt.Sprint(named) {
			p.add("C03/flush/header-roundtrip", fmt.Sprint(b.Metric), func() (string, map[string]interface{}) {
				return fmt.Sprintf("written %s; read back fields=%v range=%v series=%d", b.Describe(), metaStrings(bv.Fields), bv.Range, len(bv.Series)), nil
			})
		}
		if len(bv.Cells) != b.CellCount() {
			p.add("C03/flush/cell-count-roundtrip", fmt.Sprint(b.Metric), func() (string, map[string]interface{}) {
				return fmt.Sprintf("written %s; read back %d cells", b.Describe(), len(bv.Cells)), nil
			})
		}
	}
	h.flushPending(p)
}

// checkCompaction compares the family before and after one compaction step file by file: which tables were inputs,
// which are outputs, and for every merged metric block the header (slot range = union, fields = union, series =
// union) and every cell against the values of the INPUT tables.
func (h *history) checkCompaction(before, after *blocks.FamilyView, expect bool, errs []string) {
	res := h.res
	p := newPending()
	defer h.flushPending(p)
	inputs, outputs, moved := map[int64]blocks.FileView{}, map[int64]blocks.FileView{}, map[int64]blocks.FileView{}
	for _, f := range before.Files {
		g := after.File(f.Number)
		if g == nil {
			inputs[f.Number] = f
		} else if g.Level != f.Level {
			moved[f.Number] = f
		}
	}
	for _, f := range after.Files {
		if before.File(f.Number) == nil {
			outputs[f.Number] = f
		}
	}
	l0 := before.NumFiles(0)
	var flagged []string
	mark := func(files map[int64]blocks.FileView) { flagged = append(flagged, h.markTaint(files)...) }
	if len(inputs)+len(outputs)+len(moved) == 0 {
		if expect {
			class := "C03/compact/no-effect"
			joined := strings.Join(errs, " | ")
			l0files := map[int64]blocks.FileView{}
			for _, f := range before.Files {
				if f.Level == 0 {
					l0files[f.Number] = f
				}
			}
			switch {
			case strings.Contains(joined, "series entries length too short"):
				mark(l0files)
				class = "C03/compact/job-fails/series-entries-too-short"
				if len(flagged) > 0 {
					class = "C03/empty-series-bucket/compaction-job-fails"
					joined = fmt.Sprintf("blocks with an empty series bucket: %v; %s", flagged, joined)
				}
			case strings.Contains(joined, "file already closed") && h.spec.MaxFileSize > 0:
				// the merger's stream writer still points into the output table that was finished when it reached MaxFileSize
				class = "C03/compact/output-rollover/job-fails-write-to-finished-table"
			case len(errs) > 0:
				class = "C03/compact/job-fails/other-error"
			}
			p.add(class, "", func() (string, map[string]interface{}) {
				return fmt.Sprintf("%d level-0 tables, threshold %d: the compaction changed nothing; lindb logged: %s; files: %v", l0, h.spec.Threshold, joined, fileSummary(before)),
					map[string]interface{}{"log": errs}
			})
			res.count("compaction_jobs_failed", 1)
		} else {
			res.count("compaction_steps_without_work", 1)
		}
		return
	}
	if !expect {
		res.Fatal = fmt.Sprintf("step %d (%s): harness expectation wrong: compaction ran with %d level-0 tables, threshold %d", h.stepNo, h.stepOp, l0, h.spec.Threshold)
		return
	}
	mark(inputs)
	if len(flagged) > 0 {
		res.count("compactions_with_empty_series_bucket_input", 1)
	}
	if d := diffUntouched(before, after, inputs, outputs); d != "" {
		p.add("C03/compact/untouched-table-changed", "", func() (string, map[string]interface{}) { return d, nil })
	}
	if len(moved) > 0 && len(inputs)+len(outputs) == 0 {
		res.count("compactions_trivial_move", 1)
		if after.NumFiles(0) != 0 {
			p.add("C03/compact/level0-not-emptied", "", func() (string, map[string]interface{}) { return "after a move: " + fmt.Sprint(fileSummary(after)), nil })
		}
		return
	}
	res.count("compactions_merge", 1)
	res.count("compaction_input_tables", len(inputs))
	res.count("compaction_output_tables", len(outputs))
	l1in := 0
	for _, f := range inputs {
		if f.Level == 1 {
			l1in++
		}
	}
	if l1in > 0 {
		res.count("compactions_merging_l0_with_overlapping_l1", 1)
	}
	if len(outputs) > 1 {
		res.count("compactions_with_output_split_over_several_tables", 1)
	}
	if len(moved) > 0 {
		p.add("C03/compact/move-and-merge-mixed", "", func() (string, map[string]interface{}) {
			return fmt.Sprintf("moved %v inputs %v outputs %v", moved, inputs, outputs), nil
		})
	}
	if after.NumFiles(0) != 0 {
		p.add("C03/compact/level0-not-emptied", "", func() (string, map[string]interface{}) {
			return fmt.Sprintf("before %v after %v", fileSummary(before), fileSummary(after)), nil
		})
	}
	for _, f := range outputs {
		if f.Level != 1 {
			f := f
			p.add("C03/compact/output-on-wrong-level", fmt.Sprint(f.Number), func() (string, map[string]interface{}) {
				return fmt.Sprintf("output table %d on level %d", f.Number, f.Level), nil
			})
		}
	}
	for m, bvs := range after.Blocks {
		if len(bvs) > 1 {
			m, bvs := m, bvs
			p.add(h.class(m, "compact/key-in-several-tables-after"), fmt.Sprintf("%010d", m), func() (string, map[string]interface{}) {
				return fmt.Sprintf("metric %d is held by %d tables after the compaction: %v", m, len(bvs), fileSummary(after)), nil
			})
		}
	}
	// merged blocks per metric
	inBlocks := map[uint32][]*blocks.BlockView{}
	outBlocks := map[uint32][]*blocks.BlockView{}
	for m, bvs := range before.Blocks {
		for _, bv := range bvs {
			if _, ok := inputs[bv.File]; ok {
				inBlocks[m] = append(inBlocks[m], bv)
			}
		}
	}
	for m, bvs := range after.Blocks {
		for _, bv := range bvs {
			if _, ok := outputs[bv.File]; ok {
				outBlocks[m] = append(outBlocks[m], bv)
			}
		}
	}
	for m := range outBlocks {
		if len(inBlocks[m]) == 0 {
			m := m
			p.add(h.class(m, "compact/metric-created-by-merge"), fmt.Sprintf("%010d", m), func() (string, map[string]interface{}) {
				return fmt.Sprintf("output holds metric %d that no input table held", m), nil
			})
		}
	}
	nontrivial := false
	for m, ins := range inBlocks {
		m, ins := m, ins
		outs := outBlocks[m]
		if len(outs) == 0 {
			p.add(h.class(m, "compact/metric-lost-by-merge"), fmt.Sprintf("%010d", m), func() (string, map[string]interface{}) {
				return fmt.Sprintf("metric %d was in %d input tables and is in no output table", m, len(ins)), nil
			})
			continue
		}
		if len(outs) > 1 {
			p.add(h.class(m, "compact/key-in-several-outputs"), fmt.Sprintf("%010d", m), func() (string, map[string]interface{}) {
				return fmt.Sprintf("metric %d is in %d output tables", m, len(outs)), nil
			})
			continue
		}
		ob := outs[0]
		// header: slot range, fields, series are the unions of the inputs
		var ranges []timeutil.SlotRange
		fset := map[field.ID]field.Type{}
		sset := map[uint32]bool{}
		for _, ib := range ins {
			ranges = append(ranges, ib.Range)
			for _, fm := range ib.Fields {
				fset[fm.ID] = fm.Type
			}
			for _, s := range ib.Series {
				sset[s] = true
			}
		}
		if u := blocks.UnionRange(ranges); u != ob.Range {
			p.add(h.class(m, "compact/slot-range-header"), fmt.Sprintf("%010d", m), func() (string, map[string]interface{}) {
				return fmt.Sprintf("metric %d: input ranges %v, output block says %v, union is %v", m, ranges, ob.Range, u), nil
			})
		}
		var wantFields field.Metas
		for id, t := range fset {
			wantFields = append(wantFields, field.Meta{ID: id, Type: t})
		}
		sort.Slice(wantFields, func(i, j int) bool { return wantFields[i].ID < wantFields[j].ID })
		if fmt.Sprint(metaStrings(wantFields)) != fmt.Sprint(metaStrings(ob.Fields)) {
			p.add(h.class(m, "compact/field-metas"), fmt.Sprintf("%010d", m), func() (string, map[string]interface{}) {
				return fmt.Sprintf("metric %d: union of input fields %v, output block has %v", m, metaStrings(wantFields), metaStrings(ob.Fields)), nil
			})
		}
		if len(sset) != len(ob.Series) {
			p.add(h.class(m, "compact/series-bitmap"), fmt.Sprintf("%010d", m), func() (string, map[string]interface{}) {
				return fmt.Sprintf("metric %d: inputs name %d series, output names %d", m, len(sset), len(ob.Series)), nil
			})
		} else {
			for _, s := range ob.Series {
				if !sset[s] {
					s := s
					p.add(h.class(m, "compact/series-bitmap"), fmt.Sprintf("%010d", m), func() (string, map[string]interface{}) {
						return fmt.Sprintf("metric %d: output names series %d that no input named", m, s), nil
					})
					break
				}
			}
		}
		// cells against the values of the input tables (ascending table number = flush order on level 0)
		type sf struct {
			s uint32
			f field.ID
		}
		pairs := map[sf]int{}
		inCells := map[blocks.CellKey][]obsVal{}
		for _, ib := range ins {
			seen := map[sf]bool{}
			for k, v := range ib.Cells {
				inCells[k] = append(inCells[k], obsVal{ib.File, ib.Level, v})
				seen[sf{k.Series, k.Field}] = true
			}
			for k := range seen {
				pairs[k]++
			}
		}
		if len(ins) >= 2 {
			for _, n := range pairs {
				if n >= 2 {
					nontrivial = true
					break
				}
			}
		}
		for k, vals := range inCells {
			k, vals := k, vals
			c := blocks.Cell{Metric: m, Series: k.Series, Field: k.Field, Slot: k.Slot}
			t, _ := ob.FieldType(k.Field)
			if tt, ok := fset[k.Field]; ok {
				t = tt
			}
			got, ok := ob.Cells[k]
			if !ok {
				p.add(h.class(m, "compact/merged-cell-disappeared/"+t.String()), cellKeyString(c), func() (string, map[string]interface{}) {
					return fmt.Sprintf("%s (%s): input tables hold %v, output table %d holds nothing", cellString(c), t, vals, ob.File), map[string]interface{}{"cell": c, "inputs": vals, "series_in_tables": seriesInInputs(ins, ob, c.Series)}
				})
				continue
			}
			if len(vals) >= 2 {
				res.count("cells_merged_from_several_inputs", 1)
				res.count("cells_merged_from_several_inputs."+t.String(), 1)
			} else {
				res.count("cells_rewritten_from_one_input", 1)
			}
			sort.Slice(vals, func(i, j int) bool { return vals[i].File < vals[j].File })
			want, exact := blocks.Aggregate(t, obsValues(vals))
			if exact {
				if !sameFloat(got, want) {
					p.add(h.class(m, "compact/merged-value-differs/"+t.String()), cellKeyString(c), func() (string, map[string]interface{}) {
						return fmt.Sprintf("%s (%s): input tables hold %v (aggregate %v), output table %d holds %v", cellString(c), t, vals, want, ob.File, got),
							map[string]interface{}{"cell": c, "inputs": vals, "want": want, "got": got, "series_in_tables": seriesInInputs(ins, ob, c.Series)}
					})
				}
			} else {
				if !blocks.OneOf(got, obsValues(vals)) {
					p.add(h.class(m, "compact/merged-value-not-from-an-input/"+t.String()), cellKeyString(c), func() (string, map[string]interface{}) {
						return fmt.Sprintf("%s (%s): input tables hold %v, output table %d holds %v", cellString(c), t, vals, ob.File, got),
							map[string]interface{}{"cell": c, "inputs": vals, "got": got, "series_in_tables": seriesInInputs(ins, ob, c.Series)}
					})
				} else if len(vals) >= 2 && !sameFloat(vals[0].Value, vals[len(vals)-1].Value) {
					// stronger statement (NOT required by the property): first = value of the oldest table, last = value of the newest
					res.count(t.String()+"_cells_merged_from_distinct_values", 1)
					if sameFloat(got, want) {
						res.count(t.String()+"_cells_merged_in_table_age_order", 1)
					}
				}
			}
		}
		for k, v := range ob.Cells {
			if _, ok := inCells[k]; !ok {
				k, v := k, v
				c := blocks.Cell{Metric: m, Series: k.Series, Field: k.Field, Slot: k.Slot}
				t, _ := ob.FieldType(k.Field)
				p.add(h.class(m, "compact/merged-cell-appeared/"+t.String()), cellKeyString(c), func() (string, map[string]interface{}) {
					return fmt.Sprintf("%s (%s): output table %d holds %v, no input table had a value there", cellString(c), t, ob.File, v), map[string]interface{}{"cell": c, "got": v, "series_in_tables": seriesInInputs(ins, ob, c.Series)}
				})
			}
		}
		res.count("metric_blocks_merged", 1)
		if len(ins) >= 2 {
			res.count("metric_blocks_merged_from_several_inputs", 1)
		}
	}
	if nontrivial {
		res.count("compactions_nontrivial", 1)
		res.Nontrivial = append(res.Nontrivial, fmt.Sprintf("h%d/s%d", h.spec.Idx, h.stepNo))
	}
}

// seriesInInputs describes, for one series of one metric, what every input block and the output block hold
// (put into the witnesses of cell violations of a compaction).
func seriesInInputs(ins []*blocks.BlockView, ob *blocks.BlockView, series uint32) []string {
	var out []string
	desc := func(tag string, bv *blocks.BlockView) {
		named := false
		for _, s := range bv.Series {
			if s == series {
				named = true
			}
		}
		perField := map[field.ID][]int{}
		for k := range bv.Cells {
			if k.Series == series {
				perField[k.Field] = append(perField[k.Field], int(k.Slot))
			}
		}
		var fs []string
		for _, fm := range bv.Fields {
			sl := perField[fm.ID]
			sort.Ints(sl)
			if len(sl) > 0 {
				fs = append(fs, fmt.Sprintf("field %d: %d cells in slots %d..%d", fm.ID, len(sl), sl[0], sl[len(sl)-1]))
			} else {
				fs = append(fs, fmt.Sprintf("field %d: no cells", fm.ID))
			}
		}
		out = append(out, fmt.Sprintf("%s table %d L%d fields=%v range=[%d,%d] names %d series (ids %d..%d), series %d named=%v: %s",
			tag, bv.File, bv.Level, metaStrings(bv.Fields), bv.Range.Start, bv.Range.End, len(bv.Series), bv.Series[0], bv.Series[len(bv.Series)-1], series, named, strings.Join(fs, "; ")))
	}
	for _, ib := range ins {
		desc("input", ib)
	}
	desc("output", ob)
	return out
}

// diffUntouched compares the tables that are neither inputs nor outputs of the compaction.
func diffUntouched(before, after *blocks.FamilyView, inputs, outputs map[int64]blocks.FileView) string {
	for m, bvs := range before.Blocks {
		for _, bv := range bvs {
			if _, ok := inputs[bv.File]; ok {
				continue
			}
			var other *blocks.BlockView
			for _, x := range after.Blocks[m] {
				if x.File == bv.File {
					other = x
				}
			}
			if other == nil {
				return fmt.Sprintf("metric %d of table %d (not an input) is not readable after the compaction", m, bv.File)
			}
			if d := diffBlock(bv, other); d != "" {
				return fmt.Sprintf("metric %d of table %d (not an input): %s", m, bv.File, d)
			}
		}
	}
	return ""
}

func diffBlock(a, b *blocks.BlockView) string {
	if fmt.Sprint(metaStrings(a.Fields)) != fmt.Sprint(metaStrings(b.Fields)) {
		return fmt.Sprintf("fields %v vs %v", metaStrings(a.Fields), metaStrings(b.Fields))
	}
	if a.Range != b.Range {
		return fmt.Sprintf("range %v vs %v", a.Range, b.Range)
	}
	if fmt.Sprint(a.Series) != fmt.Sprint(b.Series) {
		return fmt.Sprintf("series sets differ (%d vs %d)", len(a.Series), len(b.Series))
	}
	if len(a.Cells) != len(b.Cells) {
		return fmt.Sprintf("%d vs %d cells", len(a.Cells), len(b.Cells))
	}
	for k, v := range a.Cells {
		if w, ok := b.Cells[k]; !ok || !sameFloat(v, w) {
			return fmt.Sprintf("cell series=%d field=%d slot=%d: %v vs %v (present=%v)", k.Series, k.Field, k.Slot, v, w, ok)
		}
	}
	return ""
}

// diffViews compares two complete views (same tables on the same levels with the same blocks).
func diffViews(a, b *blocks.FamilyView) string {
	if fmt.Sprint(fileSummary(a)) != fmt.Sprint(fileSummary(b)) {
		return fmt.Sprintf("tables %v vs %v", fileSummary(a), fileSummary(b))
	}
	for m, bvs := range a.Blocks {
		if len(b.Blocks[m]) != len(bvs) {
			return fmt.Sprintf("metric %d: %d vs %d blocks", m, len(bvs), len(b.Blocks[m]))
		}
		for i := range bvs {
			if d := diffBlock(bvs[i], b.Blocks[m][i]); d != "" {
				return fmt.Sprintf("metric %d table %d: %s", m, bvs[i].File, d)
			}
		}
	}
	if len(a.Blocks) != len(b.Blocks) {
		return fmt.Sprintf("%d vs %d metrics", len(a.Blocks), len(b.Blocks))
	}
	return ""
}

func fileSummary(v *blocks.FamilyView) []string {
	var out []string
	for _, f := range v.Files {
		out = append(out, fmt.Sprintf("L%d#%d keys=%v", f.Level, f.Number, f.Keys))
	}
	return out
}

func metaStrings(ms field.Metas) []string {
	var out []string
	for _, m := range ms {
		out = append(out, fmt.Sprintf("%d:%s", m.ID, m.Type))
	}
	return out
}

func sortBlocks(b *[]*blocks.Block) {
	sort.Slice(*b, func(i, j int) bool { return (*b)[i].Metric < (*b)[j].Metric })
}

// markTaint marks the metrics of the given (input) tables whose block has a series bucket without bytes.
func (h *history) markTaint(files map[int64]blocks.FileView) (flagged []string) {
	for fn := range files {
		for m := range h.emptyBucket[fn] {
			flagged = append(flagged, fmt.Sprintf("table %d metric %d", fn, m))
			if !h.tainted[m] {
				h.tainted[m] = true
				h.res.count("metrics_tainted_by_empty_series_bucket", 1)
			}
		}
	}
	sort.Strings(flagged)
	return flagged
}

// class returns the violation class of an item that concerns metric m. Once a block with an empty series bucket of
// metric m went into a compaction, everything observed about m in this history is reported under
// C03/empty-series-bucket/... (one root cause: flusher.go writes no bucket footer when a bucket holds no bytes,
// reader.go dataScanner cannot step over such a bucket).
func (h *history) class(m uint32, suffix string) string {
	if h.tainted[m] {
		return "C03/empty-series-bucket/" + suffix
	}
	return "C03/" + suffix
}

// emptyBucketBlocks returns the metrics of a flushed file whose block has a series bucket (all series of one high
// key) without a single byte: only possible for single-field blocks (a multi-field series entry always carries its
// field offsets), when every series of the bucket was flushed with nil field data.
func emptyBucketBlocks(blks []*blocks.Block) map[uint32]bool {
	out := map[uint32]bool{}
	for _, b := range blks {
		if len(b.Fields) != 1 {
			continue
		}
		bytesIn := map[uint32]bool{}
		buckets := map[uint32]bool{}
		for i := range b.Series {
			hk := b.Series[i].ID >> 16
			buckets[hk] = true
			if b.Series[i].Fields[0] != nil {
				bytesIn[hk] = true
			}
		}
		if len(bytesIn) < len(buckets) {
			out[b.Metric] = true
		}
	}
	return out
}

const silentMetric = 900000

// silentBucketBlock builds the block a memdb flush produces for a single-field metric whose series span several
// roaring buckets when, in this family, only series of some buckets received data: memdb names EVERY series of the
// metric's index (FlushMetricsDataTo) and flushes nil for the ones without a page, so one bucket has no bytes at all.
func silentBucketBlock(rnd *rand.Rand, seq int) *blocks.Block {
	b := &blocks.Block{Metric: silentMetric, Fields: field.Metas{{ID: 1, Type: field.SumField}}, Range: timeutil.SlotRange{Start: 10, End: 20}}
	groups := [][]uint32{{1, 2, 3}, {65536, 65537}, {131072}}
	silent := rnd.Intn(3)
	for gi, g := range groups {
		for _, s := range g {
			se := blocks.Series{ID: s, Fields: make([]blocks.FieldData, 1)}
			if gi != silent {
				se.Fields[0] = blocks.FieldData{uint16(10 + rnd.Intn(11)): float64(int64(1+rnd.Intn(100))*64 + int64(seq%64))}
			}
			b.Series = append(b.Series, se)
		}
	}
	return b
}
