// C03 — Compaction of metric data never changes what a reader can observe.
//
// Parent: builds the list of histories for (seed, tier), runs them in child processes (a panic in lindb's
// compaction goroutine kills the process), merges the children's observations and writes the evidence.
// Child (history.go): one real kv store + family (merger MetricDataMerger) per history, blocks written with the
// real metricsdata.Flusher, compaction through Family.Compact / the store tick / a forced job, every cell read back
// through metricsdata.NewReader + MetricReader.Load before and after every step and compared with a naive cell map
// (oracle.go).
package main

import (
	"encoding/json"
	"fmt"
	"os"
	"path/filepath"
	"runtime"
	"sort"
	"strconv"
	"strings"
	"time"

	"github.com/lindb/lindb/verif/internal/core"
)

// job is one history to run.
type job struct {
	Idx  int    `json:"idx"`
	Kind string `json:"kind"` // random | split | silent | big | manyfiles | memdb | keysets
}

func main() {
	if len(os.Args) > 1 && os.Args[1] == "child" {
		runChild()
		return
	}
	c := core.New("C03", "exploration")
	c.SetRule("one case = one step of a generated history 'flush* compact flush* compact ...' on one kv family with merger MetricDataMerger " +
		"(1-4 metrics; series pools small/dense/sparse/boundary 65535|65536|131071/two-buckets; 1-5 fields of all six types or a histogram schema; " +
		"per file a subset of metrics, fields and series, silent series, nil/empty fields; slot ranges same/nested/single/overlapping/disjoint/touching/>360 slots; " +
		"compaction by Family.Compact, store tick, forced job or concurrently with a flush; optional close+reopen; kinds: random, manyfiles (6-12 level-0 tables), " +
		"silent (single-field block with a byte-less series bucket), split (MaxFileSize 64..4096 so the output rolls over), big (3000/66000-series blocks), " +
		"memdb (blocks flushed by the real memory database of a tsdb engine), keysets (5-8 small metrics, 2-3 rounds of 6-12 level-0 tables plus the overlapping " +
		"level-1 tables in ONE compaction, every table holding its own subset of the metrics - random density, run of metric ids with holes, one or two, half - " +
		"so that tables leave the k-way merge at different keys while >= 5 others are live)); after every step all cells are read back through the query-path reader " +
		"and compared with the naive cell map and, for a compaction, table by table with the values of its input tables; " +
		"the real merged iterator is run again over the input tables of every compaction (snapshot taken before it) and must emit every entry once, keys ascending. " +
		"Non-trivial = a compaction that merged >= 2 input files sharing at least one (metric, series, field) pair; distinct by (history, step).")
	c.Assume("blocks are written with the real flusher following memdb's call protocol; the flusher/reader pair is itself checked after every flush (classes C03/flush/...)")
	c.Assume("values are integers |v| < 2^40 so that sums are exact in float64; field ids keep one type per metric (schema invariant)")
	c.Assume("cells are loaded one field at a time, so the reader defect of C11 (single-field block mapped to query field 0) cannot influence the comparison")
	c.Assume("compaction jobs run one at a time per family and are awaited through kv.VerifFamilyWait; schedules are not part of this property")

	var jobs []job
	add := func(kind string, n int) {
		for i := 0; i < n; i++ {
			jobs = append(jobs, job{Idx: len(jobs), Kind: kind})
		}
	}
	add("random", c.Pick(120, 6000))
	add("manyfiles", c.Pick(6, 250))
	add("silent", c.Pick(6, 100))
	add("split", c.Pick(10, 300))
	add("big", c.Pick(1, 8))
	add("memdb", c.Pick(1, 6))
	add("keysets", c.Pick(72, 1200)) // appended last: the histories above keep their index and random stream

	// developer aid: run the histories of one kind only (indexes and random streams unchanged); never a verdict
	if only := os.Getenv("C03_ONLY_KIND"); only != "" {
		var kept []job
		for _, j := range jobs {
			if j.Kind == only {
				kept = append(kept, j)
			}
		}
		jobs = kept
		c.Inconclusive("C03_ONLY_KIND=%s: partial run over %d histories", only, len(jobs))
	}

	scratch := c.Scratch()
	// batches: split and big histories alone (a split history is expected to kill its process while the rollover
	// defect is open), everything else in batches of 8
	var batches [][]job
	var cur []job
	for _, j := range jobs {
		if j.Kind == "split" || j.Kind == "big" || j.Kind == "memdb" {
			batches = append(batches, []job{j})
			continue
		}
		cur = append(cur, j)
		if len(cur) == 8 {
			batches = append(batches, cur)
			cur = nil
		}
	}
	if len(cur) > 0 {
		batches = append(batches, cur)
	}
	// big ones first (longest)
	long := func(k string) bool { return k == "big" || k == "memdb" }
	sort.SliceStable(batches, func(a, b int) bool { return long(batches[a][0].Kind) && !long(batches[b][0].Kind) })

	type batchOut struct {
		results []*histResult
		died    string
		timeout bool
		running string
	}
	outs := make([]batchOut, len(batches))
	core.Parallel(len(batches), runtime.NumCPU(), func(bi int) {
		dir := filepath.Join(scratch, fmt.Sprintf("b%05d", bi))
		_ = os.MkdirAll(dir, 0o755)
		spec, _ := json.Marshal(batches[bi])
		_ = os.WriteFile(filepath.Join(dir, "jobs.json"), spec, 0o644)
		timeout := 10 * time.Minute
		if !c.Quick() {
			timeout = 40 * time.Minute
		}
		res := core.RunChild("", []string{"child", dir, c.Tier},
			[]string{"VERIF_SEED=" + strconv.FormatInt(c.Seed, 10), "LOG_LEVEL=error"}, timeout, filepath.Join(dir, "child.log"))
		o := batchOut{}
		if data, err := os.ReadFile(filepath.Join(dir, "results.json")); err == nil {
			_ = json.Unmarshal(data, &o.results)
		}
		if res.TimedOut {
			o.timeout = true
		} else if res.ExitCode != 0 || len(o.results) != len(batches[bi]) {
			o.died = fmt.Sprintf("exit=%d err=%v output tail:\n%s", res.ExitCode, res.Err, tail(res.Output, 6000))
		}
		if cur, err := os.ReadFile(filepath.Join(dir, "current.json")); err == nil {
			o.running = string(cur)
		}
		outs[bi] = o
		_ = os.RemoveAll(dir)
	})

	for bi, o := range outs {
		for _, r := range o.results {
			merge(c, r)
		}
		if o.timeout {
			c.Inconclusive("batch %d (%v): watchdog fired while running %s", bi, batches[bi], o.running)
			continue
		}
		if o.died != "" {
			class, ok := classifyDeath(o.died)
			msg := fmt.Sprintf("child process died while running history %s: %s", oneLine(o.running), o.died)
			if ok {
				c.Count("histories_that_killed_the_process", 1)
				c.Violation(class, msg, map[string]interface{}{"history": json.RawMessage(orNull(o.running)), "output": o.died})
			} else {
				c.Inconclusive("batch %d: child failed outside the anchored code: %s", bi, tail(msg, 1500))
			}
		}
	}
	if c.Counter("compactions_merging_l0_with_overlapping_l1") < 5 {
		c.Inconclusive("only %d compactions merged level 0 with an overlapping level-1 file", c.Counter("compactions_merging_l0_with_overlapping_l1"))
	}
	// wide merges over differing key sets (kind keysets): the unchanged tree reaches ~200 / ~180 of them in the quick tier
	if n, need := c.Counter("compactions_with_6_or_more_input_tables_and_differing_key_sets"), int64(c.Pick(100, 1500)); n < need {
		c.Inconclusive("only %d compactions merged >= 6 input tables with differing key sets (need %d)", n, need)
	}
	if n, need := c.Counter("compactions_where_a_table_ends_while_5_or_more_others_are_live"), int64(c.Pick(80, 1200)); n < need {
		c.Inconclusive("only %d compactions in which an input table ran out of keys while >= 5 others were live (need %d)", n, need)
	}
	if n := c.Counter("merge_replays_checked_complete") + c.Counter("merge_replays_with_violation"); n < c.Counter("merge_replays") {
		c.Inconclusive("%d of %d replays of the merged iterator did not run to the end", c.Counter("merge_replays")-n, c.Counter("merge_replays"))
	}
	if c.Counter("cells_compared_after_compact") < 1000 {
		c.Inconclusive("only %d cells compared after a compaction", c.Counter("cells_compared_after_compact"))
	}
	c.Finish()
}

func orNull(s string) string {
	if json.Valid([]byte(s)) && s != "" {
		return s
	}
	b, _ := json.Marshal(s)
	return string(b)
}

func merge(c *core.Ctx, r *histResult) {
	c.Eval(r.Steps)
	c.Count("histories", 1)
	c.Count("histories."+r.Kind, 1)
	for k, v := range r.Counters {
		c.Count(k, v)
	}
	for _, k := range r.Nontrivial {
		c.Nontrivial(k)
	}
	if r.Sample != nil {
		c.Sample(r.Sample)
	}
	for _, v := range r.Violations {
		c.Violation(v.Class, fmt.Sprintf("history %d (%s): %s", r.Idx, r.Kind, v.Message), v.Witness)
	}
	if r.Fatal != "" {
		c.Inconclusive("history %d (%s): harness error: %s", r.Idx, r.Kind, r.Fatal)
	}
}

// classifyDeath maps the stack of a dead child to a violation class when the failing frames are in the anchored code.
func classifyDeath(out string) (string, bool) {
	inCompaction := strings.Contains(out, "kv.(*compactJob)") || strings.Contains(out, "backgroundCompactionJob")
	switch {
	case strings.Contains(out, "compactFlusher).afterAdd") && strings.Contains(out, "nil pointer dereference"):
		// the stream writer of the first output table is used after the table was finished (state.builder == nil)
		return "C03/compact/output-rollover/process-dies", true
	case inCompaction && strings.Contains(out, "metricsdata."):
		return "C03/compact/process-dies-in-metric-merger", true
	case inCompaction:
		return "C03/compact/process-dies-in-compaction-job", true
	case strings.Contains(out, "lindb/tsdb/tblstore/metricsdata.") || strings.Contains(out, "lindb/aggregation."):
		return "C03/process-dies-in-metricsdata", true
	case strings.Contains(out, "lindb/kv"):
		return "C03/process-dies-in-kv", true
	}
	return "", false
}

func tail(s string, n int) string {
	if len(s) > n {
		return s[len(s)-n:]
	}
	return s
}

func oneLine(s string) string { return strings.Join(strings.Fields(s), " ") }
