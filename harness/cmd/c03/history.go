package main

import (
	"encoding/json"
	"fmt"
	"math/rand"
	"os"
	"path/filepath"
	"runtime/debug"
	"strings"
	"sync"
	"time"

	"github.com/lindb/roaring"

	"github.com/lindb/lindb/kv"
	"github.com/lindb/lindb/verif/internal/blocks"
	"github.com/lindb/lindb/verif/internal/core"
)

// step of a history.
type step struct {
	Op string `json:"op"` // flush | compact | force | tick | reopen
}

// histSpec is the generated description of one history (also written into witnesses).
type histSpec struct {
	Idx         int               `json:"idx"`
	Kind        string            `json:"kind"`
	Seed        int64             `json:"seed"`
	Tier        string            `json:"tier"`
	MaxFileSize uint32            `json:"max_file_size"`
	Threshold   int               `json:"compact_threshold"`
	Steps       []string          `json:"steps"`
	PSilent     float64           `json:"p_silent"`
	Gen         blocks.GenOptions `json:"gen"`
	MinMetrics  int               `json:"min_metrics,omitempty"` // keysets: the universe has at least this many metrics
	Metrics     []string          `json:"metrics,omitempty"`
	Files       []string          `json:"files,omitempty"` // description of every flushed file, filled while running
}

// histResult is what a child reports per history.
type histResult struct {
	Idx        int              `json:"idx"`
	Kind       string           `json:"kind"`
	Steps      int              `json:"steps"`
	Counters   map[string]int   `json:"counters"`
	Nontrivial []string         `json:"nontrivial"`
	Violations []core.Violation `json:"violations"`
	Sample     interface{}      `json:"sample,omitempty"`
	Fatal      string           `json:"fatal,omitempty"`
}

func (r *histResult) count(name string, n int) { r.Counters[name] += n }

func (r *histResult) violation(class, msg string, witness interface{}) {
	for _, v := range r.Violations {
		if v.Class == class {
			r.count("violations_suppressed_same_class_same_history", 1)
			return
		}
	}
	r.Violations = append(r.Violations, core.Violation{Class: class, Message: msg, Witness: witness})
}

func runChild() {
	dir, tier := os.Args[2], os.Args[3]
	var jobs []job
	data, err := os.ReadFile(filepath.Join(dir, "jobs.json"))
	if err == nil {
		err = json.Unmarshal(data, &jobs)
	}
	if err != nil {
		fmt.Println("cannot read jobs:", err)
		os.Exit(4)
	}
	os.Args = []string{os.Args[0], tier} // core.New reads the tier from argv[1]
	c := core.New("C03", "exploration")
	results := make([]*histResult, len(jobs))
	running := map[int]*histSpec{}
	var mu sync.Mutex
	save := func() {
		cur, _ := json.Marshal(running)
		_ = os.WriteFile(filepath.Join(dir, "current.json"), cur, 0o644)
		var done []*histResult
		for _, r := range results {
			if r != nil {
				done = append(done, r)
			}
		}
		out, _ := json.Marshal(done)
		_ = os.WriteFile(filepath.Join(dir, "results.json"), out, 0o644)
	}
	// histories of a batch run side by side: lindb's process-wide pools (TSD encoders/decoders, fixed-offset decoders,
	// the float64 slices of the down sampling merge) are shared between concurrent compactions of different families
	core.Parallel(len(jobs), 3, func(i int) {
		j := jobs[i]
		rnd := c.Rand(fmt.Sprintf("history-%d", j.Idx))
		spec := genSpec(rnd, j, c)
		mu.Lock()
		running[j.Idx] = spec
		save() // logged before running
		mu.Unlock()
		storeDir := filepath.Join(dir, fmt.Sprintf("store-%d", j.Idx))
		var r *histResult
		if j.Kind == "memdb" {
			r = runMemdbHistory(rnd, spec, storeDir, filepath.Join(dir, "child.log"))
		} else {
			r = runHistory(rnd, spec, storeDir, filepath.Join(dir, "child.log"))
		}
		_ = os.RemoveAll(storeDir)
		mu.Lock()
		results[i] = r
		delete(running, j.Idx)
		save()
		mu.Unlock()
	})
	os.Exit(0)
}

// genSpec derives the shape of a history from (seed, tier, index, kind).
func genSpec(rnd *rand.Rand, j job, c *core.Ctx) *histSpec {
	s := &histSpec{Idx: j.Idx, Kind: j.Kind, Seed: c.Seed, Tier: c.Tier}
	s.Gen = blocks.GenOptions{MaxMetrics: 4, MaxPool: 40, MaxSlot: 1200}
	if !c.Quick() && j.Idx%3 == 0 {
		// the thorough tier also uses the slot space of a 1 s interval family (3600 slots) and bigger series pools
		s.Gen.MaxSlot = 3599
		s.Gen.MaxPool = 100
	}
	s.Threshold = []int{0, 0, 0, 2, 3}[rnd.Intn(5)] // tsdb/segment.go creates data families with CompactThreshold 0
	s.PSilent = []float64{0, 0.05, 0.2}[rnd.Intn(3)]
	compactOp := func() string {
		switch rnd.Intn(6) {
		case 0:
			return "force"
		case 1:
			return "tick"
		default:
			return "compact"
		}
	}
	flushes := func(lo, hi int) {
		n := lo + rnd.Intn(hi-lo+1)
		for i := 0; i < n; i++ {
			s.Steps = append(s.Steps, "flush")
		}
	}
	switch j.Kind {
	case "manyfiles":
		// many level-0 files in one compaction, then many again on top of level 1
		flushes(6, 12)
		s.Steps = append(s.Steps, "compact")
		flushes(5, 10)
		s.Steps = append(s.Steps, "compact", "reopen")
		s.Threshold = 0
	case "keysets":
		s.Gen = keysetsGen()
		s.MinMetrics = keysetsMinMetrics
		genKeysetsSteps(rnd, s)
	case "big":
		s.Gen.BigSeries = c.Pick(3000, 66000)
		s.Gen.MaxMetrics = 2
		s.Gen.MaxSlot = 400
		s.Gen.MaxFields = 3
		s.Gen.MaxBaseLen = 5
		s.Steps = []string{"flush", "flush", "compact", "flush", "compact"}
		s.Threshold = 0
		s.PSilent = 0
	default:
		rounds := 2 + rnd.Intn(2)
		for r := 0; r < rounds; r++ {
			if r == 0 {
				flushes(1, 5)
			} else {
				flushes(0, 4)
			}
			s.Steps = append(s.Steps, compactOp())
			if rnd.Intn(6) == 0 {
				s.Steps = append(s.Steps, "reopen")
			}
		}
		if rnd.Intn(4) == 0 {
			flushes(2, 3)
			s.Steps = append(s.Steps, "race")
		}
		if rnd.Intn(3) == 0 {
			// a single new level-0 file on top of level 1: Family.Compact does nothing, the forced job merges it
			s.Steps = append(s.Steps, "flush", "force")
		}
	}
	if j.Kind == "split" {
		// output tables are finished as soon as they hold MaxFileSize bytes: the compaction output splits
		s.MaxFileSize = uint32([]int{64, 256, 1024, 4096}[rnd.Intn(4)])
		s.Gen.MaxMetrics = 4
		s.Threshold = 0
	}
	return s
}

// runHistory runs one history against a real store and applies the oracles after every step.
func runHistory(rnd *rand.Rand, spec *histSpec, storeDir, logFile string) (res *histResult) {
	res = &histResult{Idx: spec.Idx, Kind: spec.Kind, Counters: map[string]int{}}
	logs := &logTail{path: logFile, filter: storeDir}
	logs.skipToEnd()
	h := &history{spec: spec, res: res, rnd: rnd, logs: logs, emptyBucket: map[int64]map[uint32]bool{}, tainted: map[uint32]bool{}}
	defer func() {
		if p := recover(); p != nil {
			st := string(debug.Stack())
			if strings.Contains(st, "github.com/lindb/lindb/tsdb") || strings.Contains(st, "github.com/lindb/lindb/kv") ||
				strings.Contains(st, "github.com/lindb/lindb/aggregation") || strings.Contains(st, "github.com/lindb/lindb/pkg/encoding") {
				where := "read"
				if h.phase != "" {
					where = h.phase
				}
				res.violation("C03/"+where+"/panic", fmt.Sprintf("step %d (%s): panic in lindb code: %v", h.stepNo, h.stepOp, p),
					map[string]interface{}{"history": spec, "stack": st})
			} else {
				res.Fatal = fmt.Sprintf("panic: %v\n%s", p, st)
			}
		}
		if h.store != nil {
			_ = kv.GetStoreManager().CloseStore(storeDir)
		}
	}()
	h.run(storeDir)
	return res
}

type history struct {
	spec   *histSpec
	res    *histResult
	rnd    *rand.Rand
	logs   *logTail
	store  kv.Store
	fam    kv.Family
	ref    *blocks.Ref
	u      *blocks.Universe
	seq    int
	stepNo int
	stepOp string
	phase  string // flush | compact | reopen (class prefix of the step under way)

	emptyBucket map[int64]map[uint32]bool // table number -> metrics whose block has an empty series bucket
	tainted     map[uint32]bool           // metrics that went through a compaction with such an input
}

func (h *history) open(storeDir string) error {
	opt := kv.DefaultStoreOption()
	opt.Levels = 2
	store, err := kv.GetStoreManager().CreateStore(storeDir, opt)
	if err != nil {
		return fmt.Errorf("create store: %w", err)
	}
	h.store = store
	fam, err := store.CreateFamily("data", kv.FamilyOption{Merger: blocks.MergerName, CompactThreshold: h.spec.Threshold, MaxFileSize: h.spec.MaxFileSize})
	if err != nil {
		return fmt.Errorf("create family: %w", err)
	}
	h.fam = fam
	return nil
}

func (h *history) run(storeDir string) {
	spec, res := h.spec, h.res
	if err := h.open(storeDir); err != nil {
		res.Fatal = err.Error()
		return
	}
	h.u = blocks.GenUniverse(h.rnd, spec.Gen)
	for len(h.u.Metrics) < spec.MinMetrics {
		h.u = blocks.GenUniverse(h.rnd, spec.Gen)
	}
	for _, m := range h.u.Metrics {
		spec.Metrics = append(spec.Metrics, fmt.Sprintf("metric=%d fields(%s)=%v series(%s)=%d ids %d..%d base=[%d,%d]",
			m.ID, m.FieldKind, metaStrings(m.Fields), m.SeriesKind, len(m.Pool), m.Pool[0], m.Pool[len(m.Pool)-1], m.Base.Start, m.Base.End))
	}
	h.ref = blocks.NewRef()
	view, err := h.readFamily()
	if err != nil {
		res.Fatal = "initial read: " + err.Error()
		return
	}
	for i, op := range spec.Steps {
		h.stepNo, h.stepOp = i, op
		res.Steps++
		switch op {
		case "flush":
			h.phase = "flush"
			fo := blocks.FileOptions{Seq: h.seq, MaxSlot: spec.Gen.MaxSlot, PSilent: spec.PSilent}
			if spec.Kind == "big" {
				fo.AllMetrics = true
				fo.NoLongRange = true
			}
			var blks []*blocks.Block
			var shape blocks.FileShape
			if spec.Kind == "keysets" {
				// every table holds its own subset of the metrics: tables begin and end at different keys
				sub, how := pickKeySubset(h.rnd, h.u)
				fo.AllMetrics = true
				blks, shape = sub.GenFile(h.rnd, fo)
				res.count("keysets_tables."+how, 1)
				if len(sub.Metrics) < len(h.u.Metrics) {
					res.count("keysets_tables_holding_a_strict_subset_of_the_metrics", 1)
				}
			} else {
				blks, shape = h.u.GenFile(h.rnd, fo)
			}
			if spec.Kind == "silent" {
				blks = append(blks, silentBucketBlock(h.rnd, h.seq))
				shape.SilentBuckets++
				shape.Blocks++
				sortBlocks(&blks)
			}
			for _, b := range blks {
				spec.Files = append(spec.Files, fmt.Sprintf("flush#%d: %s", h.seq, b.Describe()))
			}
			if dm := os.Getenv("C03_DUMP_METRIC"); dm != "" {
				for _, b := range blks {
					if fmt.Sprint(b.Metric) != dm {
						continue
					}
					fmt.Printf("DUMP flush#%d %s\n", h.seq, b.Describe())
					for _, se := range b.Series {
						var fs []string
						for fi, fd := range se.Fields {
							switch {
							case fd == nil:
								fs = append(fs, fmt.Sprintf("f%d=nil", b.Fields[fi].ID))
							default:
								fs = append(fs, fmt.Sprintf("f%d=%v", b.Fields[fi].ID, fd))
							}
						}
						fmt.Printf("DUMP   series %d (bucket %d): %v\n", se.ID, se.ID>>16, fs)
					}
				}
			}
			if err := blocks.FlushFile(h.fam, blks); err != nil {
				res.violation("C03/flush/error", fmt.Sprintf("step %d: flushing generated blocks failed: %v", i, err), h.witness(nil))
				return
			}
			h.ref.Add(h.seq, blks)
			h.seq++
			h.countShape(shape)
			after, err := h.readFamily()
			if err != nil {
				res.violation("C03/flush/unreadable", fmt.Sprintf("step %d: family unreadable after flush: %v", i, err), h.witness(nil))
				return
			}
			h.checkFlushTransition(view, after, blks)
			if eb := emptyBucketBlocks(blks); len(eb) > 0 {
				for _, f := range after.Files {
					if view.File(f.Number) == nil {
						h.emptyBucket[f.Number] = eb
					}
				}
				res.count("files_flushed_with_empty_series_bucket", 1)
			}
			h.checkAgainstRef(after)
			view = after
		case "compact", "force", "tick":
			h.phase = "compact"
			old := h.fam.GetSnapshot() // a reader that started before the compaction
			l0 := view.NumFiles(0)
			expect := false
			switch op {
			case "compact":
				expect = l0 > 1 && l0 >= spec.Threshold
				h.fam.Compact()
			case "force":
				expect = l0 >= 1 && l0 >= spec.Threshold
				kv.VerifFamilyCompact(h.fam)
			case "tick":
				need := spec.Threshold
				if need <= 0 {
					need = 4
				}
				expect = l0 >= need
				kv.VerifStoreCompact(h.store)
			}
			waitIdle(h.fam)
			errs := h.logs.newErrors()
			after, err := h.readFamily()
			if err != nil {
				old.Close()
				res.violation("C03/compact/unreadable", fmt.Sprintf("step %d (%s): family unreadable after compaction: %v", i, op, err), h.witness(nil))
				return
			}
			h.checkCompaction(view, after, expect, errs)
			h.replayMergedIterator(old, view, after)
			h.checkAgainstRef(after)
			// the reader that was open before the compaction still observes the old files unchanged
			oldView, err := blocks.ReadFamily(old, blocks.Options{}, h.queryOf)
			if err != nil {
				res.violation("C03/compact/open-snapshot-unreadable", fmt.Sprintf("step %d (%s): snapshot taken before the compaction cannot be read afterwards: %v", i, op, err), h.witness(nil))
			} else if d := diffViews(view, oldView); d != "" {
				res.violation("C03/compact/open-snapshot-changed", fmt.Sprintf("step %d (%s): snapshot taken before the compaction reads differently afterwards: %s", i, op, d), h.witness(nil))
			} else {
				res.count("snapshots_held_across_compaction_reread_equal", 1)
			}
			old.Close()
			view = after
		case "race":
			// a flush commits while a compaction job may be running: the new table either becomes an input of the job or
			// stays on level 0; only the family-level oracle applies (the job's inputs are not observable from outside)
			h.phase = "compact"
			fo := blocks.FileOptions{Seq: h.seq, MaxSlot: spec.Gen.MaxSlot, PSilent: spec.PSilent}
			blks, shape := h.u.GenFile(h.rnd, fo)
			for _, b := range blks {
				spec.Files = append(spec.Files, fmt.Sprintf("flush#%d (during compaction): %s", h.seq, b.Describe()))
			}
			h.fam.Compact()
			if err := blocks.FlushFile(h.fam, blks); err != nil {
				res.violation("C03/flush/error", fmt.Sprintf("step %d: flushing generated blocks failed: %v", i, err), h.witness(nil))
				return
			}
			waitIdle(h.fam)
			h.ref.Add(h.seq, blks)
			h.seq++
			h.countShape(shape)
			h.logs.newErrors()
			after, err := h.readFamily()
			if err != nil {
				res.violation("C03/compact/unreadable", fmt.Sprintf("step %d (%s): family unreadable after compaction: %v", i, op, err), h.witness(nil))
				return
			}
			vanished := map[int64]blocks.FileView{}
			for _, f := range view.Files {
				if after.File(f.Number) == nil {
					vanished[f.Number] = f
				}
			}
			h.markTaint(vanished)
			eb := emptyBucketBlocks(blks)
			registered := false
			for _, f := range after.Files {
				if view.File(f.Number) == nil && f.Level == 0 {
					registered = true
					if len(eb) > 0 {
						h.emptyBucket[f.Number] = eb
					}
				}
			}
			if !registered { // the new table went into the job
				for m := range eb {
					h.tainted[m] = true
				}
				res.count("flushes_during_compaction_that_became_inputs", 1)
			}
			if len(vanished) > 0 {
				res.count("compactions_concurrent_with_flush", 1)
			}
			h.checkAgainstRef(after)
			view = after
		case "reopen":
			h.phase = "reopen"
			if err := kv.GetStoreManager().CloseStore(storeDir); err != nil {
				res.Fatal = "close store: " + err.Error()
				return
			}
			h.store = nil
			if err := h.open(storeDir); err != nil {
				res.violation("C03/reopen/error", fmt.Sprintf("step %d: reopening the store failed: %v", i, err), h.witness(nil))
				return
			}
			after, err := h.readFamily()
			if err != nil {
				res.violation("C03/reopen/unreadable", fmt.Sprintf("step %d: family unreadable after reopen: %v", i, err), h.witness(nil))
				return
			}
			if d := diffViews(view, after); d != "" {
				res.violation("C03/reopen/view-changed", fmt.Sprintf("step %d: family reads differently after close+reopen: %s", i, d), h.witness(nil))
			}
			h.checkAgainstRef(after)
			res.count("reopens", 1)
			view = after
		}
	}
	if res.Sample == nil && spec.Idx < 4 {
		res.Sample = map[string]interface{}{"history": spec.Idx, "kind": spec.Kind, "steps": spec.Steps, "threshold": spec.Threshold,
			"metrics": spec.Metrics, "first_files": firstN(spec.Files, 4), "final_files": fileSummary(view)}
	}
}

func (h *history) readFamily() (*blocks.FamilyView, error) {
	snap := h.fam.GetSnapshot()
	defer snap.Close()
	return blocks.ReadFamily(snap, blocks.Options{CrossCheckAllFields: true}, h.queryOf)
}

// queryOf returns the series a query asks for in addition to the block's own bitmap: everything the reference
// knows of the metric (a query names the series of the index, which is rarely the set one file holds).
func (h *history) queryOf(metric uint32) *roaring.Bitmap {
	ids := h.ref.Series[metric]
	if len(ids) == 0 {
		return nil
	}
	bm := roaring.New()
	for s := range ids {
		bm.Add(s)
	}
	return bm
}

func (h *history) countShape(sh blocks.FileShape) {
	r := h.res
	r.count("flushes", 1)
	r.count("blocks_flushed", sh.Blocks)
	r.count("cells_flushed", sh.Cells)
	r.count("blocks_with_partial_field_set", sh.PartialFields)
	r.count("blocks_with_partial_series_set", sh.PartialSeries)
	r.count("series_named_without_data", sh.SilentSeries)
	r.count("series_fields_flushed_nil", sh.NilFields)
	r.count("series_fields_flushed_empty", sh.EmptyFields)
	r.count("blocks_with_silent_series_bucket", sh.SilentBuckets)
	r.count("blocks_with_range_over_360_slots", sh.LongRanges)
	if sh.HighKeys >= 2 {
		r.count("files_with_block_spanning_several_series_buckets", 1)
	}
	for _, k := range sh.RangeKinds {
		r.count("block_range."+k, 1)
	}
}

func (h *history) witness(extra map[string]interface{}) map[string]interface{} {
	w := map[string]interface{}{"history": h.spec, "step": h.stepNo, "op": h.stepOp}
	for k, v := range extra {
		w[k] = v
	}
	return w
}

func firstN(s []string, n int) []string {
	if len(s) > n {
		return s[:n]
	}
	return s
}

// waitIdle waits for the background job of the family. family.compact's goroutine signals the wait group BEFORE it
// clears the "compacting" flag (defer order in kv/family.go), so a compaction requested right after Wait returned can
// be dropped while the flag is still set; the harness therefore also waits for the flag (a logical condition; the
// 60 s bound is only a watchdog and ends in a panic -> harness error -> inconclusive).
func waitIdle(fam kv.Family) {
	kv.VerifFamilyWait(fam)
	start := time.Now()
	for kv.VerifFamilyBusy(fam) {
		time.Sleep(200 * time.Microsecond)
		if time.Since(start) > time.Minute {
			panic("harness: family still busy one minute after its background job was awaited")
		}
	}
}

// logTail reads what lindb logged (LOG_LEVEL=error, stdout of the child goes to child.log) since the last call.
type logTail struct {
	path   string
	filter string // only lines naming this store directory (histories of one child share the log)
	off    int64
}

func (l *logTail) skipToEnd() {
	if st, err := os.Stat(l.path); err == nil {
		l.off = st.Size()
	}
}

func (l *logTail) newErrors() []string {
	f, err := os.Open(l.path)
	if err != nil {
		return nil
	}
	defer f.Close()
	st, err := f.Stat()
	if err != nil || st.Size() <= l.off {
		return nil
	}
	buf := make([]byte, st.Size()-l.off)
	_, _ = f.ReadAt(buf, l.off)
	l.off = st.Size()
	var out []string
	for _, line := range strings.Split(string(buf), "\n") {
		if (strings.Contains(line, "ERROR") || strings.Contains(line, "error")) && strings.Contains(line, l.filter) {
			if len(line) > 600 {
				line = line[:600]
			}
			out = append(out, line)
		}
	}
	return out
}
