package main

import (
	"encoding/json"
	"fmt"
	"math/rand"
	"os"
	"sort"
	"strconv"
	"strings"
	"sync"

	"github.com/lindb/lindb/verif/internal/core"
)

// childResult is what one child process reports back.
type childResult struct {
	Evals        int64             `json:"evals"`
	Counters     map[string]int64  `json:"counters"`
	Keys         []string          `json:"keys"`
	Viol         map[string]*cViol `json:"viol"`
	Samples      []interface{}     `json:"samples"`
	Inconclusive []string          `json:"inconclusive"`
	Done         bool              `json:"done"`
}

type cViol struct {
	Msg     string      `json:"msg"`
	Witness interface{} `json:"witness"`
	Count   int         `json:"count"`
}

type agg struct {
	mu  sync.Mutex
	res childResult
	key map[string]struct{}
}

func newAgg() *agg {
	return &agg{res: childResult{Counters: map[string]int64{}, Viol: map[string]*cViol{}}, key: map[string]struct{}{}}
}

func (a *agg) count(name string, n int) {
	a.mu.Lock()
	a.res.Counters[name] += int64(n)
	a.mu.Unlock()
}

func (a *agg) violation(class, msg string, witness func() interface{}) {
	a.mu.Lock()
	defer a.mu.Unlock()
	if v := a.res.Viol[class]; v != nil {
		v.Count++
		return
	}
	a.res.Viol[class] = &cViol{Msg: msg, Witness: witness(), Count: 1}
}

func (a *agg) write(path string) {
	a.mu.Lock()
	defer a.mu.Unlock()
	a.res.Keys = a.res.Keys[:0]
	for k := range a.key {
		a.res.Keys = append(a.res.Keys, k)
	}
	sort.Strings(a.res.Keys)
	a.res.Done = true
	data, _ := json.Marshal(&a.res)
	_ = os.WriteFile(path, data, 0o644)
}

// ---------------------------------------------------------------------------------------------
// the case list: a function of (seed, tier) only

type treePlan struct {
	seed      int64
	quick     bool
	sys       []*treeSpec
	nRandom   int
	lim       genLimits
	orderCap  int // max orders enumerated per tree
	randOrder int // serial runs with random order for trees that are too big to enumerate
	freeRuns  int
	nShaped   int         // shaped schedules (see shapedSpec)
	nStress   int         // unshaped fan-outs with one failing stage
	nilSys    []*treeSpec // systematic small trees with stages whose Plan() returns nil
	nNil      int         // random families around a nil-plan stage (see nilSpec)
	regSys    []*treeSpec // systematic small trees with a stage that panics while it is registered
	nReg      int         // random families around a stage that panics while it is registered (see regSpec)
}

func newTreePlan(seed int64, quick bool) *treePlan {
	p := &treePlan{seed: seed, quick: quick}
	if quick {
		p.sys = systematicSpecs(3, []string{oOK, oErr, oPanicStr, oCompletePanic})
		p.nRandom = 3000
		p.lim = genLimits{maxStages: 16, maxDepth: 4, maxFan: 6}
		p.orderCap = 24
		p.randOrder = 2
		p.freeRuns = 1
		p.nShaped, p.nStress = 500, 1500
		p.nilSys = nilSystematicSpecs(3, []string{oOK, oErr, oPanicStr})
		p.nilSys = append(p.nilSys, sampleSpecs(nilSystematicSpecs4(), 250, seed)...)
		p.nNil = 700
		p.regSys = regSystematicSpecs(3, []string{oOK, oErr})
		p.nReg = 600
	} else {
		p.sys = systematicSpecs(4, []string{oOK, oErr, oPanicStr, oNFIgnored, oCompletePanic})
		p.nRandom = 220_000
		p.lim = genLimits{maxStages: 24, maxDepth: 4, maxFan: 6}
		p.orderCap = 120
		p.randOrder = 3
		p.freeRuns = 2
		p.nShaped, p.nStress = 20_000, 100_000
		p.nilSys = nilSystematicSpecs(3, []string{oOK, oErr, oPanicStr, oCompletePanic})
		p.nilSys = append(p.nilSys, nilSystematicSpecs4()...)
		p.nNil = 60_000
		p.regSys = regSystematicSpecs(3, []string{oOK, oErr, oPanicStr, oNilPlan})
		p.regSys = append(p.regSys, regSystematicSpecs4()...)
		p.nReg = 40_000
	}
	return p
}

// nilSystematicSpecs4: the trees with exactly four stages over {ok, err, nil-plan} that contain a stage without a plan.
func nilSystematicSpecs4() []*treeSpec {
	var res []*treeSpec
	for _, t := range nilSystematicSpecs(4, []string{oOK, oErr}) {
		if t.N == 4 {
			res = append(res, t)
		}
	}
	return res
}

// regSystematicSpecs4: the trees with exactly four stages over {ok, Identifier() panics, typed nil}.
func regSystematicSpecs4() []*treeSpec {
	var res []*treeSpec
	for _, t := range regSystematicSpecs(4, []string{oOK}) {
		if t.N == 4 {
			res = append(res, t)
		}
	}
	return res
}

// sampleSpecs picks n of the specs, a function of the seed only.
func sampleSpecs(all []*treeSpec, n int, seed int64) []*treeSpec {
	if n >= len(all) {
		return all
	}
	r := rand.New(rand.NewSource(seed*48271 + 11))
	idx := r.Perm(len(all))[:n]
	sort.Ints(idx)
	res := make([]*treeSpec, 0, n)
	for _, k := range idx {
		res = append(res, all[k])
	}
	return res
}

func (p *treePlan) items() int {
	return len(p.sys) + p.nRandom + p.nShaped + p.nStress + len(p.nilSys) + p.nNil + len(p.regSys) + p.nReg
}

// kind tells which family item i belongs to and its index inside the family.  The families are laid out one after
// the other: sys, random, shaped, stress, nilsys, nil, regsys, reg.
func (p *treePlan) kind(i int) (string, int) {
	for _, f := range []struct {
		name string
		n    int
	}{{"sys", len(p.sys)}, {"random", p.nRandom}, {"shaped", p.nShaped}, {"stress", p.nStress}, {"nilsys", len(p.nilSys)}, {"nil", p.nNil}, {"regsys", len(p.regSys)}, {"reg", p.nReg}} {
		if i < f.n {
			return f.name, i
		}
		i -= f.n
	}
	return "", -1
}

func (p *treePlan) spec(i int) (*treeSpec, *randSrc) {
	r := newRandSrc(p.seed*7919 + int64(i)*104729 + 17)
	rr := rand.New(rand.NewSource(p.seed*1000003 + int64(i)*7919 + 424243))
	switch kind, k := p.kind(i); kind {
	case "sys":
		return p.sys[k], r
	case "nilsys":
		return p.nilSys[k], r
	case "regsys":
		return p.regSys[k], r
	case "reg":
		return regSpec(rr), r
	case "random":
		return randomSpec(rr, p.lim), r
	case "shaped":
		return shapedSpec(rr), r
	case "stress":
		return stressSpec(rr), r
	default:
		return nilSpec(rr), r
	}
}

// gatedStages counts the stages that will park at a gate in serial mode.
func gatedStages(t *treeSpec) int {
	n := 0
	for _, s := range t.stages() {
		if len(s.Ops) > 0 && s.PlanKind != "nil" && !s.regPanics() {
			n++
		}
	}
	return n
}

// runItem runs every schedule planned for one tree and feeds the aggregate.
func (p *treePlan) runItem(i int, slot string, race bool, a *agg, logf func(string)) {
	spec, r := p.spec(i)
	canon := spec.canon()
	report := func(out *caseOutcome) {
		vs, facts := judge(out)
		a.mu.Lock()
		a.res.Evals++
		a.mu.Unlock()
		a.count("runs_"+out.Mode, 1)
		for k, v := range facts {
			a.count(k, v)
		}
		if len(out.Alts) > 0 {
			real := 0
			for _, n := range out.Alts {
				if n > 1 {
					real++
				}
			}
			a.count("decision_points", len(out.Alts))
			a.count("decision_points_with_alternatives", real)
		}
		if out.Watchdog != "" {
			if os.Getenv("VERIF_C19_DEBUG") != "" {
				for _, e := range out.Trace {
					fmt.Fprintln(os.Stderr, "  ", e.String())
				}
			}
			a.mu.Lock()
			if len(a.res.Inconclusive) < 5 {
				a.res.Inconclusive = append(a.res.Inconclusive, fmt.Sprintf("tree %d (%s): %s", i, canon, out.Watchdog))
			}
			a.mu.Unlock()
			a.count("watchdog_cases", 1)
		}
		if facts["stages_registered"] >= 2 {
			a.mu.Lock()
			a.key[hashKey(canon, completionOrder(out))] = struct{}{}
			if len(a.res.Samples) < 2 && facts["stages_failed"] > 0 && spec.N >= 3 {
				a.res.Samples = append(a.res.Samples, map[string]interface{}{
					"tree": canon, "mode": out.Mode, "choices": out.Taken, "completion_order": completionOrder(out),
				})
			}
			a.mu.Unlock()
		}
		for _, v := range vs {
			v := v
			a.violation(v.Class, v.Msg, func() interface{} {
				ts := make([]string, len(out.Trace))
				for k, e := range out.Trace {
					ts[k] = e.String()
				}
				out.TraceStr = ts
				return map[string]interface{}{"item": i, "tree": canon, "case": out}
			})
		}
	}
	kind, _ := p.kind(i)
	a.count("tree_items_"+kind, 1)
	if kind == "shaped" || kind == "stress" {
		// shaped schedules and the unshaped stress only make sense with real concurrency
		shaped := kind == "shaped"
		runs := 1
		if shaped {
			runs = 2
		}
		for n := 0; n < runs; n++ {
			sd := int64(r.next() >> 1)
			mw := []int{2, 4, 16}[r.intn(3)]
			if shaped {
				mw = 16 // the holder waits for the failing stage under the state machine's mutex: that stage needs a free worker
			}
			logf(fmt.Sprintf("item %d free seed=%d workers=%d shaped=%v", i, sd, mw, shaped))
			out := runCase(spec, runOpts{Mode: "free", RandSeed: sd, MaxWorkers: mw, Slot: slot, CancelAt: -1, NoDelay: true})
			if shaped {
				a.count("runs_shaped_failing_stage_queues_on_state_machine", 1)
			} else {
				a.count("runs_unshaped_fanout_stress", 1)
			}
			report(out)
		}
		return
	}
	sysItem := kind == "sys" || kind == "nilsys" || kind == "regsys"
	gated := gatedStages(spec)
	serialRuns := 0
	if !race {
		if sysItem || gated <= 5 {
			// exhaustive enumeration of completion orders (depth first over the decision points)
			var choices []int
			for serialRuns < p.orderCap {
				logf(fmt.Sprintf("item %d serial choices=%v", i, choices))
				out := runCase(spec, runOpts{Mode: "serial", Choices: choices, Slot: slot, CancelAt: -1})
				report(out)
				serialRuns++
				// next: increment the last choice that still has an alternative
				next := -1
				for k := len(out.Taken) - 1; k >= 0; k-- {
					if out.Taken[k]+1 < out.Alts[k] {
						next = k
						break
					}
				}
				if next < 0 || out.Watchdog != "" {
					if next < 0 {
						a.count("trees_with_all_orders_enumerated", 1)
					}
					break
				}
				choices = append(append([]int(nil), out.Taken[:next]...), out.Taken[next]+1)
			}
			if serialRuns >= p.orderCap {
				a.count("trees_order_cap_reached", 1)
			}
		} else {
			for k := 0; k < p.randOrder; k++ {
				sd := int64(r.next() >> 1)
				logf(fmt.Sprintf("item %d serial random=%d", i, sd))
				report(runCase(spec, runOpts{Mode: "serial", UseRand: true, RandSeed: sd, Slot: slot, CancelAt: -1}))
			}
		}
	} else {
		sd := int64(r.next() >> 1)
		logf(fmt.Sprintf("item %d serial random=%d", i, sd))
		report(runCase(spec, runOpts{Mode: "serial", UseRand: true, RandSeed: sd, Slot: slot, CancelAt: -1}))
	}
	// beyond the statement: the context shared by the pooled stages (a query's deadline) is cancelled in mid-flight
	if !sysItem && i%8 == 3 && gated >= 2 {
		for k := 0; k < 2; k++ {
			sd := int64(r.next() >> 1)
			at := 1 + r.intn(gated)
			logf(fmt.Sprintf("item %d serial random=%d cancel-before-gate=%d", i, sd, at))
			report(runCase(spec, runOpts{Mode: "serial", UseRand: true, RandSeed: sd, Slot: slot, CancelAt: at}))
		}
		sd := int64(r.next() >> 1)
		at := 4 + r.intn(6*spec.N)
		logf(fmt.Sprintf("item %d free seed=%d cancel-at-event=%d", i, sd, at))
		report(runCase(spec, runOpts{Mode: "free", RandSeed: sd, MaxWorkers: 4, Slot: slot, CancelAt: at}))
	}
	free := p.freeRuns
	if race {
		free = 3
	}
	for k := 0; k < free; k++ {
		sd := int64(r.next() >> 1)
		mw := []int{1, 2, 4, 16}[r.intn(4)]
		logf(fmt.Sprintf("item %d free seed=%d workers=%d", i, sd, mw))
		report(runCase(spec, runOpts{Mode: "free", RandSeed: sd, MaxWorkers: mw, Slot: slot, CancelAt: -1}))
	}
}

// completionOrder is the observed order in which the state machine completed the stages, with the callback position.
func completionOrder(out *caseOutcome) string {
	var sb strings.Builder
	for _, e := range out.Trace {
		switch e.Kind {
		case evHook:
			sb.WriteString("s" + strconv.Itoa(e.Stage) + ",")
		case evCallback:
			if e.NoErr {
				sb.WriteString("CB(nil),")
			} else {
				sb.WriteString("CB(err),")
			}
		case evOpPanic, evNextPanic, evPlanPanic, evRegPanic:
			sb.WriteString("P" + strconv.Itoa(e.Stage) + ",")
		}
	}
	return sb.String()
}

// maxUnjudgedCases: a child stops after that many cases its driver could not judge (each costs a watchdog).
const maxUnjudgedCases = 3

// childTrees is the entry point of a tree worker process:
// child-trees <result.json> <case.log> <mod> <rem> <workers> <race:0|1> [<maxItems>]
func childTrees(args []string) {
	resFile, logFile := args[0], args[1]
	mod, _ := strconv.Atoi(args[2])
	rem, _ := strconv.Atoi(args[3])
	workers, _ := strconv.Atoi(args[4])
	race := args[5] == "1"
	maxItems := -1
	if len(args) > 6 {
		maxItems, _ = strconv.Atoi(args[6])
	}
	seed := int64(1)
	if s := os.Getenv("VERIF_SEED"); s != "" {
		if v, err := strconv.ParseInt(s, 10, 64); err == nil {
			seed = v
		}
	}
	quick := os.Getenv("VERIF_TIER") != "thorough"
	p := newTreePlan(seed, quick)
	lf, err := os.Create(logFile)
	if err != nil {
		fmt.Println("cannot create case log:", err)
		os.Exit(3)
	}
	var lmu sync.Mutex
	logf := func(s string) {
		lmu.Lock()
		_, _ = lf.WriteString(s + "\n")
		lmu.Unlock()
	}
	a := newAgg()
	var list []int
	n := p.items()
	for i := 0; i < n; i++ {
		if i%mod != rem {
			continue
		}
		if kind, k := p.kind(i); race && maxItems >= 0 {
			// under the race detector: the systematic trees, the first maxItems random trees, a share of the nil-plan families
			if (kind == "random" && k >= maxItems) || kind == "shaped" || kind == "stress" || (kind == "nilsys" && k%4 != 0) || (kind == "nil" && k >= maxItems/2) ||
				(kind == "regsys" && k%4 != 0) || (kind == "reg" && k >= maxItems/2) {
				continue
			}
		}
		list = append(list, i)
	}
	// pool/metric names must be unique among concurrently running cases of this process
	slots := make(chan string, workers)
	for w := 0; w < workers; w++ {
		slots <- fmt.Sprintf("w%d", w)
	}
	// An execution the driver cannot judge costs one case watchdog each: after a few of them the child stops and reports
	// what it judged so far plus a precise inconclusive, instead of running into the child's own watchdog.
	const maxUnjudged = maxUnjudgedCases
	skipped := 0
	core.Parallel(len(list), workers, func(k int) {
		a.mu.Lock()
		stop := a.res.Counters["watchdog_cases"] >= maxUnjudged
		if stop {
			skipped++
		}
		a.mu.Unlock()
		if stop {
			return
		}
		slot := <-slots
		p.runItem(list[k], slot, race, a, logf)
		slots <- slot
	})
	if skipped > 0 {
		a.mu.Lock()
		a.res.Inconclusive = append(a.res.Inconclusive, fmt.Sprintf("%d executions could not be judged by the driver (see above); the remaining %d tree items of this child were not run", maxUnjudged, skipped))
		a.mu.Unlock()
	}
	a.write(resFile)
	_ = lf.Close()
}
