// Minimal reproductions of the C19 defects. Build inside the harness module:
//
//	cd /verif/harness && go run -tags verif ./cmd/c19/repro
package main

import (
	"context"
	"errors"
	"fmt"
	"time"

	"github.com/lindb/lindb/internal/concurrent"
	"github.com/lindb/lindb/internal/linmetric"
	"github.com/lindb/lindb/metrics"
	"github.com/lindb/lindb/query"
	"github.com/lindb/lindb/query/stage"
	trackerpkg "github.com/lindb/lindb/query/tracker"
)

type op struct {
	name string
	fn   func() error
}

func (o *op) Identifier() string { return o.name }
func (o *op) Execute() error     { return o.fn() }

// identPanicStage: a stage whose Identifier() panics.
type identPanicStage struct{ *stage.VerifStage }

func (s *identPanicStage) Identifier() string { panic("boom in Identifier") }

func run(name string, build func(ctx context.Context, pool concurrent.Pool) stage.Stage) {
	pool := concurrent.NewPool(name, 4, time.Minute, metrics.NewConcurrentStatistics(name, linmetric.BrokerRegistry))
	ctx, cancel := context.WithCancel(context.Background())
	defer cancel()
	done := make(chan error, 4)
	p := query.NewExecutePipeline(trackerpkg.NewStageTracker(nil), func(err error) { done <- err })
	p.Execute(build(ctx, pool))
	select {
	case err := <-done:
		fmt.Printf("%-34s callback err=%v\n", name, err)
	case <-time.After(2 * time.Second):
		fmt.Printf("%-34s NO CALLBACK after 2s (pool idle)\n", name)
	}
}

func main() {
	ok := func() error { return nil }
	// (1) the error of a stage that is not the last to finish is dropped
	run("sync-root->sync-child-error", func(ctx context.Context, pool concurrent.Pool) stage.Stage {
		child := stage.NewVerifStage(nil, nil, stage.ShardScan, "child", //nolint
			stage.NewPlanNode(&op{"fail", func() error { return errors.New("shard failed") }}), nil, nil)
		return stage.NewVerifStage(nil, nil, stage.MetadataLookup, "root", stage.NewPlanNode(&op{"ok", ok}),
			func() []stage.Stage { return []stage.Stage{child} }, nil)
	})
	// (2) inline child panics below a pooled stage: completion is never signalled
	run("async-root->sync-child-panic", func(ctx context.Context, pool concurrent.Pool) stage.Stage {
		child := stage.NewVerifStage(nil, nil, stage.Grouping, "child",
			stage.NewPlanNode(&op{"panic", func() error { panic("boom") }}), nil, nil)
		return stage.NewVerifStage(ctx, pool, stage.ShardScan, "root", stage.NewPlanNode(&op{"ok", ok}),
			func() []stage.Stage { return []stage.Stage{child} }, nil)
	})
	// (2b) NextStages of an inline child panics below a pooled stage (Plan() of any child behaves the same)
	run("async-root->sync-child-next-panic", func(ctx context.Context, pool concurrent.Pool) stage.Stage {
		child := stage.NewVerifStage(nil, nil, stage.Grouping, "child", stage.NewPlanNode(&op{"ok", ok}),
			func() []stage.Stage { panic("boom in NextStages") }, nil)
		return stage.NewVerifStage(ctx, pool, stage.ShardScan, "root", stage.NewPlanNode(&op{"ok", ok}),
			func() []stage.Stage { return []stage.Stage{child} }, nil)
	})
	// (4) a stage panics while the state machine registers it (pipelineStateMachine.executeStage increments pending and
	// then calls stage.Identifier()) in the completion handler of a pooled stage: completion is never signalled.
	// (4a) NextStages() of a pooled stage returns a typed nil stage pointer; (4b) Identifier() panics.
	// The same two under an inline root complete with the panic as error (pipeline.Execute's recover).
	run("async-root->typed-nil-child", func(ctx context.Context, pool concurrent.Pool) stage.Stage {
		return stage.NewVerifStage(ctx, pool, stage.ShardScan, "root", stage.NewPlanNode(&op{"ok", ok}),
			func() []stage.Stage { return []stage.Stage{(*stage.VerifStage)(nil)} }, nil)
	})
	run("async-root->child-identifier-panic", func(ctx context.Context, pool concurrent.Pool) stage.Stage {
		child := &identPanicStage{stage.NewVerifStage(nil, nil, stage.Grouping, "child", stage.NewPlanNode(&op{"ok", ok}), nil, nil)}
		return stage.NewVerifStage(ctx, pool, stage.ShardScan, "root", stage.NewPlanNode(&op{"ok", ok}),
			func() []stage.Stage { return []stage.Stage{child} }, nil)
	})
	run("sync-root->typed-nil-child", func(ctx context.Context, pool concurrent.Pool) stage.Stage {
		return stage.NewVerifStage(nil, nil, stage.ShardScan, "root", stage.NewPlanNode(&op{"ok", ok}),
			func() []stage.Stage { return []stage.Stage{(*stage.VerifStage)(nil)} }, nil)
	})
	// (3) context done when a pooled child is submitted: Pool.Submit's select takes the ctx.Done branch (at random
	// when the queue also has room) and drops the task silently
	for i := 0; i < 8; i++ {
		run(fmt.Sprintf("async-root->cancel->async-child#%d", i), func(ctx context.Context, pool concurrent.Pool) stage.Stage {
			cctx, cancel := context.WithCancel(ctx)
			child := stage.NewVerifStage(cctx, pool, stage.Grouping, "child", stage.NewPlanNode(&op{"ok", ok}), nil, nil)
			return stage.NewVerifStage(ctx, pool, stage.ShardScan, "root",
				stage.NewPlanNode(&op{"cancel", func() error { cancel(); return nil }}),
				func() []stage.Stage { return []stage.Stage{child} }, nil)
		})
	}
}
