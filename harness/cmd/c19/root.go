package main

// Requesting side of a distributed query (root and intermediate): the real query.MetricDataSearch / exec -> real
// pipeline with the real PhysicalPlan and TaskSend stages -> RootMetricContext, and the real intermediate task
// processor -> IntermediateMetricContext, both over the real query.TaskManager on a real worker pool. Fakes: the
// network (rpc.TransportManager) and the node chooser. The fake network delivers scripted responses of the
// targets {ok, real error, not found, duplicate, late} while the requests are still being sent or while the
// caller waits.

import (
	"context"
	"fmt"
	"os"
	"sort"
	"strconv"
	"strings"
	"sync"
	"time"

	"google.golang.org/grpc/metadata"

	"github.com/lindb/common/pkg/encoding"
	"github.com/lindb/common/pkg/ltoml"

	"github.com/lindb/lindb/config"
	"github.com/lindb/lindb/constants"
	"github.com/lindb/lindb/coordinator/broker"
	"github.com/lindb/lindb/internal/concurrent"
	"github.com/lindb/lindb/internal/linmetric"
	"github.com/lindb/lindb/metrics"
	"github.com/lindb/lindb/models"
	"github.com/lindb/lindb/pkg/option"
	"github.com/lindb/lindb/pkg/timeutil"
	protoCommonV1 "github.com/lindb/lindb/proto/gen/v1/common"
	"github.com/lindb/lindb/query"
	"github.com/lindb/lindb/rpc"
	"github.com/lindb/lindb/sql"
	"github.com/lindb/lindb/sql/stmt"
)

const (
	clsReqLost      = "C19/requester/target-error-answered-as-success"
	clsReqSpurious  = "C19/requester/error-without-failing-target"
	clsReqPanic     = "C19/requester/panic-while-handling-response"
	clsReqResponses = "C19/requester/intermediate-responses"
)

// delivery is one scripted response.
type delivery struct {
	Pos  int    `json:"target"` // the target that was contacted Pos-th (the send order is lindb's: map iteration)
	Kind string `json:"kind"`   // ok | err | notfound
	Dup  bool   `json:"dup,omitempty"`
	// At: the response arrives while the request for the At-th target is being sent (At > Pos), or after all
	// requests were sent (At == N); Late: after the caller got its answer.
	At   int  `json:"at"`
	Late bool `json:"late,omitempty"`
	// Sync: the delivery waits until the task manager's worker handled the response before the next step
	Sync bool `json:"sync"`

	Accepted bool   `json:"accepted"` // TaskManager.Receive returned nil
	RecvErr  string `json:"receive_err,omitempty"`
	Seq      int    `json:"seq"` // position in the order of delivery as it happened
}

type reqCase struct {
	ID       int          `json:"id"`
	Role     string       `json:"role"` // root | intermediate
	GroupBy  bool         `json:"group_by"`
	N        int          `json:"targets"`
	SendFail map[int]bool `json:"send_fail,omitempty"` // by send position
	Script   []*delivery  `json:"script"`
}

func (rc *reqCase) key() string {
	var sb strings.Builder
	fmt.Fprintf(&sb, "%s/%v/%d/%v/", rc.Role, rc.GroupBy, rc.N, rc.SendFail)
	for _, d := range rc.Script {
		fmt.Fprintf(&sb, "%d%s%v@%d%v%v,", d.Pos, d.Kind, d.Dup, d.At, d.Late, d.Sync)
	}
	return hashKey("requester", sb.String())
}

// countingPool wraps every task to know when it was handled.
type countingPool struct {
	concurrent.Pool
	mu       sync.Mutex
	handed   int
	finished int
	notify   chan struct{}
}

func (p *countingPool) Submit(ctx context.Context, task *concurrent.Task) {
	p.mu.Lock()
	p.handed++
	p.mu.Unlock()
	p.Pool.Submit(ctx, concurrent.NewTask(func() {
		defer func() {
			p.mu.Lock()
			p.finished++
			p.mu.Unlock()
			select {
			case p.notify <- struct{}{}:
			default:
			}
		}()
		task.Exec()
	}, nil))
}

func (p *countingPool) idle() bool {
	p.mu.Lock()
	defer p.mu.Unlock()
	return p.handed == p.finished
}

func (p *countingPool) waitIdle(deadline time.Time) bool {
	for !p.idle() {
		select {
		case <-p.notify:
		case <-time.After(5 * time.Millisecond):
		}
		if time.Now().After(deadline) {
			return false
		}
	}
	return true
}

// reqEnv is the per worker environment (cases of one worker run one after the other).
type reqEnv struct {
	respPool  *countingPool // task manager's pool
	respStats *metrics.ConcurrentStatistics
	taskPool  *countingPool // task handler's pool (intermediate)
	taskMgr   query.TaskManager
	payloads  map[bool][]byte // group by? -> a real leaf payload
	curNode   models.StatelessNode
}

type reqChooser struct {
	broker.StateManager // nil: only the methods below are used by the requesting side
	targets             []string
}

func (c *reqChooser) Choose(database string, _ int) ([]*models.PhysicalPlan, error) {
	plan := &models.PhysicalPlan{Database: database}
	for _, t := range c.targets {
		plan.AddTarget(&models.Target{Indicator: t, ShardIDs: []models.ShardID{1}})
	}
	return []*models.PhysicalPlan{plan}, nil
}

func (c *reqChooser) GetDatabaseCfg(name string) (models.Database, bool) {
	return models.Database{Name: name, NumOfShard: 4, ReplicaFactor: 1, Option: &option.DatabaseOption{
		Intervals: option.Intervals{{Interval: timeutil.Interval(10_000), Retention: timeutil.Interval(30 * 24 * 3600 * 1000)}},
	}}, true
}

// plainChooser is a flow.NodeChoose that is not a broker.StateManager (the root then skips the interval planning).
type plainChooser struct{ c *reqChooser }

func (p plainChooser) Choose(database string, n int) ([]*models.PhysicalPlan, error) {
	return p.c.Choose(database, n)
}

type reqTransport struct {
	env *reqEnv
	rc  *reqCase

	mu      sync.Mutex
	sent    []string // targets in the order they were contacted
	reqID   string
	reqType protoCommonV1.RequestType
	seq     int
	allSent chan struct{}
	events  []string
	up      []*protoCommonV1.TaskResponse // responses sent upstream through the transport (not used by these paths)
}

func (tr *reqTransport) SendRequest(target string, req *protoCommonV1.TaskRequest) error {
	tr.mu.Lock()
	k := len(tr.sent)
	tr.sent = append(tr.sent, target)
	tr.reqID, tr.reqType = req.RequestID, req.RequestType
	tr.events = append(tr.events, fmt.Sprintf("send #%d to %s", k, target))
	tr.mu.Unlock()
	// responses that arrive while this request is on its way
	for _, d := range tr.rc.Script {
		if !d.Late && d.At == k {
			tr.deliver(d)
		}
	}
	var err error
	if tr.rc.SendFail[k] {
		err = fmt.Errorf("c19-requester send to target #%d failed: connection refused", k)
	}
	if k == tr.rc.N-1 {
		close(tr.allSent)
	}
	return err
}

func (tr *reqTransport) SendResponse(target string, resp *protoCommonV1.TaskResponse) error {
	tr.mu.Lock()
	tr.up = append(tr.up, resp)
	tr.mu.Unlock()
	return nil
}

func (tr *reqTransport) deliver(d *delivery) {
	tr.mu.Lock()
	from := ""
	if d.Pos < len(tr.sent) {
		from = tr.sent[d.Pos]
	}
	reqID, reqType := tr.reqID, tr.reqType
	d.Seq = tr.seq
	tr.seq++
	tr.mu.Unlock()
	resp := &protoCommonV1.TaskResponse{RequestID: reqID, RequestType: reqType, Completed: true}
	switch d.Kind {
	case "ok":
		resp.Payload = tr.env.payloads[tr.rc.GroupBy]
	case "err":
		resp.ErrMsg = fmt.Sprintf("c19-requester target #%d: execute shard 1 failure: disk io error", d.Pos)
	case "notfound":
		resp.ErrMsg = "not found database: c19db"
	}
	err := tr.env.taskMgr.Receive(resp, from)
	tr.mu.Lock()
	d.Accepted = err == nil
	if err != nil {
		d.RecvErr = err.Error()
	}
	tr.events = append(tr.events, fmt.Sprintf("deliver %s of target #%d (dup=%v late=%v sync=%v) accepted=%v", d.Kind, d.Pos, d.Dup, d.Late, d.Sync, err == nil))
	tr.mu.Unlock()
	if err == nil && d.Sync {
		tr.env.respPool.waitIdle(time.Now().Add(20 * time.Second))
	}
}

// reqOutcome is what the requesting-side oracle judges.
type reqOutcome struct {
	Case      *reqCase  `json:"case"`
	Events    []string  `json:"events"`
	Returned  bool      `json:"returned"`
	Err       string    `json:"error,omitempty"`
	HasResult bool      `json:"has_result"`
	Upstream  []recResp `json:"upstream_responses,omitempty"` // intermediate: what the requester of the intermediate got
	Panics    int       `json:"panics_in_response_handlers"`
	Watchdog  string    `json:"watchdog,omitempty"`
}

func newReqEnv(slot int, payloads map[bool][]byte) *reqEnv {
	e := &reqEnv{payloads: payloads, curNode: models.StatelessNode{HostIP: "1.1.1.9", GRPCPort: 2891}}
	e.respStats = metrics.NewConcurrentStatistics(fmt.Sprintf("c19-requester-resp-%d", slot), linmetric.BrokerRegistry)
	e.respPool = &countingPool{Pool: concurrent.NewPool(fmt.Sprintf("c19-requester-resp-%d", slot), 4, time.Minute, e.respStats), notify: make(chan struct{}, 1)}
	e.taskPool = &countingPool{Pool: concurrent.NewPool(fmt.Sprintf("c19-requester-task-%d", slot), 4, time.Minute,
		metrics.NewConcurrentStatistics(fmt.Sprintf("c19-requester-task-%d", slot), linmetric.BrokerRegistry)), notify: make(chan struct{}, 1)}
	e.taskMgr = query.NewTaskManager(e.respPool, linmetric.BrokerRegistry)
	return e
}

func (e *reqEnv) run(rc *reqCase) *reqOutcome {
	out := &reqOutcome{Case: rc}
	targets := make([]string, rc.N)
	for i := range targets {
		targets[i] = fmt.Sprintf("1.1.2.%d:2891", i+1)
	}
	tr := &reqTransport{env: e, rc: rc, allSent: make(chan struct{})}
	chooser := &reqChooser{targets: targets}
	panicBase := e.respStats.TasksPanic.Get()
	qsql := "select f from cpu"
	if rc.GroupBy {
		qsql = "select f from cpu group by host"
	}
	st, err := sql.Parse(qsql)
	if err != nil {
		out.Watchdog = "harness: " + err.Error()
		return out
	}
	statement := st.(*stmt.Query)
	ctx, cancel := context.WithTimeout(context.Background(), 60*time.Second)
	defer cancel()
	type result struct {
		rs  any
		err error
	}
	done := make(chan result, 1)
	var stream *recStream
	reqID := fmt.Sprintf("c19-im-%d-%d", rc.ID, time.Now().UnixNano()%100000)
	switch rc.Role {
	case "root":
		go func() {
			rs, err := query.MetricDataSearch(ctx, &models.ExecuteParam{Database: "c19db", SQL: qsql}, statement,
				&query.SearchMgr{Timeout: 60 * time.Second, CurNode: e.curNode, Choose: plainChooser{chooser}, TaskMgr: e.taskMgr, TransportMgr: tr})
			done <- result{rs, err}
		}()
	default:
		// the intermediate node: a request of an upstream root arrives at the real task handler
		statement.StorageInterval = timeutil.Interval(10_000)
		statement.Interval = timeutil.Interval(10_000)
		statement.IntervalRatio = 1
		payload, _ := statement.MarshalJSON()
		plan := &models.PhysicalPlan{Database: "c19db", Receivers: []string{"1.1.1.1:9000"},
			Targets: []*models.Target{{Indicator: e.curNode.Indicator()}}}
		req := &protoCommonV1.TaskRequest{RequestID: reqID, RequestType: protoCommonV1.RequestType_Data,
			PhysicalPlan: encoding.JSONMarshal(plan), Payload: payload}
		processor := query.NewIntermediateTaskProcessor(e.curNode, 60*time.Second, chooser, e.taskMgr, tr)
		fct := rpc.NewTaskServerFactory()
		handler := query.NewTaskHandler(config.Query{QueryConcurrency: 8, IdleTimeout: ltoml.Duration(time.Minute), Timeout: ltoml.Duration(60 * time.Second)},
			fct, processor, e.taskPool)
		stream = &recStream{
			ctx:   metadata.NewIncomingContext(context.Background(), metadata.Pairs(constants.RPCMetaKeyLogicNode, "1.1.1.1:9000")),
			reqs:  make(chan *protoCommonV1.TaskRequest),
			resps: map[string][]recResp{},
		}
		go func() { _ = handler.Handle(stream) }()
		defer close(stream.reqs)
		e.taskPool.mu.Lock()
		base := e.taskPool.handed
		e.taskPool.mu.Unlock()
		stream.reqs <- req
		go func() {
			// "returned" for the intermediate: the handler's task (Process) is over
			dl := time.Now().Add(60 * time.Second)
			for {
				e.taskPool.mu.Lock()
				started := e.taskPool.handed > base
				e.taskPool.mu.Unlock()
				if started && e.taskPool.waitIdle(dl) {
					break
				}
				if time.Now().After(dl) {
					break
				}
				time.Sleep(200 * time.Microsecond)
			}
			done <- result{}
		}()
	}
	// responses that arrive after all requests were sent, in script order
	var res result
	returned := false
	select {
	case <-tr.allSent:
	case res = <-done:
		returned = true // (plan failed before anything was sent)
	case <-time.After(30 * time.Second):
		out.Watchdog = "requests were not sent"
		return out
	}
	for _, d := range rc.Script {
		if !d.Late && d.At >= rc.N {
			tr.deliver(d)
		}
	}
	if !returned {
		select {
		case res = <-done:
		case <-time.After(40 * time.Second):
			out.Watchdog = "the caller got no answer although every target answered"
			return out
		}
	}
	out.Returned = true
	if res.err != nil {
		out.Err = res.err.Error()
	}
	out.HasResult = res.rs != nil
	// late responses: after the caller has its answer
	for _, d := range rc.Script {
		if d.Late {
			tr.deliver(d)
		}
	}
	dl := time.Now().Add(20 * time.Second)
	if !e.respPool.waitIdle(dl) || !e.taskPool.waitIdle(dl) {
		out.Watchdog = "pools of the requesting side do not become idle"
	}
	if stream != nil {
		out.Upstream = stream.responses(reqID)
		if len(out.Upstream) > 0 {
			out.Err = out.Upstream[0].ErrMsg
			out.HasResult = out.Upstream[0].Payload > 0
		}
	}
	out.Panics = int(e.respStats.TasksPanic.Get() - panicBase)
	tr.mu.Lock()
	out.Events = append([]string(nil), tr.events...)
	tr.mu.Unlock()
	return out
}

// judgeReq is the oracle of the requesting side.
func judgeReq(out *reqOutcome) (vs []viol, facts map[string]int) {
	rc := out.Case
	facts = map[string]int{"requester_cases": 1, "requester_cases_" + rc.Role: 1}
	add := func(class, format string, args ...interface{}) {
		vs = append(vs, viol{Class: class, Msg: fmt.Sprintf(format, args...)})
	}
	if out.Watchdog != "" {
		return vs, facts
	}
	if out.Panics > 0 {
		add(clsReqPanic, "%d tasks of the task manager's pool panicked while handling the responses of one request", out.Panics)
	}
	if rc.Role == "intermediate" {
		facts["requester_intermediate_upstream_responses"] = len(out.Upstream)
		if len(out.Upstream) != 1 {
			add(fmt.Sprintf("%s/%d", clsReqResponses, min(len(out.Upstream), 2)), "the intermediate answered its requester %d times: %+v", len(out.Upstream), out.Upstream)
			return vs, facts
		}
	}
	// what the targets answered before the caller had its answer, in the order the responses were handed over
	ds := append([]*delivery(nil), rc.Script...)
	sort.SliceStable(ds, func(i, j int) bool { return ds[i].Seq < ds[j].Seq })
	realErr, dup, notFoundAfterErr := "", false, false
	okN, nfN := 0, 0
	for _, d := range ds {
		if d.Late || !d.Accepted {
			continue
		}
		if d.Dup {
			dup = true
		}
		switch d.Kind {
		case "err":
			if realErr == "" {
				realErr = fmt.Sprintf("target #%d", d.Pos)
			}
		case "notfound":
			nfN++
			if realErr != "" {
				notFoundAfterErr = true
			}
		case "ok":
			okN++
		}
	}
	sendFailed := len(rc.SendFail) > 0
	failed := out.Err != ""
	switch {
	case realErr != "" || sendFailed:
		facts["requester_cases_with_failing_target"] = 1
		if notFoundAfterErr {
			facts["requester_not_found_handled_after_error"] = 1
		}
		if failed {
			facts["requester_errors_reported"] = 1
			break
		}
		if dup && !sendFailed {
			// a duplicated response can make the request complete before the failing target's response is handled:
			// garbage in; recorded, not demanded
			facts["requester_duplicate_completed_request_before_error"] = 1
			break
		}
		shape := "other"
		switch {
		case sendFailed && realErr == "":
			shape = "send-failure"
		case notFoundAfterErr:
			shape = "not-found-response-after-error-response"
		}
		add(clsReqLost+"/"+rc.Role+"/"+shape, "%s: %s answered with a real error (send failures: %v), the responses were accepted by the task manager before the caller had its answer, "+
			"but the caller got a successful answer (has result: %v); deliveries in order: %s", rc.Role, realErr, rc.SendFail, out.HasResult, describe(ds))
	case !dup && nfN == rc.N:
		// lindb's rule: when every target answers not found, the last one is reported as the error
		facts["requester_all_not_found"] = 1
		if failed {
			facts["requester_errors_reported"] = 1
		} else {
			facts["requester_all_not_found_answered_as_success"] = 1
		}
	case !dup:
		facts["requester_cases_without_failure"] = 1
		if failed {
			add(clsReqSpurious+"/"+rc.Role, "%s: no target failed and no send failed (ok=%d, tolerated not found=%d of %d targets), but the caller got error %q; deliveries: %s",
				rc.Role, okN, nfN, rc.N, out.Err, describe(ds))
		} else {
			facts["requester_success_answers"] = 1
		}
	default:
		facts["requester_cases_with_duplicates_only"] = 1
	}
	return vs, facts
}

func describe(ds []*delivery) string {
	var parts []string
	for _, d := range ds {
		s := fmt.Sprintf("#%d:%s", d.Pos, d.Kind)
		if d.Dup {
			s += "(dup)"
		}
		if d.Late {
			s += "(late)"
		}
		if !d.Accepted {
			s += "(refused)"
		}
		parts = append(parts, s)
	}
	return strings.Join(parts, " ")
}

// reqCaseOf builds case idx: the first cases are systematic (3 targets, every assignment of {ok, err, notfound},
// every order, delivered while the last request is sent / after the sends), the others random.
func reqCaseOf(seed int64, idx int) *reqCase {
	kinds := []string{"ok", "err", "notfound"}
	perms := [][]int{{0, 1, 2}, {0, 2, 1}, {1, 0, 2}, {1, 2, 0}, {2, 0, 1}, {2, 1, 0}}
	const nSys = 27 * 6 * 2
	if idx < nSys {
		a, p, during := idx%27, (idx/27)%6, idx/(27*6) == 0
		rc := &reqCase{ID: idx, Role: []string{"root", "intermediate"}[idx%2], N: 3}
		ks := []string{kinds[a%3], kinds[(a/3)%3], kinds[a/9]}
		for _, pos := range perms[p] {
			d := &delivery{Pos: pos, Kind: ks[pos], At: 3, Sync: true}
			if during && pos < 2 {
				d.At = 2 // while the request for the third target is on its way
			}
			rc.Script = append(rc.Script, d)
		}
		rc.GroupBy = rc.Role == "intermediate"
		return rc
	}
	r := newRandSrc(seed*48271 + int64(idx)*69621 + 7)
	rc := &reqCase{ID: idx, Role: []string{"root", "root", "intermediate"}[r.intn(3)], N: 2 + r.intn(4)}
	rc.GroupBy = rc.Role == "intermediate" || r.intn(3) == 0
	// primary response of every target
	profile := r.intn(4) // 0: mostly ok, 1: one error, 2: errors and not-founds, 3: not-found heavy
	order := make([]int, rc.N)
	for i := range order {
		order[i] = i
	}
	for i := rc.N - 1; i > 0; i-- {
		j := r.intn(i + 1)
		order[i], order[j] = order[j], order[i]
	}
	errAt := r.intn(rc.N)
	sync := r.intn(3) != 0
	for _, pos := range order {
		k := "ok"
		switch profile {
		case 1:
			if pos == errAt {
				k = "err"
			} else if r.intn(3) == 0 {
				k = "notfound"
			}
		case 2:
			k = kinds[r.intn(3)]
		case 3:
			k = []string{"notfound", "notfound", "ok", "err"}[r.intn(4)]
		default:
			if r.intn(6) == 0 {
				k = "notfound"
			}
		}
		rc.Script = append(rc.Script, &delivery{Pos: pos, Kind: k, At: rc.N, Sync: sync})
	}
	// arrival: non decreasing along the script, a response cannot arrive before its request was sent
	at := 0
	for _, d := range rc.Script {
		lo := d.Pos + 1
		if at > lo {
			lo = at
		}
		if lo < rc.N && r.intn(2) == 0 {
			d.At = lo + r.intn(rc.N-lo)
		} else {
			d.At = rc.N
		}
		at = d.At
	}
	// duplicates and late copies
	if r.intn(6) == 0 {
		i := r.intn(len(rc.Script))
		src := rc.Script[i]
		dupe := &delivery{Pos: src.Pos, Kind: src.Kind, Dup: true, At: src.At, Sync: sync}
		rc.Script = append(rc.Script[:i+1], append([]*delivery{dupe}, rc.Script[i+1:]...)...)
	}
	if r.intn(4) == 0 {
		rc.Script = append(rc.Script, &delivery{Pos: r.intn(rc.N), Kind: kinds[r.intn(3)], Late: true, Dup: true, At: rc.N, Sync: true})
	}
	if r.intn(12) == 0 {
		rc.SendFail = map[int]bool{r.intn(rc.N): true}
		// a target that never got its request does not answer
		var keep []*delivery
		for _, d := range rc.Script {
			if !rc.SendFail[d.Pos] {
				keep = append(keep, d)
			}
		}
		rc.Script = keep
	}
	return rc
}

// childRequester: child-requester <result.json> <case.log> <dir> <mod> <rem> <race:0|1>
func childRequester(args []string) {
	resFile, logFile, dir := args[0], args[1], args[2]
	mod, _ := strconv.Atoi(args[3])
	rem, _ := strconv.Atoi(args[4])
	race := args[5] == "1"
	seed := int64(1)
	if s := os.Getenv("VERIF_SEED"); s != "" {
		if v, err := strconv.ParseInt(s, 10, 64); err == nil {
			seed = v
		}
	}
	quick := os.Getenv("VERIF_TIER") != "thorough"
	a := newAgg()
	lf, err := os.Create(logFile)
	if err != nil {
		fmt.Println("cannot create case log:", err)
		os.Exit(3)
	}
	var lmu sync.Mutex
	logf := func(s string) {
		lmu.Lock()
		_, _ = lf.WriteString(s + "\n")
		lmu.Unlock()
	}
	// real payloads of a real leaf: plain and group by
	payloads := map[bool][]byte{}
	_ = os.MkdirAll(dir, 0o755)
	if lenv, err := newLeafEnv(dir + "/e0"); err == nil {
		lenv.stream.keepRaw = true
		for _, gb := range []bool{false, true} {
			q := "plain"
			if gb {
				q = "groupby"
			}
			probe := &leafCase{ID: 5980, Kind: "data", Query: q, Shards: []int{0, 1, 3}, Fault: map[int]string{}, Release: []int{0, 1, 3}}
			o := lenv.run(probe).Responses
			if len(o) == 1 && o[0].ErrMsg == "" && len(o[0].Raw) > 0 {
				payloads[gb] = o[0].Raw
			}
		}
	}
	if len(payloads[false]) == 0 || len(payloads[true]) == 0 {
		a.res.Inconclusive = append(a.res.Inconclusive, "requester phase: could not obtain real leaf payloads")
		a.write(resFile)
		os.Exit(0)
	}
	total := 1500
	if !quick {
		total = 60000
	}
	if race {
		total = 500
		if !quick {
			total = 6000
		}
	}
	var list []int
	for i := 0; i < total; i++ {
		if i%mod == rem {
			list = append(list, i)
		}
	}
	workers := 4
	envs := make(chan *reqEnv, workers)
	for w := 0; w < workers; w++ {
		envs <- newReqEnv(w, payloads)
	}
	// cases the harness cannot judge cost a watchdog each: after a few of them stop and report what was judged
	unjudged, skipped := 0, 0
	parallel(len(list), workers, func(k int) {
		i := list[k]
		a.mu.Lock()
		stop := unjudged >= maxUnjudgedCases
		if stop {
			skipped++
		}
		a.mu.Unlock()
		if stop {
			return
		}
		rc := reqCaseOf(seed, i)
		logf(fmt.Sprintf("requester case %d role=%s targets=%d sendfail=%v script=%s", i, rc.Role, rc.N, rc.SendFail, describe(rc.Script)))
		env := <-envs
		out := env.run(rc)
		envs <- env
		vs, facts := judgeReq(out)
		a.mu.Lock()
		a.res.Evals++
		a.key[rc.key()] = struct{}{}
		if out.Watchdog != "" {
			unjudged++
			if len(a.res.Inconclusive) < 5 {
				a.res.Inconclusive = append(a.res.Inconclusive, fmt.Sprintf("requester case %d: %s", i, out.Watchdog))
			}
		}
		a.mu.Unlock()
		for k, v := range facts {
			a.count(k, v)
		}
		for _, v := range vs {
			a.violation(v.Class, v.Msg, func() interface{} { return out })
		}
	})
	if skipped > 0 {
		a.res.Inconclusive = append(a.res.Inconclusive, fmt.Sprintf("%d requester cases could not be judged (see above); the remaining %d cases of this child were not run", unjudged, skipped))
	}
	a.write(resFile)
	_ = lf.Close()
	os.Exit(0)
}
