package main

import (
	"context"
	"errors"
	"fmt"
	"runtime"
	"sort"
	"strings"
	"sync"
	"time"

	commonmodels "github.com/lindb/common/models"

	"github.com/lindb/lindb/constants"
	"github.com/lindb/lindb/internal/concurrent"
	"github.com/lindb/lindb/internal/linmetric"
	"github.com/lindb/lindb/metrics"
	"github.com/lindb/lindb/query"
	"github.com/lindb/lindb/query/stage"
	trackerpkg "github.com/lindb/lindb/query/tracker"
)

// Event kinds of the trace.
const (
	evPlan       = "plan"        // Stage.Plan() called by pipeline.executeStage (the stage is registered: pending was incremented)
	evPlanPanic  = "plan-panic"  // injected panic inside Plan()
	evExecEnter  = "exec-enter"  // Stage.Execute() entered
	evExecReturn = "exec-return" // Stage.Execute() returned normally (async: the task was handed to the pool)
	evExecUnwind = "exec-unwind" // a panic unwound the frame of Stage.Execute()
	evOpStart    = "op-start"
	evOpPark     = "op-park"    // operator waits at its gate
	evOpRelease  = "op-release" // driver opened the gate
	evOpEnd      = "op-end"     // operator returned (Err = returned error)
	evOpPanic    = "op-panic"   // operator panicked
	evNextEnter  = "next-enter" // Stage.NextStages() called
	evNextReturn = "next-return"
	evNextPanic  = "next-panic"
	evHEnter     = "handler-enter" // the pipeline's completeHandle/errHandle of the stage was invoked (Info = complete|err)
	evHExit      = "handler-exit"
	evHUnwind    = "handler-unwind"   // a panic unwound the handler (nested stage panicked)
	evHook       = "complete-hook"    // Stage.Complete() called by the state machine
	evHookPanic  = "complete-panic"   // injected panic inside Stage.Complete()
	evCallback   = "callback"         // the completion callback of the pipeline
	evMainReturn = "main-return"      // pipeline.Execute returned
	evMainPanic  = "main-panic"       // pipeline.Execute panicked (must never happen)
	evAbandoned  = "runner-abandoned" // harness: the pool's counters say the stage's task was consumed, its handlers were never called
	evCancel     = "ctx-cancel"       // harness: the context of the pooled stages was cancelled
	evLost       = "runner-lost"      // harness: an async stage was handed to its pool, the pool drained a later sentinel task, the stage never ran
	// evRegPanic: Stage.Identifier() was called - by the state machine's executeStage, which is registering the stage: pending
	// is incremented - and panics (Info = identifier: injected panic; typed-nil: the stage is a typed nil pointer, the
	// real Identifier() dereferences its nil receiver).  Recorded only for stages specified to panic there.
	evRegPanic = "register-panic"
	// evTypedNil: harness: a typed nil stage pointer was handed to the pipeline (as root / returned by NextStages())
	evTypedNil = "typed-nil-handed-over"
)

// event is one entry of the trace; Seq is the logical clock.
type event struct {
	Seq   int    `json:"t"`
	Kind  string `json:"k"`
	Stage int    `json:"s"`
	Op    int    `json:"op,omitempty"`
	G     int64  `json:"g"`
	Err   string `json:"err,omitempty"`
	Info  string `json:"info,omitempty"`
	NoErr bool   `json:"-"`
}

func (e event) String() string {
	s := fmt.Sprintf("%d:%s %s", e.Seq, e.Kind, stageName(e.Stage))
	if e.Kind == evOpStart || e.Kind == evOpEnd || e.Kind == evOpPanic || e.Kind == evOpPark || e.Kind == evOpRelease {
		s += fmt.Sprintf(".o%d", e.Op)
	}
	if e.Info != "" {
		s += " " + e.Info
	}
	if e.Err != "" {
		s += " err=" + e.Err
	}
	return s + fmt.Sprintf(" g%d", e.G)
}

// A stage of the specification may be instantiated more than once in one execution (NextStages() of its parent called
// again): every instance has its own key = spec id + instance*instStride, so that the bookkeeping of the driver (gates,
// runners) and the facts of the oracle are per stage object.
const instStride = 100000

func specID(key int) int { return key % instStride }
func instOf(key int) int { return key / instStride }

// stageName is the identifier of a stage instance in the trace and in pipeline.Stats(): s3, s3#1 (second instance), ...
func stageName(key int) string {
	if key < 0 {
		return fmt.Sprintf("s%d", key)
	}
	if instOf(key) > 0 {
		return fmt.Sprintf("s%d#%d", specID(key), instOf(key))
	}
	return fmt.Sprintf("s%d", key)
}

func goid() int64 {
	var buf [64]byte
	n := runtime.Stack(buf[:], false)
	var id int64
	for i := len("goroutine "); i < n; i++ {
		ch := buf[i]
		if ch < '0' || ch > '9' {
			break
		}
		id = id*10 + int64(ch-'0')
	}
	return id
}

// runOpts selects how one case is scheduled.
type runOpts struct {
	// Mode "serial": every stage with an operator parks at a gate, the driver opens one gate at a time when the
	// system is settled; Choices selects which (index into the parked stages sorted by id), beyond Choices the
	// Rand decides (or index 0 when Rand == nil).  Mode "free": no gates, seeded micro delays, real concurrency.
	Mode       string
	Choices    []int
	RandSeed   int64
	UseRand    bool
	MaxWorkers int // per pool (free mode); serial mode always uses a size that cannot starve a parked stage
	// CancelAt >= 0: the context shared by the pooled stages is cancelled before the CancelAt-th gate is opened
	// (serial mode) or when the trace has CancelAt events (free mode); -1: never.
	CancelAt int
	NoDelay  bool // free mode without any operator delay (unshaped stress)
	Slot     string
}

// caseRun is the state of one executed case.
type caseRun struct {
	spec *treeSpec
	opts runOpts

	mu           sync.Mutex
	ev           []event
	notify       chan struct{}
	started      int // runners started (main goroutine + async stages handed to a pool)
	done         int // runners done
	parked       map[int]chan struct{}
	parkedG      map[int]int64 // goroutine of each parked operator
	gOwner       map[int64]int // pool goroutine -> async stage whose task runs on it (-1: the goroutine that called pipeline.Execute)
	mainEnd      bool
	hEnteredCh   map[int]chan struct{}
	hEnteredDone map[int]bool
	ctx          context.Context
	cancel       context.CancelFunc
	cancelled    bool
	poolsStopped bool
	runDone      map[int]bool // async stage id -> runner counted as done
	hstack       map[int64][]int
	nCb          int
	instances    map[int]int // spec id -> number of stage objects built for it

	pools   []concurrent.Pool
	stats   []*metrics.ConcurrentStatistics
	base    []float64 // consumed+panic+rejected at case start
	baseRej []float64
	subm    []int // tasks handed to each pool by this case (harness count)
	alts    []int // number of alternatives at each decision point
	taken   []int // choices actually taken
	delayNs map[int]int64
	stages  map[int]*hStage
}

func (c *caseRun) rec(kind string, st, op int, err error, info string) int {
	g := goid()
	c.mu.Lock()
	seq := c.recLocked(kind, st, op, err, info, g)
	c.mu.Unlock()
	c.wake()
	return seq
}

func (c *caseRun) recLocked(kind string, st, op int, err error, info string, g int64) int {
	if kind == evOpStart || kind == evHEnter {
		// a pool worker runs one task after the other: the goroutine belongs to the pooled stage whose events it shows
		// (the goroutine that called pipeline.Execute stays the caller's, whatever is invoked on it)
		if h := c.stages[st]; h != nil && h.spec.Async {
			if cur, ok := c.gOwner[g]; !ok || cur != -1 {
				c.gOwner[g] = st
			}
		}
	}
	if c.opts.Mode == "free" && c.opts.CancelAt >= 0 && !c.cancelled && len(c.ev) >= c.opts.CancelAt {
		c.cancelled = true
		c.ev = append(c.ev, event{Seq: len(c.ev), Kind: evCancel, Stage: -1, NoErr: true})
		c.cancel()
	}
	e := event{Seq: len(c.ev), Kind: kind, Stage: st, Op: op, G: g, Info: info}
	if err != nil {
		e.Err = err.Error()
	} else {
		e.NoErr = true
	}
	c.ev = append(c.ev, e)
	return e.Seq
}

func (c *caseRun) wake() {
	select {
	case c.notify <- struct{}{}:
	default:
	}
}

// ---------------------------------------------------------------------------------------------
// harness operator: a real operator.Operator inside a real stage.PlanNode

type hOp struct {
	c       *caseRun
	st      int
	idx     int
	outcome string
	gated   bool
}

type panicVal struct{ S string }

func failToken(st, op int) string { return fmt.Sprintf("c19-fail-s%d-o%d", st, op) }

func (o *hOp) Identifier() string { return fmt.Sprintf("op-%s-o%d", stageName(o.st), o.idx) }

func (o *hOp) Execute() (err error) {
	c := o.c
	c.rec(evOpStart, o.st, o.idx, nil, o.outcome)
	finished := false
	defer func() {
		if !finished {
			c.rec(evOpPanic, o.st, o.idx, nil, o.outcome)
		}
	}()
	if o.gated {
		ch := make(chan struct{})
		g := goid()
		c.mu.Lock()
		c.parked[o.st] = ch
		c.parkedG[o.st] = g
		c.recLocked(evOpPark, o.st, o.idx, nil, "", g)
		c.mu.Unlock()
		c.wake()
		<-ch
	}
	sid := specID(o.st)
	if d := c.delayNs[sid*16+o.idx]; d > 0 {
		if d < 2000 {
			runtime.Gosched()
		} else {
			time.Sleep(time.Duration(d))
		}
	}
	switch o.outcome {
	case oOK:
	case oErr, oErrIgnore:
		err = errors.New(failToken(sid, o.idx))
	case oNFIgnored:
		err = fmt.Errorf("c19-ignored-s%d-o%d %w", sid, o.idx, constants.ErrNotFound)
	case oNFPlain:
		err = fmt.Errorf("%s %w", failToken(sid, o.idx), constants.ErrNotFound)
	case oPanicStr:
		panic(failToken(sid, o.idx))
	case oPanicErr:
		panic(errors.New(failToken(sid, o.idx)))
	case oPanicVal:
		panic(panicVal{failToken(sid, o.idx)})
	case oPanicRT:
		var m map[string]int
		m[failToken(sid, o.idx)] = 1 // runtime error: assignment to entry in nil map
	}
	finished = true
	c.rec(evOpEnd, o.st, o.idx, err, o.outcome)
	return err
}

// ---------------------------------------------------------------------------------------------
// harness stage: wraps the hook stage (which embeds the real baseStage) only to record calls

type hStage struct {
	*stage.VerifStage
	c    *caseRun
	spec *stageSpec
	key  int // instance key (see instStride)
	plan stage.PlanNode
}

// Identifier is called by the pipeline's state machine while it registers the stage.
func (h *hStage) Identifier() string {
	if h == nil {
		// a typed nil stage: find the case through the goroutine the stage was handed over on, record, then let the real
		// stage type dereference its nil receiver
		typedNilArrived(goid())
		return (*stage.VerifStage)(nil).Identifier()
	}
	if h.spec.IdentPanic {
		h.c.rec(evRegPanic, h.key, 0, nil, "identifier")
		panic(fmt.Sprintf("c19-fail-s%d-ident", h.spec.ID))
	}
	return h.VerifStage.Identifier()
}

// A typed nil *hStage carries no state: the stages handed over as typed nil pointers are queued per goroutine (the
// pipeline registers the stages NextStages() returned on the goroutine that called NextStages(), in order; the root
// on the goroutine that calls pipeline.Execute).
var typedNilQ struct {
	sync.Mutex
	m map[int64][]typedNilRef
}

type typedNilRef struct {
	c   *caseRun
	key int
}

func typedNilHandOver(g int64, c *caseRun, key int) {
	typedNilQ.Lock()
	if typedNilQ.m == nil {
		typedNilQ.m = map[int64][]typedNilRef{}
	}
	typedNilQ.m[g] = append(typedNilQ.m[g], typedNilRef{c, key})
	typedNilQ.Unlock()
}

func typedNilArrived(g int64) {
	typedNilQ.Lock()
	q := typedNilQ.m[g]
	var ref typedNilRef
	if len(q) > 0 {
		ref = q[0]
		if len(q) == 1 {
			delete(typedNilQ.m, g)
		} else {
			typedNilQ.m[g] = q[1:]
		}
	}
	typedNilQ.Unlock()
	if ref.c != nil {
		ref.c.rec(evRegPanic, ref.key, 0, nil, "typed-nil")
	}
}

// typedNilForget drops what the case queued and the pipeline never asked for.
func typedNilForget(c *caseRun) {
	typedNilQ.Lock()
	for g, q := range typedNilQ.m {
		keep := q[:0]
		for _, ref := range q {
			if ref.c != c {
				keep = append(keep, ref)
			}
		}
		if len(keep) == 0 {
			delete(typedNilQ.m, g)
		} else {
			typedNilQ.m[g] = keep
		}
	}
	typedNilQ.Unlock()
}

func (h *hStage) Plan() stage.PlanNode {
	h.c.rec(evPlan, h.key, 0, nil, "")
	if h.spec.PlanPanic {
		h.c.rec(evPlanPanic, h.key, 0, nil, "")
		panic(fmt.Sprintf("c19-fail-s%d-plan", h.spec.ID))
	}
	return h.plan
}

func (h *hStage) Execute(node stage.PlanNode, completeHandle func(), errHandle func(err error)) {
	c := h.c
	id := h.key
	async := h.VerifStage.IsAsync()
	g := goid()
	c.mu.Lock()
	info := "sync"
	if async {
		info = "async" // (the runner of a pooled stage starts when its task is handed to the pool: see cntPool.Submit)
	}
	c.recLocked(evExecEnter, id, 0, nil, info, g)
	c.mu.Unlock()
	returned := false
	defer func() {
		if returned {
			c.rec(evExecReturn, id, 0, nil, info)
		} else {
			c.rec(evExecUnwind, id, 0, nil, info)
		}
	}()
	wrap := func(kind string, err error, fn func()) {
		g := goid()
		c.mu.Lock()
		c.recLocked(evHEnter, id, 0, err, kind, g)
		c.hstack[g] = append(c.hstack[g], id)
		if !c.hEnteredDone[id] {
			c.hEnteredDone[id] = true
			if ch := c.hEnteredCh[id]; ch != nil {
				close(ch)
			}
		}
		c.mu.Unlock()
		ok := false
		defer func() {
			c.mu.Lock()
			st := c.hstack[g]
			c.hstack[g] = st[:len(st)-1]
			if ok {
				c.recLocked(evHExit, id, 0, nil, kind, g)
				if async && !c.runDone[id] {
					c.runDone[id] = true
					c.done++
				}
			} else {
				c.recLocked(evHUnwind, id, 0, nil, kind, g)
			}
			c.mu.Unlock()
			c.wake()
		}()
		fn()
		ok = true
	}
	// the real baseStage.Execute (through the hook type)
	h.VerifStage.Execute(node,
		func() { wrap("complete", nil, completeHandle) },
		func(err error) {
			if err == nil {
				err0 := errors.New("(errHandle called with nil error)")
				wrap("err-nil", err0, func() { errHandle(err) })
				return
			}
			wrap("err", err, func() { errHandle(err) })
		})
	returned = true
}

// cntPool delegates to the real pool and counts the tasks handed to it: the exact number the pool's own
// consumed/panic/rejected counters are compared with, and the moment the runner of a pooled stage starts.
type cntPool struct {
	concurrent.Pool
	c   *caseRun
	idx int
}

func (p *cntPool) Submit(ctx context.Context, task *concurrent.Task) {
	p.c.mu.Lock()
	p.c.subm[p.idx]++
	p.c.started++
	p.c.mu.Unlock()
	p.Pool.Submit(ctx, task)
}

func (h *hStage) NextStages() []stage.Stage {
	return h.VerifStage.NextStages()
}

// ---------------------------------------------------------------------------------------------

// handlerEntered returns a channel that is closed when the pipeline's completion/error handler of the stage was entered.
func (c *caseRun) handlerEntered(id int) chan struct{} {
	c.mu.Lock()
	defer c.mu.Unlock()
	ch := c.hEnteredCh[id]
	if ch == nil {
		ch = make(chan struct{})
		c.hEnteredCh[id] = ch
		if c.hEnteredDone[id] {
			close(ch)
		}
	}
	return ch
}

func (c *caseRun) build(s *stageSpec, depth int) stage.Stage {
	var plan stage.PlanNode
	serial := c.opts.Mode == "serial"
	c.mu.Lock()
	id := s.ID + c.instances[s.ID]*instStride
	c.instances[s.ID]++
	c.mu.Unlock()
	if s.TypedNil {
		// (the root is built by the driver and registered on the goroutine that calls pipeline.Execute: see runCaseOnce)
		if depth > 0 {
			typedNilHandOver(goid(), c, id)
		}
		c.rec(evTypedNil, id, 0, nil, "")
		return (*hStage)(nil)
	}
	mk := func(i int) stage.PlanNode {
		o := s.Ops[i]
		op := &hOp{c: c, st: id, idx: i, outcome: o.Outcome, gated: serial && i == 0}
		if o.Outcome == oNFIgnored || o.Outcome == oErrIgnore {
			return stage.NewPlanNodeWithIgnore(op)
		}
		return stage.NewPlanNode(op)
	}
	switch s.PlanKind {
	case "nil":
	case "empty-root", "op-root":
		nodes := make([]stage.PlanNode, len(s.Ops))
		for i := range s.Ops {
			nodes[i] = mk(i)
		}
		var root stage.PlanNode
		if s.PlanKind == "empty-root" {
			root = stage.NewEmptyPlanNode()
		}
		for i, o := range s.Ops {
			switch {
			case o.Parent >= 0:
				nodes[o.Parent].AddChild(nodes[i])
			case root == nil:
				root = nodes[i]
			default:
				root.AddChild(nodes[i])
			}
		}
		plan = root
	}
	var pool concurrent.Pool
	ctx := c.ctx
	if s.Async {
		pool = &cntPool{Pool: c.pools[depth%len(c.pools)], c: c, idx: depth % len(c.pools)}
	} else if s.NilCtx {
		pool = &cntPool{Pool: c.pools[depth%len(c.pools)], c: c, idx: depth % len(c.pools)}
		ctx = nil
	}
	h := &hStage{c: c, spec: s, key: id, plan: plan}
	next := func() []stage.Stage {
		c.rec(evNextEnter, id, 0, nil, "")
		if s.NextPanic {
			c.rec(evNextPanic, id, 0, nil, "")
			panic(fmt.Sprintf("c19-fail-s%d-next", s.ID))
		}
		var out []stage.Stage
		for _, ch := range s.Children {
			out = append(out, c.build(ch, depth+1))
		}
		c.rec(evNextReturn, id, 0, nil, fmt.Sprintf("%d", len(out)))
		return out
	}
	onComplete := func() {
		c.rec(evHook, id, 0, nil, "")
		if c.opts.Mode == "free" {
			if w := s.HookWaitStage; w > 0 {
				select {
				case <-c.handlerEntered(w - 1):
				case <-time.After(100 * time.Millisecond): // never part of a verdict: the shape just did not form
				}
			}
			if s.HookDelayUs > 0 {
				time.Sleep(time.Duration(s.HookDelayUs) * time.Microsecond)
			}
		}
		if s.CompletePanic {
			c.rec(evHookPanic, id, 0, nil, "")
			panic(fmt.Sprintf("c19-fail-s%d-complete", s.ID))
		}
	}
	types := []stage.Type{stage.MetadataLookup, stage.ShardScan, stage.Grouping, stage.DataLoad}
	//nolint:staticcheck // a nil context is a supported way to make a baseStage synchronous
	h.VerifStage = stage.NewVerifStage(ctx, pool, types[depth%len(types)], stageName(id), plan, next, onComplete)
	c.mu.Lock()
	c.stages[id] = h
	c.mu.Unlock()
	return h
}

const (
	caseWatchdog = 20 * time.Second
)

// caseOutcome is what the driver hands to the oracle.
type caseOutcome struct {
	Spec     *treeSpec                  `json:"spec"`
	Mode     string                     `json:"mode"`
	Workers  int                        `json:"max_workers_per_pool"`
	RandSeed int64                      `json:"schedule_seed,omitempty"`
	CancelAt int                        `json:"cancel_at"`
	Taken    []int                      `json:"choices_taken,omitempty"`
	Alts     []int                      `json:"alternatives,omitempty"`
	Trace    []event                    `json:"-"`
	TraceStr []string                   `json:"trace"`
	Stats    []*commonmodels.StageStats `json:"-"`
	// Quiescent: every runner finished (or was proven rejected/abandoned by its pool) and every started operator returned.
	Quiescent bool     `json:"quiescent"`
	PoolIdle  bool     `json:"pool_idle"`
	PoolInfo  []string `json:"pool_info,omitempty"`
	Watchdog  string   `json:"watchdog,omitempty"` // harness watchdog fired: the case is inconclusive
	Lost      []int    `json:"lost,omitempty"`
	Abandoned []int    `json:"abandoned,omitempty"`
	Retry     bool     `json:"-"`
	Deadlock  string   `json:"deadlocked_goroutine,omitempty"`
	NAsync    int      `json:"-"`
}

// runCase executes one tree through the real pipeline and returns the trace.
func runCase(spec *treeSpec, opts runOpts) *caseOutcome {
	var out *caseOutcome
	for attempt := 0; attempt < 4; attempt++ {
		out = runCaseOnce(spec, opts)
		if !out.Retry {
			return out
		}
	}
	out.Watchdog = "a stage handler arrived while the pools were being stopped as a barrier, four times in a row"
	return out
}

func runCaseOnce(spec *treeSpec, opts runOpts) *caseOutcome {
	c := &caseRun{
		spec: spec, opts: opts, notify: make(chan struct{}, 1),
		parked: map[int]chan struct{}{}, parkedG: map[int]int64{}, gOwner: map[int64]int{}, runDone: map[int]bool{}, hstack: map[int64][]int{},
		delayNs: map[int]int64{}, stages: map[int]*hStage{}, instances: map[int]int{}, hEnteredCh: map[int]chan struct{}{}, hEnteredDone: map[int]bool{},
	}
	c.ctx, c.cancel = context.WithCancel(context.Background())
	defer c.cancel()
	nPools := 4
	maxWorkers := opts.MaxWorkers
	if opts.Mode == "serial" || maxWorkers <= 0 {
		maxWorkers = 32
		if spec.N+1 > maxWorkers {
			maxWorkers = spec.N + 1
		}
	}
	for i := 0; i < nPools; i++ {
		st, name := acquireStats()
		c.stats = append(c.stats, st)
		c.base = append(c.base, st.TasksConsumed.Get()+st.TasksPanic.Get()+st.TasksRejected.Get())
		c.baseRej = append(c.baseRej, st.TasksRejected.Get())
		c.pools = append(c.pools, concurrent.NewPool(name, maxWorkers, time.Minute, st))
	}
	c.subm = make([]int, nPools)
	var rnd *randSrc
	if opts.UseRand {
		rnd = newRandSrc(opts.RandSeed)
	}
	if opts.Mode == "free" && !opts.NoDelay {
		r := newRandSrc(opts.RandSeed ^ 0x5bd1e995)
		for _, s := range spec.stages() {
			for i := range s.Ops {
				switch r.intn(4) {
				case 0:
					c.delayNs[s.ID*16+i] = 0
				case 1:
					c.delayNs[s.ID*16+i] = 1000 // yield
				default:
					c.delayNs[s.ID*16+i] = int64(2000 + r.intn(150_000))
				}
			}
		}
	}
	out := &caseOutcome{Spec: spec, Mode: opts.Mode, Workers: maxWorkers, RandSeed: opts.RandSeed, CancelAt: opts.CancelAt}

	var pipeline query.Pipeline
	pipeline = query.NewExecutePipeline(trackerpkg.NewStageTracker(nil), func(err error) {
		g := goid()
		c.mu.Lock()
		by := -1
		if st := c.hstack[g]; len(st) > 0 {
			by = st[len(st)-1]
		}
		c.nCb++
		c.recLocked(evCallback, by, 0, err, "", g)
		c.mu.Unlock()
		c.wake()
	})
	root := c.build(spec.Root, 0)

	c.mu.Lock()
	c.started++ // main runner
	c.mu.Unlock()
	go func() {
		c.mu.Lock()
		c.gOwner[goid()] = -1
		c.mu.Unlock()
		if spec.Root.TypedNil {
			typedNilHandOver(goid(), c, spec.Root.ID)
		}
		defer func() {
			if r := recover(); r != nil {
				c.rec(evMainPanic, -1, 0, fmt.Errorf("%v", r), "")
			}
			c.mu.Lock()
			c.done++
			c.mainEnd = true
			c.mu.Unlock()
			c.wake()
		}()
		pipeline.Execute(root)
		c.rec(evMainReturn, -1, 0, nil, "")
	}()

	// driver
	releaseNext := func() {
		// choose the stage whose gate opens next
		c.mu.Lock()
		if opts.CancelAt >= 0 && !c.cancelled && len(c.taken) >= opts.CancelAt {
			c.cancelled = true
			c.recLocked(evCancel, -1, 0, nil, "", 0)
			c.cancel()
		}
		ids := make([]int, 0, len(c.parked))
		for id := range c.parked {
			ids = append(ids, id)
		}
		sort.Ints(ids)
		k := 0
		step := len(c.taken)
		switch {
		case step < len(opts.Choices):
			k = opts.Choices[step]
			if k >= len(ids) {
				k = len(ids) - 1
			}
		case rnd != nil:
			k = rnd.intn(len(ids))
		}
		c.alts = append(c.alts, len(ids))
		c.taken = append(c.taken, k)
		id := ids[k]
		ch := c.parked[id]
		delete(c.parked, id)
		delete(c.parkedG, id)
		c.recLocked(evOpRelease, id, 0, nil, "", 0)
		c.mu.Unlock()
		close(ch)
	}
	traceLen := func() int {
		c.mu.Lock()
		defer c.mu.Unlock()
		return len(c.ev)
	}
	lastLen := -1
	stallSince := time.Now()
	spins := 0
	for {
		c.mu.Lock()
		running := c.started - c.done - len(c.parked)
		nParked := len(c.parked)
		curLen := len(c.ev)
		c.mu.Unlock()
		// No verdict depends on how long anything takes: a case that makes no progress is given up as inconclusive by a
		// watchdog that restarts whenever the trace moves.
		if curLen != lastLen {
			lastLen = curLen
			stallSince = time.Now()
			spins = 0
		}
		if running <= 0 {
			// By the driver's bookkeeping nobody runs (below zero: a stage that was already counted as over - its handler
			// returned - is active again and waits at a gate: a handler invoked twice).  The pools' own counters and the handler stacks must agree before
			// the driver acts on it: a stage whose completion handler was already called may still have a task queued
			// (a handler invoked twice), and a pool counts a task as consumed a moment after its function returned.
			if !c.frozen() {
				if time.Since(stallSince) > caseWatchdog {
					out.Watchdog = fmt.Sprintf("no progress for %s: every runner is accounted for but the pools' task counters / handler stacks never become idle; %s", caseWatchdog, c.blockedInSubmit())
					break
				}
				if spins++; spins < 20 {
					runtime.Gosched()
				} else {
					time.Sleep(100 * time.Microsecond)
				}
				continue
			}
			if traceLen() != curLen {
				continue
			}
			if nParked == 0 {
				break
			}
			releaseNext() // settled
			continue
		}
		// somebody is running: wait for the next event.
		select {
		case <-c.notify:
			continue
		case <-time.After(50 * time.Millisecond):
		}
		// the pools' own account of rejected tasks (Submit with a context that is done) is a logical event:
		// an async stage that was handed over and never showed any activity while its pool counts a rejection is lost
		if c.markRejectedLost(out) {
			continue
		}
		// Frozen: the caller's goroutine is back (or parked), no stage handler is active, and by the pools' own counters
		// every task handed to them was consumed except the ones whose worker waits at a gate.  A pooled stage that is
		// neither done nor parked then was (or is being) given up by its pool without a word to its handlers.
		if c.frozen() && traceLen() == curLen {
			if nParked > 0 {
				releaseNext() // go on with the schedule; who is dead is decided at the end
				continue
			}
			// The pool counts a panicking task before it calls the task's panic handler, so "frozen" can be reached a
			// moment too early.  Pool.Stop() is the barrier: it returns only when every worker is back in the ready
			// queue, i.e. after every handler call the pool is ever going to make.
			before := traceLen()
			if !c.stopPools() {
				out.Watchdog = "pools do not stop"
				break
			}
			if traceLen() != before {
				out.Retry = true // a handler did arrive; what it submitted went to stopped pools: run the case again
				break
			}
			c.abandonDead(out)
			continue
		}
		// An injected panic in Stage.Complete() on a tree whose state machine lets it escape with the mutex held: a runner of
		// this case waits for ever in sync.Mutex.Lock under completeStage with a lower completeStage frame of the same
		// state machine on its own stack (proof from goroutine states, as in the leaf workload).
		if c.hookPanicSeen() && time.Since(stallSince) > 300*time.Millisecond {
			if proof := c.selfDeadlock(); proof != "" {
				out.Deadlock = proof
				c.poolsStopped = true // their workers never come back
				break
			}
		}
		if time.Since(stallSince) > caseWatchdog {
			c.mu.Lock()
			lost := c.lostRunnersLocked()
			c.mu.Unlock()
			out.Watchdog = fmt.Sprintf("no progress for %s: runners neither parked nor done; async stages handed to a pool without any activity: %v; %s", caseWatchdog, stageNames(lost), c.blockedInSubmit())
			break
		}
	}
	if out.Watchdog == "" && !out.Retry && out.Deadlock == "" {
		c.mu.Lock()
		ncb := c.nCb
		c.mu.Unlock()
		out.Quiescent = true
		if ncb == 0 {
			// Logical hang condition reached: every runner returned (every pooled stage's handler ran to its end, the
			// caller's goroutine is back from pipeline.Execute), every operator ended.  The pools' own counters must agree
			// that every task handed to them was consumed, and Pool.Stop() (all workers back in the ready queue) is the
			// final barrier; the trace must not move in between.
			before := traceLen()
			out.PoolIdle = c.poolCountersIdle(out)
			switch {
			case !out.PoolIdle:
				out.Watchdog = "all runners are done but the pools' task counters do not become idle"
			case !c.stopPools():
				out.Watchdog = "pools do not stop"
			case traceLen() != before:
				out.Watchdog = "trace moved after quiescence"
			}
		} else {
			out.PoolIdle = true
		}
	}
	out.Stats = pipeline.Stats()
	typedNilForget(c)
	c.mu.Lock()
	// release anything still parked (only after a watchdog) so goroutines can end
	for id, ch := range c.parked {
		delete(c.parked, id)
		close(ch)
	}
	out.Trace = append([]event(nil), c.ev...)
	out.Taken = c.taken
	out.Alts = c.alts
	c.mu.Unlock()
	for _, s := range spec.stages() {
		if s.Async {
			out.NAsync++
		}
	}
	c.stopPools()
	return out
}

// The pools' statistics objects are looked up by name in a process-wide registry, and a pool relies on its
// WorkersAlive gauge to decide whether it may start a worker.  Two live pools must therefore never share one
// statistics object: an object goes back to the free list only after the Stop() of the pool that used it returned.
var statPool struct {
	sync.Mutex
	free []*namedStats
	n    int
}

type namedStats struct {
	st   *metrics.ConcurrentStatistics
	name string
}

func acquireStats() (*metrics.ConcurrentStatistics, string) {
	statPool.Lock()
	defer statPool.Unlock()
	for len(statPool.free) > 0 {
		ns := statPool.free[len(statPool.free)-1]
		statPool.free = statPool.free[:len(statPool.free)-1]
		if ns.st.WorkersAlive.Get() == 0 {
			return ns.st, ns.name
		}
	}
	statPool.n++
	name := fmt.Sprintf("c19-pool-%d", statPool.n)
	return metrics.NewConcurrentStatistics(name, linmetric.BrokerRegistry), name
}

func (c *caseRun) stopPools() bool {
	if c.poolsStopped {
		return true
	}
	c.poolsStopped = true
	var wg sync.WaitGroup
	for i, p := range c.pools {
		wg.Add(1)
		go func(p concurrent.Pool, st *metrics.ConcurrentStatistics) {
			defer wg.Done()
			p.Stop()
			statPool.Lock()
			statPool.free = append(statPool.free, &namedStats{st: st, name: ""})
			statPool.Unlock()
		}(p, c.stats[i])
	}
	done := make(chan struct{})
	go func() { wg.Wait(); close(done) }()
	select {
	case <-done:
		return true
	case <-time.After(30 * time.Second):
		// a pool that does not stop keeps its statistics object for itself
		return false
	}
}

// poolCountersIdle compares the pools' own task counters with the number of tasks handed to them.
func (c *caseRun) poolCountersIdle(out *caseOutcome) bool {
	idle := true
	out.PoolInfo = out.PoolInfo[:0]
	for try := 0; try < 2500; try++ {
		idle = true
		out.PoolInfo = out.PoolInfo[:0]
		c.mu.Lock()
		for i, st := range c.stats {
			got := st.TasksConsumed.Get() + st.TasksPanic.Get() + st.TasksRejected.Get() - c.base[i]
			out.PoolInfo = append(out.PoolInfo, fmt.Sprintf("pool%d handed=%d consumed+panic+rejected=%.0f", i, c.subm[i], got))
			if int(got) != c.subm[i] {
				idle = false
			}
		}
		c.mu.Unlock()
		if idle {
			return true
		}
		// TasksConsumed is incremented after the task function returned: give the worker a moment
		time.Sleep(2 * time.Millisecond)
	}
	return idle
}

func (c *caseRun) hookPanicSeen() bool {
	c.mu.Lock()
	defer c.mu.Unlock()
	for _, e := range c.ev {
		if e.Kind == evHookPanic {
			return true
		}
	}
	return false
}

// selfDeadlock returns the stack of a goroutine of this case that waits for a state machine mutex held by one of its
// own lower frames.
func (c *caseRun) selfDeadlock() string {
	c.mu.Lock()
	mine := map[string]bool{}
	for _, e := range c.ev {
		if e.G != 0 {
			mine[fmt.Sprint(e.G)] = true
		}
	}
	c.mu.Unlock()
	buf := make([]byte, 8<<20)
	n := runtime.Stack(buf, true)
	for _, b := range strings.Split(string(buf[:n]), "\n\n") {
		m := reGoroutineHdr.FindStringSubmatch(b)
		if m == nil || !mine[m[1]] || !strings.Contains(m[2], "Mutex.Lock") {
			continue
		}
		frames := reSMFrame.FindAllStringSubmatch(b, -1)
		for _, f := range frames[min(1, len(frames)):] {
			if f[2] == frames[0][2] && f[1] == "completeStage" {
				if len(b) > 6000 {
					b = b[:6000]
				}
				return b
			}
		}
	}
	return ""
}

// blockedInSubmit describes (for a watchdog message only) how many goroutines of this case wait inside Pool.Submit.
func (c *caseRun) blockedInSubmit() string {
	c.mu.Lock()
	mine := map[string]bool{}
	for _, e := range c.ev {
		if e.G != 0 {
			mine[fmt.Sprint(e.G)] = true
		}
	}
	c.mu.Unlock()
	buf := make([]byte, 8<<20)
	n := runtime.Stack(buf, true)
	blocked := 0
	for _, b := range strings.Split(string(buf[:n]), "\n\n") {
		m := reGoroutineHdr.FindStringSubmatch(b)
		if m != nil && mine[m[1]] && strings.Contains(b, "workerPool).Submit") {
			blocked++
		}
	}
	return fmt.Sprintf("%d goroutines of the case wait inside Pool.Submit (task queue full)", blocked)
}

// frozen reports whether nothing of this case can be executing: see the driver loop.
func (c *caseRun) frozen() bool {
	c.mu.Lock()
	defer c.mu.Unlock()
	mainParked := false
	poolParked := 0
	for _, g := range c.parkedG {
		if c.gOwner[g] == -1 {
			mainParked = true
		} else {
			poolParked++
		}
	}
	if !c.mainEnd && !mainParked {
		return false
	}
	parkedGs := map[int64]bool{}
	for _, g := range c.parkedG {
		parkedGs[g] = true
	}
	for g, st := range c.hstack {
		if len(st) > 0 && !parkedGs[g] {
			return false // a completion/error handler is executing
		}
	}
	live := 0
	for i, st := range c.stats {
		live += c.subm[i] - int(st.TasksConsumed.Get()+st.TasksPanic.Get()+st.TasksRejected.Get()-c.base[i])
	}
	return live == poolParked
}

// abandonDead counts the runners of pooled stages that are neither done nor the owner of a parked operator as done.
func (c *caseRun) abandonDead(out *caseOutcome) {
	c.mu.Lock()
	defer c.mu.Unlock()
	owners := map[int]bool{}
	for _, g := range c.parkedG {
		owners[c.gOwner[g]] = true
	}
	started := map[int]bool{}
	for _, e := range c.ev {
		if e.Kind == evExecEnter && e.Info == "async" {
			started[e.Stage] = true
		}
	}
	var ids []int
	for id := range started {
		if !c.runDone[id] && !owners[id] {
			ids = append(ids, id)
		}
	}
	sort.Ints(ids)
	for _, id := range ids {
		c.recLocked(evAbandoned, id, 0, nil, "", 0)
		c.runDone[id] = true
		c.done++
		out.Abandoned = append(out.Abandoned, id)
	}
}

// markRejectedLost: when the pools count exactly as many rejected tasks as there are async stages that were handed
// over and never showed activity, those stages can never run: count their runners as done and record it.
func (c *caseRun) markRejectedLost(out *caseOutcome) bool {
	c.mu.Lock()
	defer c.mu.Unlock()
	rejected := 0
	for i, st := range c.stats {
		rejected += int(st.TasksRejected.Get() - c.baseRej[i])
	}
	if rejected == 0 {
		return false
	}
	// rejections the pool/stage reported through the stage's error handler are not lost stages; while a pooled
	// stage is still inside Execute (Submit) such a report may be on its way
	opStarted := map[int]bool{}
	reported := map[int]bool{}
	openAsyncExec := 0
	for _, e := range c.ev {
		switch e.Kind {
		case evOpStart:
			opStarted[e.Stage] = true
		case evExecEnter:
			if e.Info == "async" {
				openAsyncExec++
			}
		case evExecReturn, evExecUnwind:
			if e.Info == "async" {
				openAsyncExec--
			}
		case evHEnter:
			if e.Info == "err" && !opStarted[e.Stage] && strings.Contains(e.Err, "context") {
				reported[e.Stage] = true
			}
		}
	}
	unexplained := rejected - len(reported) - len(out.Lost)
	lost := c.lostRunnersLocked()
	if unexplained <= 0 || openAsyncExec != 0 || len(lost) != unexplained {
		return false
	}
	for _, id := range lost {
		c.recLocked(evLost, id, 0, nil, "rejected", 0)
		c.runDone[id] = true
		c.done++
		out.Lost = append(out.Lost, id)
	}
	return true
}

// lostRunnersLocked returns the async stages that were handed to a pool (Execute returned) but never produced
// an operator or handler event and are not done.
func (c *caseRun) lostRunnersLocked() []int {
	entered := map[int]bool{}
	active := map[int]bool{}
	for _, e := range c.ev {
		switch e.Kind {
		case evExecReturn:
			if e.Info == "async" {
				entered[e.Stage] = true
			}
		case evOpStart, evHEnter:
			active[e.Stage] = true
		}
	}
	var lost []int
	for id := range entered {
		if !active[id] && !c.runDone[id] {
			lost = append(lost, id)
		}
	}
	sort.Ints(lost)
	return lost
}

// ---------------------------------------------------------------------------------------------
// tiny deterministic PRNG (splitmix64) so a case's schedule is a function of its seed only

type randSrc struct{ s uint64 }

func newRandSrc(seed int64) *randSrc { return &randSrc{s: uint64(seed)*0x9E3779B97F4A7C15 + 0x1234567} }

func (r *randSrc) next() uint64 {
	r.s += 0x9E3779B97F4A7C15
	z := r.s
	z = (z ^ (z >> 30)) * 0xBF58476D1CE4E5B9
	z = (z ^ (z >> 27)) * 0x94D049BB133111EB
	return z ^ (z >> 31)
}

func (r *randSrc) intn(n int) int { return int(r.next() % uint64(n)) }
