package main

import (
	"fmt"
	"sort"
	"strings"

	commonmodels "github.com/lindb/common/models"
)

// Violation classes of the tree workload.
const (
	clsTwice             = "C19/callback-more-than-once"
	clsEarly             = "C19/callback-before-stage-finished"
	clsLostNotLast       = "C19/error-lost/failed-stage-not-last"
	clsLostLast          = "C19/error-lost/last-stage-failed"
	clsLostRecover       = "C19/error-lost/panic-recover-path"
	clsLostOther         = "C19/error-lost/other"
	clsLostCompletePanic = "C19/error-lost/panic-in-stage-complete"
	clsLostNotReported   = "C19/error-lost/failure-never-reached-state-machine"
	clsSpurious          = "C19/spurious-error"
	clsUnrelated         = "C19/error-unrelated-to-failure"
	clsHookTwice         = "C19/stage-complete-hook-more-than-once"
	clsHookMissing       = "C19/stage-complete-hook-missing"
	clsHangSyncPanic     = "C19/no-completion/sync-child-panic-under-async-parent"
	clsHangPlanPanic     = "C19/no-completion/plan-panic-under-async-parent"
	clsHangLostTask      = "C19/no-completion/task-rejected-context-done"
	clsHangRejected      = "C19/no-completion/task-rejected-context-not-done"
	clsHangAbandoned     = "C19/no-completion/pool-consumed-task-without-calling-handlers"
	clsHangAllDone       = "C19/no-completion/all-stages-completed"
	clsHangOther         = "C19/no-completion/other"
	clsHangCompletePanic = "C19/no-completion/panic-in-stage-complete-deadlocks-state-machine"
	clsMainPanic         = "C19/pipeline-execute-panicked"
	clsHandlerTwice      = "C19/stage-handler-more-than-once"
	clsStatsState        = "C19/stats-state-disagrees-with-outcome"
	clsErrHandleNil      = "C19/err-handler-called-with-nil"
	clsNotStarted        = "C19/planned-stage-never-started"
	clsTaskLostLater     = "C19/stage-task-abandoned-by-pool"
	clsNextTwice         = "C19/stage-next-stages-planned-more-than-once"
	clsLostEarly         = "C19/error-lost/callback-before-failing-stage-finished"
	// a stage panicked while the state machine registered it (Identifier() panics / typed nil stage): pending was
	// incremented, nobody completes the stage
	clsHangRegInline = "C19/no-completion/panic-while-stage-is-registered"
	clsHangRegPooled = "C19/no-completion/panic-while-stage-is-registered-under-async-parent"
)

type viol struct {
	Class string `json:"class"`
	Msg   string `json:"msg"`
}

// stageFacts is what the trace says about one stage.
type stageFacts struct {
	id            int
	registered    int // seq of plan event (-1: never)
	execEnter     int
	async         bool
	execUnwound   bool
	opStarts      int
	opEnds        int // op-end + op-panic
	lastOpEnd     int
	failSeq       int    // seq of the first failing event of this stage (-1: none)
	failKind      string // "error" | "panic"
	failTokens    []string
	panicSeq      int
	planPanic     bool
	completePanic bool
	nextPanic     bool
	hooks         []int
	hEnters       []event
	hExits        int
	hUnwinds      int
	lost          bool
	rejected      bool
	abandoned     bool
	regPanic      bool   // the stage panicked while it was being registered (Identifier() called by the state machine)
	regPanicKind  string // identifier | typed-nil
	typedNil      bool   // handed to the pipeline as a typed nil pointer
	planned       int    // number of stages NextStages() returned (all calls)
	nextCalls     int    // calls of NextStages()
}

// judge is the trace specification of C19 for one executed tree.
func judge(out *caseOutcome) (vs []viol, facts map[string]int) {
	facts = map[string]int{}
	add := func(class, format string, args ...interface{}) {
		vs = append(vs, viol{Class: class, Msg: fmt.Sprintf(format, args...)})
	}
	ignoreOp := map[[2]int]bool{}
	for _, s := range out.Spec.stages() {
		for i, o := range s.Ops {
			if o.Outcome == oNFIgnored || o.Outcome == oErrIgnore {
				ignoreOp[[2]int{s.ID, i}] = true
			}
		}
	}
	st := map[int]*stageFacts{}
	get := func(id int) *stageFacts {
		f := st[id]
		if f == nil {
			f = &stageFacts{id: id, registered: -1, execEnter: -1, failSeq: -1, panicSeq: -1, lastOpEnd: -1}
			st[id] = f
		}
		return f
	}
	var callbacks []event
	cancelSeq := -1
	firstPanic := -1
	mainPanic := false
	for _, e := range out.Trace {
		switch e.Kind {
		case evCallback:
			callbacks = append(callbacks, e)
			continue
		case evMainReturn:
			continue
		case evCancel:
			cancelSeq = e.Seq
			continue
		case evMainPanic:
			mainPanic = true
			add(clsMainPanic, "pipeline.Execute let a panic escape: %s", e.Err)
			continue
		}
		f := get(e.Stage)
		switch e.Kind {
		case evPlan:
			if f.registered < 0 {
				f.registered = e.Seq
			}
		case evPlanPanic:
			f.planPanic = true
			f.fail(e.Seq, "panic", fmt.Sprintf("c19-fail-s%d-plan", specID(e.Stage)))
			if firstPanic < 0 {
				firstPanic = e.Seq
			}
		case evTypedNil:
			f.typedNil = true
		case evRegPanic:
			// Identifier() is called by the state machine's executeStage after it incremented pending: the stage is registered
			if f.registered < 0 {
				f.registered = e.Seq
			}
			f.regPanic = true
			f.regPanicKind = e.Info
			tok := fmt.Sprintf("c19-fail-s%d-ident", specID(e.Stage))
			if e.Info == "typed-nil" {
				tok = "nil pointer dereference"
			}
			f.fail(e.Seq, "panic", tok)
			if firstPanic < 0 {
				firstPanic = e.Seq
			}
		case evNextPanic:
			f.nextPanic = true
			f.fail(e.Seq, "panic", fmt.Sprintf("c19-fail-s%d-next", specID(e.Stage)))
			if firstPanic < 0 {
				firstPanic = e.Seq
			}
		case evExecEnter:
			f.execEnter = e.Seq
			f.async = e.Info == "async"
		case evExecUnwind:
			f.execUnwound = true
		case evOpStart:
			f.opStarts++
		case evOpEnd:
			f.opEnds++
			f.lastOpEnd = e.Seq
			if !e.NoErr && e.Err != "" {
				ignored := ignoreOp[[2]int{specID(e.Stage), e.Op}] && strings.Contains(e.Err, "not found")
				if !ignored {
					f.fail(e.Seq, "error", failToken(specID(e.Stage), e.Op))
				}
			}
		case evOpPanic:
			f.opEnds++
			f.lastOpEnd = e.Seq
			tok := failToken(specID(e.Stage), e.Op)
			if e.Info == oPanicVal {
				tok = "unknown error"
			}
			if e.Info == oPanicRT {
				tok = "assignment to entry in nil map"
			}
			f.fail(e.Seq, "panic", tok)
			if firstPanic < 0 {
				firstPanic = e.Seq
			}
		case evHook:
			f.hooks = append(f.hooks, e.Seq)
		case evHookPanic:
			// a panic in the stage's Complete() callback is a failure (a panic) of that stage
			f.completePanic = true
			f.fail(e.Seq, "panic", fmt.Sprintf("c19-fail-s%d-complete", specID(e.Stage)))
			if firstPanic < 0 {
				firstPanic = e.Seq
			}
		case evNextEnter:
			f.nextCalls++
		case evNextReturn:
			n := 0
			fmt.Sscan(e.Info, &n)
			f.planned += n
		case evHEnter:
			f.hEnters = append(f.hEnters, e)
			if cancelSeq >= 0 && e.Info == "err" && f.opStarts == 0 && f.failSeq < 0 && strings.Contains(e.Err, "context") {
				// the stage was refused because the context is done and said so: that is a failed stage
				f.fail(e.Seq, "error", e.Err)
				f.rejected = true
			}
			if e.Info == "err-nil" {
				add(clsErrHandleNil, "stage %s: the error handler was invoked with a nil error", stageName(e.Stage))
			}
		case evHExit:
			f.hExits++
		case evHUnwind:
			f.hUnwinds++
		case evLost:
			f.lost = true
			f.fail(e.Seq, "error", "context")
			f.rejected = true
		case evAbandoned:
			f.abandoned = true
		}
	}
	ids := make([]int, 0, len(st))
	for id := range st {
		ids = append(ids, id)
	}
	sort.Ints(ids)

	nPanics, nFails := 0, 0
	for _, id := range ids {
		f := st[id]
		if f.failSeq >= 0 {
			nFails++
			if f.failKind == "panic" {
				nPanics++
			}
		}
		// a stage's Complete() must never run twice (resources are released there)
		if len(f.hooks) > 1 {
			add(clsHookTwice, "stage %s: Complete() called %d times (t=%v)", stageName(id), len(f.hooks), f.hooks)
		}
		// the state machine must be told at most once that a stage is over (every call decrements pending)
		// the next stages of a stage are planned (and started) once
		if f.nextCalls > 1 {
			add(clsNextTwice, "stage %s: NextStages() called %d times: its next stages were planned and handed to the pipeline again", stageName(id), f.nextCalls)
		}
		if n := len(f.hEnters) - f.hUnwinds; n > 1 {
			add(clsHandlerTwice, "stage %s: %d completion/error handler calls that ran to the end (%s)", stageName(id), n, handlerCalls(f))
		}
	}
	// coverage facts: which stage was completed last by the state machine
	lastHook, lastHookStage := -1, -1
	for _, id := range ids {
		for _, h := range st[id].hooks {
			if h > lastHook {
				lastHook, lastHookStage = h, id
			}
		}
	}
	for _, id := range ids {
		f := st[id]
		if f.failSeq >= 0 && len(f.hooks) > 0 {
			if id == lastHookStage {
				facts["failure_last_to_finish"] = 1
			} else {
				facts["failure_not_last_to_finish"] = 1
			}
		}
		if f.failKind == "panic" && !f.async && f.execEnter >= 0 {
			if hasAsyncAncestor(out.Spec, id, st) {
				facts["inline_stage_panicked_below_pooled_stage"] = 1
			} else {
				facts["inline_stage_panicked_on_callers_goroutine"] = 1
			}
		}
		if f.failKind == "panic" && f.async {
			facts["pooled_stage_panicked"] = 1
		}
		if f.completePanic {
			facts["stage_complete_callback_panicked"] = 1
			if nFails == 1 {
				facts["complete_panic_is_only_failure"] = 1
			}
		}
	}
	// coverage facts: stages whose Plan() returned nil (nothing to execute: the stage completes without running an
	// operator), by position, and what else was going on when they completed
	specOf := map[int]*stageSpec{}
	for _, s := range out.Spec.stages() {
		specOf[s.ID] = s
	}
	for _, id := range ids {
		f := st[id]
		sp := specOf[specID(id)]
		if sp == nil || sp.PlanKind != "nil" || sp.PlanPanic || f.registered < 0 || len(f.hEnters) == 0 {
			continue
		}
		facts["nil_plan_stages_completed"]++
		if f.async {
			facts["nil_plan_stage_pooled"]++
		} else {
			facts["nil_plan_stage_inline"]++
		}
		if len(sp.Children) > 0 {
			facts["nil_plan_stage_inner_node"]++
		} else {
			facts["nil_plan_stage_leaf"]++
		}
		anc := map[int]bool{}
		par := parentOf(out.Spec, sp.ID)
		for p := par; p != nil; p = parentOf(out.Spec, p.ID) {
			anc[p.ID] = true
		}
		switch {
		case par == nil:
			facts["nil_plan_stage_root"]++
		case len(par.Children) == 1:
			facts["nil_plan_stage_only_child"]++
		case par.Children[0] == sp:
			facts["nil_plan_stage_first_sibling"]++
		case par.Children[len(par.Children)-1] == sp:
			facts["nil_plan_stage_last_sibling"]++
		default:
			facts["nil_plan_stage_middle_sibling"]++
		}
		at := f.hEnters[0].Seq
		other, failsLater := false, false
		for _, oid := range ids {
			o := st[oid]
			if oid == id || o.registered < 0 {
				continue
			}
			if o.failSeq > at {
				failsLater = true
			}
			if o.registered < at && !anc[specID(oid)] && (len(o.hooks) == 0 || o.hooks[0] > at) {
				other = true
			}
		}
		if other {
			facts["nil_plan_stage_completed_while_non_ancestor_stage_unfinished"]++
		}
		if failsLater {
			facts["nil_plan_stage_completed_before_another_stage_failed"]++
		}
	}
	// coverage facts: stages that panicked while they were being registered, by kind, position and what else was going on
	for _, id := range ids {
		f := st[id]
		if f.typedNil {
			facts["typed_nil_stages_handed_to_pipeline"]++
		}
		if !f.regPanic {
			continue
		}
		facts["reg_panic_stages"]++
		if f.regPanicKind == "typed-nil" {
			facts["reg_panic_typed_nil_stage"]++
		} else {
			facts["reg_panic_identifier_panics"]++
		}
		depth := 0
		for p := parentOf(out.Spec, specID(id)); p != nil; p = parentOf(out.Spec, p.ID) {
			depth++
		}
		switch depth {
		case 0:
			facts["reg_panic_root_stage"]++
		case 1:
			facts["reg_panic_child_stage"]++
		default:
			facts["reg_panic_grandchild_or_deeper"]++
		}
		pooled := hasAsyncAncestor(out.Spec, id, st)
		if pooled {
			facts["reg_panic_below_pooled_stage"]++
		} else {
			facts["reg_panic_on_callers_goroutine"]++
		}
		// other stages that were registered and not completed by the state machine when the panic was raised, apart from
		// the ancestors (which are unwound by it)
		anc := map[int]bool{}
		for p := parentOf(out.Spec, specID(id)); p != nil; p = parentOf(out.Spec, p.ID) {
			anc[p.ID] = true
		}
		busy := false
		for _, oid := range ids {
			o := st[oid]
			if oid == id || o.registered < 0 || o.registered > f.failSeq || anc[specID(oid)] {
				continue
			}
			if len(o.hooks) == 0 || o.hooks[0] > f.failSeq {
				busy = true
			}
		}
		if busy {
			if pooled {
				facts["reg_panic_below_pooled_stage_while_other_stage_unfinished"]++
			} else {
				facts["reg_panic_on_callers_goroutine_while_other_stage_unfinished"]++
			}
		}
		if len(callbacks) > 0 && !callbacks[0].NoErr && callbacks[0].Seq > f.failSeq {
			if pooled {
				facts["reg_panic_below_pooled_stage_then_completed_with_error"]++
			} else {
				facts["reg_panic_on_callers_goroutine_then_completed_with_error"]++
			}
		}
	}
	if cancelSeq >= 0 {
		facts["runs_with_context_cancelled"] = 1
		for _, id := range ids {
			if st[id].rejected {
				facts["stages_rejected_after_cancel"]++
			}
		}
	}
	facts["stages_registered"] = len(ids)
	facts["stages_failed"] = nFails
	facts["stages_panicked"] = nPanics

	if out.Deadlock != "" {
		add(clsHangCompletePanic, "callback never invoked: a panic inside Stage.Complete() escaped from pipelineStateMachine.completeStage with its mutex held; "+
			"a runner of this pipeline now waits for that mutex below its own completeStage frame (stack in the witness)")
		facts["no_callback"] = 1
		return vs, facts
	}
	if out.Watchdog != "" {
		return vs, facts
	}

	// --- exactly once -------------------------------------------------------------------------
	if len(callbacks) > 1 {
		var when []string
		for _, cb := range callbacks {
			when = append(when, fmt.Sprintf("t=%d by %s err=%q", cb.Seq, stageName(cb.Stage), cb.Err))
		}
		add(clsTwice, "completion callback invoked %d times: %s", len(callbacks), strings.Join(when, "; "))
	}
	if len(callbacks) == 0 {
		if !out.Quiescent {
			return vs, facts
		}
		// zero times, decided logically: all runners returned, all operators ended, the pools' counters are idle and Pool.Stop() returned
		var unfinished []int
		syncOrigin, planOrigin, lostTask, unexplained, abandoned := []int{}, []int{}, []int{}, []int{}, []int{}
		regInline, regPooled := []int{}, []int{}
		for _, id := range ids {
			f := st[id]
			if f.registered < 0 || len(f.hooks) > 0 {
				continue // never registered, or the state machine completed it (Complete() ran)
			}
			unfinished = append(unfinished, id)
			pooled := hasAsyncAncestor(out.Spec, id, st)
			switch {
			case f.regPanic && pooled:
				regPooled = append(regPooled, id)
			case f.regPanic:
				regInline = append(regInline, id)
			case f.planPanic && pooled:
				planOrigin = append(planOrigin, id)
			case !f.async && f.execUnwound && pooled && recoveredByPool(out, id):
				if f.panicSeq >= 0 {
					syncOrigin = append(syncOrigin, id) // the panic was raised by this inline stage itself
				}
				// else: an inline stage between the origin and the pooled ancestor, explained by the origin
			case f.async && f.lost:
				lostTask = append(lostTask, id)
			case f.abandoned:
				abandoned = append(abandoned, id)
			default:
				unexplained = append(unexplained, id)
			}
		}
		detail := fmt.Sprintf("stages registered=%d, never completed by the state machine=%v, pool_idle=%v %v", len(ids), stageNames(unfinished), out.PoolIdle, out.PoolInfo)
		switch {
		case len(unfinished) == 0:
			add(clsHangAllDone, "callback never invoked although every registered stage was completed; %s", detail)
		case len(unexplained) > 0:
			add(clsHangOther, "callback never invoked; stages %v never completed for no recognised reason; %s", stageNames(unexplained), detail)
		case len(abandoned) > 0:
			add(clsHangAbandoned, "callback never invoked; the pools consumed the tasks of stages %v (their counters are idle) but neither the completion nor the error handler of these stages was ever called; %s", stageNames(abandoned), detail)
		case len(lostTask) > 0 && cancelSeq < 0:
			add(clsHangRejected, "callback never invoked; the pools counted the tasks of stages %v as rejected although their context was never cancelled; %s", stageNames(lostTask), detail)
		case len(lostTask) > 0:
			add(clsHangLostTask, "callback never invoked; the context of the pooled stages was cancelled at t=%d, the stages %v were then handed to their pool, "+
				"which counted them as rejected and dropped them without calling any handler: they stay pending forever; %s", cancelSeq, stageNames(lostTask), detail)
		case len(regInline) > 0:
			add(clsHangRegInline, "callback never invoked; stages %v panicked (%s) while the state machine was registering them (pending already incremented, Plan() never reached) "+
				"on the goroutine that called pipeline.Execute: pipeline.Execute returned without completing the pipeline and nothing ever completes the registered stage; %s",
				stageNames(regInline), regKinds(st, regInline), detail)
		case len(regPooled) > 0:
			add(clsHangRegPooled, "callback never invoked; stages %v panicked (%s) while the state machine was registering them (pending already incremented, Plan() never reached) "+
				"in the completion handler of a stage that runs on a pool: the pool reported the panic as the pooled stage's failure, the registered stage is never completed; %s",
				stageNames(regPooled), regKinds(st, regPooled), detail)
		case len(syncOrigin) > 0:
			add(clsHangSyncPanic, "callback never invoked; inline (sync) stages %v panicked below a stage that runs on a pool: "+
				"the pool reported the panic as the pooled stage's failure, the inline stages stay pending forever; %s", stageNames(syncOrigin), detail)
		case len(planOrigin) > 0:
			add(clsHangPlanPanic, "callback never invoked; Plan() of stages %v panicked in the frame of a stage that runs on a pool: "+
				"the pool reported the panic as the pooled stage's failure, the registered stage is never completed; %s", stageNames(planOrigin), detail)
		default:
			add(clsHangOther, "callback never invoked; inline stages %v were unwound by a panic whose origin is not in the trace; %s", stageNames(unfinished), detail)
		}
		facts["no_callback"] = 1
		return vs, facts
	}

	cb := callbacks[0]
	facts["callback"] = 1
	panicBefore := firstPanic >= 0 && firstPanic < cb.Seq
	if panicBefore {
		facts["callback_after_panic"] = 1
	}

	// --- only after every started stage has finished (when no stage panicked) -------------------
	if !panicBefore {
		var bad []string
		for _, e := range out.Trace {
			if e.Seq > cb.Seq && (e.Kind == evPlan || e.Kind == evOpStart || e.Kind == evOpEnd || e.Kind == evOpPanic || e.Kind == evNextEnter || e.Kind == evExecEnter) {
				bad = append(bad, e.String())
			}
		}
		for _, id := range ids {
			f := st[id]
			if f.registered < 0 || f.registered > cb.Seq {
				continue
			}
			hooked := false
			for _, h := range f.hooks {
				if h < cb.Seq {
					hooked = true
				}
			}
			if !hooked {
				bad = append(bad, fmt.Sprintf("stage %s registered at t=%d had not been completed (no Complete() before the callback)", stageName(id), f.registered))
			}
		}
		if len(bad) > 0 {
			if len(bad) > 6 {
				bad = append(bad[:6], "...")
			}
			add(clsEarly, "callback at t=%d (by %s) although no stage had panicked and started stages were unfinished: %s", cb.Seq, stageName(cb.Stage), strings.Join(bad, "; "))
		} else {
			facts["callback_after_all_finished"] = 1
		}
	}

	// --- carries an error whenever some stage failed or panicked -------------------------------
	var failedBefore []*stageFacts
	for _, id := range ids {
		f := st[id]
		if f.failSeq >= 0 && f.failSeq < cb.Seq {
			failedBefore = append(failedBefore, f)
		}
	}
	cbErr := !cb.NoErr
	switch {
	case len(failedBefore) > 0 && !cbErr:
		var names []string
		for _, f := range failedBefore {
			names = append(names, fmt.Sprintf("%s(%s at t=%d)", stageName(f.id), f.failKind, f.failSeq))
		}
		by := st[cb.Stage]
		// what the state machine was told: pipeline.Stats() keeps the state/ErrMsg written by completeStage
		var notTold []string
		for _, f := range failedBefore {
			if s := statsOf(out, f.id); s == nil || s.State != "Error" {
				notTold = append(notTold, stageName(f.id))
			}
		}
		cls := clsLostOther
		why := ""
		onlyCompletePanics := true
		for _, f := range failedBefore {
			if !f.completePanic || len(f.failTokens) > 1 {
				onlyCompletePanics = false
			}
		}
		switch {
		case onlyCompletePanics:
			cls = clsLostCompletePanic
			why = "the only failures are panics inside Stage.Complete(): the state machine recovered them but did not treat them as the stage's failure"
		case cb.Stage < 0:
			cls = clsLostRecover
			why = "the callback came from outside any stage handler (pipeline.Execute's recover path)"
		case len(notTold) > 0:
			cls = clsLostNotReported
			why = fmt.Sprintf("the state machine was never told that %s failed (their stats state is not Error)", strings.Join(notTold, ","))
		case by != nil && by.failSeq >= 0:
			cls = clsLostLast
			why = fmt.Sprintf("the callback was triggered by the completion of the failing stage %s itself", stageName(cb.Stage))
		case by != nil && by.failSeq < 0 && len(by.hEnters) > 0 && by.hEnters[len(by.hEnters)-1].Info == "complete":
			cls = clsLostNotLast
			why = fmt.Sprintf("the state machine had recorded the failures, but the callback was triggered by the successful completion of %s, "+
				"the last stage to finish, and only that stage's (nil) error was passed on", stageName(cb.Stage))
		}
		add(cls, "callback got a nil error although %s failed before it (t=%d); %s", strings.Join(names, ", "), cb.Seq, why)
	case len(failedBefore) == 0 && cbErr:
		add(clsSpurious, "callback got error %q at t=%d although no stage had failed or panicked", cb.Err, cb.Seq)
	case len(failedBefore) > 0 && cbErr:
		facts["error_reported"] = 1
		match := false
		for _, f := range failedBefore {
			for _, tok := range f.failTokens {
				if strings.Contains(cb.Err, tok) {
					match = true
				}
			}
		}
		if !match {
			add(clsUnrelated, "callback error %q is not the error of any stage that failed before it", cb.Err)
		}
	default:
		facts["clean_completion"] = 1
	}

	// a completion signalled too early (no panic before it) with a nil error cannot carry the failure of a stage that was
	// still unfinished: the failure of that stage is dropped (the CAS guard swallows the later completion)
	if !panicBefore && !cbErr {
		var late []string
		for _, id := range ids {
			f := st[id]
			if f.failSeq > cb.Seq && f.registered >= 0 {
				late = append(late, fmt.Sprintf("%s(%s at t=%d, registered at t=%d)", stageName(f.id), f.failKind, f.failSeq, f.registered))
			}
		}
		if len(late) > 0 {
			add(clsLostEarly, "callback got a nil error at t=%d (by %s, no stage had panicked); %s failed after it: the pipeline was completed while started/planned stages were unfinished, their failure is never reported",
				cb.Seq, stageName(cb.Stage), strings.Join(late, ", "))
		}
	}

	// --- beyond the statement: every completed stage released exactly once, stats agree -------
	if !panicBefore && out.Quiescent && firstPanic < 0 {
		for _, id := range ids {
			f := st[id]
			if f.registered >= 0 && len(f.hooks) == 0 {
				add(clsHookMissing, "stage %s was registered but Complete() never ran although the pipeline completed without a panic", stageName(id))
			}
		}
		for _, id := range ids {
			f := st[id]
			if f.registered < 0 {
				continue
			}
			s := statsOf(out, id)
			want := "Complete"
			if f.failSeq >= 0 {
				want = "Error"
			}
			if s == nil {
				add(clsStatsState, "stage %s is missing from pipeline.Stats()", stageName(id))
			} else if s.State != want {
				add(clsStatsState, "stage %s: pipeline.Stats() reports state %q, the stage's outcome was %q", stageName(id), s.State, want)
			}
		}
		facts["stats_checked"] = 1
	}
	// the mechanism behind "only at the end": the stages a completed stage plans are registered before it is completed
	// (counted per stage of the specification: all instances of the stage against all instances of its children)
	if firstPanic < 0 && out.Quiescent {
		planned := map[int]int{}
		for _, id := range ids {
			planned[specID(id)] += st[id].planned
		}
		for _, sp := range out.Spec.stages() {
			if planned[sp.ID] == 0 {
				continue
			}
			child := map[int]bool{}
			for _, ch := range sp.Children {
				child[ch.ID] = true
			}
			started := 0
			for _, id := range ids {
				if child[specID(id)] && st[id].registered >= 0 {
					started++
				}
			}
			if started < planned[sp.ID] {
				add(clsNotStarted, "stage s%d planned %d next stages, only %d were handed to the pipeline's state machine although no stage panicked (callback at t=%d)",
					sp.ID, planned[sp.ID], started, cb.Seq)
			}
		}
	}
	if len(out.Abandoned) > 0 {
		add(clsTaskLostLater, "pooled stages %v were consumed by their pool without any handler call", stageNames(out.Abandoned))
	}
	_ = mainPanic
	return vs, facts
}

func (f *stageFacts) fail(seq int, kind, token string) {
	if f.failSeq < 0 {
		f.failSeq = seq
		f.failKind = kind
	}
	if kind == "panic" {
		f.failKind = "panic"
		if f.panicSeq < 0 {
			f.panicSeq = seq
		}
	}
	f.failTokens = append(f.failTokens, token)
}

func parentOf(t *treeSpec, id int) *stageSpec {
	var res *stageSpec
	var walk func(s *stageSpec)
	walk = func(s *stageSpec) {
		for _, c := range s.Children {
			if c.ID == id {
				res = s
				return
			}
			walk(c)
		}
	}
	walk(t.Root)
	return res
}

// hasAsyncAncestor: some ancestor of the stage ran on a pool (observed, not just specified).
func hasAsyncAncestor(t *treeSpec, id int, st map[int]*stageFacts) bool {
	// (an ancestor that was instantiated more than once: any instance observed on a pool counts)
	for p := parentOf(t, specID(id)); p != nil; p = parentOf(t, p.ID) {
		for k, f := range st {
			if specID(k) == p.ID && f.async {
				return true
			}
		}
	}
	return false
}

// recoveredByPool: after the frame of the stage was unwound, the error handler of an ancestor that runs on a pool
// was invoked on the same goroutine (that is what concurrent.Pool does with a recovered panic).
func recoveredByPool(out *caseOutcome, id int) bool {
	unwindSeq, g := -1, int64(0)
	for _, e := range out.Trace {
		if e.Kind == evExecUnwind && e.Stage == id {
			unwindSeq, g = e.Seq, e.G
		}
	}
	if unwindSeq < 0 {
		return false
	}
	anc := map[int]bool{}
	for p := parentOf(out.Spec, specID(id)); p != nil; p = parentOf(out.Spec, p.ID) {
		anc[p.ID] = true
	}
	for _, e := range out.Trace {
		if e.Seq > unwindSeq && e.G == g && e.Kind == evHEnter && e.Info == "err" && anc[specID(e.Stage)] {
			return true
		}
	}
	return false
}

// statsOf finds the stage in pipeline.Stats() (the state machine's own record of the stage).
func statsOf(out *caseOutcome, id int) *commonmodels.StageStats {
	name := stageName(id)
	var res *commonmodels.StageStats
	var walk func(ss []*commonmodels.StageStats)
	walk = func(ss []*commonmodels.StageStats) {
		for _, s := range ss {
			if s.Identifier == name {
				res = s
			}
			walk(s.Children)
		}
	}
	walk(out.Stats)
	return res
}

func stageNames(ids []int) []string {
	out := make([]string, len(ids))
	for i, id := range ids {
		out[i] = stageName(id)
	}
	return out
}

// handlerCalls lists the handler invocations of one stage: kind, logical time, goroutine.
func handlerCalls(f *stageFacts) string {
	var parts []string
	for _, e := range f.hEnters {
		parts = append(parts, fmt.Sprintf("%s at t=%d on g%d", e.Info, e.Seq, e.G))
	}
	return strings.Join(parts, ", ")
}

// regKinds tells how the stages panicked while they were being registered.
func regKinds(st map[int]*stageFacts, ids []int) string {
	var parts []string
	for _, id := range ids {
		if st[id].regPanicKind == "typed-nil" {
			parts = append(parts, stageName(id)+": typed nil stage pointer, Identifier() dereferenced it")
		} else {
			parts = append(parts, stageName(id)+": Identifier() panicked")
		}
	}
	return strings.Join(parts, "; ")
}
