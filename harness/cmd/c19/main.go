// Command c19 is the runtime monitor of property C19: a query pipeline completes exactly once and
// reports failure if any stage failed.
package main

import (
	"encoding/json"
	"fmt"
	"os"
	"path/filepath"
	"sort"
	"strings"
	"sync"
	"time"

	"github.com/lindb/lindb/verif/internal/core"
)

func main() {
	if len(os.Args) > 1 {
		switch os.Args[1] {
		case "child-trees":
			childTrees(os.Args[2:])
			return
		case "child-leaf":
			childLeaf(os.Args[2:])
			return
		case "child-requester":
			childRequester(os.Args[2:])
			return
		case "items":
			// c19 items <from> <to> <step>: run the tree items from, from+step, ... < to in this process, print the layout
			// of the families and the violation classes with their counts (to = 0: only the layout)
			debugItems(os.Args[2:])
			return
		case "item":
			// c19 item <index> [race] [repeat]: run all schedules of one tree item in this process and print the verdicts
			debugItem(os.Args[2:])
			return
		}
	}
	c := core.New("C19", "exploration")
	c.SetRule("tree workload: a case = (generated stage tree: shape, sync/async per stage, plan of real PlanNodes, outcome per operator " +
		"{ok, error, ErrNotFound ignored/not ignored, panic string/error/value/runtime}, panics in Plan()/NextStages()) x (schedule: in serial mode every " +
		"stage parks at a gate and the driver opens one gate at a time – every order for small trees (depth-first over the decision points), " +
		"seeded random orders for large ones; in free mode seeded micro delays on bounded pools; one tree in eight is also run with the pooled stages' " +
		"context cancelled in mid-flight, one in 25 is a wide tree of 10-23 pooled children). Stages whose Plan() returns nil (nothing to execute) are " +
		"enumerated at every position of every tree of up to 3 stages (a seeded sample of the 4-stage trees in the quick tier) next to ok/failing/panicking stages, " +
		"and generated as families: a nil-plan stage (leaf or with next stages, inline or pooled, first/last/middle) among 2-5 slower, failing or panicking siblings. " +
		"Stages that panic while the pipeline registers them (Identifier() panics; the stage is handed over as a typed nil pointer, the real Identifier() dereferences it) are " +
		"enumerated at every position of every tree of up to 3 stages (root, only child, first/last sibling, grandchild; inline and pooled parents) and generated as families: " +
		"such a stage at depth 0-3 below inline/pooled ancestors among 1-5 succeeding, failing, plan-less siblings that are registered and unfinished when it panics. " +
		"A stage object built again (NextStages() of its parent called twice) is a separate instance sN#k with its own gate and facts. Non-trivial = at least two stages were registered " +
		"with the pipeline; distinct = (canonical tree, observed completion order incl. callback position). " +
		"requesting side: a case = (root | intermediate, 2-5 targets, response of every target {ok (a real leaf payload), real error, not found}, " +
		"order and arrival point of the responses - while a later request is being sent or while the caller waits -, duplicates, late copies, send failures); " +
		"the first 324 cases enumerate 3 targets x every assignment x every order x {during the last send, after the sends}. leaf workload: a case = (query shape, per-shard fault {none, too many series (real operator error), injected error/panic at Filter, Load, GetDataFamilies}, " +
		"order in which the shards' stages are released; one request in three also targets one or two shards that have no data family in the query range - " +
		"their scan stage has no plan - first, last or between the others); distinct = (query shape, fault assignment, release order)")
	c.Assume("the harness stage wrapper only records calls and delegates to stage.VerifStage (which embeds the real baseStage); " +
		"operators, Plan(), NextStages() and Complete() are harness code, everything between them (pipeline, state machine, baseStage.Execute/execute, concurrent.Pool) is lindb's")
	c.Assume("a pool is idle when its own consumed/panic/rejected counters equal the number of Submit calls a delegating wrapper counted " +
		"and (tree workload) Pool.Stop() has returned; no verdict depends on elapsed time, stalled cases end as inconclusive")
	c.Assume("stages running on a pool only submit to pools of deeper levels (as lindb's Filtering -> Grouping -> Scanner), so bounded pools cannot self-deadlock")

	scratch := c.Scratch()
	quick := c.Quick()
	plan := newTreePlan(c.Seed, quick)
	c.Set("tree_items", plan.items())
	c.Set("systematic_trees", len(plan.sys))
	c.Set("systematic_trees_with_nil_plan_stage", len(plan.nilSys))
	c.Set("random_families_around_nil_plan_stage", plan.nNil)
	c.Set("systematic_trees_with_stage_panicking_while_registered", len(plan.regSys))
	c.Set("random_families_around_stage_panicking_while_registered", plan.nReg)

	type job struct {
		name string
		bin  string
		args []string
		env  []string
		res  string
		out  string
		race bool
	}
	var jobs []job
	nChildren := 6
	workers := 4
	if !quick {
		nChildren = 7
	}
	for j := 0; j < nChildren; j++ {
		res := filepath.Join(scratch, fmt.Sprintf("trees-%d.json", j))
		jobs = append(jobs, job{
			name: fmt.Sprintf("trees-%d", j),
			args: []string{"child-trees", res, filepath.Join(scratch, fmt.Sprintf("trees-%d.cases", j)), fmt.Sprint(nChildren), fmt.Sprint(j), fmt.Sprint(workers), "0"},
			env:  []string{"LOG_LEVEL=fatal"},
			res:  res, out: filepath.Join(scratch, fmt.Sprintf("trees-%d.out", j)),
		})
	}
	raceBin := os.Getenv("VERIF_RACE_BIN")
	raceDir := filepath.Join(scratch, "race")
	_ = os.MkdirAll(raceDir, 0o755)
	if raceBin != "" {
		nRace := 2
		maxItems := c.Pick(150, 6000)
		for j := 0; j < nRace; j++ {
			res := filepath.Join(scratch, fmt.Sprintf("race-%d.json", j))
			jobs = append(jobs, job{
				name: fmt.Sprintf("race-trees-%d", j), bin: raceBin, race: true,
				args: []string{"child-trees", res, filepath.Join(scratch, fmt.Sprintf("race-%d.cases", j)), fmt.Sprint(nRace), fmt.Sprint(j), "6", "1", fmt.Sprint(maxItems)},
				env:  []string{"LOG_LEVEL=fatal", "GORACE=halt_on_error=0 log_path=" + filepath.Join(raceDir, "race")},
				res:  res, out: filepath.Join(scratch, fmt.Sprintf("race-%d.out", j)),
			})
		}
	} else {
		c.Inconclusive("VERIF_RACE_BIN is not set: the race-detector part of the check did not run")
	}
	// leaf workload (real tsdb engine, real leafTaskProcessor) in its own children
	leafJobs := c.Pick(2, 6)
	for j := 0; j < leafJobs; j++ {
		res := filepath.Join(scratch, fmt.Sprintf("leaf-%d.json", j))
		dir := filepath.Join(scratch, fmt.Sprintf("leaf-%d", j))
		jobs = append(jobs, job{
			name: fmt.Sprintf("leaf-%d", j),
			args: []string{"child-leaf", res, filepath.Join(scratch, fmt.Sprintf("leaf-%d.cases", j)), dir, fmt.Sprint(leafJobs), fmt.Sprint(j), "0"},
			env:  []string{"LOG_LEVEL=fatal"},
			res:  res, out: filepath.Join(scratch, fmt.Sprintf("leaf-%d.out", j)),
		})
	}
	{
		res := filepath.Join(scratch, "leaf-risky.json")
		jobs = append(jobs, job{
			name: "leaf-risky",
			args: []string{"child-leaf", res, filepath.Join(scratch, "leaf-risky.cases"), filepath.Join(scratch, "leaf-risky"), "1", "0", "0", "risky"},
			env:  []string{"LOG_LEVEL=fatal"},
			res:  res, out: filepath.Join(scratch, "leaf-risky.out"),
		})
	}
	// requesting side (root / intermediate) over the real task manager
	reqJobs := c.Pick(1, 4)
	for j := 0; j < reqJobs; j++ {
		res := filepath.Join(scratch, fmt.Sprintf("requester-%d.json", j))
		jobs = append(jobs, job{
			name: fmt.Sprintf("requester-%d", j),
			args: []string{"child-requester", res, filepath.Join(scratch, fmt.Sprintf("requester-%d.cases", j)), filepath.Join(scratch, fmt.Sprintf("requester-%d", j)), fmt.Sprint(reqJobs), fmt.Sprint(j), "0"},
			env:  []string{"LOG_LEVEL=fatal"},
			res:  res, out: filepath.Join(scratch, fmt.Sprintf("requester-%d.out", j)),
		})
	}
	if raceBin != "" {
		res := filepath.Join(scratch, "race-requester.json")
		jobs = append(jobs, job{
			name: "race-requester", bin: raceBin, race: true,
			args: []string{"child-requester", res, filepath.Join(scratch, "race-requester.cases"), filepath.Join(scratch, "race-requester"), "1", "0", "1"},
			env:  []string{"LOG_LEVEL=fatal", "GORACE=halt_on_error=0 log_path=" + filepath.Join(raceDir, "racereq")},
			res:  res, out: filepath.Join(scratch, "race-requester.out"),
		})
	}
	if raceBin != "" {
		res := filepath.Join(scratch, "race-leaf.json")
		jobs = append(jobs, job{
			name: "race-leaf", bin: raceBin, race: true,
			args: []string{"child-leaf", res, filepath.Join(scratch, "race-leaf.cases"), filepath.Join(scratch, "race-leaf"), "1", "0", "1"},
			env:  []string{"LOG_LEVEL=fatal", "GORACE=halt_on_error=0 log_path=" + filepath.Join(raceDir, "raceleaf")},
			res:  res, out: filepath.Join(scratch, "race-leaf.out"),
		})
	}

	timeout := time.Duration(c.Pick(150, 3000)) * time.Second
	var wg sync.WaitGroup
	results := make([]*childResult, len(jobs))
	crs := make([]core.ChildResult, len(jobs))
	for i := range jobs {
		wg.Add(1)
		go func(i int) {
			defer wg.Done()
			j := jobs[i]
			crs[i] = core.RunChild(j.bin, j.args, j.env, timeout, j.out)
			data, err := os.ReadFile(j.res)
			if err != nil {
				return
			}
			var r childResult
			if json.Unmarshal(data, &r) == nil && r.Done {
				results[i] = &r
			}
		}(i)
	}
	wg.Wait()

	sampled := 0
	for i, j := range jobs {
		r := results[i]
		// (a -race child that reported races ends with exit code 66 even when it finished its work)
		if cr := crs[i]; r == nil || cr.TimedOut || (cr.ExitCode != 0 && !(j.race && cr.ExitCode == 66)) {
			// the child died: decide from its output whether lindb code of the anchored files crashed
			tail := cr.Output
			lastCase := lastLine(strings.Replace(j.res, ".json", ".cases", 1))
			switch {
			case cr.TimedOut:
				c.Inconclusive("child %s hit the watchdog (last case: %s)", j.name, lastCase)
			case strings.Contains(tail, "[recovered]") && strings.Contains(tail, "workerPool).execTask.func1") &&
				strings.Contains(tail, "pipelineStateMachine).completeStage") && strings.Contains(tail, ").Complete("):
				c.Violation("C19/process-crash/panic-in-stage-complete-inside-pool-panic-handler",
					fmt.Sprintf("child %s died (exit %d): a pooled stage panicked, the pool's recover called the stage's error handler -> completeStage -> Stage.Complete(), "+
						"which panicked again inside the deferred handler; nobody recovers that, the process ends; last case: %s", j.name, cr.ExitCode, lastCase),
					map[string]interface{}{"output_tail": lastN(tail, 6000), "last_case": lastCase})
			case (strings.Contains(tail, "fatal error:") || strings.Contains(tail, "panic:")) && anchoredFrame(tail) != "":
				c.Violation("C19/process-crash/"+anchoredFrame(tail), fmt.Sprintf("child %s died (exit %d) with a crash in anchored lindb code; last case: %s", j.name, cr.ExitCode, lastCase),
					map[string]interface{}{"output_tail": lastN(tail, 6000), "last_case": lastCase})
			default:
				c.Inconclusive("child %s ended without a result (exit %d, err %v); last case: %s; output tail: %s", j.name, cr.ExitCode, cr.Err, lastCase, lastN(tail, 600))
			}
			if r == nil {
				continue
			}
		}
		prefix := ""
		if j.race {
			prefix = "race_"
		}
		c.Eval(int(r.Evals))
		for k, v := range r.Counters {
			c.Count(prefix+k, int(v))
		}
		for _, k := range r.Keys {
			c.Nontrivial(k)
		}
		classes := make([]string, 0, len(r.Viol))
		for cl := range r.Viol {
			classes = append(classes, cl)
		}
		sort.Strings(classes)
		for _, cl := range classes {
			v := r.Viol[cl]
			for n := 0; n < v.Count; n++ {
				c.Violation(cl, v.Msg, v.Witness)
			}
		}
		for _, s := range r.Samples {
			if sampled < 4 {
				c.Sample(s)
				sampled++
			}
		}
		for _, m := range r.Inconclusive {
			c.Inconclusive("%s: %s", j.name, m)
		}
	}

	// race detector reports
	if raceBin != "" {
		judgeRaceLogs(c, raceDir)
	}

	// the run must have observed what the oracle relies on
	need := []string{"runs_serial", "runs_free", "callback", "failure_not_last_to_finish", "failure_last_to_finish",
		"callback_after_panic", "callback_after_all_finished", "decision_points_with_alternatives",
		"nil_plan_stages_completed", "nil_plan_stage_pooled", "nil_plan_stage_inline", "nil_plan_stage_inner_node", "nil_plan_stage_leaf",
		"nil_plan_stage_root", "nil_plan_stage_first_sibling", "nil_plan_stage_last_sibling", "nil_plan_stage_middle_sibling",
		"nil_plan_stage_completed_while_non_ancestor_stage_unfinished", "nil_plan_stage_completed_before_another_stage_failed",
		"reg_panic_identifier_panics", "reg_panic_typed_nil_stage", "reg_panic_root_stage", "reg_panic_child_stage", "reg_panic_grandchild_or_deeper",
		"reg_panic_on_callers_goroutine", "reg_panic_on_callers_goroutine_while_other_stage_unfinished", "reg_panic_on_callers_goroutine_then_completed_with_error",
		"reg_panic_below_pooled_stage",
		"leaf_requests", "leaf_requests_with_failing_shard", "leaf_responses",
		"leaf_requests_with_shard_without_family_in_range", "leaf_requests_with_failing_shard_and_shard_without_family",
		"leaf_shard_without_family_planned_while_other_shards_parked",
		"requester_cases_root", "requester_cases_intermediate", "requester_cases_with_failing_target", "requester_not_found_handled_after_error",
		"requester_success_answers"}
	for _, k := range need {
		if c.Counter(k) == 0 {
			c.Inconclusive("nothing observed for %q", k)
		}
	}
	c.Finish()
}

func lastLine(path string) string {
	data, err := os.ReadFile(path)
	if err != nil {
		return "(no case log)"
	}
	lines := strings.Split(strings.TrimSpace(string(data)), "\n")
	if len(lines) == 0 {
		return ""
	}
	if len(lines) > 8 {
		lines = lines[len(lines)-8:]
	}
	return strings.Join(lines, " / ")
}

func lastN(s string, n int) string {
	if len(s) > n {
		return s[len(s)-n:]
	}
	return s
}

var anchoredFiles = []string{
	"query/pipeline.go", "query/pipeline_state_matchine.go", "query/stage/base_stage.go", "internal/concurrent/pool.go",
	"query/leaf_processor.go", "query/context/leaf_execute_context.go", "query/search.go",
}

func anchoredFrame(text string) string {
	// only the crashing goroutine: header + first goroutine block
	idx := strings.Index(text, "fatal error:")
	if i := strings.Index(text, "panic:"); i >= 0 && (idx < 0 || i < idx) {
		idx = i
	}
	if idx >= 0 {
		parts := strings.SplitN(text[idx:], "\n\n", 3)
		text = parts[0]
		if len(parts) > 1 {
			text += "\n" + parts[1]
		}
	}
	for _, f := range anchoredFiles {
		if strings.Contains(text, "/"+f+":") {
			return filepath.Base(f)
		}
	}
	return ""
}

func debugItem(args []string) {
	idx := 0
	fmt.Sscan(args[0], &idx)
	race := len(args) > 1 && args[1] == "race"
	repeat := 1
	if len(args) > 2 {
		fmt.Sscan(args[2], &repeat)
	}
	seed := int64(1)
	if s := os.Getenv("VERIF_SEED"); s != "" {
		fmt.Sscan(s, &seed)
	}
	p := newTreePlan(seed, os.Getenv("VERIF_TIER") != "thorough")
	for k := 0; k < repeat; k++ {
		a := newAgg()
		p.runItem(idx, "dbg", race, a, func(s string) { fmt.Println("case:", s) })
		spec, _ := p.spec(idx)
		fmt.Printf("tree %d: %s\nevals=%d counters=%v\n", idx, spec.canon(), a.res.Evals, a.res.Counters)
		for cl, v := range a.res.Viol {
			data, _ := json.MarshalIndent(v.Witness, "", " ")
			fmt.Printf("VIOLATION %s x%d: %s\n%s\n", cl, v.Count, v.Msg, data)
		}
		for _, m := range a.res.Inconclusive {
			fmt.Println("INCONCLUSIVE", m)
		}
	}
}

func debugItems(args []string) {
	var from, to, step int
	fmt.Sscan(args[0], &from)
	fmt.Sscan(args[1], &to)
	fmt.Sscan(args[2], &step)
	seed := int64(1)
	if s := os.Getenv("VERIF_SEED"); s != "" {
		fmt.Sscan(s, &seed)
	}
	p := newTreePlan(seed, os.Getenv("VERIF_TIER") != "thorough")
	prev := ""
	for i := 0; i < p.items(); i++ {
		if k, _ := p.kind(i); k != prev {
			fmt.Printf("family %s starts at item %d\n", k, i)
			prev = k
		}
	}
	fmt.Printf("items: %d\n", p.items())
	a := newAgg()
	var list []int
	for i := from; i < to && i < p.items(); i += step {
		list = append(list, i)
	}
	slots := make(chan string, 8)
	for w := 0; w < 8; w++ {
		slots <- fmt.Sprintf("w%d", w)
	}
	core.Parallel(len(list), 8, func(k int) {
		slot := <-slots
		p.runItem(list[k], slot, false, a, func(string) {})
		slots <- slot
	})
	fmt.Printf("ran %d items, evals=%d\n", len(list), a.res.Evals)
	for cl, v := range a.res.Viol {
		fmt.Printf("CLASS %s x%d: %.300s\n", cl, v.Count, v.Msg)
	}
	for _, m := range a.res.Inconclusive {
		fmt.Println("INCONCLUSIVE", m)
	}
	for _, k := range []string{"reg_panic_stages", "reg_panic_on_callers_goroutine", "reg_panic_on_callers_goroutine_then_completed_with_error", "reg_panic_below_pooled_stage", "no_callback", "callback", "watchdog_cases"} {
		fmt.Printf("  %s = %d\n", k, a.res.Counters[k])
	}
}
