package main

import (
	"fmt"
	"os"
	"path/filepath"
	"regexp"
	"sort"
	"strings"

	"github.com/lindb/lindb/verif/internal/core"
)

// files (relative to the lindb tree) whose accesses make a race report count against C19
var raceAnchors = []string{
	"query/pipeline.go", "query/pipeline_state_matchine.go", "query/pipeline_manager.go", "query/stage/base_stage.go",
	"internal/concurrent/pool.go", "query/leaf_processor.go", "query/context/leaf_execute_context.go", "query/search.go",
}

var (
	reFrameFile = regexp.MustCompile(`^\s+(/\S+\.go):(\d+)`)
	reFrameFunc = regexp.MustCompile(`^\s{2}(\S+)\(`)
	reAccess    = regexp.MustCompile(`^(Previous )?(atomic )?(read|write|Read|Write) at 0x`)
)

// judgeRaceLogs parses the GORACE log files.  A report is attributed to C19 when the top lindb frame of either
// access lies in the anchored files: violation.  A report without any lindb frame in the two access stacks is a
// harness bug (inconclusive).  Everything else is only recorded.
func judgeRaceLogs(c *core.Ctx, dir string) {
	tree := os.Getenv("VERIF_TREE")
	if tree == "" {
		tree = "/repo"
	}
	files, _ := filepath.Glob(filepath.Join(dir, "*"))
	sort.Strings(files)
	var outside []string
	for _, f := range files {
		data, err := os.ReadFile(f)
		if err != nil {
			continue
		}
		blocks := strings.Split(string(data), "WARNING: DATA RACE")
		for _, b := range blocks[1:] {
			if i := strings.Index(b, "=================="); i >= 0 {
				b = b[:i]
			}
			c.Count("race_reports", 1)
			var tops []string // "relfile func" of the top lindb frame of each access
			anyLindb := false
			for _, sec := range strings.Split(b, "\n\n") {
				lines := strings.Split(strings.TrimLeft(sec, "\n"), "\n")
				if len(lines) == 0 || !reAccess.MatchString(lines[0]) {
					continue
				}
				lastFunc := ""
				for _, ln := range lines[1:] {
					if m := reFrameFunc.FindStringSubmatch(ln); m != nil {
						lastFunc = m[1]
						continue
					}
					if m := reFrameFile.FindStringSubmatch(ln); m != nil && strings.HasPrefix(m[1], tree+"/") {
						anyLindb = true
						tops = append(tops, strings.TrimPrefix(m[1], tree+"/")+" "+lastFunc)
						break
					}
				}
			}
			var anchored []string
			for _, t := range tops {
				parts := strings.SplitN(t, " ", 2)
				for _, a := range raceAnchors {
					if parts[0] == a {
						anchored = append(anchored, parts[1])
					}
				}
			}
			switch {
			case len(anchored) > 0:
				var fs []string
				for _, t := range tops {
					fs = append(fs, strings.SplitN(t, " ", 2)[1])
				}
				c.Violation("C19/data-race/"+shortFuncs(fs), "the race detector reported a data race whose accesses are in the anchored files: "+strings.Join(tops, " <-> "),
					map[string]interface{}{"report": "WARNING: DATA RACE" + b, "log": filepath.Base(f)})
			case !anyLindb:
				c.Inconclusive("race report without lindb frames in the access stacks (harness bug): %s", oneLineN(b, 700))
			default:
				c.Count("race_reports_outside_anchors", 1)
				if len(outside) < 3 {
					outside = append(outside, strings.Join(tops, " <-> "))
				}
			}
		}
	}
	if len(outside) > 0 {
		c.Set("race_reports_outside_anchors_examples", outside)
	}
}

func dedupe(in []string) []string {
	seen := map[string]bool{}
	var out []string
	for _, s := range in {
		if !seen[s] {
			seen[s] = true
			out = append(out, s)
		}
	}
	return out
}

// shortFuncs builds the class suffix: the distinct anchored functions (package path stripped), sorted.
func shortFuncs(fs []string) string {
	var out []string
	for _, f := range dedupe(fs) {
		if i := strings.LastIndex(f, "/"); i >= 0 {
			f = f[i+1:]
		}
		f = strings.NewReplacer("(*", "", ")", "", "·", ".").Replace(f)
		out = append(out, f)
	}
	sort.Strings(out)
	if len(out) > 3 {
		out = out[:3]
	}
	return strings.Join(out, "+")
}

func oneLineN(s string, n int) string {
	s = strings.Join(strings.Fields(s), " ")
	if len(s) > n {
		s = s[:n]
	}
	return fmt.Sprint(s)
}
