package main

import (
	"fmt"
	"hash/fnv"
	"math/rand"
	"strings"
)

// Outcomes of one operator of a generated stage.
const (
	oOK        = "ok"
	oErr       = "err"        // returns a plain error
	oNFIgnored = "nf-ignored" // returns (wrapped) constants.ErrNotFound on a plan node built with NewPlanNodeWithIgnore => not a failure
	oNFPlain   = "nf-plain"   // returns (wrapped) constants.ErrNotFound on a plan node WITHOUT ignore => failure
	oErrIgnore = "err-ignore" // returns a plain error on a plan node with ignore => failure (only ErrNotFound may be ignored)
	oPanicStr  = "panic-str"  // panic("text")
	oPanicErr  = "panic-err"  // panic(error)
	oPanicVal  = "panic-val"  // panic(struct{}) -> errorpkg.Error turns it into "unknown error"
	oPanicRT   = "panic-rt"   // a real runtime error (nil map write)
	// oCompletePanic is a stage level outcome of the systematic trees: plan ok, Complete() panics. Unlike the other
	// failures it does not keep the stage from planning its next stages.
	oCompletePanic = "complete-panic"
	// oNilPlan is a stage level outcome too: Plan() returns nil (as lindb's shard scan stage does for a shard without a
	// data family in the query range): nothing to execute, the stage succeeds at once and plans its next stages.
	oNilPlan = "nil-plan"
	// Stage level outcomes of the registration families: the stage panics while the pipeline REGISTERS it, i.e. inside
	// the state machine's executeStage (pending is already incremented, the pipeline's own completing defer for the
	// stage is not installed yet).  oIdentPanic: Stage.Identifier() panics.  oTypedNil: the stage is handed to the
	// pipeline (as root, or by its parent's NextStages()) as a typed nil pointer: `stage == nil` is false for it and
	// Identifier() dereferences the nil receiver (a real runtime error).  Plan() of such a stage is never reached.
	oIdentPanic = "ident-panic"
	oTypedNil   = "typed-nil"
)

var failOutcomes = []string{oErr, oNFPlain, oErrIgnore, oPanicStr, oPanicErr, oPanicVal, oPanicRT}

func isPanicOutcome(o string) bool { return strings.HasPrefix(o, "panic") }

func isFailOutcome(o string) bool {
	return o != oOK && o != oNFIgnored && o != oNilPlan
}

// opSpec is one operator (= one real stage.PlanNode) of a stage's plan tree.
type opSpec struct {
	Outcome string `json:"o"`
	// Parent is the index of the parent plan node inside the stage's plan (-1: child of the plan root / the root itself).
	Parent int `json:"p"`
}

// stageSpec is one generated stage.
type stageSpec struct {
	ID    int  `json:"id"`
	Async bool `json:"async"`
	// NilCtx: the stage gets a pool but a nil context => baseStage.IsAsync() is false (runs inline).
	NilCtx bool `json:"nil_ctx,omitempty"`
	// PlanKind: "nil" (Plan() returns nil), "empty-root" (NewEmptyPlanNode with the ops as children),
	// "op-root" (first op is the root plan node, others hang below it).
	PlanKind  string   `json:"plan"`
	Ops       []opSpec `json:"ops,omitempty"`
	NextPanic bool     `json:"next_panic,omitempty"` // NextStages() panics
	PlanPanic bool     `json:"plan_panic,omitempty"` // Plan() panics
	// CompletePanic: the stage's Complete() callback (called by the state machine when the stage is over) panics
	CompletePanic bool `json:"complete_panic,omitempty"`
	// Shaping of the schedule (legal for the property, which holds for every completion order): the stage's Complete()
	// callback - called by the state machine under its mutex - first waits until the stage HookWaitStage-1 has entered
	// its completion/error handler (0: nobody), then sleeps HookDelayUs microseconds.
	HookWaitStage int `json:"hook_waits_for_stage_plus1,omitempty"`
	HookDelayUs   int `json:"hook_delay_us,omitempty"`
	// IdentPanic: Identifier() panics (called by the state machine while it registers the stage).
	IdentPanic bool `json:"ident_panic,omitempty"`
	// TypedNil: the stage object handed to the pipeline is a typed nil pointer.
	TypedNil bool         `json:"typed_nil,omitempty"`
	Children []*stageSpec `json:"children,omitempty"`
}

// treeSpec is one generated case.
type treeSpec struct {
	Root *stageSpec `json:"root"`
	N    int        `json:"n"`
}

func (t *treeSpec) stages() []*stageSpec {
	var out []*stageSpec
	var walk func(s *stageSpec)
	walk = func(s *stageSpec) {
		out = append(out, s)
		for _, c := range s.Children {
			walk(c)
		}
	}
	walk(t.Root)
	return out
}

// canon returns a canonical text of the tree (shape, sync/async, plan, outcomes).
func (t *treeSpec) canon() string {
	var sb strings.Builder
	var walk func(s *stageSpec)
	walk = func(s *stageSpec) {
		if s.Async {
			sb.WriteByte('A')
		} else if s.NilCtx {
			sb.WriteByte('N')
		} else {
			sb.WriteByte('S')
		}
		sb.WriteString(s.PlanKind[:1])
		for _, o := range s.Ops {
			fmt.Fprintf(&sb, "%s@%d,", o.Outcome, o.Parent)
		}
		if s.NextPanic {
			sb.WriteString("!next")
		}
		if s.PlanPanic {
			sb.WriteString("!plan")
		}
		if s.CompletePanic {
			sb.WriteString("!complete")
		}
		if s.IdentPanic {
			sb.WriteString("!ident")
		}
		if s.TypedNil {
			sb.WriteString("!typednil")
		}
		if s.HookWaitStage > 0 || s.HookDelayUs > 0 {
			fmt.Fprintf(&sb, "~w%d~d%d", s.HookWaitStage, s.HookDelayUs/500)
		}
		if len(s.Children) > 0 {
			sb.WriteByte('(')
			for _, c := range s.Children {
				walk(c)
			}
			sb.WriteByte(')')
		}
		sb.WriteByte(';')
	}
	walk(t.Root)
	return sb.String()
}

func hashKey(parts ...string) string {
	h := fnv.New64a()
	for _, p := range parts {
		_, _ = h.Write([]byte(p))
		_, _ = h.Write([]byte{0})
	}
	return fmt.Sprintf("%016x", h.Sum64())
}

// stageFails reports whether the spec of the stage makes it fail (when it runs at all).
func (s *stageSpec) stageFails() bool {
	if s.PlanPanic || s.NextPanic || s.CompletePanic || s.IdentPanic || s.TypedNil {
		return true
	}
	for _, o := range s.Ops {
		if isFailOutcome(o.Outcome) {
			return true
		}
	}
	return false
}

func renumber(t *treeSpec) {
	n := 0
	var walk func(s *stageSpec)
	walk = func(s *stageSpec) {
		s.ID = n
		n++
		for _, c := range s.Children {
			walk(c)
		}
	}
	walk(t.Root)
	t.N = n
}

// ---------------------------------------------------------------------------------------------
// systematic small trees

// simpleStage builds a stage with one operator of the given outcome.
func simpleStage(async bool, outcome string) *stageSpec {
	if outcome == oCompletePanic {
		// the plan succeeds, only the Complete() callback panics
		return &stageSpec{Async: async, PlanKind: "empty-root", Ops: []opSpec{{Outcome: oOK, Parent: -1}}, CompletePanic: true}
	}
	if outcome == oNilPlan {
		return &stageSpec{Async: async, PlanKind: "nil"}
	}
	if outcome == oIdentPanic || outcome == oTypedNil {
		// (the plan is never reached)
		return &stageSpec{Async: async, PlanKind: "empty-root", Ops: []opSpec{{Outcome: oOK, Parent: -1}},
			IdentPanic: outcome == oIdentPanic, TypedNil: outcome == oTypedNil}
	}
	return &stageSpec{Async: async, PlanKind: "empty-root", Ops: []opSpec{{Outcome: outcome, Parent: -1}}}
}

// hasNilPlan: some stage of the tree has no plan.
func (t *treeSpec) hasNilPlan() bool {
	for _, s := range t.stages() {
		if s.PlanKind == "nil" {
			return true
		}
	}
	return false
}

// nilSystematicSpecs: every tree with up to maxN stages over outs + nil-plan that contains at least one stage without
// a plan and at least two stages (a nil-plan stage at every position: root, inner node, leaf, first/last sibling,
// inline and pooled, next to succeeding, failing and panicking stages).
func nilSystematicSpecs(maxN int, outs []string) []*treeSpec {
	var res []*treeSpec
	for _, t := range systematicSpecs(maxN, append(append([]string(nil), outs...), oNilPlan)) {
		if t.N >= 2 && t.hasNilPlan() {
			res = append(res, t)
		}
	}
	return res
}

// systematicSpecs enumerates every tree with up to maxN stages (one operator each), every sync/async
// assignment and every outcome in outs for the stages that can run (a failed stage has no children).
func systematicSpecs(maxN int, outs []string) []*treeSpec {
	var res []*treeSpec
	// shapes as parent vectors: parent[i] < i, children ordered by index.
	var shapes [][]int
	var gen func(p []int, n int)
	gen = func(p []int, n int) {
		if len(p) == n {
			shapes = append(shapes, append([]int(nil), p...))
			return
		}
		i := len(p)
		// to avoid isomorphic duplicates from ordering keep it simple: allow all parent vectors with
		// non-decreasing parents (children of an earlier node come first) – every ordered tree once.
		lo := 0
		if i > 1 {
			lo = p[i-1]
		}
		for par := lo; par < i; par++ {
			gen(append(p, par), n)
		}
	}
	for n := 1; n <= maxN; n++ {
		gen([]int{-1}, n)
	}
	for _, sh := range shapes {
		n := len(sh)
		hasChild := make([]bool, n)
		for i := 1; i < n; i++ {
			hasChild[sh[i]] = true
		}
		nOut := len(outs)
		// iterate over async masks and outcome vectors
		total := 1
		for i := 0; i < n; i++ {
			total *= nOut
		}
		for mask := 0; mask < 1<<n; mask++ {
			for code := 0; code < total; code++ {
				oc := make([]string, n)
				c := code
				ok := true
				for i := 0; i < n; i++ {
					oc[i] = outs[c%nOut]
					c /= nOut
					if hasChild[i] && isFailOutcome(oc[i]) && oc[i] != oCompletePanic {
						ok = false // children of a failed stage never start: same run as the smaller tree
						break
					}
				}
				if !ok {
					continue
				}
				nodes := make([]*stageSpec, n)
				for i := 0; i < n; i++ {
					nodes[i] = simpleStage(mask&(1<<i) != 0, oc[i])
					if i > 0 {
						nodes[sh[i]].Children = append(nodes[sh[i]].Children, nodes[i])
					}
				}
				t := &treeSpec{Root: nodes[0]}
				renumber(t)
				res = append(res, t)
			}
		}
	}
	return res
}

// ---------------------------------------------------------------------------------------------
// random trees

type genLimits struct {
	maxStages int
	maxDepth  int
	maxFan    int
}

func randomSpec(r *rand.Rand, lim genLimits) *treeSpec {
	if r.Intn(25) == 0 {
		return wideSpec(r)
	}
	// size distribution biased to small trees, with a tail of wide/deep ones
	var target int
	switch x := r.Intn(100); {
	case x < 35:
		target = 2 + r.Intn(3) // 2..4
	case x < 75:
		target = 4 + r.Intn(5) // 4..8
	default:
		target = 8 + r.Intn(lim.maxStages-7)
	}
	if target > lim.maxStages {
		target = lim.maxStages
	}
	asyncP := []int{20, 50, 80, 100}[r.Intn(4)] // percentage of async stages in this tree
	root := &stageSpec{}
	nodes := []*stageSpec{root}
	depth := map[*stageSpec]int{root: 1}
	for len(nodes) < target {
		p := nodes[r.Intn(len(nodes))]
		if depth[p] >= lim.maxDepth || len(p.Children) >= lim.maxFan {
			// try a few times, otherwise stop growing
			okFound := false
			for try := 0; try < 8; try++ {
				p = nodes[r.Intn(len(nodes))]
				if depth[p] < lim.maxDepth && len(p.Children) < lim.maxFan {
					okFound = true
					break
				}
			}
			if !okFound {
				break
			}
		}
		c := &stageSpec{}
		p.Children = append(p.Children, c)
		depth[c] = depth[p] + 1
		nodes = append(nodes, c)
	}
	// how many faulty stages
	var faults int
	switch x := r.Intn(100); {
	case x < 15:
		faults = 0
	case x < 55:
		faults = 1
	case x < 85:
		faults = 2
	default:
		faults = 3 + r.Intn(3)
	}
	for _, s := range nodes {
		s.Async = r.Intn(100) < asyncP
		if !s.Async && r.Intn(25) == 0 {
			s.NilCtx = true
		}
		// plan of 0..3 ok operators
		switch x := r.Intn(10); {
		case x == 0:
			s.PlanKind = "nil"
		case x < 6:
			s.PlanKind = "empty-root"
		default:
			s.PlanKind = "op-root"
		}
		if s.PlanKind != "nil" {
			nops := 1 + r.Intn(3)
			if s.PlanKind == "empty-root" && r.Intn(12) == 0 {
				nops = 0
			}
			for i := 0; i < nops; i++ {
				par := -1
				if i > 0 && (s.PlanKind == "op-root" || r.Intn(3) == 0) {
					par = r.Intn(i)
				}
				out := oOK
				if r.Intn(12) == 0 {
					out = oNFIgnored
				}
				s.Ops = append(s.Ops, opSpec{Outcome: out, Parent: par})
			}
		}
	}
	// place the faults: prefer leaves so the tree still unfolds, sometimes inner nodes (which cuts the subtree)
	for f := 0; f < faults; f++ {
		var s *stageSpec
		for try := 0; try < 6; try++ {
			s = nodes[r.Intn(len(nodes))]
			if len(s.Children) == 0 || r.Intn(5) == 0 {
				break
			}
		}
		switch x := r.Intn(100); {
		case x < 6:
			s.NextPanic = true
		case x < 12:
			s.PlanPanic = true
		case x < 30:
			// Complete() panics: any position (it does not cut the subtree), often the only failure of the tree
			s = nodes[r.Intn(len(nodes))]
			s.CompletePanic = true
		default:
			if len(s.Ops) == 0 {
				s.PlanKind = "empty-root"
				s.Ops = []opSpec{{Outcome: oOK, Parent: -1}}
			}
			var out string
			if r.Intn(2) == 0 {
				out = []string{oErr, oErr, oNFPlain, oErrIgnore}[r.Intn(4)]
			} else {
				out = []string{oPanicStr, oPanicErr, oPanicVal, oPanicRT}[r.Intn(4)]
			}
			s.Ops[r.Intn(len(s.Ops))].Outcome = out
		}
	}
	t := &treeSpec{Root: root}
	renumber(t)
	return t
}

// wideSpec: one pooled stage that plans more pooled stages than a pool's task queue holds (beyond the design's
// fan-out of 6): Submit has to block on a busy pool instead of losing tasks.
func wideSpec(r *rand.Rand) *treeSpec {
	root := &stageSpec{Async: r.Intn(4) != 0, PlanKind: "empty-root", Ops: []opSpec{{Outcome: oOK, Parent: -1}}}
	n := 10 + r.Intn(14)
	for i := 0; i < n; i++ {
		out := oOK
		switch r.Intn(12) {
		case 0:
			out = oErr
		case 1:
			out = oPanicStr
		case 2:
			out = oNFIgnored
		case 3:
			out = oCompletePanic
		}
		root.Children = append(root.Children, simpleStage(true, out))
	}
	t := &treeSpec{Root: root}
	renumber(t)
	return t
}

// shapedSpec: sibling stages under one parent, k succeed and one fails; the Complete() callback of the inline sibling
// that completes just before its parent holds the state machine's mutex until the failing pooled stage has reached the
// state machine and then a little longer (seeded 0-3 ms), so the failing stage queues on the mutex while the last stage
// of the pipeline completes right behind the holder. Which stage is last varies: the direct parent, or a chain of
// inline ancestors above it, or a pooled parent.
func shapedSpec(r *rand.Rand) *treeSpec {
	ok := func(async bool) *stageSpec { return simpleStage(async, oOK) }
	parent := ok(r.Intn(4) == 0)
	for k := r.Intn(4); k > 0; k-- {
		a := ok(true)
		if r.Intn(2) == 0 {
			a.HookDelayUs = r.Intn(3000)
		}
		parent.Children = append(parent.Children, a)
	}
	failing := simpleStage(true, []string{oErr, oErr, oPanicStr, oNFPlain}[r.Intn(4)])
	parent.Children = append(parent.Children, failing)
	if r.Intn(3) == 0 {
		parent.Children = append(parent.Children, ok(true))
	}
	holder := ok(false)
	holder.HookDelayUs = []int{0, 300, 1200, 1500, 2000, 2500, 3000}[r.Intn(7)]
	parent.Children = append(parent.Children, holder)
	parent.HookDelayUs = r.Intn(3000)
	root := parent
	for k := r.Intn(3); k > 0; k-- {
		up := ok(false)
		up.HookDelayUs = r.Intn(2000)
		up.Children = []*stageSpec{root}
		root = up
	}
	t := &treeSpec{Root: root}
	renumber(t)
	holder.HookWaitStage = failing.ID + 1
	return t
}

// stressSpec: a fan-out of pooled stages, one of them fails, nothing is shaped.
func stressSpec(r *rand.Rand) *treeSpec {
	root := simpleStage(r.Intn(3) == 0, oOK)
	n := 3 + r.Intn(5)
	f := r.Intn(n)
	for i := 0; i < n; i++ {
		out := oOK
		if i == f {
			out = oErr
		}
		root.Children = append(root.Children, simpleStage(true, out))
	}
	t := &treeSpec{Root: root}
	renumber(t)
	return t
}

// nilSpec: a stage without a plan (Plan() returns nil) among siblings that are slower, fail or panic.  The stage has
// nothing to execute, so it completes at once - inline in its parent's frame, or as the first thing a pool worker
// does - while its siblings (gated in serial mode, delayed in free mode) and its parent are still unfinished.  The
// nil-plan stage sits at a seeded position among 2-5 siblings, is a leaf or plans stages of its own, runs inline or
// on a pool; the family above it may be a chain of further stages, some of them without a plan as well.
func nilSpec(r *rand.Rand) *treeSpec {
	asyncP := []int{0, 30, 60, 100}[r.Intn(4)]
	async := func() bool { return r.Intn(100) < asyncP }
	mk := func(out string) *stageSpec {
		s := simpleStage(async(), out)
		if out != oNilPlan && out != oCompletePanic && r.Intn(3) == 0 {
			// a longer plan: more operators before/after the deciding one
			extra := 1 + r.Intn(2)
			for k := 0; k < extra; k++ {
				s.Ops = append(s.Ops, opSpec{Outcome: oOK, Parent: -1})
			}
			if r.Intn(2) == 0 {
				s.Ops[0], s.Ops[len(s.Ops)-1] = s.Ops[len(s.Ops)-1], s.Ops[0]
			}
		}
		return s
	}
	parent := mk([]string{oOK, oOK, oOK, oNilPlan}[r.Intn(4)])
	n := 2 + r.Intn(4)
	nilAt := map[int]bool{[]int{0, n - 1, r.Intn(n)}[r.Intn(3)]: true}
	if r.Intn(4) == 0 {
		nilAt[r.Intn(n)] = true
	}
	failAt := -1
	for try := 0; try < 8 && r.Intn(6) != 0; try++ {
		if k := r.Intn(n); !nilAt[k] {
			failAt = k
			break
		}
	}
	for i := 0; i < n; i++ {
		var c *stageSpec
		switch {
		case nilAt[i]:
			c = mk(oNilPlan)
			// inner node: the stage without a plan plans stages of its own
			if r.Intn(2) == 0 {
				for k := 1 + r.Intn(2); k > 0; k-- {
					c.Children = append(c.Children, mk([]string{oOK, oOK, oErr, oNilPlan, oPanicStr}[r.Intn(5)]))
				}
			}
		case i == failAt:
			c = mk([]string{oErr, oErr, oNFPlain, oPanicStr, oPanicErr, oCompletePanic}[r.Intn(6)])
		default:
			c = mk([]string{oOK, oOK, oOK, oNFIgnored}[r.Intn(4)])
			if r.Intn(4) == 0 {
				c.Children = append(c.Children, mk([]string{oOK, oErr}[r.Intn(2)]))
			}
		}
		parent.Children = append(parent.Children, c)
	}
	root := parent
	// (at most four levels: a stage on a pool only submits to the pools of deeper levels)
	for k := r.Intn(2); k > 0; k-- {
		up := mk([]string{oOK, oOK, oNilPlan}[r.Intn(3)])
		up.Children = []*stageSpec{root}
		if r.Intn(3) == 0 {
			// an uncle that is still busy / fails later
			u := mk([]string{oOK, oErr}[r.Intn(2)])
			if r.Intn(2) == 0 {
				up.Children = append(up.Children, u)
			} else {
				up.Children = append([]*stageSpec{u}, up.Children...)
			}
		}
		root = up
	}
	t := &treeSpec{Root: root}
	renumber(t)
	return t
}

// ---------------------------------------------------------------------------------------------
// stages that panic while the pipeline registers them

// regPanics reports whether the stage panics while it is registered (see oIdentPanic, oTypedNil).
func (s *stageSpec) regPanics() bool { return s.IdentPanic || s.TypedNil }

func (t *treeSpec) hasRegPanic() bool {
	for _, s := range t.stages() {
		if s.regPanics() {
			return true
		}
	}
	return false
}

// regSystematicSpecs: every tree with up to maxN stages over outs + {Identifier() panics, typed nil stage} that
// contains at least one stage that panics while it is registered: as root, only child, first/last sibling, grandchild,
// under inline and pooled parents, next to succeeding and failing stages.
func regSystematicSpecs(maxN int, outs []string) []*treeSpec {
	var res []*treeSpec
	for _, t := range systematicSpecs(maxN, append(append([]string(nil), outs...), oIdentPanic, oTypedNil)) {
		if t.hasRegPanic() {
			res = append(res, t)
		}
	}
	return res
}

// regSpec: a family around one stage that panics while it is registered.  The stage sits at depth 0-3 (root, child,
// grandchild, great-grandchild) below a chain of ancestors that run inline or on a pool (0/30/60/100 % pooled; some
// without a plan), at a seeded position among 1-5 siblings that succeed, fail, have no plan or plan stages of their own
// (the siblings before it are registered - and, when pooled, still unfinished - when the panic is raised, the ones after
// it are never handed to the pipeline); the ancestors may have further children (uncles) that are busy meanwhile.
func regSpec(r *rand.Rand) *treeSpec {
	asyncP := []int{0, 0, 30, 60, 100}[r.Intn(5)]
	async := func() bool { return r.Intn(100) < asyncP }
	mk := func(out string) *stageSpec {
		s := simpleStage(async(), out)
		if !s.Async && r.Intn(20) == 0 {
			s.NilCtx = true
		}
		if out == oOK && r.Intn(3) == 0 {
			for k := 1 + r.Intn(2); k > 0; k-- {
				s.Ops = append(s.Ops, opSpec{Outcome: oOK, Parent: -1})
			}
		}
		return s
	}
	bad := mk([]string{oIdentPanic, oTypedNil}[r.Intn(2)])
	depth := []int{0, 1, 1, 1, 2, 2, 2, 3}[r.Intn(8)]
	cur := bad
	for d := 0; d < depth; d++ {
		parent := mk([]string{oOK, oOK, oOK, oNilPlan}[r.Intn(4)])
		n := 1 + r.Intn(5)
		if d > 0 {
			n = 1 + r.Intn(3)
		}
		at := []int{0, n - 1, r.Intn(n)}[r.Intn(3)]
		for i := 0; i < n; i++ {
			if i == at {
				parent.Children = append(parent.Children, cur)
				continue
			}
			c := mk([]string{oOK, oOK, oOK, oErr, oNilPlan, oNFIgnored, oPanicStr}[r.Intn(7)])
			if !isFailOutcome(c.Ops0()) && r.Intn(4) == 0 {
				c.Children = append(c.Children, mk([]string{oOK, oErr}[r.Intn(2)]))
			}
			parent.Children = append(parent.Children, c)
		}
		cur = parent
	}
	t := &treeSpec{Root: cur}
	renumber(t)
	return t
}

// Ops0 is the outcome of the stage's first operator ("" without a plan).
func (s *stageSpec) Ops0() string {
	if len(s.Ops) == 0 {
		return oNilPlan
	}
	return s.Ops[0].Outcome
}
