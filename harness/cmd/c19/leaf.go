package main

import (
	"bytes"
	"context"
	"errors"
	"fmt"
	"os"
	"regexp"
	"runtime"
	"sort"
	"strconv"
	"strings"
	"sync"
	"sync/atomic"
	"time"

	"github.com/lindb/roaring"
	"google.golang.org/grpc"
	"google.golang.org/grpc/metadata"

	commonmodels "github.com/lindb/common/models"
	"github.com/lindb/common/pkg/encoding"
	"github.com/lindb/common/pkg/ltoml"
	protoMetricsV1 "github.com/lindb/common/proto/gen/v1/linmetrics"

	"github.com/lindb/lindb/config"
	"github.com/lindb/lindb/constants"
	"github.com/lindb/lindb/flow"
	"github.com/lindb/lindb/index"
	"github.com/lindb/lindb/internal/concurrent"
	"github.com/lindb/lindb/internal/linmetric"
	"github.com/lindb/lindb/metrics"
	"github.com/lindb/lindb/models"
	"github.com/lindb/lindb/pkg/option"
	"github.com/lindb/lindb/pkg/timeutil"
	protoCommonV1 "github.com/lindb/lindb/proto/gen/v1/common"
	"github.com/lindb/lindb/query"
	"github.com/lindb/lindb/rpc"
	"github.com/lindb/lindb/series/metric"
	"github.com/lindb/lindb/series/tag"
	"github.com/lindb/lindb/sql"
	"github.com/lindb/lindb/sql/stmt"
	"github.com/lindb/lindb/tsdb"
)

// Violation classes of the leaf workload.
const (
	clsLeafNone         = "C19/leaf/no-response"
	clsLeafDeadlock     = "C19/leaf/no-response/panic-in-stage-complete-deadlocks-state-machine"
	clsLeafTwo          = "C19/leaf/more-than-one-response"
	clsLeafLostNotLast  = "C19/leaf/shard-failure-answered-as-success/failed-stage-not-last"
	clsLeafLostLast     = "C19/leaf/shard-failure-answered-as-success/failed-stage-last"
	clsLeafLostUnknown  = "C19/leaf/shard-failure-answered-as-success/completion-order-unknown"
	clsLeafLostRecover  = "C19/leaf/shard-failure-answered-as-success/panic-on-request-goroutine"
	clsLeafLostOther    = "C19/leaf/shard-failure-answered-as-success/other"
	clsLeafLostReqLevel = "C19/leaf/request-level-failure-answered-as-success"
	clsLeafSpurious     = "C19/leaf/error-response-without-failure"
	clsLeafBadReq       = "C19/leaf/rejected-request-answered-as-success"
	clsLeafIncomplete   = "C19/leaf/response-not-marked-completed"
	clsLeafEarly        = "C19/leaf/response-before-shard-stage-finished"
)

const (
	leafDB       = "c19db"
	leafNode     = "1.1.1.3:8000" // the leaf (storage) node
	leafReceiver = "1.1.1.1:9000" // the requester (broker) = receiver of the results
	leafLimit    = 20             // max series per query: the big shard exceeds it (real operator error)
)

var leafSeries = []int{3, 5, 40, 8, 0, 0} // series per shard; shard 2 exceeds leafLimit

// leafEmptyShards exist but have no data family in the range of any query of the workload (shard 4: no family at all,
// shard 5: one family two days back): shardScanStage.Plan() returns nil for them, the stage has nothing to execute.
var leafEmptyShards = []int{4, 5}

// ---------------------------------------------------------------------------------------------
// fault/gate control of one request, found by the wrappers through the query's time range

type leafCase struct {
	ID     int    `json:"id"`
	Kind   string `json:"kind"`  // data | metadata | bad-plan | not-leaf | no-db | bad-payload | no-metric
	Query  string `json:"query"` // plain | cond | groupby
	Shards []int  `json:"shards"`
	// Empty: shards without a data family in the query range that are part of the request as well (see leafEmptyShards)
	Empty []int          `json:"empty_shards,omitempty"`
	Fault map[int]string `json:"fault"` // per shard: filter-err | filter-panic | load-panic | families-panic | filter-notfound
	// MetaFault: request level faults at the metadata database: point -> outcome (err | panic | notfound); points:
	// get-metric-id, get-schema, find-tag-values (root stage), collect-tag-values (grouping collect after the scans).
	MetaFault map[string]string `json:"meta_fault,omitempty"`
	// IndexFault: per shard "point:outcome" at the shard's index database; points: series-for-metric,
	// series-by-tag-values, grouping-context.
	IndexFault map[int]string `json:"index_fault,omitempty"`
	// Short: the request goes through the handler with the short query timeout and is watched until its context is done.
	Short   bool  `json:"short_deadline,omitempty"`
	Release []int `json:"release"`
	Paced   bool  `json:"paced"` // wait for the released shard's work before opening the next gate
	Gated   bool  `json:"gated"`
	Explain bool  `json:"explain"`

	mu          sync.Mutex
	parked      map[int]chan struct{}
	arrived     map[int]bool
	fired       map[int]string // faults that actually fired
	loads       map[int]int
	events      []string
	open        bool // gates disabled (after the response / free mode)
	env         *leafEnv
	taskCtx     context.Context // the request's task context, seen by the wrappers
	onReqG      bool            // a fault panicked on the goroutine that runs leafTaskProcessor.Process
	ignored     int             // not-found outcomes at plan nodes that ignore them
	noFamilies  map[int]bool    // shards whose GetDataFamilies returned nothing for this request (observed)
	metaDBCalls int
}

const (
	leafReceiverShort = "1.1.1.2:9000"
	leafShortTimeout  = 500 * time.Millisecond
)

// inject realises the outcome planned for a fault point; key -1 is the request level. isFailure tells whether the
// leaf path has to treat the outcome as a failure of the request (not-found is ignored by the shard scan plan nodes).
func (lc *leafCase) inject(key int, point, outcome string, isFailure bool) error {
	if outcome == "" {
		return nil
	}
	name := point + ":" + outcome
	lc.mu.Lock()
	if isFailure {
		lc.fired[key] = name
	} else {
		lc.ignored++
	}
	lc.events = append(lc.events, fmt.Sprintf("fault %s fired (key %d, failure=%v)", name, key, isFailure))
	lc.mu.Unlock()
	switch outcome {
	case "panic":
		panic(fmt.Sprintf("c19-leaf-fault %s key %d", name, key))
	case "notfound":
		return fmt.Errorf("c19-leaf-fault %s key %d %w", name, key, constants.ErrNotFound)
	default:
		return fmt.Errorf("c19-leaf-fault %s key %d", name, key)
	}
}

func (lc *leafCase) sawCtx(ctx context.Context) {
	if ctx == nil {
		return
	}
	lc.mu.Lock()
	if lc.taskCtx == nil {
		lc.taskCtx = ctx
	}
	lc.mu.Unlock()
}

func (lc *leafCase) event(format string, args ...interface{}) {
	lc.mu.Lock()
	lc.events = append(lc.events, fmt.Sprintf(format, args...))
	lc.mu.Unlock()
}

func (lc *leafCase) fire(shard int, what string) {
	lc.mu.Lock()
	lc.fired[shard] = what
	lc.events = append(lc.events, fmt.Sprintf("fault %s fired in shard %d", what, shard))
	lc.mu.Unlock()
}

// gate parks the calling pool worker until the driver releases the shard.
func (lc *leafCase) gate(shard int) {
	lc.mu.Lock()
	if lc.open || !lc.Gated || lc.arrived[shard] {
		lc.arrived[shard] = true
		lc.mu.Unlock()
		return
	}
	ch := make(chan struct{})
	lc.parked[shard] = ch
	lc.arrived[shard] = true
	lc.events = append(lc.events, fmt.Sprintf("shard %d parked at Filter", shard))
	lc.env.parked.Add(1)
	lc.mu.Unlock()
	<-ch
}

// release opens the gate of a shard (driver side); false if the shard is not parked.
func (lc *leafCase) release(shard int) bool {
	lc.mu.Lock()
	ch := lc.parked[shard]
	delete(lc.parked, shard)
	if ch != nil {
		lc.events = append(lc.events, fmt.Sprintf("driver releases shard %d", shard))
		lc.env.parked.Add(-1)
	}
	lc.mu.Unlock()
	if ch != nil {
		close(ch)
	}
	return ch != nil
}

type leafEnv struct {
	engine  tsdb.Engine
	db      tsdb.Database
	fct     rpc.TaskServerFactory
	handler *query.TaskHandler
	stream  *recStream
	t0      int64

	mu    sync.Mutex
	cases map[int64]*leafCase // by TimeRange.End of the request's query
	byID  map[int]*leafCase   // by the alias of the database name the request asks for (<db>#<case id>)
	short *recStream          // stream of the handler with the short query timeout

	// exact accounting of the four pools a request runs on: tasks handed to them (counted by a delegating wrapper)
	// against the pools' own consumed/panic/rejected counters
	pools     [4]*countPool
	sent      atomic.Int64 // requests put on the stream
	dead      atomic.Int64 // pool workers proven to wait for ever for a state machine mutex (see scanDead)
	deadCases map[string]string
	parked    atomic.Int64 // pool workers waiting at a gate
	execP     *tsdb.ExecutorPool
}

// countPool delegates to the real pool and counts the tasks handed to it.
type countPool struct {
	concurrent.Pool
	handed atomic.Int64
	stats  *metrics.ConcurrentStatistics
}

func (p *countPool) Submit(ctx context.Context, task *concurrent.Task) {
	p.handed.Add(1)
	p.Pool.Submit(ctx, task)
}

func (p *countPool) finished() int64 {
	return int64(p.stats.TasksConsumed.Get() + p.stats.TasksPanic.Get() + p.stats.TasksRejected.Get())
}

type poolSnap struct {
	sent, parked int64
	h, f         [4]int64
}

func (e *leafEnv) snap() poolSnap {
	var s poolSnap
	for i, p := range e.pools {
		s.f[i] = p.finished()
	}
	for i, p := range e.pools {
		s.h[i] = p.handed.Load()
	}
	s.sent = e.sent.Load()
	s.parked = e.parked.Load()
	return s
}

// settled: every request was handed to the task pool and every task ever handed to one of the pools has finished,
// except the workers that wait at a gate.  Decided on two identical consecutive snapshots of monotonic counters.
func (e *leafEnv) settled() bool {
	a := e.snap()
	b := e.snap()
	if a != b {
		return false
	}
	if a.sent != a.h[0] {
		return false
	}
	var live int64
	for i := range a.h {
		live += a.h[i] - a.f[i]
	}
	return live == a.parked+e.dead.Load()
}

var (
	reGoroutineHdr = regexp.MustCompile(`^goroutine (\d+) [^\[]*\[([^\]]*)\]`)
	reSMFrame      = regexp.MustCompile(`query\.\(\*pipelineStateMachine\)\.(completeStage|executeStage)\((0x[0-9a-f]+)`)
	reInjectFrame  = regexp.MustCompile(`main\.\(\*leafCase\)\.inject\((0x[0-9a-f]+)`)
)

// scanDead looks at the stacks of all goroutines for pool workers that can never finish their task: a goroutine that
// waits for the mutex of a pipeline state machine while a lower frame of the SAME goroutine is inside that state
// machine's completeStage (a panic is being handled on top of the frame that holds the lock) waits for itself; every
// other goroutine waiting for that state machine's mutex waits for it too.  This is a proof from observed goroutine
// states, not a timeout.  It returns the number of such pool workers and records the requests they belong to.
func (e *leafEnv) scanDead() {
	buf := make([]byte, 8<<20)
	n := runtime.Stack(buf, true)
	blocks := strings.Split(string(buf[:n]), "\n\n")
	type g struct {
		text     string
		top      string   // receiver of the top-most state machine frame
		lower    []string // receivers of the other state machine frames
		inPool   bool
		caseAddr string
	}
	var waiting []g
	deadSM := map[string]bool{}
	for _, b := range blocks {
		m := reGoroutineHdr.FindStringSubmatch(b)
		if m == nil || !strings.Contains(m[2], "Mutex.Lock") && !strings.Contains(m[2], "semacquire") {
			continue
		}
		frames := reSMFrame.FindAllStringSubmatch(b, -1)
		if len(frames) == 0 {
			continue
		}
		// the mutex wait must be the state machine's own (first frames: sync.(*Mutex).Lock called by completeStage/executeStage)
		head := b
		if i := strings.Index(b, "pipelineStateMachine)"); i >= 0 {
			head = b[:i]
		}
		if !strings.Contains(head, "sync.(*Mutex).Lock") {
			continue
		}
		x := g{text: b, top: frames[0][2], inPool: strings.Contains(b, "workerPool).execTask")}
		for _, f := range frames[1:] {
			x.lower = append(x.lower, f[2])
			if f[2] == x.top && f[1] == "completeStage" {
				deadSM[x.top] = true
			}
		}
		if c := reInjectFrame.FindStringSubmatch(b); c != nil {
			x.caseAddr = c[1]
		}
		waiting = append(waiting, x)
	}
	dead := int64(0)
	e.mu.Lock()
	for _, x := range waiting {
		if !deadSM[x.top] {
			continue
		}
		// a task that panicked is already counted as finished by its pool (TasksPanic is incremented before the panic
		// handler runs): only workers that wait outside a panic handler still hold a live task
		if x.inPool && !strings.Contains(x.text, "workerPool).execTask.func1") {
			dead++
		}
		if x.caseAddr != "" {
			if _, ok := e.deadCases[x.caseAddr]; !ok {
				txt := x.text
				if len(txt) > 6000 {
					txt = txt[:6000]
				}
				e.deadCases[x.caseAddr] = txt
			}
		}
	}
	e.mu.Unlock()
	e.dead.Store(dead)
}

// deadProof returns the stack of the goroutine that deadlocked on this request's state machine, if one was found.
func (e *leafEnv) deadProof(lc *leafCase) string {
	e.mu.Lock()
	defer e.mu.Unlock()
	return e.deadCases[fmt.Sprintf("%p", lc)]
}

func (e *leafEnv) waitSettled(deadline time.Time) bool {
	start := time.Now()
	scans := 0
	for n := 0; ; n++ {
		if e.settled() {
			return true
		}
		if time.Now().After(deadline) {
			return false
		}
		// not settling: look for pool workers that are provably stuck for ever (rarely, with growing distance)
		if el := time.Since(start); el > time.Duration(150<<scans)*time.Millisecond && scans < 7 {
			scans++
			e.scanDead()
			if os.Getenv("VERIF_C19_DEBUG") != "" {
				a := e.snap()
				fmt.Fprintf(os.Stderr, "waitSettled: scan %d snap=%+v dead=%d\n", scans, a, e.dead.Load())
			}
		}
		if n < 50 {
			runtime.Gosched()
		} else {
			time.Sleep(100 * time.Microsecond)
		}
	}
}

func (e *leafEnv) caseOf(end int64) *leafCase {
	e.mu.Lock()
	defer e.mu.Unlock()
	return e.cases[end]
}

// --- wrappers: embed the real objects, add gates and faults at the interface boundary ---------

type wEngine struct {
	tsdb.Engine
	env *leafEnv
}

func (w *wEngine) GetDatabase(name string) (tsdb.Database, bool) {
	// every request asks for its own alias of the database, so the wrappers know their case from the first call on
	var lc *leafCase
	if i := strings.IndexByte(name, '#'); i >= 0 {
		id, _ := strconv.Atoi(name[i+1:])
		name = name[:i]
		w.env.mu.Lock()
		lc = w.env.byID[id]
		w.env.mu.Unlock()
	}
	db, ok := w.Engine.GetDatabase(name)
	if !ok {
		return nil, false
	}
	return &wDatabase{Database: db, env: w.env, lc: lc}, true
}

type wDatabase struct {
	tsdb.Database
	env *leafEnv
	lc  *leafCase
}

func (w *wDatabase) MetaDB() index.MetricMetaDatabase {
	if w.lc == nil {
		return w.Database.MetaDB()
	}
	// fault point collect-metadb: the second MetaDB() call of a group-by request without condition is the one made
	// by collectGroupByTagValues inside shardScanStage/groupingStage.Complete() (the first one is the root stage's)
	w.lc.mu.Lock()
	w.lc.metaDBCalls++
	nth := w.lc.metaDBCalls
	w.lc.mu.Unlock()
	if out := w.lc.MetaFault["collect-metadb"]; out != "" && nth == 2 {
		_ = w.lc.inject(-1, "collect-metadb", out, true)
	}
	return &wMetaDB{MetricMetaDatabase: w.Database.MetaDB(), lc: w.lc}
}

// wMetaDB injects faults into the metadata database calls of the leaf path.
type wMetaDB struct {
	index.MetricMetaDatabase
	lc *leafCase
}

func (w *wMetaDB) root(point string) error {
	out := w.lc.MetaFault[point]
	if out == "panic" {
		w.lc.mu.Lock()
		w.lc.onReqG = true
		w.lc.mu.Unlock()
	}
	return w.lc.inject(-1, point, out, true)
}

func (w *wMetaDB) GetMetricID(namespace, metricName string) (metric.ID, error) {
	if err := w.root("get-metric-id"); err != nil {
		return 0, err
	}
	return w.MetricMetaDatabase.GetMetricID(namespace, metricName)
}

func (w *wMetaDB) GetSchema(metricID metric.ID) (*metric.Schema, error) {
	if err := w.root("get-schema"); err != nil {
		return nil, err
	}
	return w.MetricMetaDatabase.GetSchema(metricID)
}

func (w *wMetaDB) FindTagValueDsByExpr(tagKeyID tag.KeyID, expr stmt.TagFilter) (*roaring.Bitmap, error) {
	if err := w.root("find-tag-values"); err != nil {
		return nil, err
	}
	return w.MetricMetaDatabase.FindTagValueDsByExpr(tagKeyID, expr)
}

func (w *wMetaDB) CollectTagValues(tagKeyID tag.KeyID, tagValueIDs *roaring.Bitmap, tagValues map[uint32]string) error {
	w.lc.event("CollectTagValues(tag key %d, %d tag value ids)", tagKeyID, tagValueIDs.GetCardinality())
	if err := w.lc.inject(-1, "collect-tag-values", w.lc.MetaFault["collect-tag-values"], true); err != nil {
		return err
	}
	return w.MetricMetaDatabase.CollectTagValues(tagKeyID, tagValueIDs, tagValues)
}

// wIndexDB injects faults into the index database calls of one shard's scan stage.
type wIndexDB struct {
	index.MetricIndexDatabase
	lc    *leafCase
	shard int
}

func (w *wIndexDB) fault(point string) error {
	f := w.lc.IndexFault[w.shard]
	if !strings.HasPrefix(f, point+":") {
		return nil
	}
	out := strings.TrimPrefix(f, point+":")
	return w.lc.inject(w.shard, point, out, out != "notfound")
}

func (w *wIndexDB) GetSeriesIDsForMetric(metricID metric.ID) (*roaring.Bitmap, error) {
	if err := w.fault("series-for-metric"); err != nil {
		return nil, err
	}
	return w.MetricIndexDatabase.GetSeriesIDsForMetric(metricID)
}

func (w *wIndexDB) GetSeriesIDsByTagValueIDs(tagKeyID tag.KeyID, tagValueIDs *roaring.Bitmap) (*roaring.Bitmap, error) {
	if err := w.fault("series-by-tag-values"); err != nil {
		return nil, err
	}
	return w.MetricIndexDatabase.GetSeriesIDsByTagValueIDs(tagKeyID, tagValueIDs)
}

func (w *wIndexDB) GetGroupingContext(ctx *flow.ShardExecuteContext) error {
	w.lc.sawCtx(ctx.StorageExecuteCtx.TaskCtx.Ctx)
	if err := w.fault("grouping-context"); err != nil {
		return err
	}
	return w.MetricIndexDatabase.GetGroupingContext(ctx)
}

func (w *wDatabase) ExecutorPool() *tsdb.ExecutorPool { return w.env.execP }

func (w *wDatabase) GetShard(id models.ShardID) (tsdb.Shard, bool) {
	s, ok := w.Database.GetShard(id)
	if !ok {
		return nil, false
	}
	return &wShard{Shard: s, env: w.env, lc: w.lc}, true
}

type wShard struct {
	tsdb.Shard
	env *leafEnv
	lc  *leafCase
}

func (w *wShard) IndexDB() index.MetricIndexDatabase {
	if w.lc == nil {
		return w.Shard.IndexDB()
	}
	return &wIndexDB{MetricIndexDatabase: w.Shard.IndexDB(), lc: w.lc, shard: int(w.ShardID())}
}

func (w *wShard) GetDataFamilies(intervalType timeutil.IntervalType, timeRange timeutil.TimeRange) []tsdb.DataFamily {
	fams := w.Shard.GetDataFamilies(intervalType, timeRange)
	lc := w.lc
	if lc == nil {
		lc = w.env.caseOf(timeRange.End)
	}
	if lc == nil {
		return fams
	}
	id := int(w.ShardID())
	if len(fams) == 0 {
		lc.mu.Lock()
		if lc.noFamilies == nil {
			lc.noFamilies = map[int]bool{}
		}
		lc.noFamilies[id] = true
		lc.events = append(lc.events, fmt.Sprintf("shard %d: no data family in the query range (the scan stage has no plan)", id))
		lc.mu.Unlock()
	}
	if lc.Fault[id] == "families-panic" {
		lc.fire(id, "families-panic")
		lc.mu.Lock()
		lc.onReqG = true
		lc.mu.Unlock()
		panic(fmt.Sprintf("c19-leaf-fault families-panic shard %d", id))
	}
	out := make([]tsdb.DataFamily, len(fams))
	for i, f := range fams {
		out[i] = &wFamily{DataFamily: f, lc: lc, shard: id}
	}
	return out
}

type wFamily struct {
	tsdb.DataFamily
	lc    *leafCase
	shard int
}

func (w *wFamily) Filter(ctx *flow.ShardExecuteContext) ([]flow.FilterResultSet, error) {
	w.lc.sawCtx(ctx.StorageExecuteCtx.TaskCtx.Ctx)
	w.lc.gate(w.shard)
	switch w.lc.Fault[w.shard] {
	case "filter-err":
		w.lc.fire(w.shard, "filter-err")
		return nil, fmt.Errorf("c19-leaf-fault filter-err shard %d", w.shard)
	case "filter-panic":
		w.lc.fire(w.shard, "filter-panic")
		panic(fmt.Sprintf("c19-leaf-fault filter-panic shard %d", w.shard))
	case "filter-notfound":
		w.lc.event("shard %d: Filter returns ErrNotFound (ignored by the plan node)", w.shard)
		return nil, fmt.Errorf("c19-leaf shard %d %w", w.shard, constants.ErrNotFound)
	}
	rs, err := w.DataFamily.Filter(ctx)
	out := make([]flow.FilterResultSet, len(rs))
	for i, r := range rs {
		out[i] = &wResultSet{FilterResultSet: r, lc: w.lc, shard: w.shard}
	}
	w.lc.event("shard %d: Filter returned %d result sets err=%v", w.shard, len(rs), err)
	return out, err
}

type wResultSet struct {
	flow.FilterResultSet
	lc    *leafCase
	shard int
}

func (w *wResultSet) Load(ctx *flow.DataLoadContext) flow.DataLoader {
	if w.lc.Fault[w.shard] == "load-panic" {
		w.lc.fire(w.shard, "load-panic")
		panic(fmt.Sprintf("c19-leaf-fault load-panic shard %d", w.shard))
	}
	l := w.FilterResultSet.Load(ctx)
	w.lc.mu.Lock()
	w.lc.loads[w.shard]++
	w.lc.mu.Unlock()
	w.lc.event("shard %d: Load", w.shard)
	return l
}

// --- recording stream (the requester's side of the task stream) --------------------------------

type recResp struct {
	ReqID     string
	ErrMsg    string
	Completed bool
	Payload   int
	Stats     []byte `json:"-"`
	Raw       []byte `json:"-"` // payload bytes, kept only when the stream is asked to (requesting-side phase)
}

type recStream struct {
	grpc.ServerStream
	parent  *recStream // responses are recorded in one place
	keepRaw bool
	ctx     context.Context
	reqs    chan *protoCommonV1.TaskRequest
	mu      sync.Mutex
	resps   map[string][]recResp
}

func (s *recStream) Context() context.Context { return s.ctx }

func (s *recStream) Send(r *protoCommonV1.TaskResponse) error {
	if s.parent != nil {
		return s.parent.Send(r)
	}
	s.mu.Lock()
	rr := recResp{ReqID: r.RequestID, ErrMsg: r.ErrMsg, Completed: r.Completed, Payload: len(r.Payload), Stats: r.Stats}
	if s.keepRaw {
		rr.Raw = append([]byte(nil), r.Payload...)
	}
	s.resps[r.RequestID] = append(s.resps[r.RequestID], rr)
	s.mu.Unlock()
	return nil
}

func (s *recStream) Recv() (*protoCommonV1.TaskRequest, error) {
	r, ok := <-s.reqs
	if !ok {
		return nil, errors.New("stream closed")
	}
	return r, nil
}

func (s *recStream) responses(id string) []recResp {
	s.mu.Lock()
	defer s.mu.Unlock()
	return append([]recResp(nil), s.resps[id]...)
}

// ---------------------------------------------------------------------------------------------

func newLeafEnv(dir string) (*leafEnv, error) {
	cfg := config.NewDefaultStorageBase()
	cfg.TSDB.Dir = dir + "/data"
	cfg.WAL.Dir = dir + "/wal"
	config.SetGlobalStorageConfig(cfg)
	engine, err := tsdb.NewEngine()
	if err != nil {
		return nil, err
	}
	opt := &option.DatabaseOption{
		Intervals: option.Intervals{{Interval: timeutil.Interval(10 * 1000), Retention: timeutil.Interval(30 * 24 * 3600 * 1000)}},
		Behind:    "2h", Ahead: "2h",
	}
	shardIDs := []models.ShardID{0, 1, 2, 3}
	if err := engine.CreateShards(leafDB, opt, append(append([]models.ShardID(nil), shardIDs...), 4, 5)...); err != nil {
		return nil, fmt.Errorf("create shards: %w", err)
	}
	db, _ := engine.GetDatabase(leafDB)
	limits := models.NewDefaultLimits()
	env := &leafEnv{engine: engine, db: db, cases: map[int64]*leafCase{}, byID: map[int]*leafCase{}, deadCases: map[string]string{}}
	now := time.Now().UnixMilli()
	env.t0 = now - now%3600_000 // start of the current hour: one data family
	converter := metric.NewProtoConverter(limits)
	// first half of the points goes to disk, second half stays in the memory database
	for pass := 0; pass < 2; pass++ {
		for _, sid := range shardIDs {
			shard, _ := db.GetShard(sid)
			family, err := shard.GetOrCrateDataFamily(env.t0)
			if err != nil {
				return nil, fmt.Errorf("family: %w", err)
			}
			var buf bytes.Buffer
			for j := 0; j < leafSeries[sid]; j++ {
				for p := 0; p < 3; p++ {
					m := &protoMetricsV1.Metric{
						Namespace: "default-ns", Name: "cpu",
						Timestamp: env.t0 + int64(5*60_000) + int64(pass*60_000) + int64(p*10_000),
						Tags: []*protoMetricsV1.KeyValue{
							{Key: "host", Value: fmt.Sprintf("h%d-%d", sid, j)},
							{Key: "region", Value: "r1"},
						},
						SimpleFields: []*protoMetricsV1.SimpleField{{Name: "f", Type: protoMetricsV1.SimpleFieldType_DELTA_SUM, Value: float64(1 + j)}},
					}
					var row metric.BrokerRow
					if err := converter.ConvertTo(m, &row); err != nil {
						return nil, fmt.Errorf("convert: %w", err)
					}
					if _, err := row.WriteTo(&buf); err != nil {
						return nil, err
					}
				}
			}
			batch := metric.NewStorageBatchRows()
			batch.UnmarshalRows(buf.Bytes())
			if err := family.WriteRows(batch.Rows()); err != nil {
				return nil, fmt.Errorf("write rows: %w", err)
			}
		}
		if pass == 0 {
			if err := db.FlushMeta(); err != nil {
				return nil, fmt.Errorf("flush meta: %w", err)
			}
			db.WaitFlushMetaCompleted()
			for _, sid := range shardIDs {
				shard, _ := db.GetShard(sid)
				if err := shard.FlushIndex(); err != nil {
					return nil, fmt.Errorf("flush index: %w", err)
				}
				shard.WaitFlushIndexCompleted()
				family, _ := shard.GetOrCrateDataFamily(env.t0)
				if err := family.Flush(); err != nil {
					return nil, fmt.Errorf("flush family: %w", err)
				}
			}
		}
	}
	// shard 5: a data family far outside every query range of the workload
	if shard, ok := db.GetShard(5); ok {
		if _, err := shard.GetOrCrateDataFamily(env.t0 - 48*3600_000); err != nil {
			return nil, fmt.Errorf("family of the empty shard: %w", err)
		}
	}
	// the workload needs a healthy metric: schema with the field and both tag keys
	metricID, err := db.MetaDB().GetMetricID("default-ns", "cpu")
	if err != nil {
		return nil, fmt.Errorf("setup: metric id: %w", err)
	}
	schema, err := db.MetaDB().GetSchema(metricID)
	if err != nil || schema == nil || len(schema.Fields) != 1 || len(schema.TagKeys) != 2 {
		return nil, fmt.Errorf("setup: schema of the test metric is not complete: %+v err=%v", schema, err)
	}
	limits.MaxSeriesPerQuery = leafLimit
	db.SetLimits(limits)

	env.fct = rpc.NewTaskServerFactory()
	node := &models.StatelessNode{HostIP: "1.1.1.3", GRPCPort: 8000}
	processor := query.NewLeafTaskProcessor(node, &wEngine{Engine: engine, env: env}, env.fct)
	taskStats := metrics.NewConcurrentStatistics("c19-leaf-task", linmetric.StorageRegistry)
	taskPool := &countPool{Pool: concurrent.NewPool("c19-leaf-task-pool", 32, time.Minute, taskStats), stats: taskStats}
	ep := db.ExecutorPool()
	env.pools = [4]*countPool{
		taskPool,
		{Pool: ep.Filtering, stats: metrics.NewConcurrentStatistics(leafDB+"-filtering", linmetric.StorageRegistry)},
		{Pool: ep.Grouping, stats: metrics.NewConcurrentStatistics(leafDB+"-grouping", linmetric.StorageRegistry)},
		{Pool: ep.Scanner, stats: metrics.NewConcurrentStatistics(leafDB+"-scanner", linmetric.StorageRegistry)},
	}
	env.execP = &tsdb.ExecutorPool{Filtering: env.pools[1], Grouping: env.pools[2], Scanner: env.pools[3]}
	qcfg := config.Query{QueryConcurrency: 32, IdleTimeout: ltoml.Duration(time.Minute), Timeout: ltoml.Duration(2 * time.Hour)} // far away: a request deadline must never decide a case
	env.handler = query.NewTaskHandler(qcfg, env.fct, processor, taskPool)
	env.stream = &recStream{
		ctx:   metadata.NewIncomingContext(context.Background(), metadata.Pairs(constants.RPCMetaKeyLogicNode, leafReceiver)),
		reqs:  make(chan *protoCommonV1.TaskRequest),
		resps: map[string][]recResp{},
	}
	go func() { _ = env.handler.Handle(env.stream) }()
	// a second handler over the same processor and pools whose requests have a short deadline: used for requests that
	// must be answered with an error anyway, to see what the leaf still sends when the deadline passes
	qshort := qcfg
	qshort.Timeout = ltoml.Duration(leafShortTimeout)
	env.short = &recStream{
		parent: env.stream,
		ctx:    metadata.NewIncomingContext(context.Background(), metadata.Pairs(constants.RPCMetaKeyLogicNode, leafReceiverShort)),
		reqs:   make(chan *protoCommonV1.TaskRequest),
	}
	shortHandler := query.NewTaskHandler(qshort, env.fct, processor, taskPool)
	go func() { _ = shortHandler.Handle(env.short) }()
	return env, nil
}

// ---------------------------------------------------------------------------------------------
// case generation

func leafCaseOf(seed int64, idx int, free bool) *leafCase {
	r := newRandSrc(seed*31337 + int64(idx)*2654435761 + 99)
	lc := &leafCase{ID: idx, Fault: map[int]string{}, MetaFault: map[string]string{}, IndexFault: map[int]string{}, Gated: !free}
	switch x := r.intn(100); {
	case x < 76:
		lc.Kind = "data"
	case x < 84:
		lc.Kind = "metadata"
	case x < 88:
		lc.Kind = "no-metric"
	case x < 91:
		lc.Kind = "bad-plan"
	case x < 94:
		lc.Kind = "not-leaf"
	case x < 97:
		lc.Kind = "no-db"
	default:
		lc.Kind = "bad-payload"
	}
	lc.Query = []string{"plain", "cond", "groupby", "groupby"}[r.intn(4)]
	lc.Explain = free || r.intn(4) == 0 // ungated requests may be gone before the harness can look at their pipeline: take the stats from the response
	// shards: at least two
	perm := []int{0, 1, 2, 3}
	for i := 3; i > 0; i-- {
		j := r.intn(i + 1)
		perm[i], perm[j] = perm[j], perm[i]
	}
	n := 2 + r.intn(3)
	if r.intn(5) < 2 {
		// 40%: leave the big shard out, so that "no shard fails" and "only an injected fault" are well represented
		perm = []int{0, 1, 3}
		for i := 2; i > 0; i-- {
			j := r.intn(i + 1)
			perm[i], perm[j] = perm[j], perm[i]
		}
		n = 2 + r.intn(2)
	}
	lc.Shards = append([]int(nil), perm[:n]...)
	sort.Ints(lc.Shards)
	// faults: none / one / two shards
	nf := []int{0, 0, 1, 1, 1, 2}[r.intn(6)]
	kinds := []string{"filter-err", "filter-err", "filter-panic", "load-panic", "families-panic", "filter-notfound"}
	for k := 0; k < nf && k < len(lc.Shards); k++ {
		s := lc.Shards[r.intn(len(lc.Shards))]
		if s == 2 {
			continue // shard 2 already fails through the series limit
		}
		lc.Fault[s] = kinds[r.intn(len(kinds))]
	}
	// faults at the metadata / index database calls of the leaf path
	outcomes := []string{"err", "panic", "notfound"}
	if lc.Kind == "data" {
		switch x := r.intn(100); {
		case x < 8:
			pts := []string{"get-metric-id", "get-schema"}
			if lc.Query == "cond" {
				pts = append(pts, "find-tag-values", "find-tag-values")
			}
			lc.MetaFault[pts[r.intn(len(pts))]] = outcomes[r.intn(3)]
		case x < 30:
			s := lc.Shards[r.intn(len(lc.Shards))]
			pt := "series-for-metric"
			switch lc.Query {
			case "cond":
				pt = "series-by-tag-values"
			case "groupby":
				pt = []string{"series-for-metric", "grouping-context", "grouping-context"}[r.intn(3)]
			}
			if s != 2 && lc.Fault[s] == "" {
				lc.IndexFault[s] = pt + ":" + outcomes[r.intn(3)]
			}
		}
		if lc.Query == "groupby" && r.intn(8) == 0 {
			// A panic inside Stage.Complete() as the ONLY failure of the request, where the leaf does not wait for the
			// grouping tag values afterwards: no shard has series of the metric (ignored not-found), so nothing fails in
			// any stage's plan, and the MetaDB() call of the collection in the last scan stage's Complete() panics.
			lc.Fault = map[int]string{}
			lc.MetaFault = map[string]string{"collect-metadb": "panic"}
			lc.IndexFault = map[int]string{}
			for _, s := range lc.Shards {
				lc.IndexFault[s] = "series-for-metric:notfound"
			}
		} else if lc.Query == "groupby" && r.intn(5) < 2 {
			// the collection of the grouping tag values runs after the last scan/grouping stage, outside any stage
			lc.MetaFault["collect-tag-values"] = []string{"err", "err", "notfound", "panic"}[r.intn(4)]
			lc.Short = true
		}
	}
	// shards without a data family in the query range next to the others (own random stream: the rest of the case list
	// is what it was without them); not in the case whose only failure must be the collection in the last Complete()
	if re := newRandSrc(seed*15485863 + int64(idx)*32452843 + 7); lc.MetaFault["collect-metadb"] == "" && re.intn(3) == 0 {
		switch re.intn(4) {
		case 0:
			lc.Empty = []int{4}
		case 1:
			lc.Empty = []int{5}
		default:
			lc.Empty = []int{4, 5}
		}
	}
	// release order
	lc.Release = append([]int(nil), lc.Shards...)
	for i := len(lc.Release) - 1; i > 0; i-- {
		j := r.intn(i + 1)
		lc.Release[i], lc.Release[j] = lc.Release[j], lc.Release[i]
	}
	// half of the cases: make a failing shard finish first (the interesting order), otherwise random
	if r.intn(2) == 0 {
		for i, s := range lc.Release {
			if lc.failing(s) {
				lc.Release[0], lc.Release[i] = lc.Release[i], lc.Release[0]
				break
			}
		}
	}
	lc.Paced = r.intn(10) != 0
	return lc
}

// failing: the shard is set up to fail (injected fault or more series than the limit allows).
func (lc *leafCase) failing(s int) bool {
	f := lc.Fault[s]
	if f != "" && f != "filter-notfound" {
		return true
	}
	if xf := lc.IndexFault[s]; xf != "" && !strings.HasSuffix(xf, ":notfound") {
		return true
	}
	return leafSeries[s]+1 > leafLimit
}

// risky: the grouping tag value collection is set up to panic and a shard's pooled stage is set up to panic too.
func (lc *leafCase) risky() bool {
	if lc.Kind != "data" || lc.MetaFault["collect-tag-values"] != "panic" {
		return false
	}
	for _, f := range lc.Fault {
		if f == "filter-panic" || f == "load-panic" {
			return true
		}
	}
	for _, f := range lc.IndexFault {
		if strings.HasSuffix(f, ":panic") {
			return true
		}
	}
	return false
}

func (lc *leafCase) key() string {
	var fs []string
	for _, s := range lc.Shards {
		fs = append(fs, fmt.Sprintf("%d:%s:%s", s, lc.Fault[s], lc.IndexFault[s]))
	}
	return hashKey("leaf", lc.Kind, lc.Query, strings.Join(fs, ","), fmt.Sprint(lc.MetaFault), fmt.Sprint(lc.Release), fmt.Sprint(lc.Gated, lc.Paced), fmt.Sprint(lc.Empty))
}

// leafOutcome is what the leaf oracle judges.
type leafOutcome struct {
	Case      *leafCase                  `json:"case"`
	ReqID     string                     `json:"request_id"`
	Responses []recResp                  `json:"responses"`
	Events    []string                   `json:"events"`
	Fired     map[int]string             `json:"faults_fired"`
	Quiescent bool                       `json:"quiescent"`
	Watchdog  string                     `json:"watchdog,omitempty"`
	Stats     []*commonmodels.StageStats `json:"stage_stats,omitempty"`
	// Released: the shards whose gate the driver opened while they were parked, in order.  Ordered: the pools had
	// settled (every other task of the request consumed) before each of these gates was opened, so the stages of a
	// shard released later completed - including the state machine's count-down - after those of the earlier ones.
	Released []int  `json:"released_in_order,omitempty"`
	Ordered  bool   `json:"order_is_logical"`
	Deadlock string `json:"deadlocked_goroutine,omitempty"` // stack of a pool worker waiting for ever for this request's state machine
	CtxDone  string `json:"task_context_done,omitempty"`    // Err() of the request's task context at the end
	OnReqG   bool   `json:"panic_on_request_goroutine,omitempty"`
	Ignored  int    `json:"not_found_ignored,omitempty"`
	// NoFamilies: shards of the request for which GetDataFamilies returned nothing (their scan stage has no plan).
	NoFamilies []int `json:"shards_without_family_in_range,omitempty"`
	// Early: the first observation (pools settled, i.e. a logical point of the schedule) at which a response of the
	// request existed while scan stages of other shards were still parked inside their Filter operator.
	Early *leafEarly `json:"response_while_shards_parked,omitempty"`
	// ParkedWithEmpty: at the first settled point shards were parked at their gate and an empty shard's stage had been planned
	ParkedWithEmpty bool `json:"-"`
}

type leafEarly struct {
	Responses   int      `json:"responses"`
	Parked      []int    `json:"shards_parked_in_filter"`
	Released    []int    `json:"gates_opened_before"`
	PanicsFired []string `json:"panics_fired_before,omitempty"`
}

// observeEarly is called at settled points of a gated request (every task on the four pools consumed or parked at a gate).
func (e *leafEnv) observeEarly(lc *leafCase, out *leafOutcome) {
	lc.mu.Lock()
	var parked []int
	for s := range lc.parked {
		parked = append(parked, s)
	}
	var panics []string
	for _, f := range lc.fired {
		if strings.Contains(f, "panic") {
			panics = append(panics, f)
		}
	}
	if lc.onReqG {
		panics = append(panics, "panic on the request goroutine")
	}
	empties := len(lc.noFamilies)
	lc.mu.Unlock()
	sort.Ints(parked)
	if len(parked) > 0 && empties > 0 {
		out.ParkedWithEmpty = true
	}
	if out.Early != nil || len(parked) == 0 {
		return
	}
	if n := len(e.stream.responses(out.ReqID)); n > 0 {
		out.Early = &leafEarly{Responses: n, Parked: parked, Released: append([]int(nil), out.Released...), PanicsFired: panics}
	}
}

func (e *leafEnv) run(lc *leafCase) *leafOutcome {
	lc.parked = map[int]chan struct{}{}
	lc.arrived = map[int]bool{}
	lc.fired = map[int]string{}
	lc.loads = map[int]int{}
	lc.env = e
	out := &leafOutcome{Case: lc, ReqID: fmt.Sprintf("c19-req-%d-%d", lc.ID, time.Now().UnixNano()%1000)}
	end := e.t0 + int64(30*60_000) + int64(lc.ID%6000)*10_000
	e.mu.Lock()
	e.cases[end] = lc
	e.mu.Unlock()
	defer func() {
		e.mu.Lock()
		delete(e.cases, end)
		e.mu.Unlock()
	}()

	all := append(append([]int(nil), lc.Shards...), lc.Empty...)
	sort.Ints(all)
	// (the position of the empty shards among the targets varies with the case: first, last, in between)
	if len(lc.Empty) > 0 && lc.ID%3 == 1 {
		all = append(append([]int(nil), lc.Empty...), lc.Shards...)
	}
	shardIDs := make([]models.ShardID, len(all))
	for i, s := range all {
		shardIDs[i] = models.ShardID(s)
	}
	receiver, stream := leafReceiver, e.stream
	if lc.Short {
		receiver, stream = leafReceiverShort, e.short
	}
	e.mu.Lock()
	e.byID[lc.ID] = lc
	e.mu.Unlock()
	defer func() {
		e.mu.Lock()
		delete(e.byID, lc.ID)
		e.mu.Unlock()
	}()
	plan := &models.PhysicalPlan{Database: fmt.Sprintf("%s#%d", leafDB, lc.ID), Targets: []*models.Target{{Indicator: leafNode, ShardIDs: shardIDs}}, Receivers: []string{receiver}}
	req := &protoCommonV1.TaskRequest{RequestID: out.ReqID, RequestType: protoCommonV1.RequestType_Data}
	qsql := "select f from cpu"
	switch lc.Query {
	case "cond":
		qsql = "select f from cpu where region='r1'"
	case "groupby":
		qsql = "select f from cpu group by host"
	}
	if lc.Kind == "no-metric" {
		qsql = strings.Replace(qsql, "cpu", "nosuchmetric", 1)
	}
	switch lc.Kind {
	case "data", "no-metric", "bad-payload", "not-leaf", "no-db":
		st, err := sql.Parse(qsql)
		if err != nil {
			out.Watchdog = "harness: cannot parse " + qsql + ": " + err.Error()
			return out
		}
		q := st.(*stmt.Query)
		q.Namespace = "default-ns"
		q.Explain = lc.Explain
		q.TimeRange = timeutil.TimeRange{Start: e.t0, End: end}
		q.Interval = timeutil.Interval(10_000)
		q.StorageInterval = timeutil.Interval(10_000)
		q.IntervalRatio = 1
		req.Payload = encoding.JSONMarshal(q)
	case "metadata":
		req.RequestType = protoCommonV1.RequestType_Metadata
		types := []stmt.MetricMetadataType{stmt.Metric, stmt.TagKey, stmt.Field, stmt.Namespace}
		md := &stmt.MetricMetadata{Namespace: "default-ns", MetricName: "cpu", Type: types[lc.ID%len(types)], Limit: 100}
		if lc.ID%7 == 0 {
			md.MetricName = "nosuchmetric"
		}
		req.Payload = encoding.JSONMarshal(md)
	}
	switch lc.Kind {
	case "bad-plan":
		req.PhysicalPlan = []byte("{not json")
	case "not-leaf":
		plan.Targets[0].Indicator = "9.9.9.9:1"
		req.PhysicalPlan = encoding.JSONMarshal(plan)
	case "no-db":
		plan.Database = "nosuchdb"
		req.PhysicalPlan = encoding.JSONMarshal(plan)
	case "bad-payload":
		req.Payload = []byte{1, 2, 3}
		req.PhysicalPlan = encoding.JSONMarshal(plan)
	default:
		req.PhysicalPlan = encoding.JSONMarshal(plan)
	}

	defer func() {
		e.stream.mu.Lock()
		delete(e.stream.resps, out.ReqID)
		e.stream.mu.Unlock()
	}()

	deadline := time.Now().Add(30 * time.Second)
	e.sent.Add(1)
	stream.reqs <- req

	// settled = the request was handed to the task pool and every task on the four pools has finished or waits at a gate
	if !e.waitSettled(deadline) {
		out.Watchdog = "pools did not settle after the request was sent"
	}
	pipeline := query.GetPipelineManager().GetPipeline(out.ReqID)
	if lc.Gated && out.Watchdog == "" {
		e.observeEarly(lc, out)
	}
	if lc.Gated && out.Watchdog == "" {
		out.Ordered = lc.Paced
		for _, s := range lc.Release {
			if !lc.release(s) {
				continue
			}
			out.Released = append(out.Released, s)
			if lc.Paced {
				// let the released shard's chain of stages run out before the next gate opens
				if !e.waitSettled(deadline) {
					out.Watchdog = "pools did not settle after a gate was opened"
					break
				}
				e.observeEarly(lc, out)
			}
		}
	}
	lc.mu.Lock()
	lc.open = true
	var rest []int
	for s := range lc.parked {
		rest = append(rest, s)
	}
	lc.mu.Unlock()
	for _, s := range rest {
		lc.release(s)
	}
	// every gate of this request is open: when the pools settle again nothing of this request can still run
	if out.Watchdog == "" && !e.waitSettled(deadline) {
		out.Watchdog = "pools did not settle after all gates were opened"
	}
	// A request with the short deadline is watched until its task context is done (released by the guarded
	// SendResponse, or the deadline passed) and the pools have settled after that: only then nothing of the request
	// can still send anything.
	lc.mu.Lock()
	taskCtx := lc.taskCtx
	lc.mu.Unlock()
	if lc.Short && taskCtx != nil && out.Watchdog == "" {
		select {
		case <-taskCtx.Done():
			out.CtxDone = taskCtx.Err().Error()
		case <-time.After(time.Until(deadline)):
			out.Watchdog = "the request's task context is neither released nor past its deadline"
		}
		if out.Watchdog == "" && !e.waitSettled(deadline) {
			out.Watchdog = "pools did not settle after the request's context was done"
		}
	} else if taskCtx != nil && taskCtx.Err() != nil {
		out.CtxDone = taskCtx.Err().Error()
	}
	// the pool counts a panicking task as finished just before it calls the task's panic handler (which completes
	// the stage and may send the response): only that window is covered by a grace period
	lc.mu.Lock()
	panicFired := false
	for _, f := range lc.fired {
		if strings.Contains(f, "panic") {
			panicFired = true
		}
	}
	lc.mu.Unlock()
	// (no such window exists without a panic: a task is counted as consumed only after its function returned)
	if panicFired && len(e.stream.responses(out.ReqID)) == 0 {
		e.scanDead() // the pools may have settled without a scan: a panicking task counts as consumed
	}
	out.Deadlock = e.deadProof(lc)
	if n := len(e.stream.responses(out.ReqID)); panicFired && n == 0 && out.Deadlock == "" {
		for k := 0; k < 5000 && len(e.stream.responses(out.ReqID)) == 0; k++ {
			time.Sleep(time.Millisecond)
		}
	}
	if panicFired {
		time.Sleep(20 * time.Millisecond)
		if out.Watchdog == "" && !e.waitSettled(deadline) {
			out.Watchdog = "pools did not settle after the grace period"
		}
	}
	out.Quiescent = out.Watchdog == ""
	out.Responses = e.stream.responses(out.ReqID)
	if pipeline != nil {
		out.Stats = pipeline.Stats()
	} else if len(out.Responses) > 0 && len(out.Responses[0].Stats) > 0 {
		// explain: the leaf's own stage stats travel in the response
		ns := &commonmodels.NodeStats{}
		if err := encoding.JSONUnmarshal(out.Responses[0].Stats, ns); err == nil {
			out.Stats = ns.Stages
		}
	}
	lc.mu.Lock()
	out.Events = append([]string(nil), lc.events...)
	out.Fired = map[int]string{}
	for k, v := range lc.fired {
		out.Fired[k] = v
	}
	out.OnReqG = lc.onReqG
	out.Ignored = lc.ignored
	for s := range lc.noFamilies {
		out.NoFamilies = append(out.NoFamilies, s)
	}
	sort.Ints(out.NoFamilies)
	lc.mu.Unlock()
	return out
}

// judgeLeaf is the oracle of one leaf request.
func judgeLeaf(out *leafOutcome) (vs []viol, facts map[string]int) {
	facts = map[string]int{"leaf_requests": 1}
	lc := out.Case
	add := func(class, format string, args ...interface{}) {
		vs = append(vs, viol{Class: class, Msg: fmt.Sprintf(format, args...)})
	}
	if out.Watchdog != "" {
		return vs, facts
	}
	facts["leaf_requests_"+lc.Kind] = 1
	n := len(out.Responses)
	facts["leaf_responses"] = n
	if n == 0 && out.Deadlock != "" {
		add(clsLeafDeadlock, "request %s got no response: %s panicked inside Stage.Complete(), which pipelineStateMachine.completeStage calls while holding its mutex; "+
			"the pool's panic handler called completeStage again on the same goroutine, which now waits for ever for the mutex its own lower frame holds "+
			"(goroutine stack in the witness)", out.ReqID, out.Fired[-1])
		facts["leaf_state_machine_deadlocks"] = 1
		return vs, facts
	}
	if n == 0 {
		add(clsLeafNone+"/"+lc.Kind, "request %s (%s) got no response although every gate was opened and every task handed to the four pools was consumed", out.ReqID, lc.Kind)
		return vs, facts
	}
	if n > 1 {
		add(clsLeafTwo+"/"+lc.Kind, "request %s (%s) got %d responses: %+v", out.ReqID, lc.Kind, n, out.Responses)
	}
	if len(out.NoFamilies) > 0 {
		facts["leaf_requests_with_shard_without_family_in_range"] = 1
		facts["leaf_shard_scan_stages_without_plan"] = len(out.NoFamilies)
		if out.ParkedWithEmpty {
			facts["leaf_shard_without_family_planned_while_other_shards_parked"] = 1
		}
	}
	// only after every started stage has finished (when no stage panicked): a response while the scan stage of a shard
	// is still inside its Filter operator.  (Not for requests with the short deadline: their deadline may answer.)
	if out.Early != nil && len(out.Early.PanicsFired) == 0 && !lc.Short {
		add(clsLeafEarly, "request %s (%s) was answered (%d responses, error %q) while the scan stages of shards %v were still parked inside their Filter operator "+
			"(gates opened before: %v) and nothing had panicked; shards of the request without a data family in the range: %v",
			out.ReqID, lc.Kind, out.Early.Responses, out.Responses[0].ErrMsg, out.Early.Parked, out.Early.Released, out.NoFamilies)
	}
	resp := out.Responses[0]
	if !resp.Completed {
		add(clsLeafIncomplete, "the only response of request %s is not marked completed", out.ReqID)
	}
	switch lc.Kind {
	case "bad-plan", "not-leaf", "no-db", "bad-payload", "no-metric":
		if resp.ErrMsg == "" {
			add(clsLeafBadReq+"/"+lc.Kind, "request of kind %s was answered without an error message", lc.Kind)
		} else {
			facts["leaf_error_responses"] = 1
		}
		return vs, facts
	case "metadata":
		return vs, facts
	}
	// data request: which shards failed (observed: the injected fault fired; or by construction: series > limit and the shard's scan ran)
	var failed []string
	for _, s := range lc.Shards {
		if f, ok := out.Fired[s]; ok {
			failed = append(failed, fmt.Sprintf("shard %d (%s)", s, f))
			facts["leaf_fault_fired_"+f]++
		} else if tooManySeries(out, s) {
			failed = append(failed, fmt.Sprintf("shard %d (too many series: %d > limit %d)", s, leafSeries[s]+1, leafLimit))
			facts["leaf_fault_fired_too-many-series"]++
		}
		if lc.Fault[s] == "filter-notfound" {
			facts["leaf_shard_not_found_ignored"]++
		}
	}
	// request level: a metadata database call failed (root stage lookups, or the grouping tag value collection that
	// runs after the last scan/grouping stage outside any stage)
	reqLevel := ""
	if f, ok := out.Fired[-1]; ok {
		reqLevel = f
		failed = append(failed, "request level ("+f+")")
		facts["leaf_fault_fired_"+f]++
	}
	facts["leaf_not_found_ignored_at_index_calls"] = out.Ignored
	if lc.Query == "groupby" {
		facts["leaf_requests_group_by"] = 1
	}
	if lc.Short {
		facts["leaf_requests_watched_until_context_done"] = 1
		if out.CtxDone != "" {
			facts["leaf_request_context_done_"+strings.ReplaceAll(out.CtxDone, " ", "_")] = 1
		}
	}
	switch {
	case len(failed) > 0:
		facts["leaf_requests_with_failing_shard"] = 1
		if len(out.NoFamilies) > 0 {
			facts["leaf_requests_with_failing_shard_and_shard_without_family"] = 1
		}
		order, _, haveStats := stageOrder(out)
		toldStateMachine := haveStats && strings.Contains(order, "=Error")
		// Which stage the state machine counted down last is known only from the schedule the harness enforced: in a
		// paced request the shard whose gate was opened last ran alone, after every other task had been consumed.
		// (The end times in the stage stats are taken before the count-down and prove nothing under preemption.)
		failedSet := map[int]bool{}
		for _, s := range lc.Shards {
			if _, ok := out.Fired[s]; ok || (tooManySeries(out, s)) {
				failedSet[s] = true
			}
		}
		orderKnown := out.Ordered && len(out.Released) == len(lc.Shards) && !out.OnReqG && reqLevel == ""
		failedLast := false
		if orderKnown {
			failedLast = failedSet[out.Released[len(out.Released)-1]]
			if failedLast {
				facts["leaf_failing_stage_finished_last"] = 1
			} else {
				facts["leaf_failing_stage_not_last"] = 1
			}
		} else {
			facts["leaf_failing_stage_order_unknown"] = 1
		}
		if resp.ErrMsg == "" {
			cls := clsLeafLostOther
			switch {
			case out.OnReqG:
				cls = clsLeafLostRecover
			case reqLevel != "" && len(failed) == 1:
				cls = clsLeafLostReqLevel + "/" + strings.SplitN(reqLevel, ":", 2)[0]
			case haveStats && !toldStateMachine:
				cls = clsLeafLostOther // the state machine never heard of a failure: not the "forgotten because not last" defect
			case !orderKnown:
				cls = clsLeafLostUnknown
			case !failedLast:
				cls = clsLeafLostNotLast
			default:
				cls = clsLeafLostLast
			}
			add(cls, "request %s: %s failed, but the single response carries no error (payload %d bytes): the failure was turned into a successful partial answer; "+
				"gates opened in order %v (logical order: %v); stages by recorded end time: %s", out.ReqID, strings.Join(failed, ", "), resp.Payload, out.Released, orderKnown, order)
		} else {
			facts["leaf_error_responses"] = 1
		}
	default:
		facts["leaf_requests_all_shards_ok"] = 1
		deadlineErr := lc.Short && out.CtxDone == context.DeadlineExceeded.Error() && strings.Contains(resp.ErrMsg, "context deadline exceeded")
		anyIgnored := out.Ignored > 0
		for _, f := range lc.Fault {
			if f == "filter-notfound" {
				anyIgnored = true
			}
		}
		if deadlineErr {
			facts["leaf_deadline_responses"] = 1 // the short deadline passed before the planned fault could fire
		} else if resp.ErrMsg != "" {
			add(clsLeafSpurious, "request %s: no shard failed, but the response carries error %q", out.ReqID, resp.ErrMsg)
		} else if resp.Payload == 0 && !anyIgnored {
			add(clsLeafSpurious+"/empty-payload", "request %s: no shard failed, but the response has no payload", out.ReqID)
		} else {
			facts["leaf_success_responses"] = 1
		}
	}
	return vs, facts
}

func hasFired(out *leafOutcome, what string) bool {
	for _, f := range out.Fired {
		if f == what {
			return true
		}
	}
	return false
}

// tooManySeries: the shard holds more series than the limit allows, its scan got as far as the series limit check
// and the series lookup was not answered with an (ignored) not-found by the harness.
func tooManySeries(out *leafOutcome, s int) bool {
	if strings.HasSuffix(out.Case.IndexFault[s], ":notfound") {
		return false
	}
	return leafSeries[s]+1 > leafLimit && shardScanRan(out, s)
}

func shardScanRan(out *leafOutcome, s int) bool {
	needle := fmt.Sprintf("shard %d: Filter returned", s)
	for _, e := range out.Events {
		if strings.HasPrefix(e, needle) {
			return true
		}
	}
	return false
}

// stageOrder lists the stages by the end time the state machine recorded (set under its mutex in completeStage)
// and reports whether a failed stage was the last one it completed. Only used to name the class of a violation
// and for coverage counters, never for the verdict.
func stageOrder(out *leafOutcome) (order string, failedLast bool, known bool) {
	type st struct {
		id    string
		end   int64
		state string
	}
	var all []st
	var walk func(ss []*commonmodels.StageStats)
	walk = func(ss []*commonmodels.StageStats) {
		for _, s := range ss {
			all = append(all, st{s.Identifier, s.End, s.State})
			walk(s.Children)
		}
	}
	walk(out.Stats)
	if len(all) == 0 {
		return "(stats not available)", false, false
	}
	sort.SliceStable(all, func(i, j int) bool { return all[i].end < all[j].end })
	var parts []string
	for _, s := range all {
		if s.end == 0 {
			return "(a stage has no end time)", false, false
		}
		parts = append(parts, s.id+"="+s.state)
	}
	last := all[len(all)-1]
	if len(all) > 1 && all[len(all)-2].end == last.end {
		return strings.Join(parts, " < "), false, false
	}
	return strings.Join(parts, " < "), last.state == "Error", true
}

// childLeaf: child-leaf <result.json> <case.log> <dir> <mod> <rem> <race:0|1>
func childLeaf(args []string) {
	resFile, logFile, dir := args[0], args[1], args[2]
	mod, _ := strconv.Atoi(args[3])
	rem, _ := strconv.Atoi(args[4])
	race := args[5] == "1"
	// risky: only the requests in which a panic inside Stage.Complete() can meet the pool's panic handler (such a
	// panic is not recovered by anybody and ends the process); all other children leave these requests out
	risky := len(args) > 6 && args[6] == "risky"
	seed := int64(1)
	if s := os.Getenv("VERIF_SEED"); s != "" {
		if v, err := strconv.ParseInt(s, 10, 64); err == nil {
			seed = v
		}
	}
	quick := os.Getenv("VERIF_TIER") != "thorough"
	a := newAgg()
	lf, err := os.Create(logFile)
	if err != nil {
		fmt.Println("cannot create case log:", err)
		os.Exit(3)
	}
	var lmu sync.Mutex
	logf := func(s string) {
		lmu.Lock()
		_, _ = lf.WriteString(s + "\n")
		lmu.Unlock()
	}
	_ = os.MkdirAll(dir, 0o755)
	if race {
		// First use of the process-wide PipelineManager from concurrent goroutines, as the task-pool workers of a
		// fresh storage node (leafTaskProcessor.processDataSearch) and concurrent exec() callers on a broker do.
		start := make(chan struct{})
		var wg sync.WaitGroup
		for k := 0; k < 16; k++ {
			wg.Add(1)
			go func() {
				defer wg.Done()
				<-start
				_ = query.GetPipelineManager().GetPipeline("c19-first-use")
			}()
		}
		close(start)
		wg.Wait()
		a.count("pipeline_manager_concurrent_first_use", 1)
	}
	var env *leafEnv
	for attempt := 0; attempt < 3; attempt++ {
		env, err = newLeafEnv(fmt.Sprintf("%s/e%d", dir, attempt))
		if err == nil {
			// probe: healthy requests over the small shards must be answered with data before any case runs.  They are the
			// first requests of the process and are sent as one concurrent burst, like the first queries reaching a fresh
			// node: lazily initialised process-wide state of the query path (PipelineManager) is first touched here.
			qs := []string{"plain", "cond", "groupby", "plain", "cond", "groupby", "plain", "plain"}
			errs := make([]error, len(qs))
			start := make(chan struct{})
			var wg sync.WaitGroup
			for k, q := range qs {
				wg.Add(1)
				go func(k int, q string) {
					defer wg.Done()
					probe := &leafCase{ID: 5990 + k, Kind: "data", Query: q, Shards: []int{0, 1, 3}, Fault: map[int]string{}, Release: []int{0, 1, 3}, Explain: true}
					<-start
					out := env.run(probe)
					if len(out.Responses) != 1 || out.Responses[0].ErrMsg != "" || out.Responses[0].Payload == 0 {
						errs[k] = fmt.Errorf("probe request (%s) not answered with data: %+v watchdog=%q", q, out.Responses, out.Watchdog)
					}
				}(k, q)
			}
			close(start)
			wg.Wait()
			for _, e := range errs {
				if e != nil {
					err = e
				}
			}
		}
		if err == nil {
			break
		}
		logf(fmt.Sprintf("leaf engine attempt %d unusable: %v", attempt, err))
		a.count("leaf_engine_setup_retries", 1)
		a.mu.Lock()
		if len(a.res.Samples) < 2 {
			a.res.Samples = append(a.res.Samples, map[string]interface{}{"leaf_engine_setup_unusable": err.Error()})
		}
		a.mu.Unlock()
		if env != nil && env.engine != nil {
			env.engine.Close()
		}
		env = nil
	}
	a.count("leaf_engine_setups", 1)
	a.count("leaf_engine_setup_retries", 0)
	if env == nil {
		a.res.Inconclusive = append(a.res.Inconclusive, "leaf engine setup failed 3 times: "+err.Error())
		a.write(resFile)
		return
	}
	total := 400
	if !quick {
		total = 12000
	}
	if race {
		total = 120
		if !quick {
			total = 1500
		}
	}
	var list []int
	for i := 0; i < total; i++ {
		if i%mod == rem {
			list = append(list, i)
		}
	}
	core0 := 4
	if race {
		core0 = 6
	}
	if risky {
		core0 = 1
	}
	// requests the harness cannot judge cost a watchdog each: after a few of them stop and report what was judged
	unjudged, skipped := 0, 0
	parallel(len(list), core0, func(k int) {
		i := list[k]
		free := race || i%5 == 4
		lc := leafCaseOf(seed, i, free)
		if lc.risky() != risky {
			return
		}
		a.mu.Lock()
		stop := unjudged >= maxUnjudgedCases
		if stop {
			skipped++
		}
		a.mu.Unlock()
		if stop {
			return
		}
		if risky {
			defer a.write(resFile) // keep what was judged so far: the next request may end the process
		}
		logf(fmt.Sprintf("leaf case %d kind=%s query=%s shards=%v empty=%v fault=%v release=%v gated=%v", i, lc.Kind, lc.Query, lc.Shards, lc.Empty, lc.Fault, lc.Release, lc.Gated))
		out := env.run(lc)
		vs, facts := judgeLeaf(out)
		a.mu.Lock()
		a.res.Evals++
		a.key[lc.key()] = struct{}{}
		if len(a.res.Samples) < 1 && facts["leaf_requests_with_failing_shard"] > 0 {
			a.res.Samples = append(a.res.Samples, map[string]interface{}{"leaf_case": lc, "responses": len(out.Responses), "events": out.Events})
		}
		if out.Watchdog != "" {
			unjudged++
			if len(a.res.Inconclusive) < 5 {
				a.res.Inconclusive = append(a.res.Inconclusive, fmt.Sprintf("leaf case %d: %s", i, out.Watchdog))
			}
		}
		a.mu.Unlock()
		for k, v := range facts {
			a.count(k, v)
		}
		for _, v := range vs {
			a.violation(v.Class, v.Msg, func() interface{} { return out })
		}
	})
	if skipped > 0 {
		a.res.Inconclusive = append(a.res.Inconclusive, fmt.Sprintf("%d leaf requests could not be judged (see above); the remaining %d requests of this child were not run", unjudged, skipped))
	}
	a.write(resFile)
	_ = lf.Close()
	os.Exit(0) // do not wait for the engine's background goroutines
}

func parallel(n, workers int, fn func(i int)) {
	var wg sync.WaitGroup
	ch := make(chan int)
	for w := 0; w < workers; w++ {
		wg.Add(1)
		go func() {
			defer wg.Done()
			for i := range ch {
				fn(i)
			}
		}()
	}
	for i := 0; i < n; i++ {
		ch <- i
	}
	close(ch)
	wg.Wait()
}
