package main

import (
	"bytes"
	"context"
	"errors"
	"fmt"
	"os"
	"runtime"
	"sort"
	"strconv"
	"strings"
	"sync"
	"sync/atomic"
	"time"

	"google.golang.org/grpc"
	"google.golang.org/grpc/metadata"

	commonmodels "github.com/lindb/common/models"
	"github.com/lindb/common/pkg/encoding"
	"github.com/lindb/common/pkg/ltoml"
	protoMetricsV1 "github.com/lindb/common/proto/gen/v1/linmetrics"

	"github.com/lindb/lindb/config"
	"github.com/lindb/lindb/constants"
	"github.com/lindb/lindb/flow"
	"github.com/lindb/lindb/internal/concurrent"
	"github.com/lindb/lindb/internal/linmetric"
	"github.com/lindb/lindb/metrics"
	"github.com/lindb/lindb/models"
	"github.com/lindb/lindb/pkg/option"
	"github.com/lindb/lindb/pkg/timeutil"
	protoCommonV1 "github.com/lindb/lindb/proto/gen/v1/common"
	"github.com/lindb/lindb/query"
	"github.com/lindb/lindb/rpc"
	"github.com/lindb/lindb/series/metric"
	"github.com/lindb/lindb/sql"
	"github.com/lindb/lindb/sql/stmt"
	"github.com/lindb/lindb/tsdb"
)

// Violation classes of the leaf workload.
const (
	clsLeafNone        = "C19/leaf/no-response"
	clsLeafTwo         = "C19/leaf/more-than-one-response"
	clsLeafLostNotLast = "C19/leaf/shard-failure-answered-as-success/failed-stage-not-last"
	clsLeafLostLast    = "C19/leaf/shard-failure-answered-as-success/failed-stage-last"
	clsLeafLostUnknown = "C19/leaf/shard-failure-answered-as-success/completion-order-unknown"
	clsLeafLostRecover = "C19/leaf/shard-failure-answered-as-success/panic-on-request-goroutine"
	clsLeafLostOther   = "C19/leaf/shard-failure-answered-as-success/other"
	clsLeafSpurious    = "C19/leaf/error-response-without-failure"
	clsLeafBadReq      = "C19/leaf/rejected-request-answered-as-success"
	clsLeafIncomplete  = "C19/leaf/response-not-marked-completed"
)

const (
	leafDB       = "c19db"
	leafNode     = "1.1.1.3:8000" // the leaf (storage) node
	leafReceiver = "1.1.1.1:9000" // the requester (broker) = receiver of the results
	leafLimit    = 20             // max series per query: the big shard exceeds it (real operator error)
)

var leafSeries = []int{3, 5, 40, 8} // series per shard; shard 2 exceeds leafLimit

// ---------------------------------------------------------------------------------------------
// fault/gate control of one request, found by the wrappers through the query's time range

type leafCase struct {
	ID      int            `json:"id"`
	Kind    string         `json:"kind"`  // data | metadata | bad-plan | not-leaf | no-db | bad-payload | no-metric
	Query   string         `json:"query"` // plain | cond | groupby
	Shards  []int          `json:"shards"`
	Fault   map[int]string `json:"fault"` // per shard: filter-err | filter-panic | load-panic | families-panic | filter-notfound
	Release []int          `json:"release"`
	Paced   bool           `json:"paced"` // wait for the released shard's work before opening the next gate
	Gated   bool           `json:"gated"`
	Explain bool           `json:"explain"`

	mu      sync.Mutex
	parked  map[int]chan struct{}
	arrived map[int]bool
	fired   map[int]string // faults that actually fired
	loads   map[int]int
	events  []string
	open    bool // gates disabled (after the response / free mode)
	env     *leafEnv
}

func (lc *leafCase) event(format string, args ...interface{}) {
	lc.mu.Lock()
	lc.events = append(lc.events, fmt.Sprintf(format, args...))
	lc.mu.Unlock()
}

func (lc *leafCase) fire(shard int, what string) {
	lc.mu.Lock()
	lc.fired[shard] = what
	lc.events = append(lc.events, fmt.Sprintf("fault %s fired in shard %d", what, shard))
	lc.mu.Unlock()
}

// gate parks the calling pool worker until the driver releases the shard.
func (lc *leafCase) gate(shard int) {
	lc.mu.Lock()
	if lc.open || !lc.Gated || lc.arrived[shard] {
		lc.arrived[shard] = true
		lc.mu.Unlock()
		return
	}
	ch := make(chan struct{})
	lc.parked[shard] = ch
	lc.arrived[shard] = true
	lc.events = append(lc.events, fmt.Sprintf("shard %d parked at Filter", shard))
	lc.env.parked.Add(1)
	lc.mu.Unlock()
	<-ch
}

// release opens the gate of a shard (driver side); false if the shard is not parked.
func (lc *leafCase) release(shard int) bool {
	lc.mu.Lock()
	ch := lc.parked[shard]
	delete(lc.parked, shard)
	if ch != nil {
		lc.events = append(lc.events, fmt.Sprintf("driver releases shard %d", shard))
		lc.env.parked.Add(-1)
	}
	lc.mu.Unlock()
	if ch != nil {
		close(ch)
	}
	return ch != nil
}

type leafEnv struct {
	engine  tsdb.Engine
	db      tsdb.Database
	fct     rpc.TaskServerFactory
	handler *query.TaskHandler
	stream  *recStream
	t0      int64

	mu    sync.Mutex
	cases map[int64]*leafCase // by TimeRange.End of the request's query

	// exact accounting of the four pools a request runs on: tasks handed to them (counted by a delegating wrapper)
	// against the pools' own consumed/panic/rejected counters
	pools  [4]*countPool
	sent   atomic.Int64 // requests put on the stream
	parked atomic.Int64 // pool workers waiting at a gate
	execP  *tsdb.ExecutorPool
}

// countPool delegates to the real pool and counts the tasks handed to it.
type countPool struct {
	concurrent.Pool
	handed atomic.Int64
	stats  *metrics.ConcurrentStatistics
}

func (p *countPool) Submit(ctx context.Context, task *concurrent.Task) {
	p.handed.Add(1)
	p.Pool.Submit(ctx, task)
}

func (p *countPool) finished() int64 {
	return int64(p.stats.TasksConsumed.Get() + p.stats.TasksPanic.Get() + p.stats.TasksRejected.Get())
}

type poolSnap struct {
	sent, parked int64
	h, f         [4]int64
}

func (e *leafEnv) snap() poolSnap {
	var s poolSnap
	for i, p := range e.pools {
		s.f[i] = p.finished()
	}
	for i, p := range e.pools {
		s.h[i] = p.handed.Load()
	}
	s.sent = e.sent.Load()
	s.parked = e.parked.Load()
	return s
}

// settled: every request was handed to the task pool and every task ever handed to one of the pools has finished,
// except the workers that wait at a gate.  Decided on two identical consecutive snapshots of monotonic counters.
func (e *leafEnv) settled() bool {
	a := e.snap()
	b := e.snap()
	if a != b {
		return false
	}
	if a.sent != a.h[0] {
		return false
	}
	var live int64
	for i := range a.h {
		live += a.h[i] - a.f[i]
	}
	return live == a.parked
}

func (e *leafEnv) waitSettled(deadline time.Time) bool {
	for n := 0; ; n++ {
		if e.settled() {
			return true
		}
		if time.Now().After(deadline) {
			return false
		}
		if n < 50 {
			runtime.Gosched()
		} else {
			time.Sleep(100 * time.Microsecond)
		}
	}
}

func (e *leafEnv) caseOf(end int64) *leafCase {
	e.mu.Lock()
	defer e.mu.Unlock()
	return e.cases[end]
}

// --- wrappers: embed the real objects, add gates and faults at the interface boundary ---------

type wEngine struct {
	tsdb.Engine
	env *leafEnv
}

func (w *wEngine) GetDatabase(name string) (tsdb.Database, bool) {
	db, ok := w.Engine.GetDatabase(name)
	if !ok {
		return nil, false
	}
	return &wDatabase{Database: db, env: w.env}, true
}

type wDatabase struct {
	tsdb.Database
	env *leafEnv
}

func (w *wDatabase) ExecutorPool() *tsdb.ExecutorPool { return w.env.execP }

func (w *wDatabase) GetShard(id models.ShardID) (tsdb.Shard, bool) {
	s, ok := w.Database.GetShard(id)
	if !ok {
		return nil, false
	}
	return &wShard{Shard: s, env: w.env}, true
}

type wShard struct {
	tsdb.Shard
	env *leafEnv
}

func (w *wShard) GetDataFamilies(intervalType timeutil.IntervalType, timeRange timeutil.TimeRange) []tsdb.DataFamily {
	fams := w.Shard.GetDataFamilies(intervalType, timeRange)
	lc := w.env.caseOf(timeRange.End)
	if lc == nil {
		return fams
	}
	id := int(w.ShardID())
	if lc.Fault[id] == "families-panic" {
		lc.fire(id, "families-panic")
		panic(fmt.Sprintf("c19-leaf-fault families-panic shard %d", id))
	}
	out := make([]tsdb.DataFamily, len(fams))
	for i, f := range fams {
		out[i] = &wFamily{DataFamily: f, lc: lc, shard: id}
	}
	return out
}

type wFamily struct {
	tsdb.DataFamily
	lc    *leafCase
	shard int
}

func (w *wFamily) Filter(ctx *flow.ShardExecuteContext) ([]flow.FilterResultSet, error) {
	w.lc.gate(w.shard)
	switch w.lc.Fault[w.shard] {
	case "filter-err":
		w.lc.fire(w.shard, "filter-err")
		return nil, fmt.Errorf("c19-leaf-fault filter-err shard %d", w.shard)
	case "filter-panic":
		w.lc.fire(w.shard, "filter-panic")
		panic(fmt.Sprintf("c19-leaf-fault filter-panic shard %d", w.shard))
	case "filter-notfound":
		w.lc.event("shard %d: Filter returns ErrNotFound (ignored by the plan node)", w.shard)
		return nil, fmt.Errorf("c19-leaf shard %d %w", w.shard, constants.ErrNotFound)
	}
	rs, err := w.DataFamily.Filter(ctx)
	out := make([]flow.FilterResultSet, len(rs))
	for i, r := range rs {
		out[i] = &wResultSet{FilterResultSet: r, lc: w.lc, shard: w.shard}
	}
	w.lc.event("shard %d: Filter returned %d result sets err=%v", w.shard, len(rs), err)
	return out, err
}

type wResultSet struct {
	flow.FilterResultSet
	lc    *leafCase
	shard int
}

func (w *wResultSet) Load(ctx *flow.DataLoadContext) flow.DataLoader {
	if w.lc.Fault[w.shard] == "load-panic" {
		w.lc.fire(w.shard, "load-panic")
		panic(fmt.Sprintf("c19-leaf-fault load-panic shard %d", w.shard))
	}
	l := w.FilterResultSet.Load(ctx)
	w.lc.mu.Lock()
	w.lc.loads[w.shard]++
	w.lc.mu.Unlock()
	w.lc.event("shard %d: Load", w.shard)
	return l
}

// --- recording stream (the requester's side of the task stream) --------------------------------

type recResp struct {
	ReqID     string
	ErrMsg    string
	Completed bool
	Payload   int
	Stats     []byte `json:"-"`
}

type recStream struct {
	grpc.ServerStream
	ctx   context.Context
	reqs  chan *protoCommonV1.TaskRequest
	mu    sync.Mutex
	resps map[string][]recResp
}

func (s *recStream) Context() context.Context { return s.ctx }

func (s *recStream) Send(r *protoCommonV1.TaskResponse) error {
	s.mu.Lock()
	s.resps[r.RequestID] = append(s.resps[r.RequestID], recResp{ReqID: r.RequestID, ErrMsg: r.ErrMsg, Completed: r.Completed, Payload: len(r.Payload), Stats: r.Stats})
	s.mu.Unlock()
	return nil
}

func (s *recStream) Recv() (*protoCommonV1.TaskRequest, error) {
	r, ok := <-s.reqs
	if !ok {
		return nil, errors.New("stream closed")
	}
	return r, nil
}

func (s *recStream) responses(id string) []recResp {
	s.mu.Lock()
	defer s.mu.Unlock()
	return append([]recResp(nil), s.resps[id]...)
}

// ---------------------------------------------------------------------------------------------

func newLeafEnv(dir string) (*leafEnv, error) {
	cfg := config.NewDefaultStorageBase()
	cfg.TSDB.Dir = dir + "/data"
	cfg.WAL.Dir = dir + "/wal"
	config.SetGlobalStorageConfig(cfg)
	engine, err := tsdb.NewEngine()
	if err != nil {
		return nil, err
	}
	opt := &option.DatabaseOption{
		Intervals: option.Intervals{{Interval: timeutil.Interval(10 * 1000), Retention: timeutil.Interval(30 * 24 * 3600 * 1000)}},
		Behind:    "2h", Ahead: "2h",
	}
	shardIDs := []models.ShardID{0, 1, 2, 3}
	if err := engine.CreateShards(leafDB, opt, shardIDs...); err != nil {
		return nil, fmt.Errorf("create shards: %w", err)
	}
	db, _ := engine.GetDatabase(leafDB)
	limits := models.NewDefaultLimits()
	env := &leafEnv{engine: engine, db: db, cases: map[int64]*leafCase{}}
	now := time.Now().UnixMilli()
	env.t0 = now - now%3600_000 // start of the current hour: one data family
	converter := metric.NewProtoConverter(limits)
	// first half of the points goes to disk, second half stays in the memory database
	for pass := 0; pass < 2; pass++ {
		for _, sid := range shardIDs {
			shard, _ := db.GetShard(sid)
			family, err := shard.GetOrCrateDataFamily(env.t0)
			if err != nil {
				return nil, fmt.Errorf("family: %w", err)
			}
			var buf bytes.Buffer
			for j := 0; j < leafSeries[sid]; j++ {
				for p := 0; p < 3; p++ {
					m := &protoMetricsV1.Metric{
						Namespace: "default-ns", Name: "cpu",
						Timestamp: env.t0 + int64(5*60_000) + int64(pass*60_000) + int64(p*10_000),
						Tags: []*protoMetricsV1.KeyValue{
							{Key: "host", Value: fmt.Sprintf("h%d-%d", sid, j)},
							{Key: "region", Value: "r1"},
						},
						SimpleFields: []*protoMetricsV1.SimpleField{{Name: "f", Type: protoMetricsV1.SimpleFieldType_DELTA_SUM, Value: float64(1 + j)}},
					}
					var row metric.BrokerRow
					if err := converter.ConvertTo(m, &row); err != nil {
						return nil, fmt.Errorf("convert: %w", err)
					}
					if _, err := row.WriteTo(&buf); err != nil {
						return nil, err
					}
				}
			}
			batch := metric.NewStorageBatchRows()
			batch.UnmarshalRows(buf.Bytes())
			if err := family.WriteRows(batch.Rows()); err != nil {
				return nil, fmt.Errorf("write rows: %w", err)
			}
		}
		if pass == 0 {
			if err := db.FlushMeta(); err != nil {
				return nil, fmt.Errorf("flush meta: %w", err)
			}
			db.WaitFlushMetaCompleted()
			for _, sid := range shardIDs {
				shard, _ := db.GetShard(sid)
				if err := shard.FlushIndex(); err != nil {
					return nil, fmt.Errorf("flush index: %w", err)
				}
				shard.WaitFlushIndexCompleted()
				family, _ := shard.GetOrCrateDataFamily(env.t0)
				if err := family.Flush(); err != nil {
					return nil, fmt.Errorf("flush family: %w", err)
				}
			}
		}
	}
	// the workload needs a healthy metric: schema with the field and both tag keys
	metricID, err := db.MetaDB().GetMetricID("default-ns", "cpu")
	if err != nil {
		return nil, fmt.Errorf("setup: metric id: %w", err)
	}
	schema, err := db.MetaDB().GetSchema(metricID)
	if err != nil || schema == nil || len(schema.Fields) != 1 || len(schema.TagKeys) != 2 {
		return nil, fmt.Errorf("setup: schema of the test metric is not complete: %+v err=%v", schema, err)
	}
	limits.MaxSeriesPerQuery = leafLimit
	db.SetLimits(limits)

	env.fct = rpc.NewTaskServerFactory()
	node := &models.StatelessNode{HostIP: "1.1.1.3", GRPCPort: 8000}
	processor := query.NewLeafTaskProcessor(node, &wEngine{Engine: engine, env: env}, env.fct)
	taskStats := metrics.NewConcurrentStatistics("c19-leaf-task", linmetric.StorageRegistry)
	taskPool := &countPool{Pool: concurrent.NewPool("c19-leaf-task-pool", 32, time.Minute, taskStats), stats: taskStats}
	ep := db.ExecutorPool()
	env.pools = [4]*countPool{
		taskPool,
		{Pool: ep.Filtering, stats: metrics.NewConcurrentStatistics(leafDB+"-filtering", linmetric.StorageRegistry)},
		{Pool: ep.Grouping, stats: metrics.NewConcurrentStatistics(leafDB+"-grouping", linmetric.StorageRegistry)},
		{Pool: ep.Scanner, stats: metrics.NewConcurrentStatistics(leafDB+"-scanner", linmetric.StorageRegistry)},
	}
	env.execP = &tsdb.ExecutorPool{Filtering: env.pools[1], Grouping: env.pools[2], Scanner: env.pools[3]}
	qcfg := config.Query{QueryConcurrency: 32, IdleTimeout: ltoml.Duration(time.Minute), Timeout: ltoml.Duration(2 * time.Hour)} // far away: a request deadline must never decide a case
	env.handler = query.NewTaskHandler(qcfg, env.fct, processor, taskPool)
	env.stream = &recStream{
		ctx:   metadata.NewIncomingContext(context.Background(), metadata.Pairs(constants.RPCMetaKeyLogicNode, leafReceiver)),
		reqs:  make(chan *protoCommonV1.TaskRequest),
		resps: map[string][]recResp{},
	}
	go func() { _ = env.handler.Handle(env.stream) }()
	return env, nil
}

// ---------------------------------------------------------------------------------------------
// case generation

func leafCaseOf(seed int64, idx int, free bool) *leafCase {
	r := newRandSrc(seed*31337 + int64(idx)*2654435761 + 99)
	lc := &leafCase{ID: idx, Fault: map[int]string{}, Gated: !free}
	switch x := r.intn(100); {
	case x < 76:
		lc.Kind = "data"
	case x < 84:
		lc.Kind = "metadata"
	case x < 88:
		lc.Kind = "no-metric"
	case x < 91:
		lc.Kind = "bad-plan"
	case x < 94:
		lc.Kind = "not-leaf"
	case x < 97:
		lc.Kind = "no-db"
	default:
		lc.Kind = "bad-payload"
	}
	lc.Query = []string{"plain", "plain", "cond", "groupby"}[r.intn(4)]
	lc.Explain = free || r.intn(4) == 0 // ungated requests may be gone before the harness can look at their pipeline: take the stats from the response
	// shards: at least two
	perm := []int{0, 1, 2, 3}
	for i := 3; i > 0; i-- {
		j := r.intn(i + 1)
		perm[i], perm[j] = perm[j], perm[i]
	}
	n := 2 + r.intn(3)
	if r.intn(5) < 2 {
		// 40%: leave the big shard out, so that "no shard fails" and "only an injected fault" are well represented
		perm = []int{0, 1, 3}
		for i := 2; i > 0; i-- {
			j := r.intn(i + 1)
			perm[i], perm[j] = perm[j], perm[i]
		}
		n = 2 + r.intn(2)
	}
	lc.Shards = append([]int(nil), perm[:n]...)
	sort.Ints(lc.Shards)
	// faults: none / one / two shards
	nf := []int{0, 0, 1, 1, 1, 2}[r.intn(6)]
	kinds := []string{"filter-err", "filter-err", "filter-panic", "load-panic", "families-panic", "filter-notfound"}
	for k := 0; k < nf && k < len(lc.Shards); k++ {
		s := lc.Shards[r.intn(len(lc.Shards))]
		if s == 2 {
			continue // shard 2 already fails through the series limit
		}
		lc.Fault[s] = kinds[r.intn(len(kinds))]
	}
	// release order
	lc.Release = append([]int(nil), lc.Shards...)
	for i := len(lc.Release) - 1; i > 0; i-- {
		j := r.intn(i + 1)
		lc.Release[i], lc.Release[j] = lc.Release[j], lc.Release[i]
	}
	// half of the cases: make a failing shard finish first (the interesting order), otherwise random
	if r.intn(2) == 0 {
		for i, s := range lc.Release {
			if lc.failing(s) {
				lc.Release[0], lc.Release[i] = lc.Release[i], lc.Release[0]
				break
			}
		}
	}
	lc.Paced = r.intn(10) != 0
	return lc
}

// failing: the shard is set up to fail (injected fault or more series than the limit allows).
func (lc *leafCase) failing(s int) bool {
	f := lc.Fault[s]
	if f != "" && f != "filter-notfound" {
		return true
	}
	return leafSeries[s]+1 > leafLimit
}

func (lc *leafCase) key() string {
	var fs []string
	for _, s := range lc.Shards {
		fs = append(fs, fmt.Sprintf("%d:%s", s, lc.Fault[s]))
	}
	return hashKey("leaf", lc.Kind, lc.Query, strings.Join(fs, ","), fmt.Sprint(lc.Release), fmt.Sprint(lc.Gated, lc.Paced))
}

// leafOutcome is what the leaf oracle judges.
type leafOutcome struct {
	Case      *leafCase                  `json:"case"`
	ReqID     string                     `json:"request_id"`
	Responses []recResp                  `json:"responses"`
	Events    []string                   `json:"events"`
	Fired     map[int]string             `json:"faults_fired"`
	Quiescent bool                       `json:"quiescent"`
	Watchdog  string                     `json:"watchdog,omitempty"`
	Stats     []*commonmodels.StageStats `json:"stage_stats,omitempty"`
	// Released: the shards whose gate the driver opened while they were parked, in order.  Ordered: the pools had
	// settled (every other task of the request consumed) before each of these gates was opened, so the stages of a
	// shard released later completed - including the state machine's count-down - after those of the earlier ones.
	Released []int `json:"released_in_order,omitempty"`
	Ordered  bool  `json:"order_is_logical"`
}

func (e *leafEnv) run(lc *leafCase) *leafOutcome {
	lc.parked = map[int]chan struct{}{}
	lc.arrived = map[int]bool{}
	lc.fired = map[int]string{}
	lc.loads = map[int]int{}
	lc.env = e
	out := &leafOutcome{Case: lc, ReqID: fmt.Sprintf("c19-req-%d-%d", lc.ID, time.Now().UnixNano()%1000)}
	end := e.t0 + int64(30*60_000) + int64(lc.ID%6000)*10_000
	e.mu.Lock()
	e.cases[end] = lc
	e.mu.Unlock()
	defer func() {
		e.mu.Lock()
		delete(e.cases, end)
		e.mu.Unlock()
	}()

	shardIDs := make([]models.ShardID, len(lc.Shards))
	for i, s := range lc.Shards {
		shardIDs[i] = models.ShardID(s)
	}
	plan := &models.PhysicalPlan{Database: leafDB, Targets: []*models.Target{{Indicator: leafNode, ShardIDs: shardIDs}}, Receivers: []string{leafReceiver}}
	req := &protoCommonV1.TaskRequest{RequestID: out.ReqID, RequestType: protoCommonV1.RequestType_Data}
	qsql := "select f from cpu"
	switch lc.Query {
	case "cond":
		qsql = "select f from cpu where region='r1'"
	case "groupby":
		qsql = "select f from cpu group by host"
	}
	if lc.Kind == "no-metric" {
		qsql = strings.Replace(qsql, "cpu", "nosuchmetric", 1)
	}
	switch lc.Kind {
	case "data", "no-metric", "bad-payload", "not-leaf", "no-db":
		st, err := sql.Parse(qsql)
		if err != nil {
			out.Watchdog = "harness: cannot parse " + qsql + ": " + err.Error()
			return out
		}
		q := st.(*stmt.Query)
		q.Namespace = "default-ns"
		q.Explain = lc.Explain
		q.TimeRange = timeutil.TimeRange{Start: e.t0, End: end}
		q.Interval = timeutil.Interval(10_000)
		q.StorageInterval = timeutil.Interval(10_000)
		q.IntervalRatio = 1
		req.Payload = encoding.JSONMarshal(q)
	case "metadata":
		req.RequestType = protoCommonV1.RequestType_Metadata
		types := []stmt.MetricMetadataType{stmt.Metric, stmt.TagKey, stmt.Field, stmt.Namespace}
		md := &stmt.MetricMetadata{Namespace: "default-ns", MetricName: "cpu", Type: types[lc.ID%len(types)], Limit: 100}
		if lc.ID%7 == 0 {
			md.MetricName = "nosuchmetric"
		}
		req.Payload = encoding.JSONMarshal(md)
	}
	switch lc.Kind {
	case "bad-plan":
		req.PhysicalPlan = []byte("{not json")
	case "not-leaf":
		plan.Targets[0].Indicator = "9.9.9.9:1"
		req.PhysicalPlan = encoding.JSONMarshal(plan)
	case "no-db":
		plan.Database = "nosuchdb"
		req.PhysicalPlan = encoding.JSONMarshal(plan)
	case "bad-payload":
		req.Payload = []byte{1, 2, 3}
		req.PhysicalPlan = encoding.JSONMarshal(plan)
	default:
		req.PhysicalPlan = encoding.JSONMarshal(plan)
	}

	defer func() {
		e.stream.mu.Lock()
		delete(e.stream.resps, out.ReqID)
		e.stream.mu.Unlock()
	}()

	deadline := time.Now().Add(30 * time.Second)
	e.sent.Add(1)
	e.stream.reqs <- req

	// settled = the request was handed to the task pool and every task on the four pools has finished or waits at a gate
	if !e.waitSettled(deadline) {
		out.Watchdog = "pools did not settle after the request was sent"
	}
	pipeline := query.GetPipelineManager().GetPipeline(out.ReqID)
	if lc.Gated && out.Watchdog == "" {
		out.Ordered = lc.Paced
		for _, s := range lc.Release {
			if !lc.release(s) {
				continue
			}
			out.Released = append(out.Released, s)
			if lc.Paced {
				// let the released shard's chain of stages run out before the next gate opens
				if !e.waitSettled(deadline) {
					out.Watchdog = "pools did not settle after a gate was opened"
					break
				}
			}
		}
	}
	lc.mu.Lock()
	lc.open = true
	var rest []int
	for s := range lc.parked {
		rest = append(rest, s)
	}
	lc.mu.Unlock()
	for _, s := range rest {
		lc.release(s)
	}
	// every gate of this request is open: when the pools settle again nothing of this request can still run
	if out.Watchdog == "" && !e.waitSettled(deadline) {
		out.Watchdog = "pools did not settle after all gates were opened"
	}
	// the pool counts a panicking task as finished just before it calls the task's panic handler (which completes
	// the stage and may send the response): only that window is covered by a grace period
	lc.mu.Lock()
	panicFired := false
	for _, f := range lc.fired {
		if strings.Contains(f, "panic") {
			panicFired = true
		}
	}
	lc.mu.Unlock()
	// (no such window exists without a panic: a task is counted as consumed only after its function returned)
	if n := len(e.stream.responses(out.ReqID)); panicFired && n == 0 {
		for k := 0; k < 5000 && len(e.stream.responses(out.ReqID)) == 0; k++ {
			time.Sleep(time.Millisecond)
		}
	}
	if panicFired {
		time.Sleep(20 * time.Millisecond)
		if out.Watchdog == "" && !e.waitSettled(deadline) {
			out.Watchdog = "pools did not settle after the grace period"
		}
	}
	out.Quiescent = out.Watchdog == ""
	out.Responses = e.stream.responses(out.ReqID)
	if pipeline != nil {
		out.Stats = pipeline.Stats()
	} else if len(out.Responses) > 0 && len(out.Responses[0].Stats) > 0 {
		// explain: the leaf's own stage stats travel in the response
		ns := &commonmodels.NodeStats{}
		if err := encoding.JSONUnmarshal(out.Responses[0].Stats, ns); err == nil {
			out.Stats = ns.Stages
		}
	}
	lc.mu.Lock()
	out.Events = append([]string(nil), lc.events...)
	out.Fired = map[int]string{}
	for k, v := range lc.fired {
		out.Fired[k] = v
	}
	lc.mu.Unlock()
	return out
}

// judgeLeaf is the oracle of one leaf request.
func judgeLeaf(out *leafOutcome) (vs []viol, facts map[string]int) {
	facts = map[string]int{"leaf_requests": 1}
	lc := out.Case
	add := func(class, format string, args ...interface{}) {
		vs = append(vs, viol{Class: class, Msg: fmt.Sprintf(format, args...)})
	}
	if out.Watchdog != "" {
		return vs, facts
	}
	facts["leaf_requests_"+lc.Kind] = 1
	n := len(out.Responses)
	facts["leaf_responses"] = n
	if n == 0 {
		add(clsLeafNone+"/"+lc.Kind, "request %s (%s) got no response although every gate was opened and every task handed to the four pools was consumed", out.ReqID, lc.Kind)
		return vs, facts
	}
	if n > 1 {
		add(clsLeafTwo+"/"+lc.Kind, "request %s (%s) got %d responses: %+v", out.ReqID, lc.Kind, n, out.Responses)
	}
	resp := out.Responses[0]
	if !resp.Completed {
		add(clsLeafIncomplete, "the only response of request %s is not marked completed", out.ReqID)
	}
	switch lc.Kind {
	case "bad-plan", "not-leaf", "no-db", "bad-payload", "no-metric":
		if resp.ErrMsg == "" {
			add(clsLeafBadReq+"/"+lc.Kind, "request of kind %s was answered without an error message", lc.Kind)
		} else {
			facts["leaf_error_responses"] = 1
		}
		return vs, facts
	case "metadata":
		return vs, facts
	}
	// data request: which shards failed (observed: the injected fault fired; or by construction: series > limit and the shard's scan ran)
	var failed []string
	for _, s := range lc.Shards {
		if f, ok := out.Fired[s]; ok {
			failed = append(failed, fmt.Sprintf("shard %d (%s)", s, f))
			facts["leaf_fault_fired_"+f]++
		} else if leafSeries[s]+1 > leafLimit && shardScanRan(out, s) {
			failed = append(failed, fmt.Sprintf("shard %d (too many series: %d > limit %d)", s, leafSeries[s]+1, leafLimit))
			facts["leaf_fault_fired_too-many-series"]++
		}
		if lc.Fault[s] == "filter-notfound" {
			facts["leaf_shard_not_found_ignored"]++
		}
	}
	switch {
	case len(failed) > 0:
		facts["leaf_requests_with_failing_shard"] = 1
		order, _, haveStats := stageOrder(out)
		toldStateMachine := haveStats && strings.Contains(order, "=Error")
		// Which stage the state machine counted down last is known only from the schedule the harness enforced: in a
		// paced request the shard whose gate was opened last ran alone, after every other task had been consumed.
		// (The end times in the stage stats are taken before the count-down and prove nothing under preemption.)
		failedSet := map[int]bool{}
		for _, s := range lc.Shards {
			if _, ok := out.Fired[s]; ok || (leafSeries[s]+1 > leafLimit && shardScanRan(out, s)) {
				failedSet[s] = true
			}
		}
		orderKnown := out.Ordered && len(out.Released) == len(lc.Shards) && !hasFired(out, "families-panic")
		failedLast := false
		if orderKnown {
			failedLast = failedSet[out.Released[len(out.Released)-1]]
			if failedLast {
				facts["leaf_failing_stage_finished_last"] = 1
			} else {
				facts["leaf_failing_stage_not_last"] = 1
			}
		} else {
			facts["leaf_failing_stage_order_unknown"] = 1
		}
		if resp.ErrMsg == "" {
			cls := clsLeafLostOther
			switch {
			case hasFired(out, "families-panic"):
				cls = clsLeafLostRecover
			case haveStats && !toldStateMachine:
				cls = clsLeafLostOther // the state machine never heard of a failure: not the "forgotten because not last" defect
			case !orderKnown:
				cls = clsLeafLostUnknown
			case !failedLast:
				cls = clsLeafLostNotLast
			default:
				cls = clsLeafLostLast
			}
			add(cls, "request %s: %s failed, but the single response carries no error (payload %d bytes): the failure was turned into a successful partial answer; "+
				"gates opened in order %v (logical order: %v); stages by recorded end time: %s", out.ReqID, strings.Join(failed, ", "), resp.Payload, out.Released, orderKnown, order)
		} else {
			facts["leaf_error_responses"] = 1
		}
	default:
		facts["leaf_requests_all_shards_ok"] = 1
		if resp.ErrMsg != "" {
			add(clsLeafSpurious, "request %s: no shard failed, but the response carries error %q", out.ReqID, resp.ErrMsg)
		} else if resp.Payload == 0 {
			add(clsLeafSpurious+"/empty-payload", "request %s: no shard failed, but the response has no payload", out.ReqID)
		} else {
			facts["leaf_success_responses"] = 1
		}
	}
	return vs, facts
}

func hasFired(out *leafOutcome, what string) bool {
	for _, f := range out.Fired {
		if f == what {
			return true
		}
	}
	return false
}

func shardScanRan(out *leafOutcome, s int) bool {
	needle := fmt.Sprintf("shard %d: Filter returned", s)
	for _, e := range out.Events {
		if strings.HasPrefix(e, needle) {
			return true
		}
	}
	return false
}

// stageOrder lists the stages by the end time the state machine recorded (set under its mutex in completeStage)
// and reports whether a failed stage was the last one it completed. Only used to name the class of a violation
// and for coverage counters, never for the verdict.
func stageOrder(out *leafOutcome) (order string, failedLast bool, known bool) {
	type st struct {
		id    string
		end   int64
		state string
	}
	var all []st
	var walk func(ss []*commonmodels.StageStats)
	walk = func(ss []*commonmodels.StageStats) {
		for _, s := range ss {
			all = append(all, st{s.Identifier, s.End, s.State})
			walk(s.Children)
		}
	}
	walk(out.Stats)
	if len(all) == 0 {
		return "(stats not available)", false, false
	}
	sort.SliceStable(all, func(i, j int) bool { return all[i].end < all[j].end })
	var parts []string
	for _, s := range all {
		if s.end == 0 {
			return "(a stage has no end time)", false, false
		}
		parts = append(parts, s.id+"="+s.state)
	}
	last := all[len(all)-1]
	if len(all) > 1 && all[len(all)-2].end == last.end {
		return strings.Join(parts, " < "), false, false
	}
	return strings.Join(parts, " < "), last.state == "Error", true
}

// childLeaf: child-leaf <result.json> <case.log> <dir> <mod> <rem> <race:0|1>
func childLeaf(args []string) {
	resFile, logFile, dir := args[0], args[1], args[2]
	mod, _ := strconv.Atoi(args[3])
	rem, _ := strconv.Atoi(args[4])
	race := args[5] == "1"
	seed := int64(1)
	if s := os.Getenv("VERIF_SEED"); s != "" {
		if v, err := strconv.ParseInt(s, 10, 64); err == nil {
			seed = v
		}
	}
	quick := os.Getenv("VERIF_TIER") != "thorough"
	a := newAgg()
	lf, err := os.Create(logFile)
	if err != nil {
		fmt.Println("cannot create case log:", err)
		os.Exit(3)
	}
	var lmu sync.Mutex
	logf := func(s string) {
		lmu.Lock()
		_, _ = lf.WriteString(s + "\n")
		lmu.Unlock()
	}
	_ = os.MkdirAll(dir, 0o755)
	if race {
		// First use of the process-wide PipelineManager from concurrent goroutines, as the task-pool workers of a
		// fresh storage node (leafTaskProcessor.processDataSearch) and concurrent exec() callers on a broker do.
		start := make(chan struct{})
		var wg sync.WaitGroup
		for k := 0; k < 16; k++ {
			wg.Add(1)
			go func() {
				defer wg.Done()
				<-start
				_ = query.GetPipelineManager().GetPipeline("c19-first-use")
			}()
		}
		close(start)
		wg.Wait()
		a.count("pipeline_manager_concurrent_first_use", 1)
	}
	var env *leafEnv
	for attempt := 0; attempt < 3; attempt++ {
		env, err = newLeafEnv(fmt.Sprintf("%s/e%d", dir, attempt))
		if err == nil {
			// probe: healthy requests over the small shards must be answered with data before any case runs.  They are the
			// first requests of the process and are sent as one concurrent burst, like the first queries reaching a fresh
			// node: lazily initialised process-wide state of the query path (PipelineManager) is first touched here.
			qs := []string{"plain", "cond", "groupby", "plain", "cond", "groupby", "plain", "plain"}
			errs := make([]error, len(qs))
			start := make(chan struct{})
			var wg sync.WaitGroup
			for k, q := range qs {
				wg.Add(1)
				go func(k int, q string) {
					defer wg.Done()
					probe := &leafCase{ID: 5990 + k, Kind: "data", Query: q, Shards: []int{0, 1, 3}, Fault: map[int]string{}, Release: []int{0, 1, 3}, Explain: true}
					<-start
					out := env.run(probe)
					if len(out.Responses) != 1 || out.Responses[0].ErrMsg != "" || out.Responses[0].Payload == 0 {
						errs[k] = fmt.Errorf("probe request (%s) not answered with data: %+v watchdog=%q", q, out.Responses, out.Watchdog)
					}
				}(k, q)
			}
			close(start)
			wg.Wait()
			for _, e := range errs {
				if e != nil {
					err = e
				}
			}
		}
		if err == nil {
			break
		}
		logf(fmt.Sprintf("leaf engine attempt %d unusable: %v", attempt, err))
		a.count("leaf_engine_setup_retries", 1)
		a.mu.Lock()
		if len(a.res.Samples) < 2 {
			a.res.Samples = append(a.res.Samples, map[string]interface{}{"leaf_engine_setup_unusable": err.Error()})
		}
		a.mu.Unlock()
		if env != nil && env.engine != nil {
			env.engine.Close()
		}
		env = nil
	}
	a.count("leaf_engine_setups", 1)
	a.count("leaf_engine_setup_retries", 0)
	if env == nil {
		a.res.Inconclusive = append(a.res.Inconclusive, "leaf engine setup failed 3 times: "+err.Error())
		a.write(resFile)
		return
	}
	total := 400
	if !quick {
		total = 12000
	}
	if race {
		total = 120
		if !quick {
			total = 1500
		}
	}
	var list []int
	for i := 0; i < total; i++ {
		if i%mod == rem {
			list = append(list, i)
		}
	}
	core0 := 4
	if race {
		core0 = 6
	}
	parallel(len(list), core0, func(k int) {
		i := list[k]
		free := race || i%5 == 4
		lc := leafCaseOf(seed, i, free)
		logf(fmt.Sprintf("leaf case %d kind=%s query=%s shards=%v fault=%v release=%v gated=%v", i, lc.Kind, lc.Query, lc.Shards, lc.Fault, lc.Release, lc.Gated))
		out := env.run(lc)
		vs, facts := judgeLeaf(out)
		a.mu.Lock()
		a.res.Evals++
		a.key[lc.key()] = struct{}{}
		if len(a.res.Samples) < 1 && facts["leaf_requests_with_failing_shard"] > 0 {
			a.res.Samples = append(a.res.Samples, map[string]interface{}{"leaf_case": lc, "responses": len(out.Responses), "events": out.Events})
		}
		if out.Watchdog != "" && len(a.res.Inconclusive) < 5 {
			a.res.Inconclusive = append(a.res.Inconclusive, fmt.Sprintf("leaf case %d: %s", i, out.Watchdog))
		}
		a.mu.Unlock()
		for k, v := range facts {
			a.count(k, v)
		}
		for _, v := range vs {
			a.violation(v.Class, v.Msg, func() interface{} { return out })
		}
	})
	a.write(resFile)
	_ = lf.Close()
	os.Exit(0) // do not wait for the engine's background goroutines
}

func parallel(n, workers int, fn func(i int)) {
	var wg sync.WaitGroup
	ch := make(chan int)
	for w := 0; w < workers; w++ {
		wg.Add(1)
		go func() {
			defer wg.Done()
			for i := range ch {
				fn(i)
			}
		}()
	}
	for i := 0; i < n; i++ {
		ch <- i
	}
	close(ch)
	wg.Wait()
}
