package main

import (
	"fmt"
	"math/rand"

	"github.com/lindb/common/proto/gen/v1/flatMetricsV1"
	commonseries "github.com/lindb/common/series"

	"github.com/lindb/lindb/pkg/timeutil"
	"github.com/lindb/lindb/series/metric"
)

// buildBrokerRow builds one ingestion row with the given timestamp; the tag carries the row id.
func buildBrokerRow(row *metric.BrokerRow, id int, timestamp int64) error {
	builder, release := commonseries.NewRowBuilder()
	defer release(builder)
	builder.AddMetricName([]byte("c13"))
	if err := builder.AddTag([]byte("id"), []byte(fmt.Sprintf("%d", id))); err != nil {
		return err
	}
	if err := builder.AddSimpleField([]byte("f"), flatMetricsV1.SimpleFieldTypeDeltaSum, 1); err != nil {
		return err
	}
	builder.AddTimestamp(timestamp)
	data, err := builder.Build()
	if err != nil {
		return err
	}
	row.FromBlock(data)
	return nil
}

// genBatchTimestamps produces the timestamps of one ingestion batch: clustered around one or two
// boundaries (so that one batch straddles families/segments), or all inside one family (fast path).
func genBatchTimestamps(rnd *rand.Rand, cal *calendar, edges []edge, n int) []int64 {
	out := make([]int64, 0, n)
	anchor := edges[rnd.Intn(len(edges))].ts
	mode := rnd.Intn(4)
	for i := 0; i < n; i++ {
		var ts int64
		switch mode {
		case 0: // straddle the boundary tightly
			ts = anchor + edgeOffsets[rnd.Intn(len(edgeOffsets))]
		case 1: // a few hours around
			ts = anchor + rnd.Int63n(6*msHour) - 3*msHour
		case 2: // same hour (fast path candidates)
			ts = anchor + rnd.Int63n(msHour)
		default: // days around, crossing month/day boundaries
			ts = anchor + rnd.Int63n(4*msDay) - 2*msDay
		}
		if ts < cal.windowStart() {
			ts = cal.windowStart()
		}
		if ts >= cal.windowEnd() {
			ts = cal.windowEnd() - 1
		}
		out = append(out, ts)
	}
	return out
}

// brokerGroups runs the real shard/family grouping of the broker over a batch and returns, per shard,
// the groups (family time, timestamps) in iteration order.
type brokerGroup struct {
	ShardIdx   int
	FamilyTime int64
	Timestamps []int64
}

func brokerGrouping(batch *metric.BrokerBatchRows, numShards int32, interval int64) []brokerGroup {
	var out []brokerGroup
	itr := batch.NewShardGroupIterator(numShards)
	for itr.HasRowsForNextShard() {
		shardIdx, fitr := itr.FamilyRowsForNextShard(timeutil.Interval(interval))
		for fitr.HasNextFamily() {
			ft, rows := fitr.NextFamily()
			g := brokerGroup{ShardIdx: shardIdx, FamilyTime: ft}
			for i := range rows {
				m := rows[i].Metric()
				g.Timestamps = append(g.Timestamps, m.Timestamp())
			}
			out = append(out, g)
		}
	}
	return out
}

func checkBrokerGroups(e *childEnv, r obs, ntPart string, interval int64, ts []int64, groups []brokerGroup) {
	cal := e.cal
	typ := typeOf(interval)
	want := map[int64]int{}
	for _, t := range ts {
		want[t]++
	}
	got := map[int64]int{}
	seen := map[[2]int64]bool{}
	for _, g := range groups {
		k := [2]int64{int64(g.ShardIdx), g.FamilyTime}
		if seen[k] {
			r.Violation("C13/broker/"+typ+"/family-split-in-two-groups", fmt.Sprintf("interval %s: shard %d got two groups for family time %d", ivName(interval), g.ShardIdx, g.FamilyTime),
				e.wit("interval", interval, "timestamps", ts, "groups", groups))
		}
		seen[k] = true
		if len(g.Timestamps) == 0 {
			r.Violation("C13/broker/"+typ+"/empty-group", fmt.Sprintf("interval %s: empty family group %d", ivName(interval), g.FamilyTime), e.wit("interval", interval, "timestamps", ts))
		}
		for _, t := range g.Timestamps {
			got[t]++
			b := cal.bucketOf(typ, t)
			r.Eval(1)
			if b.FamStart != g.FamilyTime {
				r.Violation("C13/broker/"+typ+"/row-routed-to-wrong-family", fmt.Sprintf("interval %s: row with timestamp %d(%s) grouped under family time %d(%s), calendar says %d(%s)",
					ivName(interval), t, cal.fmt(t), g.FamilyTime, cal.fmt(g.FamilyTime), b.FamStart, cal.fmt(b.FamStart)),
					e.wit("interval", interval, "ts", t, "groupFamilyTime", g.FamilyTime, "oracle", b, "batch", ts))
			}
			if k := boundaryKind(b, t); k != "" {
				r.Nontrivial(e.tz + "|" + ntPart + "|" + typ + "|" + b.SegName + "|" + k)
				r.Count("broker/"+typ+"/rows_at_boundary", 1)
			}
		}
	}
	for t, n := range want {
		if got[t] != n {
			r.Violation("C13/broker/"+typ+"/row-lost-or-duplicated", fmt.Sprintf("interval %s: timestamp %d appears %d times in the batch but %d times in the family groups", ivName(interval), t, n, got[t]),
				e.wit("interval", interval, "ts", t, "batch", ts))
			break
		}
	}
	if len(got) != len(want) {
		r.Violation("C13/broker/"+typ+"/row-lost-or-duplicated", fmt.Sprintf("interval %s: %d distinct timestamps in, %d out", ivName(interval), len(want), len(got)), e.wit("interval", interval, "batch", ts))
	}
	if cal.hasDST() {
		sits := map[string]int{}
		for _, t := range ts {
			if sit := cal.dstSituation(t); sit != "" {
				sits[sit]++
				r.Count("broker/dst/"+typ+"/rows_"+sit, 1)
			}
		}
		if sits["23h-day"] > 0 && sits["first-hour-after-23h-day"] > 0 {
			r.Count("broker/dst/"+typ+"/batches_with_rows_on_23h_day_and_in_first_hour_after_it", 1)
		}
		if sits["25h-day-25th-hour"] > 0 && sits["25h-day"] > 0 {
			r.Count("broker/dst/"+typ+"/batches_with_rows_in_25th_hour_and_earlier_on_that_day", 1)
		}
	}
	r.Count("broker/"+typ+"/groups", len(groups))
	if len(groups) > 1 {
		r.Count("broker/"+typ+"/batches_with_several_families", 1)
	} else {
		r.Count("broker/"+typ+"/batches_single_family", 1)
	}
}

func runBroker(e *childEnv) {
	r := e.rec
	rnd := e.rand("broker-batches")
	edges := oversampledEdges(e.cal)
	nBatches := e.pick(1500, 40_000)
	for bi := 0; bi < nBatches; bi++ {
		n := 1 + rnd.Intn(24)
		ts := genBatchTimestamps(rnd, e.cal, edges, n)
		batch := metric.NewBrokerBatchRows()
		for i, t := range ts {
			i, t := i, t
			if err := batch.TryAppend(func(row *metric.BrokerRow) error { return buildBrokerRow(row, i, t) }); err != nil {
				r.Inconclusive("cannot build broker row: %v", err)
				return
			}
		}
		numShards := int32(1 + rnd.Intn(3))
		for _, typ := range allTypes {
			ivs := intervalsByType[typ]
			iv := ivs[rnd.Intn(len(ivs))]
			groups := brokerGrouping(batch, numShards, iv)
			checkBrokerGroups(e, e.rec, "broker", iv, ts, groups)
		}
		if bi == 0 {
			r.Sample(map[string]interface{}{"part": "broker", "tz": e.tz, "batch": ts})
		}
		batch.Release() // pooled: later batches reuse the rows
	}
	r.Count("broker/batches", nBatches)
}

// oversampledEdges returns the hour edges with day/month/year edges repeated so that a uniform
// pick hits them often.
func oversampledEdges(cal *calendar) []edge {
	var edges []edge
	for _, ed := range cal.edges() {
		edges = append(edges, ed)
		if ed.kind >= eDay {
			for k := 0; k < 12; k++ {
				edges = append(edges, ed)
			}
		}
		if ed.kind >= eMonth {
			for k := 0; k < 200; k++ {
				edges = append(edges, ed)
			}
		}
		if ed.kind >= eYear {
			for k := 0; k < 400; k++ {
				edges = append(edges, ed)
			}
		}
		// zones that move their clock: every hour edge of a 23 h / 25 h day and of the first hour after it
		if cal.hasDST() && (cal.dstSituation(ed.ts) != "" || cal.dstSituation(ed.ts-1) != "") {
			for k := 0; k < 60; k++ {
				edges = append(edges, ed)
			}
		}
	}
	return edges
}
