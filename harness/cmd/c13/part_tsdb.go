package main

import (
	"fmt"
	"math/rand"
	"os"
	"path/filepath"
	"sort"
	"strconv"
	"strings"

	"github.com/lindb/lindb/config"
	"github.com/lindb/lindb/models"
	"github.com/lindb/lindb/pkg/option"
	"github.com/lindb/lindb/pkg/timeutil"
	"github.com/lindb/lindb/series/metric"
	"github.com/lindb/lindb/tsdb"
)

const retention200y = 200 * 365 * msDay

type tsdbDB struct {
	name     string
	interval int64 // writable (smallest) interval
	typ      string
	shard    tsdb.Shard
	// model: families created so far, by calendar family start
	created map[int64]bucket
	fams    map[int64]tsdb.DataFamily
}

func openEngine(e *childEnv, dataDir string) (tsdb.Engine, error) {
	config.SetGlobalStorageConfig(&config.StorageBase{TSDB: config.TSDB{Dir: dataDir}})
	return tsdb.NewEngine()
}

func mkOption(intervals ...int64) *option.DatabaseOption {
	opt := &option.DatabaseOption{AutoCreateNS: true}
	for _, iv := range intervals {
		opt.Intervals = append(opt.Intervals, option.Interval{Interval: timeutil.Interval(iv), Retention: timeutil.Interval(retention200y)})
	}
	return opt
}

func lindbType(typ string) timeutil.IntervalType {
	switch typ {
	case tDay:
		return timeutil.Day
	case tMonth:
		return timeutil.Month
	}
	return timeutil.Year
}

// touch asks the real shard for the family of ts and checks it against the calendar and the model.
func (d *tsdbDB) touch(e *childEnv, ts int64, dataDir string) tsdb.DataFamily {
	r := e.rec
	cal := e.cal
	b := cal.bucketOf(d.typ, ts)
	r.Eval(1)
	f, err := d.shard.GetOrCrateDataFamily(ts)
	w := func(kv ...interface{}) map[string]interface{} {
		return e.wit(append([]interface{}{"db", d.name, "interval", d.interval, "ts", ts, "local", cal.fmt(ts), "oracle", b}, kv...)...)
	}
	if err != nil || f == nil {
		r.Violation("C13/tsdb/"+d.typ+"/get-or-create-family-error", fmt.Sprintf("%s: Shard.GetOrCrateDataFamily(%d=%s) failed: %v", d.typ, ts, cal.fmt(ts), err), w())
		return nil
	}
	tr := f.TimeRange()
	if tr.Start != b.FamStart || tr.End != b.FamEnd {
		r.Violation("C13/tsdb/"+d.typ+"/family-range-differs-from-calendar", fmt.Sprintf("%s: family of %d(%s) has range [%d(%s),%d(%s)], calendar says [%d,%d]",
			d.typ, ts, cal.fmt(ts), tr.Start, cal.fmt(tr.Start), tr.End, cal.fmt(tr.End), b.FamStart, b.FamEnd), w("range", tr))
	}
	if !tr.Contains(ts) {
		r.Violation("C13/tsdb/"+d.typ+"/family-range-excludes-ts", fmt.Sprintf("%s: family returned for %d(%s) has range [%d,%d]", d.typ, ts, cal.fmt(ts), tr.Start, tr.End), w("range", tr))
	}
	if f.FamilyTime() != b.FamStart {
		r.Violation("C13/tsdb/"+d.typ+"/family-time", fmt.Sprintf("%s: family of %d has FamilyTime %d, calendar family start %d", d.typ, ts, f.FamilyTime(), b.FamStart), w("familyTime", f.FamilyTime()))
	}
	if f.Interval().Int64() != d.interval {
		r.Violation("C13/tsdb/"+d.typ+"/family-interval", fmt.Sprintf("family interval %d, shard writes %d", f.Interval().Int64(), d.interval), w())
	}
	// naming on disk: <segment type>/<segment name>/<family number>
	if name := f.Family().Name(); name != strconv.Itoa(b.FamNum) {
		r.Violation("C13/tsdb/"+d.typ+"/family-name", fmt.Sprintf("%s: kv family of %d(%s) is named %q, calendar family number is %d", d.typ, ts, cal.fmt(ts), name, b.FamNum), w("name", name))
	}
	segDir := tsdb.ShardSegmentPath(d.name, models.ShardID(1), timeutil.Interval(d.interval), b.SegName)
	if st, err := os.Stat(filepath.Join(segDir, strconv.Itoa(b.FamNum))); err != nil || !st.IsDir() {
		r.Violation("C13/tsdb/"+d.typ+"/family-dir-missing", fmt.Sprintf("%s: after GetOrCrateDataFamily(%d=%s) the directory %s/%d does not exist", d.typ, ts, cal.fmt(ts), segDir, b.FamNum), w("dir", segDir))
	}
	if prev, ok := d.fams[b.FamStart]; ok {
		if prev != f {
			r.Violation("C13/tsdb/"+d.typ+"/two-families-for-one-bucket", fmt.Sprintf("%s: timestamp %d(%s) inside family [%d,%d] got a different family object than an earlier timestamp of the same family",
				d.typ, ts, cal.fmt(ts), b.FamStart, b.FamEnd), w())
		}
		r.Count("tsdb/"+d.typ+"/family_hits", 1)
	} else {
		for s, other := range d.fams {
			if other == f {
				r.Violation("C13/tsdb/"+d.typ+"/one-family-for-two-buckets", fmt.Sprintf("%s: timestamps of calendar families %d and %d got the same family object", d.typ, s, b.FamStart), w("other", s))
				break
			}
		}
		d.fams[b.FamStart] = f
		d.created[b.FamStart] = b
		r.Count("tsdb/"+d.typ+"/families_created", 1)
	}
	if cal.hasDST() {
		if sit := cal.dstSituation(ts); sit != "" {
			r.Count("tsdb/dst/"+d.typ+"/touches_"+sit, 1)
		}
	}
	if k := boundaryKind(b, ts); k != "" {
		r.Nontrivial(e.tz + "|tsdb|" + d.typ + "|" + b.SegName + "|" + k)
		r.Count("tsdb/"+d.typ+"/touches_at_boundary_"+k, 1)
	}
	return f
}

// query checks Shard.GetDataFamilies(range) against the model of created families.
func (d *tsdbDB) query(e *childEnv, a, bb int64, phase string) {
	r := e.rec
	cal := e.cal
	r.Eval(1)
	got := d.shard.GetDataFamilies(lindbType(d.typ), timeutil.TimeRange{Start: a, End: bb})
	want := map[int64]bool{}
	for s, b := range d.created {
		if b.FamStart <= bb && b.FamEnd >= a {
			want[s] = true
		}
	}
	gotSet := map[int64]bool{}
	var gotList []int64
	for _, f := range got {
		tr := f.TimeRange()
		ob := cal.bucketOf(d.typ, tr.Start)
		if tr.Start != ob.FamStart || tr.End != ob.FamEnd {
			r.Violation("C13/tsdb/"+d.typ+"/"+phase+"/listed-family-range-differs-from-calendar", fmt.Sprintf("%s: GetDataFamilies returned a family with range [%d(%s),%d(%s)], calendar family there is [%d,%d]",
				d.typ, tr.Start, cal.fmt(tr.Start), tr.End, cal.fmt(tr.End), ob.FamStart, ob.FamEnd), e.wit("db", d.name, "range", tr, "oracle", ob))
		}
		if gotSet[tr.Start] {
			r.Violation("C13/tsdb/"+d.typ+"/"+phase+"/family-listed-twice", fmt.Sprintf("%s: GetDataFamilies([%d,%d]) lists family %d twice", d.typ, a, bb, tr.Start), e.wit("db", d.name, "query", []int64{a, bb}))
		}
		gotSet[tr.Start] = true
		gotList = append(gotList, tr.Start)
	}
	sort.Slice(gotList, func(i, j int) bool { return gotList[i] < gotList[j] })
	qa, qb := cal.bucketOf(d.typ, a), cal.bucketOf(d.typ, bb)
	shape := "same-segment"
	if qa.SegName != qb.SegName {
		shape = "crosses-segments"
	}
	cls := func(what string) string {
		if shape == "crosses-segments" && d.typ != tDay {
			return "C13/tsdb/get-data-families/range-crosses-segments/" + d.typ + "/" + phase + "/" + what
		}
		return "C13/tsdb/" + d.typ + "/" + phase + "/" + what + "/" + shape
	}
	var wl []int64
	for k := range want {
		wl = append(wl, k)
	}
	sort.Slice(wl, func(i, j int) bool { return wl[i] < wl[j] })
	for _, s := range wl {
		if !gotSet[s] {
			r.Violation(cls("get-data-families-misses-family"), fmt.Sprintf("%s: GetDataFamilies([%d(%s), %d(%s)]) does not return the existing family starting %d(%s) which overlaps the range; returned %v",
				d.typ, a, cal.fmt(a), bb, cal.fmt(bb), s, cal.fmt(s), fmtList(cal, gotList)), e.wit("db", d.name, "query", []int64{a, bb}, "missing", s, "got", gotList, "want", wl))
			break
		}
	}
	for _, s := range gotList {
		if !want[s] {
			r.Violation(cls("get-data-families-returns-family-outside-range"), fmt.Sprintf("%s: GetDataFamilies([%d(%s), %d(%s)]) returns the family starting %d(%s) which does not overlap the range",
				d.typ, a, cal.fmt(a), bb, cal.fmt(bb), s, cal.fmt(s)), e.wit("db", d.name, "query", []int64{a, bb}, "extra", s, "got", gotList))
			break
		}
	}
	if cal.hasDST() {
		// a range that lies in the last hour of a 25 h day / the first hour after a 23 h day and has a family to find
		if sa, sb := cal.dstSituation(a), cal.dstSituation(bb); len(want) > 0 && sa == sb && (sa == "25h-day-25th-hour" || sa == "first-hour-after-23h-day") && bb-a < msHour {
			r.Count("tsdb/dst/"+d.typ+"/"+phase+"/range_queries_inside_"+sa+"_with_hits", 1)
		}
	}
	r.Count("tsdb/"+d.typ+"/"+phase+"/range_queries_"+shape, 1)
	if len(want) > 0 {
		r.Count("tsdb/"+d.typ+"/"+phase+"/range_queries_with_hits", 1)
	}
	if len(want) > 1 {
		r.Count("tsdb/"+d.typ+"/"+phase+"/range_queries_with_several_families", 1)
	}
	if shape == "crosses-segments" && len(want) > 0 {
		r.Nontrivial(fmt.Sprintf("%s|tsdb-query|%s|%s|%s", e.tz, d.typ, qa.SegName, qb.SegName))
	}
}

func fmtList(cal *calendar, l []int64) []string {
	out := []string{}
	for i, v := range l {
		if i >= 6 {
			out = append(out, "...")
			break
		}
		out = append(out, cal.fmt(v))
	}
	return out
}

// genQueries produces query ranges around the created families: points, inside one family, across family,
// segment, month and year boundaries, wide ranges; raw and truncated to the interval.
func (d *tsdbDB) genQueries(rnd *rand.Rand, cal *calendar, n int) [][2]int64 {
	var starts []int64
	for s := range d.created {
		starts = append(starts, s)
	}
	sort.Slice(starts, func(i, j int) bool { return starts[i] < starts[j] })
	var unit int64
	switch d.typ {
	case tDay:
		unit = msHour
	case tMonth:
		unit = msDay
	default:
		unit = 31 * msDay
	}
	var out [][2]int64
	for i := 0; i < n; i++ {
		b := d.created[starts[rnd.Intn(len(starts))]]
		var a, z int64
		switch rnd.Intn(8) {
		case 0: // a point
			a = b.FamStart + rnd.Int63n(b.FamEnd-b.FamStart+1)
			z = a
		case 1: // inside the family
			a = b.FamStart + rnd.Int63n(b.FamEnd-b.FamStart+1)
			z = a + rnd.Int63n(b.FamEnd-a+1)
		case 2: // exactly the family, or off by one ms on either side
			a = b.FamStart + []int64{-1, 0, 1}[rnd.Intn(3)]
			z = b.FamEnd + []int64{-1, 0, 1}[rnd.Intn(3)]
		case 3: // ends just before / starts just after the family
			if rnd.Intn(2) == 0 {
				z = b.FamStart - 1 - rnd.Int63n(2)*rnd.Int63n(unit)
				a = z - rnd.Int63n(3*unit)
			} else {
				a = b.FamEnd + 1 + rnd.Int63n(2)*rnd.Int63n(unit)
				z = a + rnd.Int63n(3*unit)
			}
		case 4: // from inside this family to the segment end and a bit beyond (crosses the segment boundary)
			a = b.FamStart + rnd.Int63n(b.FamEnd-b.FamStart+1)
			z = b.SegNext - 1 + rnd.Int63n(3*unit)
		case 5: // from before the segment start into this family
			a = b.SegStart - 1 - rnd.Int63n(3*unit)
			z = b.FamStart + rnd.Int63n(b.FamEnd-b.FamStart+1)
		case 6: // a few families around
			a = b.FamStart - rnd.Int63n(4*unit)
			z = b.FamEnd + rnd.Int63n(4*unit)
		default: // wide
			a = b.FamStart - rnd.Int63n(40*unit)
			z = b.FamEnd + rnd.Int63n(40*unit)
		}
		if rnd.Intn(2) == 0 { // the planner hands over ranges truncated to the storage interval
			a = a / d.interval * d.interval
			z = z / d.interval * d.interval
		}
		if a < cal.windowStart()-msDay {
			a = cal.windowStart() - msDay
		}
		if z < a {
			z = a
		}
		out = append(out, [2]int64{a, z})
	}
	return out
}

func runTsdb(e *childEnv) {
	r := e.rec
	cal := e.cal
	dataDir := filepath.Join(e.dir, "data")
	eng, err := openEngine(e, dataDir)
	if err != nil {
		r.Inconclusive("cannot create tsdb engine: %v", err)
		return
	}
	// one database per interval type (the shard's writable interval decides the segment type).
	sets := [][3]int64{{10 * msSecond, 5 * msMinute, msHour}, {msMinute, 30 * msMinute, msDay}, {30 * msSecond, 10 * msMinute, 6 * msHour}}
	set := sets[(e.shard+int(e.seed))%len(sets)]
	var dbs []*tsdbDB
	for i, typ := range allTypes {
		d := &tsdbDB{name: "c13" + typ, interval: set[i], typ: typ, created: map[int64]bucket{}, fams: map[int64]tsdb.DataFamily{}}
		if err := eng.CreateShards(d.name, mkOption(d.interval), models.ShardID(1)); err != nil {
			r.Inconclusive("cannot create shard: %v", err)
			return
		}
		d.shard, _ = eng.GetShard(d.name, models.ShardID(1))
		dbs = append(dbs, d)
	}
	rnd := e.rand("tsdb-touch")
	hot := cal.calendarHotspots(rnd, e.pick(20, 200))
	if e.quick {
		// a deterministic subset keeps the number of kv stores (one per day segment) small
		var sub []int64
		for i, h := range hot {
			if i%2 == int(e.seed%2) || cal.at(h).Day() == 29 && cal.at(h).Month() == 2 {
				sub = append(sub, h)
			}
		}
		hot = sub
	}
	r.Count("tsdb/hotspot_days", len(hot))
	// zones that move their clock: a seeded selection of 23 h and 25 h days (thorough: all of them)
	dstDays := pickTransitionDays(cal, e.seed+int64(e.shard), e.pick(4, 1000))
	r.Count("tsdb/dst/transition_days_touched", len(dstDays))
	for _, d := range dbs {
		var tss []int64
		for _, t := range dstDays {
			// day start, around 23 h / 24 h after it (the ends a fixed-length day would have), the real day end,
			// the first hour of the following day, a random instant of the day
			tss = append(tss, t.Start, t.Start-1, t.Start+23*msHour-1, t.Start+23*msHour, t.Start+msDay-1, t.Start+msDay,
				t.Next-1-rnd.Int63n(msHour), t.Next-1, t.Next, t.Next+rnd.Int63n(msHour), t.Start+rnd.Int63n(t.Len()))
		}
		for _, h := range hot {
			// h is a local day start (month starts, month ends, leap days, year ends, random days)
			switch d.typ {
			case tDay:
				tss = append(tss, h, h-1, h+1, h+msHour-1, h+msHour, h+23*msHour+rnd.Int63n(msHour), h+rnd.Int63n(msDay))
			case tMonth:
				tss = append(tss, h, h-1, h+rnd.Int63n(msDay), h+msDay-1, h+msDay)
			default:
				tss = append(tss, h, h-1, h+rnd.Int63n(msDay))
			}
		}
		for _, ts := range tss {
			if ts < cal.windowStart() || ts >= cal.windowEnd() {
				continue
			}
			f := d.touch(e, ts, dataDir)
			if f == nil {
				continue
			}
			// any timestamp inside the family must give that same family; one past the end a different one
			b := cal.bucketOf(d.typ, ts)
			for _, t2 := range []int64{b.FamStart, b.FamEnd, b.FamStart + rnd.Int63n(b.FamEnd-b.FamStart+1)} {
				d.touch(e, t2, dataDir)
			}
			if rnd.Intn(4) == 0 && b.FamEnd+1 < cal.windowEnd() {
				d.touch(e, b.FamEnd+1, dataDir)
			}
		}
		// broker -> storage chain: the family time the broker computes must open the family that holds the row
		edges := oversampledEdges(cal)
		for bi := 0; bi < e.pick(40, 400); bi++ {
			ts := genBatchTimestamps(rnd, cal, edges, 1+rnd.Intn(12))
			batch := metric.NewBrokerBatchRows()
			for i, t := range ts {
				i, t := i, t
				_ = batch.TryAppend(func(row *metric.BrokerRow) error { return buildBrokerRow(row, i, t) })
			}
			for _, g := range brokerGrouping(batch, 1, d.interval) {
				f := d.touch(e, g.FamilyTime, dataDir)
				if f == nil {
					continue
				}
				for _, t := range g.Timestamps {
					r.Eval(1)
					if tr := f.TimeRange(); !tr.Contains(t) {
						r.Violation("C13/tsdb/"+d.typ+"/broker-family-time-opens-family-without-row", fmt.Sprintf("%s: broker grouped row %d(%s) under family time %d; the shard's family for that time is [%d,%d]",
							d.typ, t, cal.fmt(t), g.FamilyTime, tr.Start, tr.End), e.wit("db", d.name, "ts", t, "familyTime", g.FamilyTime, "range", tr))
					}
				}
				r.Count("tsdb/"+d.typ+"/broker_groups_opened", 1)
			}
			batch.Release()
		}
		nq := e.pick(1500, 20_000)
		queries := append(dstQueries(rnd, dstDays, d.interval), d.genQueries(rnd, cal, nq)...)
		for _, q := range queries {
			d.query(e, q[0], q[1], "live")
		}
		r.Sample(map[string]interface{}{"part": "tsdb", "tz": e.tz, "db": d.name, "families": len(d.created), "first_query": queries[0]})
	}
	// reopen: segments and families are re-discovered from their names on disk
	dirsBefore := countDirs(dataDir)
	eng.Close()
	eng, err = openEngine(e, dataDir)
	if err != nil {
		r.Violation("C13/tsdb/reopen-failed", fmt.Sprintf("engine cannot be reopened: %v", err), e.wit())
		return
	}
	defer eng.Close()
	for _, d := range dbs {
		sh, ok := eng.GetShard(d.name, models.ShardID(1))
		if !ok {
			r.Violation("C13/tsdb/reopen-shard-missing", "shard missing after reopen: "+d.name, e.wit("db", d.name))
			continue
		}
		d.shard = sh
		d.fams = map[int64]tsdb.DataFamily{}
		queries := append(dstQueries(rnd, dstDays, d.interval), d.genQueries(rnd, cal, e.pick(600, 8000))...)
		for _, q := range queries {
			d.query(e, q[0], q[1], "reopened")
		}
		// writing again after the reopen lands in the same directories
		var starts []int64
		for s := range d.created {
			starts = append(starts, s)
		}
		sort.Slice(starts, func(i, j int) bool { return starts[i] < starts[j] })
		for n := 0; n < 40 && len(starts) > 0; n++ {
			d.touch(e, starts[rnd.Intn(len(starts))], dataDir)
		}
	}
	if after := countDirs(dataDir); after != dirsBefore {
		r.Violation("C13/tsdb/reopen-creates-new-directories", fmt.Sprintf("touching existing families after a reopen changed the number of directories from %d to %d (a family got a second name)", dirsBefore, after), e.wit())
	}
}

func countDirs(root string) int {
	n := 0
	_ = filepath.Walk(root, func(p string, info os.FileInfo, err error) error {
		if err == nil && info.IsDir() && strings.Contains(p, "/segment/") {
			n++
		}
		return nil
	})
	return n
}

// pickTransitionDays returns up to n 23 h days and up to n 25 h days of the window, chosen by the seed.
func pickTransitionDays(cal *calendar, seed int64, n int) []transitionDay {
	var short, long, out []transitionDay
	for _, t := range cal.transitions() {
		if t.Start <= cal.windowStart()+msDay || t.Next >= cal.windowEnd()-2*msDay {
			continue
		}
		if t.Len() < msDay {
			short = append(short, t)
		} else {
			long = append(long, t)
		}
	}
	for _, l := range [][]transitionDay{short, long} {
		if len(l) == 0 {
			continue
		}
		k := int(splitmix(uint64(seed)) % uint64(len(l)))
		for i := 0; i < n && i < len(l); i++ {
			out = append(out, l[(k+i*3)%len(l)])
		}
	}
	sort.Slice(out, func(i, j int) bool { return out[i].Start < out[j].Start })
	// (k+i*3)%len may repeat a day when n is large: deduplicate
	var ded []transitionDay
	for i, t := range out {
		if i == 0 || t.Start != out[i-1].Start {
			ded = append(ded, t)
		}
	}
	return ded
}

// dstQueries: ranges around the places where a local day of 23 h / 25 h differs from a 24 h day: inside the hour
// after start+23 h, inside the hour after start+24 h (the 25th hour of a 25 h day, the first hour of the day after
// a 23 h day), across those instants and across the real day end; raw and truncated to the interval.
func dstQueries(rnd *rand.Rand, days []transitionDay, interval int64) [][2]int64 {
	var out [][2]int64
	for _, t := range days {
		for _, base := range []int64{t.Start + 23*msHour, t.Start + msDay, t.Next - msHour, t.Next} {
			x := rnd.Int63n(msHour / 2)
			y := x + rnd.Int63n(msHour/2)
			qs := [][2]int64{
				{base + x, base + y},                      // inside the hour
				{base, base + msHour - 1},                 // exactly the hour
				{base + x, base + x},                      // a point
				{base - 1 - rnd.Int63n(msHour), base + x}, // across its start
				{base - 1, base - 1}, {base, base},
			}
			for _, q := range qs {
				out = append(out, q, [2]int64{q[0] / interval * interval, q[1] / interval * interval})
			}
		}
	}
	return out
}
