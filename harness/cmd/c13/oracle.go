package main

import (
	"fmt"
	"math/rand"
	"sort"
	"sync"
	"time"
)

// The independent calendar: plain time.Date arithmetic in an explicitly loaded location.
// It never calls lindb's IntervalCalculator and does not depend on time.Local.

const (
	msSecond = int64(1000)
	msMinute = 60 * msSecond
	msHour   = 60 * msMinute
	msDay    = 24 * msHour
)

// interval types (own constants; mapped to lindb's types by value of the interval like the option does).
const (
	tDay   = "day"
	tMonth = "month"
	tYear  = "year"
)

var allTypes = []string{tDay, tMonth, tYear}

// typeOf mirrors the documented rule of the database option: <5m day, <1h month, else year.
func typeOf(interval int64) string {
	switch {
	case interval >= msHour:
		return tYear
	case interval >= 5*msMinute:
		return tMonth
	default:
		return tDay
	}
}

type calendar struct {
	loc       *time.Location
	transOnce sync.Once
	trans     []transitionDay
}

// bucket is the segment and family a timestamp belongs to according to the calendar.
type bucket struct {
	Type     string
	SegName  string
	SegStart int64 // first ms of the segment
	SegNext  int64 // first ms of the next segment
	FamNum   int   // hour of day / day of month / month of year
	FamStart int64 // first ms of the family
	FamEnd   int64 // last ms of the family (inclusive)
}

func ms(t time.Time) int64 { return t.UnixMilli() }

func (c *calendar) at(ts int64) time.Time { return time.UnixMilli(ts).In(c.loc) }

func (c *calendar) fmt(ts int64) string {
	return c.at(ts).Format("2006-01-02T15:04:05.000Z07:00")
}

func (c *calendar) bucketOf(typ string, ts int64) bucket {
	t := c.at(ts)
	y, m, d := t.Date()
	h := t.Hour()
	l := c.loc
	b := bucket{Type: typ}
	switch typ {
	case tDay:
		b.SegName = fmt.Sprintf("%04d%02d%02d", y, int(m), d)
		b.SegStart = ms(time.Date(y, m, d, 0, 0, 0, 0, l))
		b.SegNext = ms(time.Date(y, m, d+1, 0, 0, 0, 0, l))
		b.FamNum = h
		b.FamStart = ms(time.Date(y, m, d, h, 0, 0, 0, l))
		b.FamEnd = ms(time.Date(y, m, d, h+1, 0, 0, 0, l)) - 1
		if b.SegNext-b.SegStart != msDay {
			// a local day on which the clock is moved (23 h / 25 h): a clock hour label is skipped or repeats, so the
			// label cannot number the hours.  The property only asks for ranges that contain the timestamp, tile the
			// axis and are stable inside a family; the hour families of such a day are numbered by elapsed hours
			// since local midnight (0..22 / 0..24).  That they end exactly on the next local midnight is checked
			// separately (family-crosses-segment-end) with SegNext, which comes from time.Date.
			b.FamNum = int((ts - b.SegStart) / msHour)
			b.FamStart = b.SegStart + int64(b.FamNum)*msHour
			b.FamEnd = b.FamStart + msHour - 1
		}
	case tMonth:
		b.SegName = fmt.Sprintf("%04d%02d", y, int(m))
		b.SegStart = ms(time.Date(y, m, 1, 0, 0, 0, 0, l))
		b.SegNext = ms(time.Date(y, m+1, 1, 0, 0, 0, 0, l))
		b.FamNum = d
		b.FamStart = ms(time.Date(y, m, d, 0, 0, 0, 0, l))
		b.FamEnd = ms(time.Date(y, m, d+1, 0, 0, 0, 0, l)) - 1
	case tYear:
		b.SegName = fmt.Sprintf("%04d", y)
		b.SegStart = ms(time.Date(y, 1, 1, 0, 0, 0, 0, l))
		b.SegNext = ms(time.Date(y+1, 1, 1, 0, 0, 0, 0, l))
		b.FamNum = int(m)
		b.FamStart = ms(time.Date(y, m, 1, 0, 0, 0, 0, l))
		b.FamEnd = ms(time.Date(y, m+1, 1, 0, 0, 0, 0, l)) - 1
	default:
		panic("bad type " + typ)
	}
	return b
}

// slotOf returns the slot index and slot start of ts inside its family for the given interval.
func (c *calendar) slotOf(interval, ts int64) (slot int64, slotStart int64, b bucket) {
	b = c.bucketOf(typeOf(interval), ts)
	slot = (ts - b.FamStart) / interval
	return slot, b.FamStart + slot*interval, b
}

// dividesFamilyUnit reports whether the interval divides the nominal family length of its type
// (hour / day / day – a year-type slot grid restarts every month, months are whole days).
func dividesFamilyUnit(interval int64) bool {
	switch typeOf(interval) {
	case tDay:
		return msHour%interval == 0
	default:
		return msDay%interval == 0
	}
}

// window of the workload
const (
	firstYear = 2019
	lastYear  = 2032
)

func (c *calendar) windowStart() int64 { return ms(time.Date(firstYear, 1, 1, 0, 0, 0, 0, c.loc)) }
func (c *calendar) windowEnd() int64   { return ms(time.Date(lastYear+1, 1, 1, 0, 0, 0, 0, c.loc)) }

// edge kinds
const (
	eHour  = 0
	eDay   = 1
	eMonth = 2
	eYear  = 3
)

type edge struct {
	ts   int64
	kind int
}

// edges lists every local hour boundary of the window with its strongest kind.
func (c *calendar) edges() []edge {
	var out []edge
	l := c.loc
	for y := firstYear; y <= lastYear; y++ {
		for m := time.January; m <= time.December; m++ {
			days := time.Date(y, m+1, 0, 0, 0, 0, 0, l).Day()
			for d := 1; d <= days; d++ {
				for h := 0; h < 24; h++ {
					k := eHour
					if h == 0 {
						k = eDay
						if d == 1 {
							k = eMonth
							if m == time.January {
								k = eYear
							}
						}
					}
					out = append(out, edge{ms(time.Date(y, m, d, h, 0, 0, 0, l)), k})
				}
			}
		}
	}
	return out
}

var edgeOffsets = []int64{-1000, -999, -1, 0, 1, 999, 1000}

// calendarHotspots returns day starts that are interesting for the heavier (file-backed) parts:
// month ends of every length, leap days, year ends, plus seeded random days.
func (c *calendar) calendarHotspots(rnd *rand.Rand, randomDays int) []int64 {
	l := c.loc
	set := map[int64]struct{}{}
	add := func(t time.Time) { set[ms(t)] = struct{}{} }
	for _, y := range []int{2019, 2020, 2023, 2024, 2027, 2028, 2031, 2032} {
		for m := time.January; m <= time.December; m++ {
			if y != 2020 && y != 2024 && y != 2019 && m != time.February && m != time.December && m != time.January {
				continue
			}
			add(time.Date(y, m, 1, 0, 0, 0, 0, l))
			add(time.Date(y, m+1, 0, 0, 0, 0, 0, l)) // last day of month
			add(time.Date(y, m+1, -1, 0, 0, 0, 0, l))
		}
		add(time.Date(y, 2, 28, 0, 0, 0, 0, l))
		add(time.Date(y, 3, 1, 0, 0, 0, 0, l))
		add(time.Date(y, 12, 31, 0, 0, 0, 0, l))
		add(time.Date(y+1, 1, 1, 0, 0, 0, 0, l))
	}
	span := int((c.windowEnd() - c.windowStart()) / msDay)
	for i := 0; i < randomDays; i++ {
		t := c.at(c.windowStart() + int64(rnd.Intn(span))*msDay + 12*msHour)
		add(time.Date(t.Year(), t.Month(), t.Day(), 0, 0, 0, 0, l))
	}
	out := make([]int64, 0, len(set))
	for k := range set {
		if k >= c.windowStart() && k < c.windowEnd() {
			out = append(out, k)
		}
	}
	sort.Slice(out, func(i, j int) bool { return out[i] < out[j] })
	return out
}

// transitionDay is a local calendar day whose length is not 24 h (the clock is moved on it).
type transitionDay struct {
	Start int64 // local midnight
	Next  int64 // next local midnight
}

func (t transitionDay) Len() int64 { return t.Next - t.Start }

// transitionDays lists, from time.Date alone, every local day of the window that is not 24 h long.
func (c *calendar) transitionDays() []transitionDay {
	var out []transitionDay
	l := c.loc
	for y := firstYear; y <= lastYear; y++ {
		for m := time.January; m <= time.December; m++ {
			days := time.Date(y, m+1, 0, 0, 0, 0, 0, l).Day()
			for d := 1; d <= days; d++ {
				a, b := ms(time.Date(y, m, d, 0, 0, 0, 0, l)), ms(time.Date(y, m, d+1, 0, 0, 0, 0, l))
				if b-a != msDay {
					out = append(out, transitionDay{a, b})
				}
			}
		}
	}
	return out
}

// dstSituation names the daylight-saving situation of ts ("" on ordinary days and in zones without transitions):
//   - "23h-day", "25h-day": ts lies on a local day of that length;
//   - "25h-day-25th-hour": ts lies 24 h or more after the local midnight of its (25 h) day;
//   - "first-hour-after-23h-day": ts lies in the first hour of the day following a 23 h day
//     (a family range computed as start + 24 h would still cover it).
func (c *calendar) dstSituation(ts int64) string {
	tr := c.transitions()
	// first transition day whose Next+1h is after ts
	i := sort.Search(len(tr), func(i int) bool { return tr[i].Next+msHour > ts })
	if i == len(tr) || ts < tr[i].Start {
		return ""
	}
	t := tr[i]
	switch {
	case ts >= t.Next:
		if t.Len() < msDay {
			return "first-hour-after-23h-day"
		}
		return ""
	case t.Len() < msDay:
		return "23h-day"
	case ts-t.Start >= msDay:
		return "25h-day-25th-hour"
	}
	return "25h-day"
}

// transitions caches transitionDays.
func (c *calendar) transitions() []transitionDay {
	c.transOnce.Do(func() { c.trans = c.transitionDays() })
	return c.trans
}

// hasDST reports whether the zone moves its clock inside the window.
func (c *calendar) hasDST() bool { return len(c.transitions()) > 0 }

// boundaryKind says how ts relates to the boundaries of its bucket (within 1 s), "" if interior.
func boundaryKind(b bucket, ts int64) string {
	switch {
	case ts-b.SegStart <= msSecond:
		return "seg-lo"
	case b.SegNext-1-ts <= msSecond:
		return "seg-hi"
	case ts-b.FamStart <= msSecond:
		return "fam-lo"
	case b.FamEnd-ts <= msSecond:
		return "fam-hi"
	}
	return ""
}

// childEnv is what every part of a child gets.
type childEnv struct {
	rec    *rec
	cal    *calendar
	tz     string
	shard  int
	shards int
	dir    string
	quick  bool
	seed   int64
	light  bool // reduced workload (second daylight-saving zone)
}

func (e *childEnv) pick(q, t int) int {
	if e.quick {
		return q
	}
	return t
}

// rand returns a PRNG derived from the seed, the zone independent stream name and the shard.
func (e *childEnv) rand(stream string) *rand.Rand {
	h := uint64(1469598103934665603)
	s := fmt.Sprintf("%s#%d/%d", stream, e.shard, e.shards)
	for i := 0; i < len(s); i++ {
		h ^= uint64(s[i])
		h *= 1099511628211
	}
	return rand.New(rand.NewSource(e.seed*1000003 + int64(h&0x7fffffffffff)))
}

func (e *childEnv) wit(kv ...interface{}) map[string]interface{} {
	m := map[string]interface{}{"tz": e.tz}
	for i := 0; i+1 < len(kv); i += 2 {
		m[fmt.Sprint(kv[i])] = kv[i+1]
	}
	return m
}
