// Engine C13: time bucketing partitions the time axis consistently.
//
// The parent process only orchestrates: lindb's calculators use time.Local, which is fixed at
// process start, so every part of the workload runs in child processes started with TZ set.
// UTC, Asia/Shanghai, Asia/Kolkata (+05:30, an offset that is not a whole number of hours) and two zones that move
// their clock (America/New_York, Europe/Berlin: local days of 23 h and 25 h) all decide.
package main

import (
	"encoding/json"
	"fmt"
	"os"
	"path/filepath"
	"runtime"
	"sort"
	"strconv"
	"strings"
	"sync"
	"time"
	_ "time/tzdata" // fallback when /usr/share/zoneinfo is missing

	"github.com/lindb/lindb/verif/internal/core"
)

const prop = "C13"

// zones: all decide.  dst marks the zones that move their clock (23 h / 25 h local days): their children must
// reach those days (see dstRequired), otherwise the run is inconclusive.  light zones run a reduced workload.
var zones = []struct {
	name  string
	dst   bool
	light bool
}{
	{"UTC", false, false},
	{"Asia/Shanghai", false, false},
	{"Asia/Kolkata", false, false},
	{"America/New_York", true, false},
	{"Europe/Berlin", true, true},
}

// dstRequired lists, per part, the observation counters a zone with daylight saving must reach.
var dstRequired = map[string][]string{
	"calc": {"calc/dst/timestamps_23h-day", "calc/dst/timestamps_25h-day", "calc/dst/timestamps_25h-day-25th-hour",
		"calc/dst/timestamps_first-hour-after-23h-day", "calc/dst/month/walk_families_on_23h-day", "calc/dst/month/walk_families_on_25h-day",
		"calc/dst/day/walk_families_on_23h-day", "calc/dst/day/walk_families_on_25h-day"},
	"broker": {"broker/dst/month/batches_with_rows_on_23h_day_and_in_first_hour_after_it", "broker/dst/month/rows_25h-day-25th-hour",
		"broker/dst/day/rows_25h-day-25th-hour", "broker/dst/day/rows_23h-day"},
	"tsdb": {"tsdb/dst/month/touches_25h-day-25th-hour", "tsdb/dst/month/touches_first-hour-after-23h-day", "tsdb/dst/month/touches_23h-day",
		"tsdb/dst/day/touches_25h-day-25th-hour", "tsdb/dst/day/touches_23h-day",
		"tsdb/dst/month/live/range_queries_inside_25h-day-25th-hour_with_hits", "tsdb/dst/month/live/range_queries_inside_first-hour-after-23h-day_with_hits",
		"tsdb/dst/month/reopened/range_queries_inside_25h-day-25th-hour_with_hits"},
	"plan": {"plan/dst/requests_on_slot_grid_shifted_by_transition_inside_family/year", "plan/dst/requests_starting_or_ending_on_transition_day"},
	"conc": {"conc/dst/timestamps_23h-day", "conc/dst/timestamps_25h-day", "conc/dst/timestamps_25h-day-25th-hour",
		"conc/dst/timestamps_first-hour-after-23h-day", "conc/broker/dst/day/rows_25h-day-25th-hour", "conc/broker/dst/month/rows_23h-day"},
	"rollup": {"rollup/dst/month/points_25h-day-25th-hour", "rollup/dst/month/points_23h-day", "rollup/dst/month/dense_source_slots_in_25th_hour"},
}

// recViolation is one violation class observed by a child.
type recViolation struct {
	Class   string      `json:"class"`
	Message string      `json:"message"`
	Witness interface{} `json:"witness"`
	Count   int         `json:"count"`
}

// rec is the collector of a child process; it is serialised to the result file.
type rec struct {
	mu           sync.Mutex
	TZ           string                   `json:"tz"`
	Part         string                   `json:"part"`
	Evals        int64                    `json:"evals"`
	Counters     map[string]int64         `json:"counters"`
	NontrivialKs []string                 `json:"nontrivial"`
	Samples      []interface{}            `json:"samples"`
	Violations   map[string]*recViolation `json:"violations"`
	Inconcl      []string                 `json:"inconclusive"`
	nontrivial   map[string]struct{}
}

func newRec(tz, part string) *rec {
	return &rec{TZ: tz, Part: part, Counters: map[string]int64{}, Violations: map[string]*recViolation{},
		nontrivial: map[string]struct{}{}}
}

func (r *rec) Eval(n int) { r.mu.Lock(); r.Evals += int64(n); r.mu.Unlock() }
func (r *rec) Count(name string, n int) {
	r.mu.Lock()
	r.Counters[name] += int64(n)
	r.mu.Unlock()
}
func (r *rec) Nontrivial(key string) {
	r.mu.Lock()
	if len(r.nontrivial) < 400_000 {
		r.nontrivial[key] = struct{}{}
	}
	r.mu.Unlock()
}
func (r *rec) Sample(v interface{}) {
	r.mu.Lock()
	if len(r.Samples) < 2 {
		r.Samples = append(r.Samples, v)
	}
	r.mu.Unlock()
}
func (r *rec) Inconclusive(format string, args ...interface{}) {
	r.mu.Lock()
	r.Inconcl = append(r.Inconcl, fmt.Sprintf(format, args...))
	r.mu.Unlock()
}
func (r *rec) Violation(class, msg string, witness interface{}) {
	r.mu.Lock()
	defer r.mu.Unlock()
	if v, ok := r.Violations[class]; ok {
		v.Count++
		return
	}
	r.Violations[class] = &recViolation{Class: class, Message: msg, Witness: witness, Count: 1}
}

// bump adds n observations to a class that is already recorded.
func (r *rec) bump(class string, n int) {
	r.mu.Lock()
	if v, ok := r.Violations[class]; ok {
		v.Count += n
	}
	r.mu.Unlock()
}
func (r *rec) write(path string) {
	r.mu.Lock()
	defer r.mu.Unlock()
	r.NontrivialKs = r.NontrivialKs[:0]
	for k := range r.nontrivial {
		r.NontrivialKs = append(r.NontrivialKs, k)
	}
	sort.Strings(r.NontrivialKs)
	data, err := json.Marshal(r)
	if err != nil {
		fmt.Println("cannot marshal child result:", err)
		os.Exit(3)
	}
	tmp := path + ".tmp"
	if err := os.WriteFile(tmp, data, 0o644); err != nil {
		fmt.Println("cannot write child result:", err)
		os.Exit(3)
	}
	_ = os.Rename(tmp, path)
}

type job struct {
	part   string
	tz     string
	dst    bool
	light  bool
	shard  int
	shards int
}

func (j job) name() string {
	return fmt.Sprintf("%s-%s-%d", j.part, strings.ReplaceAll(j.tz, "/", "_"), j.shard)
}

func main() {
	if len(os.Args) > 1 && os.Args[1] == "child" {
		childMain(os.Args[2:])
		return
	}
	c := core.New(prop, "exploration")
	c.SetRule("timestamps = every local hour/day/month/year boundary of 2019-01-01..2032-12-31 with offsets " +
		"{-1000,-999,-1,0,+1,+999,+1000} ms (quick: hour boundaries only with {-1,0}) plus seeded random milliseconds; " +
		"intervals = day{1s,5s,10s,30s,1m,2m,7s,45s} month{5m,10m,30m,7m,45m} year{1h,2h,4h,6h,12h,1d,5h}; " +
		"a case is non-trivial when the checked timestamp lies within 1 s of a family or segment boundary; distinct key = " +
		"(zone, part, interval type, segment, boundary kind) for calculator/tsdb/broker/rollup cases and " +
		"(zone, option set, storage interval, range-length bucket, edge kind) for planner cases; " +
		"zones that move their clock (America/New_York, Europe/Berlin) additionally get every hour of their 23 h / 25 h local days as oversampled batch/plan anchors, " +
		"a seeded selection of those days (thorough: all) as tsdb touch/query targets (start+23h, start+24h, real day end, first hour of the next day) and as rollup source hours; " +
		"a run in which such a zone did not reach these situations (counters */dst/*) is inconclusive; " +
		"part conc: per zone 12 (thorough 16) goroutines of one process, released together behind a barrier, each walk an own seeded list of timestamps of different local days/months/years " +
		"(neighbouring days, months, years of a shared anchor day, both sides of the boundaries, days on which the clock is moved) through all calculator entry points and the broker family iterator; " +
		"fixed operation counts, overlap measured by the other goroutines' operation counters, fewer than 200 passes or 1000 operations of a child overlapped => inconclusive")
	c.Assume("the calculators returned by Interval.Calculator() are process-wide singletons shared by all shards, write goroutines and queries: every answer given while other goroutines use them, and afterwards, must equal the sequential answer")
	c.Assume("Go's time package (time.Date / time.LoadLocation with an explicit *Location) is a correct calendar; the oracle never calls lindb's IntervalCalculator")
	c.Assume("UTC, Asia/Shanghai, Asia/Kolkata (+05:30), America/New_York and Europe/Berlin (daylight saving: 23 h and 25 h local days) all decide; " +
		"on a day on which the clock is moved the hour families of a day-type segment are numbered by elapsed hours since local midnight (the statement asks for containment, tiling and stability, not for the clock label)")
	c.Assume("planner alignment / containment is decided only for storage intervals that divide their family unit (hour, day, day); other intervals are reported")
	c.Assume("database retention is 200 years so that the wall clock cannot expire a generated segment (window ends 2032)")

	scratch := c.Scratch()
	var jobs []job
	// development aid: VERIF_C13_ZONES=a,b restricts the run to some zones (recorded in the evidence; unset = all)
	if only := os.Getenv("VERIF_C13_ZONES"); only != "" {
		kept := zones[:0:0]
		for _, z := range zones {
			for _, o := range strings.Split(only, ",") {
				if o == z.name {
					kept = append(kept, z)
				}
			}
		}
		zones = kept
		c.Set("zones_restricted_by_VERIF_C13_ZONES", only)
	}
	for _, z := range zones {
		nCalc, nPlan, nTsdb, nRoll := c.Pick(4, 32), c.Pick(2, 8), c.Pick(1, 3), c.Pick(2, 3)
		if z.light {
			nCalc, nPlan, nTsdb, nRoll = c.Pick(1, 8), c.Pick(1, 2), 1, 1
		}
		for s := 0; s < nCalc; s++ {
			jobs = append(jobs, job{"calc", z.name, z.dst, z.light, s, nCalc})
		}
		for s := 0; s < nPlan; s++ {
			jobs = append(jobs, job{"plan", z.name, z.dst, z.light, s, nPlan})
		}
		jobs = append(jobs, job{"broker", z.name, z.dst, z.light, 0, 1})
		nConc := c.Pick(1, 4)
		for s := 0; s < nConc; s++ {
			jobs = append(jobs, job{"conc", z.name, z.dst, z.light, s, nConc})
		}
		for s := 0; s < nTsdb; s++ {
			jobs = append(jobs, job{"tsdb", z.name, z.dst, z.light, s, nTsdb})
		}
		for s := 0; s < nRoll; s++ {
			jobs = append(jobs, job{"rollup", z.name, z.dst, z.light, s, nRoll})
		}
	}
	// longest first
	order := map[string]int{"rollup": 0, "tsdb": 1, "calc": 2, "plan": 3, "broker": 4, "conc": 5}
	sort.SliceStable(jobs, func(i, k int) bool { return order[jobs[i].part] < order[jobs[k].part] })

	watchdog := time.Duration(c.Pick(600, 4800)) * time.Second
	results := make([]*rec, len(jobs))
	fails := make([]string, len(jobs))
	walls := make([]float64, len(jobs))
	workers := runtime.NumCPU()
	if workers > 16 {
		workers = 16
	}
	runJob := func(i int) {
		j := jobs[i]
		dir := filepath.Join(scratch, j.name())
		_ = os.MkdirAll(dir, 0o755)
		resFile := filepath.Join(dir, "result.json")
		logFile := filepath.Join(dir, "child.log")
		args := []string{"child", j.part, j.tz, strconv.Itoa(j.shard), strconv.Itoa(j.shards), dir, resFile, c.Tier}
		env := []string{"TZ=" + j.tz, "VERIF_TIER=" + c.Tier, fmt.Sprintf("VERIF_SEED=%d", c.Seed), fmt.Sprintf("VERIF_C13_LIGHT=%v", j.light)}
		t0 := time.Now()
		cr := core.RunChild("", args, env, watchdog, logFile)
		walls[i] = time.Since(t0).Seconds()
		data, err := os.ReadFile(resFile)
		if err != nil {
			kind := "exit"
			if cr.TimedOut {
				kind = "watchdog"
			}
			fails[i] = fmt.Sprintf("child %s: %s code=%d no result; tail: %s", j.name(), kind, cr.ExitCode, tail(cr.Output, 1500))
			return
		}
		r := &rec{}
		if err := json.Unmarshal(data, r); err != nil {
			fails[i] = fmt.Sprintf("child %s: unreadable result: %v", j.name(), err)
			return
		}
		results[i] = r
	}
	// the children of part conc run many goroutines each: they are run one after the other next to the worker pool (not
	// inside it, not all at once), so that their goroutines compete with single-threaded children and not with each other
	var concIdx, poolIdx []int
	for i, j := range jobs {
		if j.part == "conc" {
			concIdx = append(concIdx, i)
		} else {
			poolIdx = append(poolIdx, i)
		}
	}
	var concDone sync.WaitGroup
	concDone.Add(1)
	go func() {
		defer concDone.Done()
		for _, i := range concIdx {
			runJob(i)
		}
	}()
	core.Parallel(len(poolIdx), workers, func(k int) { runJob(poolIdx[k]) })
	concDone.Wait()

	jobWall := map[string]float64{}
	for i, j := range jobs {
		jobWall[j.name()] = float64(int(walls[i]*10)) / 10
	}
	c.Set("child_wall_s", jobWall)
	zoneCounters := map[string]map[string]int64{} // zone -> counter -> sum over its children
	zoneParts := map[string]map[string]bool{}     // zone -> parts that delivered a result
	for i, j := range jobs {
		if fails[i] != "" {
			// a crash inside lindb code on valid input is a violation of its own class
			if strings.Contains(fails[i], "github.com/lindb/lindb/") && strings.Contains(fails[i], "panic") &&
				!strings.Contains(fails[i], "watchdog") {
				c.Violation("C13/"+j.part+"/panic-in-lindb", fails[i], map[string]interface{}{"job": j.name()})
			} else {
				c.Inconclusive("%s", fails[i])
			}
			continue
		}
		r := results[i]
		c.Eval(int(r.Evals))
		ztag := zoneTag(j.tz)
		if zoneCounters[j.tz] == nil {
			zoneCounters[j.tz], zoneParts[j.tz] = map[string]int64{}, map[string]bool{}
		}
		zoneParts[j.tz][j.part] = true
		for k, v := range r.Counters {
			c.Count(ztag+"/"+k, int(v))
			zoneCounters[j.tz][k] += v
		}
		for _, m := range r.Inconcl {
			c.Inconclusive("%s: %s", j.name(), m)
		}
		for _, k := range r.NontrivialKs {
			c.Nontrivial(k)
		}
		for _, s := range r.Samples {
			c.Sample(s)
		}
		for _, v := range r.Violations {
			for n := 0; n < v.Count; n++ {
				c.Violation(v.Class, v.Message, v.Witness)
				if n > 50 {
					break
				}
			}
		}
	}
	// a zone that moves its clock must have reached the days on which it does, in every part
	for _, z := range zones {
		if !z.dst {
			continue
		}
		for part, names := range dstRequired {
			if !zoneParts[z.name][part] {
				continue // the child failed, already reported above
			}
			for _, n := range names {
				if zoneCounters[z.name][n] == 0 {
					c.Inconclusive("zone %s part %s never observed %q (daylight-saving situation not reached)", z.name, part, n)
				}
			}
		}
	}
	// every zone must have used the shared calculators from several goroutines at the same time
	for _, z := range zones {
		if !zoneParts[z.name]["conc"] {
			continue // the child failed, already reported above
		}
		for _, n := range []string{"conc/passes_overlapped(other_goroutines_advanced_during_the_pass)", "conc/day/timestamps", "conc/month/timestamps",
			"conc/year/timestamps", "conc/broker/batches_spanning_several_local_days", "conc/after/day/timestamps"} {
			if zoneCounters[z.name][n] == 0 {
				c.Inconclusive("zone %s part conc never observed %q", z.name, n)
			}
		}
	}
	zs := []string{}
	for _, z := range zones {
		zs = append(zs, fmt.Sprintf("%s(decides=true,dst=%v,light=%v)", z.name, z.dst, z.light))
	}
	c.Set("zones", zs)
	c.Finish()
}

func zoneTag(tz string) string {
	switch tz {
	case "UTC":
		return "utc"
	case "Asia/Shanghai":
		return "shanghai"
	case "Asia/Kolkata":
		return "kolkata"
	case "America/New_York":
		return "newyork"
	case "Europe/Berlin":
		return "berlin"
	}
	return tz
}

func tail(s string, n int) string {
	if len(s) > n {
		return s[len(s)-n:]
	}
	return s
}

// childMain dispatches one part of the workload. args: part tz shard shards dir resultFile tier
func childMain(args []string) {
	if len(args) < 7 {
		fmt.Println("bad child args")
		os.Exit(3)
	}
	part, tz := args[0], args[1]
	shard, _ := strconv.Atoi(args[2])
	shards, _ := strconv.Atoi(args[3])
	dir, resFile, tier := args[4], args[5], args[6]
	seed, _ := strconv.ParseInt(os.Getenv("VERIF_SEED"), 10, 64)
	if seed == 0 && os.Getenv("VERIF_SEED") == "" {
		seed = 1
	}
	r := newRec(tz, part)
	env := &childEnv{rec: r, tz: tz, shard: shard, shards: shards, dir: dir, quick: tier != "thorough", seed: seed,
		light: os.Getenv("VERIF_C13_LIGHT") == "true"}
	loc, err := time.LoadLocation(tz)
	if err != nil {
		r.Inconclusive("zone %s cannot be loaded: %v", tz, err)
		r.write(resFile)
		return
	}
	env.cal = &calendar{loc: loc}
	// time.Local must be the requested zone, otherwise the run says nothing about it.
	if !localMatches(loc) {
		r.Inconclusive("time.Local of the child does not behave like %s (TZ=%q)", tz, os.Getenv("TZ"))
		r.write(resFile)
		return
	}
	switch part {
	case "calc":
		runCalc(env)
	case "plan":
		runPlan(env)
	case "broker":
		runBroker(env)
	case "tsdb":
		runTsdb(env)
	case "rollup":
		runRollup(env)
	case "conc":
		runConc(env)
	default:
		r.Inconclusive("unknown part %s", part)
	}
	r.write(resFile)
}

// localMatches checks that time.Local has the same offsets as loc at a few instants of the window.
func localMatches(loc *time.Location) bool {
	for y := 2019; y <= 2032; y++ {
		for _, m := range []time.Month{1, 4, 7, 10} {
			u := time.Date(y, m, 15, 12, 0, 0, 0, time.UTC)
			_, o1 := u.In(loc).Zone()
			_, o2 := u.In(time.Local).Zone()
			if o1 != o2 {
				return false
			}
		}
	}
	return true
}
