package main

import (
	"fmt"
	"math/rand"
	"runtime"
	"sort"
	"strings"
	"sync"
	"sync/atomic"
	"time"

	"github.com/lindb/lindb/pkg/timeutil"
	"github.com/lindb/lindb/series/metric"
)

// Part "conc": the calculators behind Interval.Calculator() are process-wide singletons that every shard, write
// goroutine and query of a process shares; they are documented (and used) as stateless.  The other parts call them
// from one goroutine per process, so nothing they remember between calls could ever be seen.  This part lets several
// goroutines of one process walk their own seeded lists of timestamps of DIFFERENT local days / months / years
// through every calculator entry point (the relation checks of the sequential part, unchanged) and through the
// broker's family iterator, at the same time.  Every answer is compared with the same time.Date calendar; a wrong
// answer gets the class of the sequential part with the suffix "/concurrent" (known C13/dst/* mechanisms keep their
// class).  After every burst one goroutine probes the calculators again ("/after-concurrent-use": state left behind).
//
// Nothing is decided on the wall clock: operation counts are fixed by (seed, tier), the goroutines of a burst are
// released together behind a barrier, and overlap is measured logically - a pass of a goroutine counts as overlapped
// when the operation counters of other goroutines advanced between its first and its last operation.

// obs is where a relation check reports to: the child record (sequential parts) or a per-goroutine collector.
type obs interface {
	Eval(n int)
	Count(name string, n int)
	Nontrivial(key string)
	Violation(class, msg string, witness interface{})
}

const (
	suffixConcurrent = "/concurrent"
	suffixAfterConc  = "/after-concurrent-use"
)

// concObs collects what one goroutine observes without taking the record's lock on the hot path
// (violations go to the record directly; they are rare on a correct tree).
type concObs struct {
	rec    *rec
	suffix string
	note   string
	g      int
	burst  int
	pass   int
	evals  int64
	cnt    map[string]int64
	nt     map[string]struct{}
	nViol  int
	seen   map[string]int // class -> times observed by this collector
}

func newConcObs(r *rec, suffix, note string, g, burst int) *concObs {
	return &concObs{rec: r, suffix: suffix, note: note, g: g, burst: burst, cnt: map[string]int64{}, nt: map[string]struct{}{}}
}

func (o *concObs) Eval(n int) { o.evals += int64(n) }
func (o *concObs) Count(name string, n int) {
	if !strings.HasPrefix(name, "conc/") {
		name = "conc/" + name
	}
	o.cnt[name] += int64(n)
}
func (o *concObs) Nontrivial(key string) {
	if len(o.nt) < 50_000 {
		o.nt[key] = struct{}{}
	}
}

// Violation keeps the class of the sequential relation and marks it as seen under concurrent use.  The classes of the
// known daylight-saving mechanisms are assigned by value (observed == what the mechanism predicts) and stay as they are.
func (o *concObs) Violation(class, msg string, witness interface{}) {
	if !strings.HasPrefix(class, "C13/dst/") {
		class += o.suffix
	}
	o.nViol++
	if o.seen == nil {
		o.seen = map[string]int{}
	}
	if o.seen[class]++; o.seen[class] > 8 {
		return // counted, added to the record at flush: a broken tree must not serialise the goroutines on the record's lock
	}
	if m, ok := witness.(map[string]interface{}); ok {
		m["goroutine"], m["burst"], m["pass"], m["situation"] = o.g, o.burst, o.pass, o.note
	}
	o.rec.Violation(class, msg+" ["+o.note+"]", witness)
}

func (o *concObs) flush() {
	for class, n := range o.seen {
		if n > 8 {
			o.rec.bump(class, n-8)
		}
	}
	o.seen = nil
	o.rec.Eval(int(o.evals))
	for k, v := range o.cnt {
		o.rec.Count(k, int(v))
	}
	for k := range o.nt {
		o.rec.Nontrivial(k)
	}
	o.evals, o.cnt, o.nt = 0, map[string]int64{}, map[string]struct{}{}
}

// newConcChecker is a calcChecker that reports to o (no identity checks, those are done by the sequential part).
func newConcChecker(e *childEnv, o obs) *calcChecker {
	cc := &calcChecker{e: e, out: o, cntPre: "conc/", ntPart: "conc", calcs: map[string]timeutil.IntervalCalculator{}, cnt: map[string]int64{}, twSample: map[string]bool{}}
	for _, t := range allTypes {
		cc.calcs[t] = lindbCalc(t)
	}
	return cc
}

// a child of the concurrent part must have seen at least this much logical overlap, otherwise it is inconclusive
const (
	concMinPasses = 200
	concMinOps    = 1000
)

type paddedCounter struct {
	n atomic.Int64
	_ [56]byte
}

// concAnchor is the neighbourhood all goroutines of a burst work in during one pass: a local midnight.
type concAnchor struct {
	day  int64
	kind string         // what the day is (random, month-start, year-start, leap-day, month-end, transition)
	tr   *transitionDay // set when the day is one on which the clock is moved
}

// concAnchors draws the shared anchors of a burst from the seed.
func concAnchors(rnd *rand.Rand, cal *calendar, n int) []concAnchor {
	l := cal.loc
	tr := cal.transitions()
	span := int((cal.windowEnd() - cal.windowStart()) / msDay)
	out := make([]concAnchor, 0, n)
	for i := 0; i < n; i++ {
		y := firstYear + rnd.Intn(lastYear-firstYear+1)
		m := time.Month(1 + rnd.Intn(12))
		var a concAnchor
		pick := rnd.Intn(100)
		switch {
		case len(tr) > 0 && i%4 == 1:
			t := tr[rnd.Intn(len(tr))]
			a = concAnchor{day: t.Start, kind: "transition", tr: &t}
		case pick < 35:
			t := cal.at(cal.windowStart() + int64(rnd.Intn(span))*msDay + 12*msHour)
			a = concAnchor{day: ms(time.Date(t.Year(), t.Month(), t.Day(), 0, 0, 0, 0, l)), kind: "random-day"}
		case pick < 60:
			a = concAnchor{day: ms(time.Date(y, m, 1, 0, 0, 0, 0, l)), kind: "month-start"}
		case pick < 75:
			a = concAnchor{day: ms(time.Date(y, 1, 1, 0, 0, 0, 0, l)), kind: "year-start"}
		case pick < 85:
			ly := []int{2020, 2024, 2028, 2032}[rnd.Intn(4)]
			a = concAnchor{day: ms(time.Date(ly, 2, 29, 0, 0, 0, 0, l)), kind: "leap-day"}
		default:
			a = concAnchor{day: ms(time.Date(y, m+1, 0, 0, 0, 0, 0, l)), kind: "month-end"}
		}
		out = append(out, a)
	}
	return out
}

// concTimestamp draws one timestamp of a goroutine's list for the pass anchored at a: another local day / month /
// year than the anchor most of the time, on both sides of the boundaries.
func concTimestamp(rnd *rand.Rand, cal *calendar, a concAnchor) (ts int64, how string) {
	l := cal.loc
	clip := func(ts int64) int64 {
		if ts < cal.windowStart() {
			ts = cal.windowStart()
		}
		if ts >= cal.windowEnd() {
			ts = cal.windowEnd() - 1
		}
		return ts
	}
	if a.tr != nil && rnd.Intn(4) == 0 {
		// the day on which the clock is moved itself: hour 23, hour 24, the real end, the first hour of the next day
		bases := []int64{a.tr.Start + 23*msHour, a.tr.Start + 24*msHour, a.tr.Next - 1, a.tr.Next, a.tr.Next + rnd.Int63n(msHour), a.tr.Start + rnd.Int63n(a.tr.Len())}
		return clip(bases[rnd.Intn(len(bases))] + []int64{-1, 0, 0, 1}[rnd.Intn(4)]), "transition-day"
	}
	t := cal.at(a.day)
	y, m, d := t.Date()
	switch p := rnd.Intn(100); {
	case p < 60:
		d += rnd.Intn(7) - 3
		how = "neighbouring-day"
	case p < 80:
		m += time.Month(rnd.Intn(5) - 2)
		how = "neighbouring-month"
	case p < 90:
		y += rnd.Intn(3) - 1
		how = "neighbouring-year"
	default:
		far := cal.at(cal.windowStart() + rnd.Int63n(cal.windowEnd()-cal.windowStart()))
		y, m, d = far.Date()
		how = "far-day"
	}
	start := ms(time.Date(y, m, d, 0, 0, 0, 0, l))
	next := ms(time.Date(y, m, d+1, 0, 0, 0, 0, l))
	switch p := rnd.Intn(100); {
	case p < 30: // both sides of the local midnight
		ts = start + edgeOffsets[rnd.Intn(len(edgeOffsets))]
	case p < 50: // both sides of an hour boundary of that day (including its end)
		hours := int((next - start) / msHour)
		ts = start + int64(rnd.Intn(hours+1))*msHour + edgeOffsets[rnd.Intn(len(edgeOffsets))]
	default:
		ts = start + rnd.Int63n(next-start)
	}
	return clip(ts), how
}

// concRand derives the stream of one goroutine in one burst.
func concRand(e *childEnv, burst, g int) *rand.Rand {
	return e.rand(fmt.Sprintf("conc-burst-%d-goroutine-%d", burst, g))
}

func runConc(e *childEnv) {
	r := e.rec
	cal := e.cal
	G := e.pick(12, 16)
	bursts := e.pick(2, 24)
	passes := e.pick(400, 600)
	const opsPerPass = 24
	if e.light {
		passes = e.pick(250, 300)
	}
	if procs := runtime.GOMAXPROCS(0); procs < 2 {
		r.Inconclusive("GOMAXPROCS=%d: goroutines cannot run at the same time", procs)
		return
	}
	anchorRnd := e.rand("conc-anchors")
	var passesTotal, passesOverlapped, passesOverlapped2, opsInterleaved int64
	for b := 0; b < bursts; b++ {
		if b%e.shards != e.shard {
			_ = concAnchors(anchorRnd, cal, passes) // burst of another child of this zone (stream position = burst index)
			continue
		}
		anchors := concAnchors(anchorRnd, cal, passes)
		counters := make([]paddedCounter, G)
		lastPass := make([][]int64, G)
		observers := make([]*concObs, G)
		checkers := make([]*calcChecker, G)
		var ready, done sync.WaitGroup
		start := make(chan struct{})
		overl := make([]int64, G)
		overl2 := make([]int64, G)
		inter := make([]int64, G)
		var running atomic.Int64
		fails := make([]string, G)
		for g := 0; g < G; g++ {
			g := g
			o := newConcObs(r, suffixConcurrent, fmt.Sprintf("%d goroutines use the shared calculators at the same time", G), g, b)
			observers[g] = o
			checkers[g] = newConcChecker(e, o)
			ready.Add(1)
			done.Add(1)
			go func() {
				defer done.Done()
				defer func() {
					if p := recover(); p != nil {
						buf := make([]byte, 4096)
						buf = buf[:runtime.Stack(buf, false)]
						fails[g] = fmt.Sprintf("panic: %v\n%s", p, buf)
					}
				}()
				rnd := concRand(e, b, g)
				cc := checkers[g]
				// the list of this goroutine is fixed before the barrier
				list := make([]int64, 0, passes*opsPerPass)
				us := make([]uint64, 0, passes*opsPerPass)
				for p := 0; p < passes; p++ {
					for k := 0; k < opsPerPass; k++ {
						ts, how := concTimestamp(rnd, cal, anchors[p])
						list = append(list, ts)
						us = append(us, rnd.Uint64())
						cc.count("conc/timestamps_"+how, 1)
					}
					cc.count("conc/passes_anchor_"+anchors[p].kind, 1)
				}
				brokerRnd := rand.New(rand.NewSource(rnd.Int63()))
				before := make([]int64, G)
				ready.Done()
				<-start
				// second stage of the barrier: every goroutine is on a thread (not merely runnable) before the first operation
				running.Add(1)
				for running.Load() < int64(G) {
					runtime.Gosched()
				}
				var foreign int64 // sum of the other goroutines' counters at the previous operation
				for p := 0; p < passes; p++ {
					o.pass = p
					for i := range before {
						before[i] = counters[i].n.Load()
					}
					pts := list[p*opsPerPass : (p+1)*opsPerPass]
					for k, ts := range pts {
						cc.check(ts, us[p*opsPerPass+k])
						counters[g].n.Add(1)
						var sum int64
						for i := range counters {
							if i != g {
								sum += counters[i].n.Load()
							}
						}
						if sum > foreign && (p > 0 || k > 0) {
							inter[g]++ // another goroutine completed an operation while this one was inside check()
						}
						foreign = sum
					}
					if o.nViol < 64 { // a broken tree: enough witnesses, do not spend the budget on formatting
						concBrokerPass(e, o, brokerRnd, pts)
					}
					counters[g].n.Add(1)
					adv := 0
					for i := range before {
						if i != g && counters[i].n.Load() > before[i] {
							adv++
						}
					}
					if adv >= 1 {
						overl[g]++
					}
					if adv >= 2 {
						overl2[g]++
					}
				}
				lastPass[g] = list[(passes-1)*opsPerPass:]
			}()
		}
		ready.Wait()
		close(start)
		done.Wait()
		for g := 0; g < G; g++ {
			if fails[g] != "" {
				if strings.Contains(fails[g], "github.com/lindb/lindb/") {
					r.Violation("C13/conc/panic-in-lindb"+suffixConcurrent, "a goroutine of the concurrent part panicked inside lindb: "+fails[g], e.wit("burst", b, "goroutine", g))
				} else {
					r.Inconclusive("conc burst %d goroutine %d: %s", b, g, fails[g])
				}
			}
			checkers[g].flush()
			observers[g].flush()
			passesTotal += int64(passes)
			passesOverlapped += overl[g]
			passesOverlapped2 += overl2[g]
			opsInterleaved += inter[g]
		}
		r.Count("conc/bursts", 1)
		r.Count("conc/goroutines_released_together", G)

		// quiescent again: what the concurrent use left behind must not change any answer.  The probe starts in the
		// middle of the timestamps the goroutines touched last and moves outwards.
		var probe []int64
		for g := 0; g < G; g++ {
			probe = append(probe, lastPass[g]...)
		}
		sort.Slice(probe, func(i, k int) bool { return probe[i] < probe[k] })
		ao := newConcObs(r, suffixAfterConc, fmt.Sprintf("one goroutine, after %d goroutines used the shared calculators at the same time", G), -1, b)
		ac := newConcChecker(e, ao)
		ac.cntPre = "conc/after/"
		mid := len(probe) / 2
		for i := 0; i < len(probe); i++ {
			idx := mid + (i+1)/2
			if i%2 == 1 {
				idx = mid - (i+1)/2
			}
			if idx < 0 || idx >= len(probe) {
				continue
			}
			ac.check(probe[idx], splitmix(uint64(probe[idx])^uint64(e.seed)))
		}
		ac.flush()
		ao.flush()
		if b == 0 && e.shard == 0 {
			r.Sample(map[string]interface{}{"part": "conc", "tz": e.tz, "goroutines": G, "passes": passes, "ops_per_pass": opsPerPass,
				"first_anchor": cal.fmt(anchors[0].day), "first_anchor_kind": anchors[0].kind})
		}
	}
	r.Count("conc/passes", int(passesTotal))
	r.Count("conc/passes_overlapped(other_goroutines_advanced_during_the_pass)", int(passesOverlapped))
	r.Count("conc/passes_overlapped_by_two_or_more_other_goroutines", int(passesOverlapped2))
	r.Count("conc/operations_during_which_another_goroutine_completed_an_operation", int(opsInterleaved))
	// too little overlap: the run says nothing about concurrent use
	// (absolute numbers, not shares: what counts is how often an answer was computed while another goroutine was inside
	// the calculators; on a machine busy with other work the share of such operations drops, their number stays large)
	if passesOverlapped < concMinPasses || opsInterleaved < concMinOps {
		r.Inconclusive("concurrent part: only %d of %d passes (need %d) and %d of %d operations (need %d) overlapped with operations of other goroutines",
			passesOverlapped, passesTotal, concMinPasses, opsInterleaved, passesTotal*opsPerPass, concMinOps)
	}
}

// concBrokerPass groups the timestamps of one pass (several local days) with the real broker iterator, one interval
// per type, and checks the groups like the sequential broker part.
func concBrokerPass(e *childEnv, o *concObs, rnd *rand.Rand, ts []int64) {
	batch := metric.NewBrokerBatchRows()
	defer batch.Release()
	for i, t := range ts {
		i, t := i, t
		if err := batch.TryAppend(func(row *metric.BrokerRow) error { return buildBrokerRow(row, i, t) }); err != nil {
			o.Count("conc/broker/rows_not_built", 1)
			return
		}
	}
	numShards := int32(1 + rnd.Intn(3))
	days := map[string]struct{}{}
	for _, t := range ts {
		days[e.cal.bucketOf(tDay, t).SegName] = struct{}{}
	}
	if len(days) > 1 {
		o.Count("conc/broker/batches_spanning_several_local_days", 1)
	}
	for _, typ := range allTypes {
		ivs := intervalsByType[typ]
		iv := ivs[rnd.Intn(len(ivs))]
		groups := brokerGrouping(batch, numShards, iv)
		checkBrokerGroups(e, o, "conc", iv, ts, groups)
	}
	o.Count("conc/broker/batches", 1)
}
