package main

import (
	"fmt"
	"strings"
	"time"

	"github.com/lindb/lindb/pkg/timeutil"
)

// interval values per type. "odd" ones do not divide their family unit.
var intervalsByType = map[string][]int64{
	tDay:   {1 * msSecond, 5 * msSecond, 10 * msSecond, 30 * msSecond, msMinute, 2 * msMinute, 7 * msSecond, 45 * msSecond},
	tMonth: {5 * msMinute, 10 * msMinute, 30 * msMinute, 7 * msMinute, 45 * msMinute},
	tYear:  {msHour, 2 * msHour, 4 * msHour, 6 * msHour, 12 * msHour, msDay, 5 * msHour},
}

// classes of the genuine defects that only show on days on which the clock is moved (known_findings.json)
const (
	classDstMonthSlotWraps      = "C13/dst/month/slot-wraps-modulo-24h-on-25h-day"
	classDstMonthSlotRangeWraps = "C13/dst/month/slot-range-wraps-modulo-24h-on-25h-day"
)

func ivName(i int64) string { return timeutil.Interval(i).String() + fmt.Sprintf("(%dms)", i) }

// lindbCalc returns lindb's calculator for an interval type through the public path Interval.Calculator().
func lindbCalc(typ string) timeutil.IntervalCalculator {
	return timeutil.Interval(intervalsByType[typ][0]).Calculator()
}

type calcChecker struct {
	e        *childEnv
	out      obs    // where violations / non-trivial keys go (the child record, or a per-goroutine collector of the concurrent part)
	cntPre   string // counter name prefix replacing "calc/" ("" = keep)
	ntPart   string // part name inside non-trivial keys
	calcs    map[string]timeutil.IntervalCalculator
	evals    int64
	cnt      map[string]int64
	twSample map[string]bool
}

func (cc *calcChecker) count(name string, n int) {
	if cc.cntPre != "" && strings.HasPrefix(name, "calc/") {
		name = cc.cntPre + strings.TrimPrefix(name, "calc/")
	}
	cc.cnt[name] += int64(n)
}

// flush moves the lock-free local counters into the record.
func (cc *calcChecker) flush() {
	cc.e.rec.Eval(int(cc.evals))
	for k, v := range cc.cnt {
		cc.e.rec.Count(k, int(v))
	}
	cc.evals, cc.cnt = 0, map[string]int64{}
}

func newCalcChecker(e *childEnv) *calcChecker {
	cc := &calcChecker{e: e, out: e.rec, ntPart: "calc", calcs: map[string]timeutil.IntervalCalculator{}, cnt: map[string]int64{}, twSample: map[string]bool{}}
	for _, t := range allTypes {
		cc.calcs[t] = lindbCalc(t)
		for _, iv := range intervalsByType[t] {
			got := timeutil.Interval(iv).Type().String()
			e.rec.Eval(1)
			if got != t {
				e.rec.Violation("C13/calc/interval-type", fmt.Sprintf("interval %s has lindb type %s, option rule says %s", ivName(iv), got, t),
					e.wit("interval", iv, "got", got, "want", t))
			}
			if timeutil.Interval(iv).Calculator() != cc.calcs[t] {
				e.rec.Violation("C13/calc/interval-calculator", fmt.Sprintf("interval %s of type %s uses another calculator than %s", ivName(iv), t, ivName(intervalsByType[t][0])),
					e.wit("interval", iv))
			}
		}
	}
	return cc
}

// check runs every calculator relation for one timestamp. u is a per-timestamp pseudo random number.
func (cc *calcChecker) check(ts int64, u uint64) {
	e := cc.e
	r := cc.out
	cal := e.cal
	for _, typ := range allTypes {
		calc := cc.calcs[typ]
		b := cal.bucketOf(typ, ts)
		cc.evals++
		w := func(kv ...interface{}) map[string]interface{} {
			base := []interface{}{"type", typ, "ts", ts, "local", cal.fmt(ts), "oracle", b}
			return e.wit(append(base, kv...)...)
		}
		// --- segment
		seg := calc.GetSegment(ts)
		if seg != b.SegName {
			r.Violation("C13/calc/"+typ+"/segment-name", fmt.Sprintf("%s GetSegment(%d=%s)=%q, calendar says %q", typ, ts, cal.fmt(ts), seg, b.SegName), w("got", seg))
		}
		segT := calc.CalcSegmentTime(ts)
		if segT != b.SegStart {
			r.Violation("C13/calc/"+typ+"/segment-time", fmt.Sprintf("%s CalcSegmentTime(%d=%s)=%d(%s), calendar says %d", typ, ts, cal.fmt(ts), segT, cal.fmt(segT), b.SegStart), w("got", segT))
		}
		if !(segT <= ts && ts < b.SegNext) {
			r.Violation("C13/calc/"+typ+"/segment-excludes-ts", fmt.Sprintf("%s segment [%d,%d) of %d does not contain it", typ, segT, b.SegNext, ts), w("got", segT))
		}
		pt, err := calc.ParseSegmentTime(seg)
		if err != nil || pt != segT {
			r.Violation("C13/calc/"+typ+"/segment-parse", fmt.Sprintf("%s ParseSegmentTime(GetSegment(%d))=%d,%v but CalcSegmentTime=%d", typ, ts, pt, err, segT), w("got", pt, "name", seg))
		}
		// --- family
		fam := calc.CalcFamily(ts, segT)
		fs := calc.CalcFamilyStartTime(segT, fam)
		fe := calc.CalcFamilyEndTime(fs)
		ft := calc.CalcFamilyTime(ts)
		if fam != b.FamNum {
			r.Violation("C13/calc/"+typ+"/family-number", fmt.Sprintf("%s CalcFamily(%d=%s)=%d, calendar says %d", typ, ts, cal.fmt(ts), fam, b.FamNum), w("got", fam))
		}
		if fs != b.FamStart {
			r.Violation("C13/calc/"+typ+"/family-start", fmt.Sprintf("%s family start of %d(%s) = %d(%s), calendar says %d(%s)", typ, ts, cal.fmt(ts), fs, cal.fmt(fs), b.FamStart, cal.fmt(b.FamStart)), w("got", fs))
		}
		if fe != b.FamEnd {
			r.Violation("C13/calc/"+typ+"/family-end", fmt.Sprintf("%s family end of %d(%s) = %d(%s), calendar says %d(%s)", typ, ts, cal.fmt(ts), fe, cal.fmt(fe), b.FamEnd, cal.fmt(b.FamEnd)), w("got", fe, "familyStart", fs))
		}
		if !(fs <= ts && ts <= fe) {
			r.Violation("C13/calc/"+typ+"/family-excludes-ts", fmt.Sprintf("%s family range [%d,%d] of %d(%s) does not contain it", typ, fs, fe, ts, cal.fmt(ts)), w("familyStart", fs, "familyEnd", fe))
		}
		if fs < b.SegStart || fe >= b.SegNext {
			r.Violation("C13/calc/"+typ+"/family-crosses-segment", fmt.Sprintf("%s family range [%d(%s),%d(%s)] of %d is not inside its segment [%d,%d) (%s)", typ, fs, cal.fmt(fs), fe, cal.fmt(fe), ts, b.SegStart, b.SegNext, b.SegName),
				w("familyStart", fs, "familyEnd", fe))
		}
		if ft != fs {
			r.Violation("C13/calc/"+typ+"/family-time-mismatch", fmt.Sprintf("%s CalcFamilyTime(%d)=%d but CalcFamilyStartTime(seg,CalcFamily)=%d", typ, ts, ft, fs), w("familyTime", ft, "familyStart", fs))
		}
		// --- tiling: the next family starts exactly one ms after this one ends, the previous one ends one ms before
		next := fe + 1
		if nft := calc.CalcFamilyTime(next); nft != next {
			r.Violation("C13/calc/"+typ+"/family-tiling-next", fmt.Sprintf("%s family of %d ends at %d but the family of %d starts at %d (gap or overlap)", typ, ts, fe, next, nft), w("familyEnd", fe, "nextFamilyTime", nft))
		}
		prev := fs - 1
		pfs := calc.CalcFamilyTime(prev)
		if pfe := calc.CalcFamilyEndTime(pfs); pfe != prev || pfs >= fs {
			r.Violation("C13/calc/"+typ+"/family-tiling-prev", fmt.Sprintf("%s family of %d starts at %d but the family of %d is [%d,%d] (gap or overlap)", typ, ts, fs, prev, pfs, pfe), w("familyStart", fs, "prevFamily", []int64{pfs, pfe}))
		}
		// --- the family computed from any timestamp inside the family is that family
		inside := fs + int64(u%uint64(fe-fs+1))
		for _, t2 := range [...]int64{fs, fe, inside} {
			s2 := calc.CalcSegmentTime(t2)
			if f2 := calc.CalcFamilyTime(t2); f2 != fs || calc.CalcFamily(t2, s2) != fam || s2 != segT {
				r.Violation("C13/calc/"+typ+"/family-not-stable-inside", fmt.Sprintf("%s family of %d is [%d,%d] (segment %d family %d) but t'=%d inside it maps to segment %d family %d start %d",
					typ, ts, fs, fe, segT, fam, t2, s2, calc.CalcFamily(t2, s2), f2), w("inside", t2, "familyTimeOfInside", f2))
			}
		}
		// --- slots
		for _, iv := range intervalsByType[typ] {
			cc.evals++
			slot := calc.CalcSlot(ts, fs, iv)
			st := fs + int64(slot)*iv
			if !(st > ts-iv && st <= ts) || slot < 0 || slot > 65535 {
				class := "C13/calc/" + typ + "/slot-outside-window"
				if typ == tMonth && fs == b.FamStart && b.FamEnd-b.FamStart+1 > msDay && ts-fs >= msDay && int64(slot) == ((ts-fs)%msDay)/iv {
					// known defect (mechanism named by the class): month.CalcSlot reduces the offset modulo 24 h, the
					// family (a local day) is 25 h long on the day the clock is moved back
					class = classDstMonthSlotWraps
				}
				r.Violation(class, fmt.Sprintf("%s interval %s: CalcSlot(%d, familyStart %d)=%d -> %d not in (t-interval, t]", typ, ivName(iv), ts, fs, slot, st),
					w("interval", iv, "slot", slot, "slotStart", st, "familyStart", fs))
			}
			if ct := timeutil.CalcTimestamp(fs, slot, timeutil.Interval(iv)); ct != st {
				r.Violation("C13/calc/"+typ+"/calc-timestamp", fmt.Sprintf("CalcTimestamp(%d,%d,%s)=%d, want %d", fs, slot, ivName(iv), ct, st), w("interval", iv, "slot", slot, "got", ct))
			}
			// slot range of a query range that overlaps the family (used by the query path to select stored slots)
			famLen := fe - fs + 1
			a := ts - int64((u>>7)%uint64(2*famLen))
			bb := ts + int64((u>>23)%uint64(2*famLen))
			if u&3 == 0 {
				a, bb = ts, ts
			}
			sr := timeutil.Interval(iv).CalcSlotRange(fs, timeutil.TimeRange{Start: a, End: bb})
			lo, hi := a, bb
			if lo < b.FamStart {
				lo = b.FamStart
			}
			if hi > b.FamEnd {
				hi = b.FamEnd
			}
			wantLo, wantHi := (lo-b.FamStart)/iv, (hi-b.FamStart)/iv
			if int64(sr.Start) != wantLo || int64(sr.End) != wantHi {
				class := "C13/calc/" + typ + "/slot-range"
				if typ == tMonth && fs == b.FamStart && fe == b.FamEnd && fe-fs+1 > msDay && hi-fs >= msDay && lo <= hi &&
					int64(sr.Start) == ((lo-fs)%msDay)/iv && int64(sr.End) == ((hi-fs)%msDay)/iv {
					class = classDstMonthSlotRangeWraps
				}
				r.Violation(class, fmt.Sprintf("%s interval %s: CalcSlotRange(family %d, [%d,%d]) = [%d,%d], stored slots touched are [%d,%d]",
					typ, ivName(iv), fs, a, bb, sr.Start, sr.End, wantLo, wantHi), w("interval", iv, "range", []int64{a, bb}, "got", []uint16{sr.Start, sr.End}, "want", []int64{wantLo, wantHi}))
			}
		}
		// --- reported only: CalcTimeWindows is not called anywhere in lindb outside its own tests
		if u&15 == 5 {
			famLen := fe - fs + 1
			end := ts + int64((u>>11)%uint64(5*famLen))
			eb := cal.bucketOf(typ, end)
			var want int
			switch typ {
			case tDay:
				want = int((eb.FamStart-b.FamStart)/msHour) + 1
			case tMonth:
				want = int((eb.FamStart-b.FamStart+msHour)/msDay) + 1
			default:
				t1, t2 := cal.at(ts), cal.at(end)
				want = (t2.Year()-t1.Year())*12 + int(t2.Month()) - int(t1.Month()) + 1
			}
			cc.count("calc/"+typ+"/time_windows_checked(reported_only)", 1)
			if got := calc.CalcTimeWindows(ts, end); got != want {
				cc.count("calc/"+typ+"/time_windows_differs_from_family_count(reported_only,unused_code)", 1)
				if !cc.twSample[typ] {
					cc.twSample[typ] = true
					e.rec.Sample(map[string]interface{}{"part": "calc", "tz": e.tz, "reported_only": "CalcTimeWindows", "type": typ,
						"start": cal.fmt(ts), "end": cal.fmt(end), "got": got, "families": want})
				}
			}
		}
		// --- coverage bookkeeping
		if k := boundaryKind(b, ts); k != "" {
			r.Nontrivial(e.tz + "|" + cc.ntPart + "|" + typ + "|" + b.SegName + "|" + k)
			cc.count("calc/"+typ+"/boundary_cases_"+k, 1)
		}
		cc.count("calc/"+typ+"/timestamps", 1)
	}
	if cal.hasDST() {
		if sit := cal.dstSituation(ts); sit != "" {
			cc.count("calc/dst/timestamps_"+sit, 1)
		}
	}
	// calendar features seen (by local date)
	t := cal.at(ts)
	if t.Month() == time.February && t.Day() == 29 {
		cc.count("calc/timestamps_on_leap_day", 1)
	}
	mb := cal.bucketOf(tMonth, ts)
	if ts-mb.SegStart <= msSecond || mb.SegNext-1-ts <= msSecond {
		days := int((mb.SegNext - mb.SegStart + msHour) / msDay)
		cc.count(fmt.Sprintf("calc/month_boundary_cases_month_len_%d", days), 1)
	}
	yb := cal.bucketOf(tYear, ts)
	if ts-yb.SegStart <= msSecond || yb.SegNext-1-ts <= msSecond {
		cc.count("calc/year_boundary_cases", 1)
	}
}

// walk follows lindb's families from the start of the window to its end and compares the chain with the calendar.
func (cc *calcChecker) walk() {
	e := cc.e
	r := e.rec
	cal := e.cal
	for _, typ := range allTypes {
		calc := cc.calcs[typ]
		t := cal.windowStart()
		end := cal.windowEnd()
		n := 0
		segs := map[string]struct{}{}
		for t < end {
			b := cal.bucketOf(typ, t)
			fs := calc.CalcFamilyTime(t)
			fe := calc.CalcFamilyEndTime(fs)
			cc.evals++
			if fs != t || fs != b.FamStart || fe != b.FamEnd {
				r.Violation("C13/calc/"+typ+"/walk-chain-broken", fmt.Sprintf("%s: walking family by family, position %d(%s) gives family [%d,%d], calendar says [%d,%d]",
					typ, t, cal.fmt(t), fs, fe, b.FamStart, b.FamEnd), e.wit("type", typ, "pos", t, "got", []int64{fs, fe}, "oracle", b))
				fe = b.FamEnd // continue on the calendar
			}
			seg := calc.GetSegment(t)
			if seg != b.SegName {
				r.Violation("C13/calc/"+typ+"/walk-segment", fmt.Sprintf("%s: family starting %s is in segment %q, calendar says %q", typ, cal.fmt(t), seg, b.SegName),
					e.wit("type", typ, "pos", t, "got", seg, "oracle", b))
			}
			segs[seg] = struct{}{}
			n++
			if cal.hasDST() {
				if sit := cal.dstSituation(t); sit == "23h-day" || sit == "25h-day" {
					cc.count("calc/dst/"+typ+"/walk_families_on_"+sit, 1)
				}
			}
			if fe+1 <= t { // never loop on a broken chain
				fe = t + msHour - 1
			}
			t = fe + 1
		}
		cc.count("calc/"+typ+"/walk_families", n)
		cc.count("calc/"+typ+"/walk_segments", len(segs))
	}
}

func splitmix(x uint64) uint64 {
	x += 0x9e3779b97f4a7c15
	x = (x ^ (x >> 30)) * 0xbf58476d1ce4e5b9
	x = (x ^ (x >> 27)) * 0x94d049bb133111eb
	return x ^ (x >> 31)
}

func runCalc(e *childEnv) {
	cc := newCalcChecker(e)
	if e.shard == 0 {
		cc.walk()
	}
	// edges
	edges := e.cal.edges()
	for i, ed := range edges {
		if i%e.shards != e.shard {
			continue
		}
		offs := edgeOffsets
		if e.quick && ed.kind == eHour {
			offs = []int64{-1, 0}
		}
		for _, o := range offs {
			ts := ed.ts + o
			cc.check(ts, splitmix(uint64(ts)^uint64(e.seed)))
		}
	}
	// seeded random milliseconds
	rnd := e.rand("calc-random-ts")
	total := e.pick(400_000, 96_000_000)
	if e.light {
		total = e.pick(40_000, 8_000_000)
	}
	n := total / e.shards
	lo, hi := e.cal.windowStart(), e.cal.windowEnd()
	for i := 0; i < n; i++ {
		ts := lo + rnd.Int63n(hi-lo)
		cc.check(ts, rnd.Uint64())
		if i < 2 && e.shard == 0 {
			b := e.cal.bucketOf(tYear, ts)
			e.rec.Sample(map[string]interface{}{"part": "calc", "tz": e.tz, "ts": ts, "local": e.cal.fmt(ts), "year_type_bucket": b})
		}
	}
	e.rec.Count("calc/random_timestamps", n)
	cc.flush()
}
