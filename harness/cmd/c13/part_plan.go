package main

import (
	"context"
	"fmt"
	"math/rand"
	"sort"
	"strings"

	"github.com/lindb/lindb/coordinator/broker"
	"github.com/lindb/lindb/models"
	"github.com/lindb/lindb/pkg/option"
	"github.com/lindb/lindb/pkg/timeutil"
	querycontext "github.com/lindb/lindb/query/context"
	"github.com/lindb/lindb/sql/stmt"
)

// fakeChooser satisfies flow.NodeChoose and (through the embedded nil interface) broker.StateManager,
// so RootMetricContext.MakePlan runs calcTimeRangeAndInterval with the database config below.
type fakeChooser struct {
	broker.StateManager
	cfg models.Database
}

func (f *fakeChooser) Choose(database string, _ int) ([]*models.PhysicalPlan, error) {
	return []*models.PhysicalPlan{{
		Database: database,
		Targets:  []*models.Target{{Indicator: "1.1.1.1:2891", ShardIDs: []models.ShardID{0}}},
	}}, nil
}

func (f *fakeChooser) GetDatabaseCfg(name string) (models.Database, bool) {
	if name != f.cfg.Name {
		return models.Database{}, false
	}
	return f.cfg, true
}

var (
	planDay      = []int64{0, msSecond, 5 * msSecond, 10 * msSecond, 30 * msSecond, msMinute, 2 * msMinute}
	planMonth    = []int64{0, 5 * msMinute, 10 * msMinute, 30 * msMinute}
	planYear     = []int64{0, msHour, 2 * msHour, 6 * msHour, msDay}
	planOddDay   = []int64{7 * msSecond, 45 * msSecond}
	planOddMon   = []int64{7 * msMinute, 45 * msMinute}
	planOddYear  = []int64{5 * msHour, 4 * msHour, 12 * msHour}
	userInterval = []int64{msSecond, 10 * msSecond, 30 * msSecond, 45 * msSecond, msMinute, 5 * msMinute, 7 * msMinute,
		10 * msMinute, msHour, 3 * msHour, msDay, 7 * msDay}
	lenThresholds = []int64{0, msHour, 3 * msHour, 6 * msHour, 12 * msHour, msDay, 2 * msDay, 7 * msDay, 30 * msDay, 60 * msDay, 90 * msDay, 400 * msDay}
)

func lenBucket(l int64) int {
	n := 0
	for i, t := range lenThresholds {
		if l >= t {
			n = i
		}
	}
	return n
}

type planCase struct {
	Intervals []int64 `json:"intervals"` // in the order given to the option
	Start     int64   `json:"start"`
	End       int64   `json:"end"`
	Interval  int64   `json:"interval"`
	AutoGroup bool    `json:"autoGroupByTime"`
	GroupBy   bool    `json:"groupBy"`
	Odd       bool    `json:"odd"`
}

func genPlanCase(rnd *rand.Rand, cal *calendar, edges []edge) planCase {
	var pc planCase
	pc.Odd = rnd.Intn(10) == 0
	for len(pc.Intervals) == 0 {
		d, m, y := planDay[rnd.Intn(len(planDay))], planMonth[rnd.Intn(len(planMonth))], planYear[rnd.Intn(len(planYear))]
		if pc.Odd {
			switch rnd.Intn(3) {
			case 0:
				d = planOddDay[rnd.Intn(len(planOddDay))]
			case 1:
				m = planOddMon[rnd.Intn(len(planOddMon))]
			default:
				y = planOddYear[rnd.Intn(len(planOddYear))]
			}
		}
		for _, v := range []int64{d, m, y} {
			if v > 0 {
				pc.Intervals = append(pc.Intervals, v)
			}
		}
	}
	if rnd.Intn(2) == 0 {
		rnd.Shuffle(len(pc.Intervals), func(i, j int) { pc.Intervals[i], pc.Intervals[j] = pc.Intervals[j], pc.Intervals[i] })
	}
	// length
	var l int64
	switch rnd.Intn(4) {
	case 0:
		l = rnd.Int63n(120 * msDay)
	case 1:
		l = rnd.Int63n(3 * msHour)
	default:
		l = lenThresholds[rnd.Intn(len(lenThresholds))] + []int64{-1000, -1, 0, 1, 1000}[rnd.Intn(5)]
		if rnd.Intn(3) == 0 {
			l += rnd.Int63n(msHour)
		}
	}
	if l < 0 {
		l = 0
	}
	// anchor
	var anchor int64
	switch rnd.Intn(3) {
	case 0:
		anchor = cal.windowStart() + rnd.Int63n(cal.windowEnd()-cal.windowStart())
	case 1:
		anchor = edges[rnd.Intn(len(edges))].ts + edgeOffsets[rnd.Intn(len(edgeOffsets))]
	default:
		anchor = edges[rnd.Intn(len(edges))].ts + rnd.Int63n(msHour)
	}
	if rnd.Intn(2) == 0 {
		pc.Start, pc.End = anchor, anchor+l
	} else {
		pc.Start, pc.End = anchor-l, anchor
	}
	// keep the request inside the window (one day margin)
	lo, hi := cal.windowStart()+msDay, cal.windowEnd()-msDay
	if pc.Start < lo {
		pc.End += lo - pc.Start
		pc.Start = lo
	}
	if pc.End > hi {
		pc.Start -= pc.End - hi
		pc.End = hi
		if pc.Start < lo {
			pc.Start = lo
		}
	}
	if rnd.Intn(10) < 4 {
		pc.Interval = userInterval[rnd.Intn(len(userInterval))]
	}
	pc.AutoGroup = rnd.Intn(5) == 0
	pc.GroupBy = rnd.Intn(4) == 0
	return pc
}

func runPlan(e *childEnv) {
	r := e.rec
	cal := e.cal
	rnd := e.rand("plan-cases")
	n := e.pick(120_000, 16_000_000) / e.shards
	if e.light {
		n = e.pick(40_000, 2_000_000) / e.shards
	}
	edges := oversampledEdges(cal)
	for i := 0; i < n; i++ {
		pc := genPlanCase(rnd, cal, edges)
		checkPlan(e, pc, i)
	}
	r.Count("plan/cases", n)
}

func checkPlan(e *childEnv, pc planCase, idx int) {
	r := e.rec
	cal := e.cal
	opt := &option.DatabaseOption{}
	stored := map[int64]bool{}
	for _, iv := range pc.Intervals {
		opt.Intervals = append(opt.Intervals, option.Interval{Interval: timeutil.Interval(iv), Retention: timeutil.Interval(200 * 365 * msDay)})
		stored[iv] = true
	}
	if err := opt.Validate(); err != nil {
		r.Inconclusive("generated option %v rejected: %v", pc.Intervals, err)
		return
	}
	chooser := &fakeChooser{cfg: models.Database{Name: "db", Option: opt, NumOfShard: 1, ReplicaFactor: 1}}
	q := &stmt.Query{
		MetricName:      "m",
		TimeRange:       timeutil.TimeRange{Start: pc.Start, End: pc.End},
		Interval:        timeutil.Interval(pc.Interval),
		AutoGroupByTime: pc.AutoGroup,
	}
	if pc.GroupBy {
		q.GroupBy = []string{"host"}
	}
	ctx := querycontext.NewRootMetricContext(&querycontext.RootMetricContextDeps{
		Ctx:         context.Background(),
		Request:     &models.Request{RequestID: fmt.Sprintf("r%d", idx), DB: "db"},
		Database:    "db",
		CurrentNode: models.StatelessNode{HostIP: "1.1.1.2", GRPCPort: 2891},
		Statement:   q,
		Choose:      chooser,
	})
	r.Eval(1)
	if err := ctx.MakePlan(); err != nil {
		r.Violation("C13/plan/make-plan-error", fmt.Sprintf("MakePlan failed for a valid request: %v", err), e.wit("case", pc))
		return
	}
	// what the leaves will receive
	reqs := ctx.GetRequests()
	var sent *stmt.Query
	for _, req := range reqs {
		s := &stmt.Query{}
		if err := s.UnmarshalJSON(req.Payload); err != nil {
			r.Violation("C13/plan/payload-unreadable", fmt.Sprintf("planned statement payload cannot be decoded: %v", err), e.wit("case", pc))
			return
		}
		sent = s
	}
	if sent == nil {
		r.Violation("C13/plan/no-request", "MakePlan produced no task request", e.wit("case", pc))
		return
	}
	if sent.TimeRange != q.TimeRange || sent.Interval != q.Interval || sent.StorageInterval != q.StorageInterval || sent.IntervalRatio != q.IntervalRatio {
		r.Violation("C13/plan/payload-differs-from-statement", fmt.Sprintf("planned statement %+v/%d/%d/%d but payload carries %+v/%d/%d/%d",
			q.TimeRange, q.Interval, q.StorageInterval, q.IntervalRatio, sent.TimeRange, sent.Interval, sent.StorageInterval, sent.IntervalRatio), e.wit("case", pc))
	}
	st := sent.StorageInterval.Int64()
	qi := sent.Interval.Int64()
	ps, pe := sent.TimeRange.Start, sent.TimeRange.End
	plan := map[string]interface{}{"storageInterval": st, "interval": qi, "ratio": sent.IntervalRatio, "start": ps, "end": pe,
		"startLocal": cal.fmt(ps), "endLocal": cal.fmt(pe), "reqStartLocal": cal.fmt(pc.Start), "reqEndLocal": cal.fmt(pc.End)}
	w := func() map[string]interface{} { return e.wit("case", pc, "plan", plan) }

	// (1) storage interval is one the database stores
	if !stored[st] {
		r.Violation("C13/plan/storage-interval-not-stored", fmt.Sprintf("option stores %v, planner chose storage interval %d ms", pc.Intervals, st), w())
		return
	}
	// (2) query interval is a positive whole multiple, ratio consistent
	if qi <= 0 || qi%st != 0 || int64(sent.IntervalRatio) != qi/st || sent.IntervalRatio < 1 {
		r.Violation("C13/plan/interval-not-whole-multiple", fmt.Sprintf("storage interval %d ms, query interval %d ms, ratio %d", st, qi, sent.IntervalRatio), w())
		return
	}
	typ := typeOf(st)
	decide := dividesFamilyUnit(st)
	report := func(class, msg string) {
		if decide {
			r.Violation(class, msg, w())
		} else {
			r.Count("plan/odd_interval_reported_only/"+strings.TrimPrefix(strings.TrimPrefix(class, "C13/plan/"), "C13/"), 1)
		}
	}
	// the stored slot grid of the chosen interval, from the calendar
	_, reqFirst, bS := cal.slotOf(st, pc.Start)
	_, reqLast, bE := cal.slotOf(st, pc.End)
	_, psSlot, _ := cal.slotOf(st, ps)
	_, peSlot, _ := cal.slotOf(st, pe)
	// daylight saving: the stored slot grid of a family is anchored at the family start (elapsed time), the planner
	// truncates on the wall clock of the timestamp itself; when the clock was moved between the family start and the
	// timestamp by an amount that is not a multiple of the storage interval the two grids differ (known defect).
	shifted := gridShiftedInsideFamily(cal, st, pc.Start) || gridShiftedInsideFamily(cal, st, pc.End) ||
		gridShiftedInsideFamily(cal, st, ps) || gridShiftedInsideFamily(cal, st, pe)
	if cal.hasDST() {
		if shifted {
			r.Count("plan/dst/requests_on_slot_grid_shifted_by_transition_inside_family/"+typ, 1)
		}
		if cal.dstSituation(pc.Start) != "" || cal.dstSituation(pc.End) != "" {
			r.Count("plan/dst/requests_starting_or_ending_on_transition_day", 1)
		}
	}
	cls := func(what string) string {
		if shifted {
			return classDstPlanPrefix + what + "/" + typ
		}
		// lindb truncates by epoch multiples while the stored slot grid is anchored at local family starts:
		// cases where the zone's UTC offset is not a multiple of the storage interval get their own class family
		if offsetNotMultiple(cal, st, pc.Start) || offsetNotMultiple(cal, st, pc.End) {
			return "C13/plan/utc-offset-not-multiple-of-interval/" + what + "/" + typ
		}
		return "C13/plan/" + what + "/" + typ
	}
	// (3) range aligned to the storage interval's slots
	if psSlot != ps || peSlot != pe {
		report(cls("range-unaligned"), fmt.Sprintf("storage interval %s: planned range [%d(%s), %d(%s)] does not start/end on stored slot starts (the slots containing them start at %d(%s), %d(%s))",
			ivName(st), ps, cal.fmt(ps), pe, cal.fmt(pe), psSlot, cal.fmt(psSlot), peSlot, cal.fmt(peSlot)))
	}
	// (4) contains every requested slot: the stored slots selected by the planned range (the slot containing its
	// start .. the slot containing its end, which is how the leaf turns the range into slots) include the slots
	// touched by the request
	if psSlot > reqFirst || peSlot < reqLast {
		report(cls("range-misses-requested-slot"), fmt.Sprintf("storage interval %s: request [%d(%s), %d(%s)] touches stored slots starting %d(%s)..%d(%s), planned range [%d(%s), %d(%s)] selects slots starting %d(%s)..%d(%s)",
			ivName(st), pc.Start, cal.fmt(pc.Start), pc.End, cal.fmt(pc.End), reqFirst, cal.fmt(reqFirst), reqLast, cal.fmt(reqLast), ps, cal.fmt(ps), pe, cal.fmt(pe), psSlot, cal.fmt(psSlot), peSlot, cal.fmt(peSlot)))
	}
	// (5) beyond the statement: no slot outside the request is selected
	if psSlot < reqFirst || peSlot > reqLast {
		report(cls("range-wider-than-requested-slots"), fmt.Sprintf("storage interval %s: request touches stored slots %d(%s)..%d(%s), planned range [%d(%s), %d(%s)] selects slots starting %d(%s)..%d(%s)",
			ivName(st), reqFirst, cal.fmt(reqFirst), reqLast, cal.fmt(reqLast), ps, cal.fmt(ps), pe, cal.fmt(pe), psSlot, cal.fmt(psSlot), peSlot, cal.fmt(peSlot)))
	}
	// coverage
	key := ""
	switch {
	case pc.Start-reqFirst <= msSecond || reqFirst+st-1-pc.Start <= msSecond:
		key = "start-at-slot-edge"
	case pc.End-reqLast <= msSecond || reqLast+st-1-pc.End <= msSecond:
		key = "end-at-slot-edge"
	case bS.FamStart != bE.FamStart:
		key = "spans-families"
	}
	if bS.SegName != bE.SegName {
		r.Count("plan/requests_spanning_segments", 1)
	}
	if sent.IntervalRatio > 1 {
		r.Count("plan/ratio_gt_1", 1)
	}
	r.Count("plan/storage_type_"+typ, 1)
	if !decide {
		r.Count("plan/odd_interval_cases", 1)
	}
	if key != "" && decide {
		ivs := append([]int64(nil), pc.Intervals...)
		sort.Slice(ivs, func(i, j int) bool { return ivs[i] < ivs[j] })
		r.Nontrivial(fmt.Sprintf("%s|plan|%v|%d|len%d|%s", e.tz, ivs, st, lenBucket(pc.End-pc.Start), key))
		r.Count("plan/nontrivial_"+key, 1)
	}
	if idx < 1 && e.shard == 0 {
		r.Sample(map[string]interface{}{"part": "plan", "tz": e.tz, "case": pc, "plan": plan})
	}
}

// offsetNotMultiple reports whether the zone's UTC offset at ts is not a whole multiple of the interval.
func offsetNotMultiple(cal *calendar, interval, ts int64) bool {
	_, off := cal.at(ts).Zone()
	return (int64(off)*1000)%interval != 0
}

// classDstPlanPrefix + {range-unaligned,range-misses-requested-slot,range-wider-than-requested-slots} + "/" + type
const classDstPlanPrefix = "C13/dst/plan/slot-grid-shifted-by-transition-inside-family/"

// gridShiftedInsideFamily reports whether the zone offset at ts differs from the offset at the start of the
// (calendar) family of ts by an amount that is not a multiple of the storage interval.
func gridShiftedInsideFamily(cal *calendar, interval, ts int64) bool {
	if !cal.hasDST() {
		return false
	}
	b := cal.bucketOf(typeOf(interval), ts)
	_, o1 := cal.at(ts).Zone()
	_, o0 := cal.at(b.FamStart).Zone()
	return (int64(o1-o0)*1000)%interval != 0
}
