package main

import (
	"bytes"
	"fmt"
	"path/filepath"
	"sort"
	"strconv"
	"strings"

	protoMetricsV1 "github.com/lindb/common/proto/gen/v1/linmetrics"

	"github.com/lindb/lindb/flow"
	"github.com/lindb/lindb/kv"
	"github.com/lindb/lindb/models"
	"github.com/lindb/lindb/pkg/encoding"
	"github.com/lindb/lindb/pkg/timeutil"
	"github.com/lindb/lindb/series/metric"
	"github.com/lindb/lindb/tsdb"
	"github.com/lindb/lindb/tsdb/tblstore/metricsdata"
)

// The rollup part writes real points through the real write path (memdb slot computation), flushes,
// runs the real rollup job (kv/family_rollup.go + metricsdata merger) and looks where every point landed:
// which target store (segment), which family, which slot.

type rollPoint struct {
	Idx int   `json:"idx"`
	Ts  int64 `json:"ts"`
}

type foundCell struct {
	Store  string  `json:"store"`  // <type>/<segment>
	Family string  `json:"family"` // kv family name
	Slot   uint16  `json:"slot"`
	Value  float64 `json:"value"`
}

func mkRows(name string, ts int64, value float64) []*metric.StorageRow {
	return mkRowsList(name, []int64{ts}, value)
}

// denseUnit is the value of every point of a dense family; sparse points carry values below it.
const denseUnit = 1e6

func mkRowsList(name string, tss []int64, value float64) []*metric.StorageRow {
	ml := protoMetricsV1.MetricList{}
	for _, ts := range tss {
		ml.Metrics = append(ml.Metrics, &protoMetricsV1.Metric{
			Name:      name,
			Namespace: "default-ns",
			Timestamp: ts,
			Tags:      []*protoMetricsV1.KeyValue{{Key: "k", Value: "v"}},
			SimpleFields: []*protoMetricsV1.SimpleField{{
				Name: "f", Value: value, Type: protoMetricsV1.SimpleFieldType_DELTA_SUM,
			}},
		})
	}
	var buf bytes.Buffer
	converter := metric.NewProtoConverter(models.NewDefaultLimits())
	_, _ = converter.MarshalProtoMetricListV1To(ml, &buf)
	var br metric.StorageBatchRows
	br.UnmarshalRows(buf.Bytes())
	return br.Rows()
}

// decodeBlock returns every (slot, value) stored in a metric block, through the real block reader.
func decodeBlock(path string, block []byte) (cells [][2]float64, slotRange timeutil.SlotRange, err error) {
	reader, err := metricsdata.NewReader(path, block)
	if err != nil {
		return nil, slotRange, err
	}
	slotRange = reader.GetTimeRange()
	seriesIDs := reader.GetSeriesIDs()
	for _, hk := range seriesIDs.GetHighKeys() {
		container := seriesIDs.GetContainer(hk)
		ctx := &flow.DataLoadContext{
			SeriesIDHighKey:       hk,
			LowSeriesIDsContainer: container,
			ShardExecuteCtx: &flow.ShardExecuteContext{
				StorageExecuteCtx: &flow.StorageExecuteContext{Fields: reader.GetFields()},
			},
			Decoder: encoding.GetTSDDecoder(),
		}
		ctx.DownSampling = func(sr timeutil.SlotRange, _ uint16, _ int, getter encoding.TSDValueGetter) {
			for s := int(sr.Start); s <= int(sr.End); s++ {
				if v, ok := getter.GetValue(uint16(s)); ok {
					cells = append(cells, [2]float64{float64(s), v})
				}
			}
		}
		ctx.Grouping()
		loader := reader.Load(ctx)
		if loader != nil {
			loader.Load(ctx)
		}
		encoding.ReleaseTSDDecoder(ctx.Decoder)
	}
	return cells, slotRange, nil
}

// scanFamily decodes all blocks of all live files of a kv family.
func scanFamily(storeTag string, f kv.Family) (out []foundCell, blockRanges []timeutil.SlotRange, err error) {
	snapshot := f.GetSnapshot()
	defer snapshot.Close()
	for _, fm := range snapshot.GetCurrent().GetAllFiles() {
		reader, err := snapshot.GetReader(fm.GetFileNumber())
		if err != nil {
			return nil, nil, err
		}
		it := reader.Iterator()
		for it.HasNext() {
			_ = it.Key() // Key advances the key cursor, Value the block cursor
			cells, sr, err := decodeBlock(reader.Path(), it.Value())
			if err != nil {
				return nil, nil, err
			}
			blockRanges = append(blockRanges, sr)
			for _, c := range cells {
				out = append(out, foundCell{Store: storeTag, Family: f.Name(), Slot: uint16(c[0]), Value: c[1]})
				if !sr.Contains(uint16(c[0])) {
					return nil, nil, fmt.Errorf("cell slot %v outside block range %v", c[0], sr)
				}
			}
		}
	}
	return out, blockRanges, nil
}

func runRollup(e *childEnv) {
	r := e.rec
	cal := e.cal
	dataDir := filepath.Join(e.dir, "data")
	eng, err := openEngine(e, dataDir)
	if err != nil {
		r.Inconclusive("cannot create tsdb engine: %v", err)
		return
	}
	defer eng.Close()
	sets := [][]int64{{10 * msSecond, 5 * msMinute, msHour}, {msMinute, 30 * msMinute, msDay}, {30 * msSecond, 10 * msMinute, 6 * msHour}}
	set := sets[(e.shard+int(e.seed))%len(sets)]
	src := set[0]
	dbName := "c13roll"
	if err := eng.CreateShards(dbName, mkOption(set...), models.ShardID(1)); err != nil {
		r.Inconclusive("cannot create shard: %v", err)
		return
	}
	shard, _ := eng.GetShard(dbName, models.ShardID(1))
	db, _ := eng.GetDatabase(dbName)
	rnd := e.rand("rollup-points")
	hot := cal.calendarHotspots(rnd, e.pick(6, 60))
	// choose source families (hours): first/last hour of hotspot days and a random hour
	famSet := map[int64]bool{}
	stride := e.pick(4, 1)
	for i, h := range hot {
		if i%stride != int(e.seed)%stride {
			t := cal.at(h)
			special := (t.Month() == 2 && t.Day() >= 28) || (t.Month() == 12 && t.Day() == 31) || (t.Month() == 1 && t.Day() == 1) || (t.Month() == 3 && t.Day() == 1)
			if !special || t.Year() != 2024 && t.Year() != 2023 {
				continue
			}
		}
		for _, ts := range []int64{h, h + 23*msHour, h + int64(rnd.Intn(24))*msHour, h - msHour} {
			if ts >= cal.windowStart() && ts < cal.windowEnd() {
				famSet[cal.bucketOf(tDay, ts).FamStart] = true
			}
		}
	}
	// zones that move their clock: hours of a 23 h and of a 25 h day (first hour, the hours around the moved hour,
	// the hours 22..24 after midnight, the last hour, the first hour of the next day)
	dstFams := map[int64]bool{}
	for _, t := range pickTransitionDays(cal, e.seed+int64(e.shard), e.pick(1, 6)) {
		for _, ts := range []int64{t.Start, t.Start + msHour, t.Start + 2*msHour, t.Start + 3*msHour, t.Start + 22*msHour, t.Start + 23*msHour,
			t.Start + 24*msHour, t.Next - msHour, t.Next} {
			fs := cal.bucketOf(tDay, ts).FamStart
			famSet[fs] = true
			dstFams[fs] = true
		}
	}
	r.Count("rollup/dst/source_families_on_or_after_transition_days", len(dstFams))
	var fams []int64
	for f := range famSet {
		fams = append(fams, f)
	}
	sort.Slice(fams, func(i, j int) bool { return fams[i] < fams[j] })
	r.Count("rollup/source_families", len(fams))
	// dense families: every source slot gets a point, so every source slot -> target slot mapping is observed
	denseFams := map[int64]bool{}
	denseSrc := map[int64]int{}
	for i := 0; i < e.pick(8, 60) && len(fams) > 0; i++ {
		denseFams[fams[rnd.Intn(len(fams))]] = true
	}
	for _, fs := range fams { // always: last hour of a leap February, last and first hour of a year, if chosen above
		t := cal.at(fs)
		if (t.Month() == 2 && t.Day() == 29 && t.Hour() == 23) || (t.Month() == 12 && t.Day() == 31 && t.Hour() == 23 && t.Year() == 2023) ||
			(t.Month() == 1 && t.Day() == 1 && t.Hour() == 0 && t.Year() == 2024) {
			denseFams[fs] = true
		}
	}

	for fs := range dstFams { // always: the first hour and the 25th hour of a 25 h day
		if sit := cal.dstSituation(fs); sit == "25h-day-25th-hour" || sit == "25h-day" && fs == cal.bucketOf(tMonth, fs).FamStart {
			denseFams[fs] = true
		}
	}

	var points []rollPoint
	famOfPoint := map[int]int64{}
	srcStores := map[string]bool{}
	var srcFamilies []tsdb.DataFamily
	for _, fs := range fams {
		b := cal.bucketOf(tDay, fs)
		f, err := shard.GetOrCrateDataFamily(fs + rnd.Int63n(msHour))
		if err != nil {
			r.Violation("C13/tsdb/day/get-or-create-family-error", fmt.Sprintf("GetOrCrateDataFamily(%d) failed: %v", fs, err), e.wit("ts", fs))
			continue
		}
		tss := []int64{fs + rnd.Int63n(src), b.FamEnd - rnd.Int63n(src), fs + rnd.Int63n(msHour)}
		if rnd.Intn(3) == 0 {
			tss = append(tss, fs, b.FamEnd)
		}
		for _, ts := range tss {
			p := rollPoint{Idx: len(points), Ts: ts}
			points = append(points, p)
			famOfPoint[p.Idx] = fs
			rows := mkRows(fmt.Sprintf("p%d", p.Idx), ts, float64(p.Idx+1))
			if len(rows) != 1 {
				r.Inconclusive("row conversion produced %d rows", len(rows))
				return
			}
			if err := f.WriteRows(rows); err != nil {
				r.Inconclusive("WriteRows failed: %v", err)
				return
			}
		}
		if denseFams[fs] {
			// one point (value denseUnit) in EVERY source slot of this family, all in one series
			var dts []int64
			for st := fs; st <= b.FamEnd; st += src {
				dts = append(dts, st+rnd.Int63n(src))
				denseSrc[fs]++
			}
			rows := mkRowsList(fmt.Sprintf("dense%d", fs), dts, denseUnit)
			if err := f.WriteRows(rows); err != nil {
				r.Inconclusive("WriteRows(dense) failed: %v", err)
				return
			}
			r.Count("rollup/dense_source_families", 1)
			r.Count("rollup/dense_points_written", len(dts))
		}
		if err := f.Flush(); err != nil {
			r.Inconclusive("family flush failed: %v", err)
			return
		}
		srcFamilies = append(srcFamilies, f)
		srcStores[tsdb.ShardSegmentPath(dbName, models.ShardID(1), timeutil.Interval(src), b.SegName)] = true
	}
	_ = db.FlushMeta()
	_ = shard.FlushIndex()
	r.Count("rollup/points_written", len(points))

	// ---- source: the slot the write path chose
	srcFound := map[int][]foundCell{}
	for _, f := range srcFamilies {
		cells, _, err := scanFamily("day", f.Family())
		if err != nil {
			r.Inconclusive("cannot read source family %s: %v", f.Indicator(), err)
			return
		}
		denseSlots := map[uint16]float64{}
		for _, c := range cells {
			if c.Value >= denseUnit {
				denseSlots[c.Slot] += c.Value
				continue
			}
			c.Store = fmt.Sprintf("day/family-start-%d", f.FamilyTime())
			srcFound[int(c.Value)-1] = append(srcFound[int(c.Value)-1], c)
		}
		if n := denseSrc[f.FamilyTime()]; n > 0 {
			r.Eval(n)
			bad := len(denseSlots) != n
			for s := 0; s < n && !bad; s++ {
				bad = denseSlots[uint16(s)] != denseUnit
			}
			if bad {
				r.Violation("C13/write/day/dense-family-slots-not-one-to-one", fmt.Sprintf("interval %s: one point was written into each of the %d slots of family %d(%s); stored slots -> value/%g: %v",
					ivName(src), n, f.FamilyTime(), cal.fmt(f.FamilyTime()), float64(denseUnit), denseSlots), e.wit("family", f.FamilyTime(), "interval", src, "stored", fmt.Sprint(denseSlots)))
			}
		}
	}
	for _, p := range points {
		slot, slotStart, b := cal.slotOf(src, p.Ts)
		r.Eval(1)
		fc := srcFound[p.Idx]
		want := fmt.Sprintf("day/family-start-%d", b.FamStart)
		if len(fc) != 1 || fc[0].Store != want || int64(fc[0].Slot) != slot {
			r.Violation("C13/write/day/point-stored-in-wrong-slot", fmt.Sprintf("interval %s: point at %d(%s) written through DataFamily.WriteRows was found at %+v; the calendar puts it in family %d slot %d (slot start %d)",
				ivName(src), p.Ts, cal.fmt(p.Ts), fc, b.FamStart, slot, slotStart), e.wit("point", p, "found", fc, "oracle", b, "slot", slot, "interval", src))
		}
		if k := boundaryKind(b, p.Ts); k != "" {
			r.Nontrivial(e.tz + "|write|day|" + b.SegName + "|" + k)
		}
		if p.Ts-slotStart == 0 || slotStart+src-1-p.Ts == 0 {
			r.Count("rollup/points_on_source_slot_edge", 1)
		}
	}

	// ---- run the real rollup jobs
	var names []string
	for n := range srcStores {
		names = append(names, n)
	}
	sort.Strings(names)
	for _, n := range names {
		st, ok := kv.GetStoreManager().GetStoreByName(n)
		if !ok {
			r.Violation("C13/tsdb/day/segment-store-name", fmt.Sprintf("source store %s (calendar segment name) is not registered", n), e.wit("store", n))
			continue
		}
		st.ForceRollup()
		r.Count("rollup/stores_rolled_up", 1)
	}
	for _, f := range srcFamilies {
		kv.VerifFamilyWait(f.Family())
	}

	// ---- where did every point land, per target interval
	prefix := filepath.Join(dataDir) + string(filepath.Separator)
	for _, target := range set[1:] {
		ttyp := typeOf(target)
		found := map[int][]foundCell{}
		denseGot := map[string]int{}
		for _, st := range kv.GetStoreManager().GetStores() {
			dir, segName := filepath.Split(st.Name())
			if filepath.Base(filepath.Clean(dir)) != ttyp || !strings.Contains(st.Name(), dbName) {
				continue
			}
			_ = prefix
			for _, fn := range st.ListFamilyNames() {
				kf := st.GetFamily(fn)
				if kf == nil {
					continue
				}
				cells, _, err := scanFamily(ttyp+"/"+segName, kf)
				if err != nil {
					r.Inconclusive("cannot read target family %s/%s: %v", st.Name(), fn, err)
					return
				}
				for _, c := range cells {
					if c.Value >= denseUnit {
						denseGot[fmt.Sprintf("%s/%s/slot%d", c.Store, c.Family, c.Slot)] += int(c.Value / denseUnit)
						continue
					}
					found[int(c.Value)-1] = append(found[int(c.Value)-1], c)
				}
				r.Count("rollup/"+ttyp+"/target_families_scanned", 1)
			}
		}
		// dense families: every target slot holds exactly as many source points as the calendar maps into it
		denseWant := map[string]int{}
		denseWrapped := map[string]int{} // the same with the known defect: month slots reduced modulo 24 h
		wrappedDiffers := false
		for fs := range denseSrc {
			b := cal.bucketOf(tDay, fs)
			for st := fs; st <= b.FamEnd; st += src {
				tslot, _, tb := cal.slotOf(target, st)
				denseWant[fmt.Sprintf("%s/%s/%d/slot%d", ttyp, tb.SegName, tb.FamNum, tslot)]++
				wslot := tslot
				if ttyp == tMonth && st-tb.FamStart >= msDay {
					wslot = ((st - tb.FamStart) % msDay) / target
					wrappedDiffers = true
					r.Count("rollup/dst/month/dense_source_slots_in_25th_hour", 1)
				}
				denseWrapped[fmt.Sprintf("%s/%s/%d/slot%d", ttyp, tb.SegName, tb.FamNum, wslot)]++
			}
		}
		r.Eval(len(denseWant))
		var keys []string
		for k := range denseWant {
			keys = append(keys, k)
		}
		for k := range denseGot {
			if _, ok := denseWant[k]; !ok {
				keys = append(keys, k)
			}
		}
		sort.Strings(keys)
		denseClass := "C13/rollup/" + ttyp + "/dense-source-slots-mapped-to-wrong-target-slot"
		if wrappedDiffers && sameCounts(denseGot, denseWrapped) {
			denseClass = classDstRollupDenseWraps
		}
		for _, k := range keys {
			if denseGot[k] != denseWant[k] {
				r.Violation(denseClass, fmt.Sprintf("rollup %s->%s: target %s holds %d source points, the calendar maps %d source slots into it",
					ivName(src), ivName(target), k, denseGot[k], denseWant[k]), e.wit("target", k, "got", denseGot[k], "want", denseWant[k], "sourceInterval", src, "targetInterval", target))
				break
			}
		}
		r.Count("rollup/"+ttyp+"/dense_target_slots_checked", len(denseWant))
		for _, p := range points {
			r.Eval(1)
			_, srcSlotStart, _ := cal.slotOf(src, p.Ts)
			tslot, tslotStart, tb := cal.slotOf(target, srcSlotStart)
			want := foundCell{Store: ttyp + "/" + tb.SegName, Family: strconv.Itoa(tb.FamNum), Slot: uint16(tslot), Value: float64(p.Idx + 1)}
			fc := found[p.Idx]
			w := e.wit("point", p, "sourceInterval", src, "targetInterval", target, "sourceSlotStart", srcSlotStart, "found", fc, "want", want, "targetBucket", tb)
			switch {
			case len(fc) == 0:
				r.Violation("C13/rollup/"+ttyp+"/point-missing-in-target", fmt.Sprintf("rollup %s->%s: point at %d(%s) was not found in any %s family after the rollup; expected %+v (slot start %d)",
					ivName(src), ivName(target), p.Ts, cal.fmt(p.Ts), ttyp, want, tslotStart), w)
			case len(fc) > 1:
				r.Violation("C13/rollup/"+ttyp+"/point-in-several-targets", fmt.Sprintf("rollup %s->%s: point at %d(%s) found %d times: %+v", ivName(src), ivName(target), p.Ts, cal.fmt(p.Ts), len(fc), fc), w)
			case fc[0].Store != want.Store:
				r.Violation("C13/rollup/"+ttyp+"/point-in-wrong-segment", fmt.Sprintf("rollup %s->%s: point at %d(%s) landed in %+v, calendar says %+v", ivName(src), ivName(target), p.Ts, cal.fmt(p.Ts), fc[0], want), w)
			case fc[0].Family != want.Family:
				r.Violation("C13/rollup/"+ttyp+"/point-in-wrong-family", fmt.Sprintf("rollup %s->%s: point at %d(%s) landed in %+v, calendar says %+v", ivName(src), ivName(target), p.Ts, cal.fmt(p.Ts), fc[0], want), w)
			case fc[0].Slot != want.Slot:
				class := "C13/rollup/" + ttyp + "/point-in-wrong-slot"
				if ttyp == tMonth && srcSlotStart-tb.FamStart >= msDay && int64(fc[0].Slot) == ((srcSlotStart-tb.FamStart)%msDay)/target {
					class = classDstRollupPointWraps
				}
				r.Violation(class, fmt.Sprintf("rollup %s->%s: point at %d(%s) (source slot start %d) landed in slot %d of family %s/%s, the target slot containing it is %d (starts %d)",
					ivName(src), ivName(target), p.Ts, cal.fmt(p.Ts), srcSlotStart, fc[0].Slot, fc[0].Store, fc[0].Family, want.Slot, tslotStart), w)
			default:
				r.Count("rollup/"+ttyp+"/points_in_right_target_slot", 1)
			}
			if cal.hasDST() {
				if sit := cal.dstSituation(p.Ts); sit != "" {
					r.Count("rollup/dst/"+ttyp+"/points_"+sit, 1)
				}
			}
			if k := boundaryKind(tb, p.Ts); k != "" {
				r.Nontrivial(e.tz + "|rollup|" + ttyp + "|" + tb.SegName + "|" + k)
				r.Count("rollup/"+ttyp+"/points_at_target_boundary_"+k, 1)
			}
			// the tsdb view: the shard lists the calendar's target family for the point's timestamp
			fl := shard.GetDataFamilies(lindbType(ttyp), timeutil.TimeRange{Start: p.Ts, End: p.Ts})
			ok := len(fl) == 1 && fl[0].TimeRange().Start == tb.FamStart && fl[0].TimeRange().End == tb.FamEnd && fl[0].Family().Name() == want.Family
			if !ok && len(fc) == 1 {
				var got []timeutil.TimeRange
				for _, f := range fl {
					got = append(got, f.TimeRange())
				}
				r.Violation("C13/rollup/"+ttyp+"/shard-does-not-list-target-family", fmt.Sprintf("after rollup, Shard.GetDataFamilies(%s, [%d,%d]) = %v, calendar target family is [%d,%d]",
					ttyp, p.Ts, p.Ts, got, tb.FamStart, tb.FamEnd), w)
			}
		}
	}
	if len(points) > 0 {
		r.Sample(map[string]interface{}{"part": "rollup", "tz": e.tz, "intervals": set, "first_point": points[0], "points": len(points)})
	}
}

const (
	classDstRollupPointWraps = "C13/dst/rollup/month/point-lands-in-slot-wrapped-modulo-24h-on-25h-day"
	classDstRollupDenseWraps = "C13/dst/rollup/month/dense-25th-hour-slots-land-on-first-hour-slots"
)

func sameCounts(a, b map[string]int) bool {
	for k, v := range a {
		if v != 0 && b[k] != v {
			return false
		}
	}
	for k, v := range b {
		if v != 0 && a[k] != v {
			return false
		}
	}
	return true
}
