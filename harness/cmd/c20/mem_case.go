package main

import (
	"bytes"
	"fmt"
	"math"
	"math/rand"
	"strings"

	"github.com/lindb/lindb/index/model"
	"github.com/lindb/lindb/pkg/trie"
)

func mkPairs(keys [][]byte, vals []uint32) []pair {
	ps := make([]pair, len(keys))
	for i := range keys {
		ps[i] = pair{keys[i], vals[i]}
	}
	return ps
}

// splitChunks partitions pairs into d disjoint chunks (some may be empty).
func splitChunks(rnd *rand.Rand, ps []pair, d int) [][]pair {
	chunks := make([][]pair, d)
	for _, p := range ps {
		i := rnd.Intn(d)
		chunks[i] = append(chunks[i], p)
	}
	return chunks
}

// onlyEmptyKeyBlock: would TrieBucketBuilder.Write(chunk) with this block size hand the trie builder
// a block consisting of just the empty key? (the shape of the known Build({""}) defect)
func onlyEmptyKeyBlock(chunk []pair, blockSize int) bool {
	hasEmpty := false
	for _, p := range chunk {
		if len(p.k) == 0 {
			hasEmpty = true
		}
	}
	return hasEmpty && (blockSize == 1 || len(chunk) == 1)
}

// isBuildEmptyKeyPanic: the panic of the known defect - index out of range inside builder.buildNodes.
func isBuildEmptyKeyPanic(what string) bool {
	return strings.Contains(what, "buildNodes") && strings.Contains(what, "index out of range")
}

func pickBlockSize(rnd *rand.Rand, n int) int {
	cands := []int{1, 2, 3, 7, 64, n - 1, n, n + 1, n/2 + 1, math.MaxInt16}
	bs := cands[rnd.Intn(len(cands))]
	if bs < 1 {
		bs = 1
	}
	return bs
}

// writeDict serialises one dictionary with the real TrieBucketBuilder (keys handed over unsorted, as
// index/kv_store.go does from a Go map).
func writeDict(r *rec, chunk []pair, blockSize int, wit witFn) ([]byte, bool) {
	var buf bytes.Buffer
	keys := make([][]byte, len(chunk))
	ids := make([]uint32, len(chunk))
	for i, p := range chunk {
		keys[i] = append([]byte{}, p.k...)
		ids[i] = p.v
	}
	var err error
	if pn, what := guard(func() { err = model.NewTrieBucketBuilder(blockSize, &buf).Write(keys, ids) }); pn {
		class := "C20/bucket/panic-builder-write"
		if onlyEmptyKeyBlock(chunk, blockSize) && isBuildEmptyKeyPanic(what) {
			class = "C20/trie/build-only-empty-key"
		}
		r.viol(class, fmt.Sprintf("TrieBucketBuilder(blockSize=%d).Write of %d pairs panicked: %s", blockSize, len(chunk), what), wit("TrieBucketBuilder.Write", nil, map[string]interface{}{"block_size": blockSize}))
		return nil, false
	}
	if err != nil {
		r.viol("C20/bucket/builder-write-error", "TrieBucketBuilder.Write: "+err.Error(), wit("TrieBucketBuilder.Write", nil, nil))
		return nil, false
	}
	return buf.Bytes(), true
}

// loadBucket unmarshals several dictionaries ("files") into one TrieBucket like IndexKVReader.GetBucket does.
func loadBucket(r *rec, tb *model.TrieBucket, files [][]byte, wit witFn) bool {
	for _, f := range files {
		var err error
		if pn, what := guard(func() { err = tb.Unmarshal(f) }); pn {
			r.viol("C20/bucket/panic-unmarshal", "TrieBucket.Unmarshal panicked: "+what, wit("TrieBucket.Unmarshal", nil, nil))
			return false
		}
		if err != nil {
			r.viol("C20/bucket/unmarshal-error", "TrieBucket.Unmarshal of bytes written by TrieBucketBuilder: "+err.Error(), wit("TrieBucket.Unmarshal", nil, nil))
			return false
		}
	}
	return true
}

// runMemCase: layer (a) pkg/trie and layer (b) index/model on one key set.
func runMemCase(r *rec, rnd *rand.Rand, b *trie.Builder, id string, ks keySet, probeMax int) {
	vals := genValues(rnd, len(ks.Keys))
	ps := mkPairs(ks.Keys, vals)
	or := newOracle(ps)
	probes := genProbes(rnd, ks, probeMax)
	if or.n() > 24 {
		probes = append(probes, sampleKeys(rnd, ks.Keys, 40)...)
	}
	feat := or.features()
	desc := map[string]interface{}{"generator": ks.Kind, "keys": or.n(), "probes": len(probes)}
	if or.n() <= 32 {
		desc["keys_hex"] = hxs(ks.Keys, 32)
	}
	r.startCase(id, "trie+bucket", desc)
	countFeatures(r, feat)
	if or.n() >= 2 || feat.EmptyKey || feat.HasFF {
		r.nt("mem:" + or.setHash())
	}
	r.sample(map[string]interface{}{"layer": "trie+bucket", "generator": ks.Kind, "keys": or.n(), "probes": len(probes), "first_keys_hex": hxs(ks.Keys, 6)})

	tc := &trieCase{id: id, ks: ks, or: or, probes: probes}
	if !checkTrieLayer(r, *b, tc) {
		*b = trie.NewBuilder() // a builder that panicked is not reused
	}

	// ---- layer (b): TrieBucketBuilder -> TrieBucket
	wit := func(op string, probe []byte, extra map[string]interface{}) map[string]interface{} {
		w := map[string]interface{}{"case": id, "generator": ks.Kind, "operation": op, "keys": or.witnessKeys(probe)}
		if probe != nil {
			w["probe_hex"] = hx(probe)
		}
		for k, v := range extra {
			w[k] = v
		}
		return w
	}
	d := []int{1, 1, 2, 3, 4}[rnd.Intn(5)]
	chunks := splitChunks(rnd, ps, d)
	blockSize := pickBlockSize(rnd, or.n())
	var files [][]byte
	for _, ch := range chunks {
		if len(ch) == 0 {
			continue
		}
		f, ok := writeDict(r, ch, blockSize, func(op string, probe []byte, extra map[string]interface{}) map[string]interface{} {
			w := wit(op, probe, extra)
			w["dictionary_keys_hex"] = hxs(keysOf(ch), 64)
			return w
		})
		if !ok {
			return
		}
		files = append(files, f)
	}
	r.count("bucket_dictionaries_written", len(files))
	if len(files) > 1 {
		r.count("bucket_multi_dictionary_loads", 1)
	}
	tb := model.NewTrieBucket()
	if !loadBucket(r, tb, files, wit) {
		return
	}
	tag := fmt.Sprintf("bucket dicts=%d blockSize=%d", len(files), blockSize)
	checkBucket(r, tag, tb, or, ks, probes, rnd, func(op string, probe []byte, extra map[string]interface{}) map[string]interface{} {
		w := wit(op, probe, extra)
		w["dictionaries"], w["block_size"] = len(files), blockSize
		return w
	})
	tb.Release()

	// ---- merge: several dictionaries of one bucket -> TrieBucket.Write -> union of the pairs
	mergeBS := []int{1, 2, 5, or.n()/2 + 1, or.n(), or.n() + 1, math.MaxUint16}[rnd.Intn(7)]
	if mergeBS < 1 {
		mergeBS = 1
	}
	mb := model.NewTrieBucketWithBlockSize(mergeBS)
	if !loadBucket(r, mb, files, wit) {
		return
	}
	var out bytes.Buffer
	var err error
	mwit := func(op string, probe []byte, extra map[string]interface{}) map[string]interface{} {
		w := wit(op, probe, extra)
		w["dictionaries"], w["block_size"], w["merge_block_size"] = len(files), blockSize, mergeBS
		return w
	}
	if pn, what := guard(func() { err = mb.Write(&out) }); pn {
		r.viol("C20/bucket/panic-merge-write", fmt.Sprintf("TrieBucket(blockSize=%d).Write merging %d dictionaries panicked: %s", mergeBS, len(files), what), mwit("TrieBucket.Write", nil, nil))
		return
	}
	if err != nil {
		r.viol("C20/bucket/merge-write-error", "TrieBucket.Write: "+err.Error(), mwit("TrieBucket.Write", nil, nil))
		return
	}
	mb.Release()
	merged := model.NewTrieBucket()
	if !loadBucket(r, merged, [][]byte{append([]byte{}, out.Bytes()...)}, mwit) {
		return
	}
	r.count("bucket_merges", 1)
	if len(files) > 1 {
		r.count("bucket_merges_of_2plus_dictionaries", 1)
	}
	checkBucket(r, fmt.Sprintf("merged bucket dicts=%d blockSize=%d mergeBlockSize=%d", len(files), blockSize, mergeBS), merged, or, ks, probes, rnd, mwit)
	merged.Release()
}

func keysOf(ps []pair) [][]byte {
	rs := make([][]byte, len(ps))
	for i, p := range ps {
		rs[i] = p.k
	}
	return rs
}

func countFeatures(r *rec, f features) {
	r.count("keysets", 1)
	r.count("keys_total", f.N)
	if f.EmptyKey {
		r.count("keysets_with_empty_key", 1)
	}
	if f.PrefixOfOther {
		r.count("keysets_with_key_prefix_of_other", 1)
	}
	if f.Has00 {
		r.count("keysets_with_0x00", 1)
	}
	if f.HasFF {
		r.count("keysets_with_0xff", 1)
	}
	if f.LongKey {
		r.count("keysets_with_key_ge_256_bytes", 1)
	}
	if f.SharedPrefix {
		r.count("keysets_with_shared_prefix", 1)
	}
	if f.NonASCII {
		r.count("keysets_with_non_ascii", 1)
	}
	if f.N >= 1000 {
		r.count("keysets_ge_1000_keys", 1)
	}
	if f.N >= 50000 {
		r.count("keysets_ge_50000_keys", 1)
	}
}
