package main

import (
	"bytes"
	"fmt"

	"github.com/lindb/lindb/pkg/trie"
)

type trieCase struct {
	id     string
	ks     keySet
	or     *oracle
	probes [][]byte
}

func (tc *trieCase) wit(rep, op string, probe []byte, extra map[string]interface{}) map[string]interface{} {
	w := map[string]interface{}{
		"case": tc.id, "generator": tc.ks.Kind, "representation": rep, "operation": op,
		"keys": tc.or.witnessKeys(probe),
	}
	if probe != nil {
		w["probe_hex"] = hx(probe)
	}
	for k, v := range extra {
		w[k] = v
	}
	return w
}

// ffInvolved: the shape of the known 0xFF defect - the probe followed by a 0xFF byte leads to a stored key.
func ffInvolved(or *oracle, probe []byte) bool {
	if !or.hasFF {
		return false
	}
	ext := append(append([]byte{}, probe...), 0xFF)
	i := or.lowerBound(ext)
	return i < or.n() && bytes.HasPrefix(or.sorted[i].k, ext)
}

// checkTrieLayer drives pkg/trie: Build (with a reused builder, as TrieBucketBuilder does) -> Trie()
// and Write -> UnmarshalBinary, and checks both representations. It returns the serialised bytes
// (nil if building failed) and whether the builder is still usable.
func checkTrieLayer(r *rec, b trie.Builder, tc *trieCase) (builderOK bool) {
	or := tc.or
	keys := make([][]byte, or.n())
	vals := make([]uint32, or.n())
	for i, e := range or.sorted {
		keys[i] = append([]byte{}, e.k...)
		vals[i] = e.v
	}
	b.Reset()
	if p, what := guard(func() { b.Build(keys, vals) }); p {
		class := "C20/trie/panic-build"
		if or.n() == 1 && len(or.sorted[0].k) == 0 && isBuildEmptyKeyPanic(what) {
			class = "C20/trie/build-only-empty-key"
		}
		r.viol(class, fmt.Sprintf("builder.Build panicked on %d keys: %s", or.n(), what), tc.wit("builder", "Build", nil, nil))
		return false
	}
	r.count("trie_builds", 1)
	var mem trie.SuccinctTrie
	if p, what := guard(func() { mem = b.Trie() }); p {
		r.viol("C20/trie/panic-trie-init", "builder.Trie panicked: "+what, tc.wit("builder", "Trie", nil, nil))
		return false
	}
	var buf bytes.Buffer
	var size int
	var werr error
	if p, what := guard(func() { size = b.MarshalSize(); werr = b.Write(&buf) }); p {
		r.viol("C20/trie/panic-write", "builder.Write panicked: "+what, tc.wit("builder", "Write", nil, nil))
		return false
	}
	if werr != nil {
		r.viol("C20/trie/write-error", "builder.Write: "+werr.Error(), tc.wit("builder", "Write", nil, nil))
	}
	if size != buf.Len() {
		r.viol("C20/trie/marshal-size-differs", fmt.Sprintf("MarshalSize()=%d but Write produced %d bytes", size, buf.Len()),
			tc.wit("builder", "MarshalSize", nil, nil))
	}
	checkTrie(r, tc, "in-memory", mem)

	loaded := trie.NewTrie()
	var uerr error
	data := append([]byte{}, buf.Bytes()...)
	if p, what := guard(func() { uerr = loaded.UnmarshalBinary(data) }); p {
		r.viol("C20/trie/panic-unmarshal", "UnmarshalBinary panicked: "+what, tc.wit("loaded", "UnmarshalBinary", nil, nil))
		return true
	}
	if uerr != nil {
		r.viol("C20/trie/unmarshal-error", fmt.Sprintf("UnmarshalBinary of %d bytes written by the builder: %v", len(data), uerr),
			tc.wit("loaded", "UnmarshalBinary", nil, nil))
		return true
	}
	r.count("trie_serialise_load_roundtrips", 1)
	checkTrie(r, tc, "loaded", loaded)
	return true
}

type kvGot struct {
	k []byte
	v uint32
}

func checkTrie(r *rec, tc *trieCase, rep string, t trie.SuccinctTrie) {
	or := tc.or
	n := or.n()
	// --- size and values
	if t.Size() != n {
		r.viol("C20/trie/size", fmt.Sprintf("[%s] Size()=%d for %d keys", rep, t.Size(), n), tc.wit(rep, "Size", nil, nil))
	}
	vs := append([]uint32{}, t.Values()...)
	sortU32(vs)
	if !equalU32(vs, or.values()) {
		r.viol("C20/trie/values", fmt.Sprintf("[%s] Values() is not the multiset of stored values (%d vs %d)", rep, len(vs), n), tc.wit(rep, "Values", nil, nil))
	}

	// --- exact lookup
	getOne := func(p []byte) {
		var v uint32
		var ok bool
		if pn, what := guard(func() { v, ok = t.Get(p) }); pn {
			r.viol("C20/trie/panic-get", fmt.Sprintf("[%s] Get(%x) panicked: %s", rep, p, what), tc.wit(rep, "Get", p, nil))
			return
		}
		r.eval(1)
		ev, eok := or.get(p)
		switch {
		case eok && !ok:
			r.viol("C20/trie/get-present-key-missing", fmt.Sprintf("[%s] Get(%x) reports absence of a stored key", rep, p), tc.wit(rep, "Get", p, nil))
		case eok && v != ev:
			r.viol("C20/trie/get-wrong-value", fmt.Sprintf("[%s] Get(%x)=%d, stored %d", rep, p, v, ev), tc.wit(rep, "Get", p, nil))
		case !eok && ok:
			class := "C20/trie/get-absent-key-found"
			ext := append(append([]byte{}, p...), 0xFF)
			if xv, xok := or.get(ext); xok && xv == v {
				class = "C20/trie/0xff-label-vs-terminator"
			}
			r.viol(class, fmt.Sprintf("[%s] Get(%x) found value %d for a key that was never stored", rep, p, v),
				tc.wit(rep, "Get", p, map[string]interface{}{"returned_value": v}))
		}
		if eok {
			r.count("get_hits", 1)
		} else {
			r.count("get_absent_probes", 1)
		}
	}
	for _, p := range tc.probes {
		getOne(p)
	}
	if n <= 2000 {
		for _, e := range or.sorted {
			getOne(e.k)
		}
	}

	// --- ordered iteration, forward and backward
	iterate := func(op string, first func(it *trie.Iterator), step func(it *trie.Iterator)) []kvGot {
		var got []kvGot
		if pn, what := guard(func() {
			it := t.NewIterator()
			first(it)
			for it.Valid() {
				got = append(got, kvGot{append([]byte{}, it.Key()...), it.Value()})
				if len(got) > n+2 {
					break
				}
				step(it)
			}
			if len(got) <= n+2 {
				// stepping an exhausted iterator keeps it exhausted
				step(it)
				if it.Valid() {
					got = append(got, kvGot{[]byte("<valid again after exhaustion>"), 0})
				}
			}
		}); pn {
			r.viol("C20/trie/panic-"+op, fmt.Sprintf("[%s] %s panicked after %d items: %s", rep, op, len(got), what), tc.wit(rep, op, nil, nil))
			return nil
		}
		return got
	}
	cmpSeq := func(op, class string, got []kvGot, rev bool) {
		r.eval(1)
		for i := 0; i < len(got) || i < n; i++ {
			var e *pair
			if i < n {
				if rev {
					e = &or.sorted[n-1-i]
				} else {
					e = &or.sorted[i]
				}
			}
			if i >= len(got) {
				r.viol(class, fmt.Sprintf("[%s] %s stopped after %d of %d pairs (next expected %x)", rep, op, len(got), n, e.k), tc.wit(rep, op, e.k, nil))
				return
			}
			if e == nil {
				r.viol(class, fmt.Sprintf("[%s] %s yields extra pair #%d %x=%d beyond the %d stored", rep, op, i, got[i].k, got[i].v, n), tc.wit(rep, op, got[i].k, nil))
				return
			}
			if !bytes.Equal(got[i].k, e.k) || got[i].v != e.v {
				r.viol(class, fmt.Sprintf("[%s] %s item #%d is %x=%d, sorted map has %x=%d", rep, op, i, got[i].k, got[i].v, e.k, e.v), tc.wit(rep, op, e.k, nil))
				return
			}
		}
		r.count("ordered_iterations_compared", 1)
	}
	if n > 0 {
		fw := iterate("iterate-forward", func(it *trie.Iterator) { it.SeekToFirst() }, func(it *trie.Iterator) { it.Next() })
		if fw != nil {
			cmpSeq("SeekToFirst/Next", "C20/trie/iterate-forward", fw, false)
		}
		bw := iterate("iterate-backward", func(it *trie.Iterator) { it.SeekToLast() }, func(it *trie.Iterator) { it.Prev() })
		if bw != nil {
			cmpSeq("SeekToLast/Prev", "C20/trie/iterate-backward", bw, true)
		}
	}

	// --- seek
	for _, p := range tc.probes {
		checkSeek(r, tc, rep, t, p)
	}

	// --- prefix enumeration
	budget := 300_000
	for _, p := range tc.probes {
		exp := or.withPrefix(p)
		if len(exp) > budget {
			continue
		}
		budget -= len(exp) + 1
		var got []kvGot
		if pn, what := guard(func() {
			it := t.NewPrefixIterator(p)
			for it.Valid() {
				got = append(got, kvGot{append([]byte{}, it.Key()...), it.Value()})
				if len(got) > len(exp)+2 {
					break
				}
				it.Next()
			}
		}); pn {
			r.viol("C20/trie/panic-prefix-iterator", fmt.Sprintf("[%s] NewPrefixIterator(%x) panicked after %d items: %s", rep, p, len(got), what), tc.wit(rep, "PrefixIterator", p, nil))
			continue
		}
		r.eval(1)
		bad := len(got) != len(exp)
		for i := 0; !bad && i < len(exp); i++ {
			bad = !bytes.Equal(got[i].k, exp[i].k) || got[i].v != exp[i].v
		}
		if bad {
			class := "C20/trie/prefix-iterator"
			r.viol(class, fmt.Sprintf("[%s] prefix %x enumerates %d pairs %s, sorted map has %d %s", rep, p, len(got), fmtGot(got, 4), len(exp), fmtPairs(exp, 4)),
				tc.wit(rep, "PrefixIterator", p, nil))
		}
		if len(exp) > 0 {
			r.count("prefix_enumerations_nonempty", 1)
		} else {
			r.count("prefix_enumerations_empty", 1)
		}
	}
}

func fmtGot(g []kvGot, max int) string {
	s := "["
	for i, e := range g {
		if i >= max {
			s += " ..."
			break
		}
		s += fmt.Sprintf(" %x=%d", e.k, e.v)
	}
	return s + " ]"
}

func fmtPairs(g []pair, max int) string {
	s := "["
	for i, e := range g {
		if i >= max {
			s += " ..."
			break
		}
		s += fmt.Sprintf(" %x=%d", e.k, e.v)
	}
	return s + " ]"
}

// checkSeek: Seek(p) must stand on the smallest stored key >= p (exhausted if none), report an exact
// hit exactly for stored keys, and Next/Prev from there must follow the sorted order.
func checkSeek(r *rec, tc *trieCase, rep string, t trie.SuccinctTrie, p []byte) {
	or := tc.or
	n := or.n()
	var exact, valid bool
	var key []byte
	var val uint32
	var it *trie.Iterator
	if pn, what := guard(func() {
		it = t.NewIterator()
		exact = it.Seek(p)
		valid = it.Valid()
		if valid {
			key = append([]byte{}, it.Key()...)
			val = it.Value()
		}
	}); pn {
		r.viol("C20/trie/panic-seek", fmt.Sprintf("[%s] Seek(%x) panicked: %s", rep, p, what), tc.wit(rep, "Seek", p, nil))
		return
	}
	r.eval(1)
	idx := or.lowerBound(p)
	ev, present := or.get(p)
	obs := "exhausted"
	if valid {
		obs = fmt.Sprintf("%x=%d", key, val)
	}
	exp := "exhausted"
	if idx < n {
		exp = fmt.Sprintf("%x=%d", or.sorted[idx].k, or.sorted[idx].v)
	}
	w := func() map[string]interface{} {
		return tc.wit(rep, "Seek", p, map[string]interface{}{"observed": obs, "expected_lower_bound": exp, "returned_exact": exact})
	}
	landed := -1 // index in the sorted map the iterator stands on (if it stands on a stored pair)
	switch {
	case present:
		r.count("seek_present", 1)
		if !valid || !bytes.Equal(key, p) || val != ev {
			r.viol("C20/trie/seek-present-key", fmt.Sprintf("[%s] Seek(%x) of a stored key stands on %s", rep, p, obs), w())
		} else {
			landed = idx
			// the boolean Seek returns is undocumented and unused in lindb (SuRF's "possible false positive"
			// flag); it is observed, not judged
			if exact {
				r.count("seek_present_flag_true", 1)
			} else {
				r.count("seek_present_flag_false", 1)
			}
		}
	default:
		r.count("seek_absent", 1)
		if exact {
			r.count("seek_absent_flag_true", 1)
		}
		switch {
		case idx < n && valid && bytes.Equal(key, or.sorted[idx].k) && val == or.sorted[idx].v:
			landed = idx
			r.count("seek_absent_on_lower_bound", 1)
		case idx == n && !valid:
			r.count("seek_past_end_exhausted", 1)
		case idx == n && valid && n > 0 && bytes.Equal(key, or.sorted[n-1].k) && val == or.sorted[n-1].v:
			landed = n - 1
			r.viol("C20/trie/seek-past-end-stands-on-last-key", fmt.Sprintf("[%s] Seek(%x) beyond the last key is valid and stands on the last key %s", rep, p, obs), w())
		case idx < n && idx > 0 && valid && bytes.Equal(key, or.sorted[idx-1].k) && val == or.sorted[idx-1].v:
			landed = idx - 1
			r.viol("C20/trie/seek-absent-key-stands-on-predecessor", fmt.Sprintf("[%s] Seek(%x) stands on %s (< probe), lower bound is %s", rep, p, obs, exp), w())
		default:
			r.viol("C20/trie/seek-absent-key-stands-elsewhere", fmt.Sprintf("[%s] Seek(%x) stands on %s, lower bound is %s", rep, p, obs, exp), w())
		}
	}
	if landed < 0 {
		return
	}
	// continue from where the iterator stands: two steps forward must follow the sorted order
	if pn, what := guard(func() {
		for s := 1; s <= 2; s++ {
			it.Next()
			j := landed + s
			if j >= n {
				if it.Valid() {
					r.viol("C20/trie/next-after-seek", fmt.Sprintf("[%s] Seek(%x) then %d x Next: still valid on %x after the last key", rep, p, s, it.Key()), w())
				}
				return
			}
			if !it.Valid() || !bytes.Equal(it.Key(), or.sorted[j].k) || it.Value() != or.sorted[j].v {
				o := "exhausted"
				if it.Valid() {
					o = fmt.Sprintf("%x=%d", it.Key(), it.Value())
				}
				r.viol("C20/trie/next-after-seek", fmt.Sprintf("[%s] Seek(%x) stood on #%d; after %d x Next on %s, sorted map has %x=%d", rep, p, landed, s, o, or.sorted[j].k, or.sorted[j].v), w())
				return
			}
		}
		r.count("next_after_seek_checked", 1)
	}); pn {
		r.viol("C20/trie/panic-next-after-seek", fmt.Sprintf("[%s] Seek(%x) then Next panicked: %s", rep, p, what), w())
	}
	// and one step back from a fresh seek
	if pn, what := guard(func() {
		it2 := t.NewIterator()
		it2.Seek(p)
		if !it2.Valid() {
			return
		}
		it2.Prev()
		j := landed - 1
		if j < 0 {
			if it2.Valid() {
				r.viol("C20/trie/prev-after-seek", fmt.Sprintf("[%s] Seek(%x) on the first key then Prev: still valid on %x", rep, p, it2.Key()), w())
			}
			return
		}
		if !it2.Valid() || !bytes.Equal(it2.Key(), or.sorted[j].k) || it2.Value() != or.sorted[j].v {
			o := "exhausted"
			if it2.Valid() {
				o = fmt.Sprintf("%x=%d", it2.Key(), it2.Value())
			}
			r.viol("C20/trie/prev-after-seek", fmt.Sprintf("[%s] Seek(%x) stood on #%d; after Prev on %s, sorted map has %x=%d", rep, p, landed, o, or.sorted[j].k, or.sorted[j].v), w())
			return
		}
		r.count("prev_after_seek_checked", 1)
	}); pn {
		r.viol("C20/trie/panic-prev-after-seek", fmt.Sprintf("[%s] Seek(%x) then Prev panicked: %s", rep, p, what), w())
	}
}
