package main

import (
	"bytes"
	"fmt"
	"math"
	"math/rand"
	"os"
	"path/filepath"
	"sort"
	"strings"
	"time"

	"github.com/lindb/roaring"

	"github.com/lindb/lindb/index"
	v1 "github.com/lindb/lindb/index/v1"
	"github.com/lindb/lindb/kv"
	"github.com/lindb/lindb/sql/stmt"
)

type kvBucket struct {
	id     uint32
	ks     keySet
	chunks [][]pair // one chunk per flush round (may be empty)
	probes [][]byte
}

func (b *kvBucket) upTo(round int) *oracle {
	var ps []pair
	for i := 0; i <= round && i < len(b.chunks); i++ {
		ps = append(ps, b.chunks[i]...)
	}
	return newOracle(ps)
}

func genBucketIDs(rnd *rand.Rand, n int) []uint32 {
	seen := map[uint32]bool{}
	var ids []uint32
	for len(ids) < n {
		var id uint32
		switch rnd.Intn(4) {
		case 0:
			id = uint32(rnd.Intn(4))
		case 1:
			id = uint32(rnd.Intn(100000))
		case 2:
			id = math.MaxUint32 - uint32(rnd.Intn(3))
		default:
			id = 65535 + uint32(rnd.Intn(3))
		}
		if !seen[id] {
			seen[id] = true
			ids = append(ids, id)
		}
	}
	sort.Slice(ids, func(i, j int) bool { return ids[i] < ids[j] })
	return ids
}

func openFamily(dir, name string) (kv.Store, kv.Family, error) {
	store, err := kv.GetStoreManager().CreateStore(filepath.Join(dir, name), kv.StoreOption{Levels: 2})
	if err != nil {
		return nil, nil, err
	}
	fam, err := store.CreateFamily("dict", kv.FamilyOption{Merger: string(v1.IndexKVMerger)})
	if err != nil {
		return nil, nil, err
	}
	return store, fam, nil
}

func levelFiles(fam kv.Family) (l0, l1 int) {
	snap := fam.GetSnapshot()
	defer snap.Close()
	return snap.GetCurrent().NumberOfFilesInLevel(0), snap.GetCurrent().NumberOfFilesInLevel(1)
}

// runKVCase: layer (c) - IndexKVFlusher -> real kv family -> IndexKVReader, before and after Family.Compact.
func runKVCase(r *rec, rnd *rand.Rand, id, dir string, sets []keySet, rounds, probeMax int) {
	bids := genBucketIDs(rnd, len(sets)+1)
	untouched := bids[len(bids)-1-rnd.Intn(len(bids))]
	var buckets []*kvBucket
	totalKeys := 0
	for _, bid := range bids {
		if bid == untouched {
			continue
		}
		ks := sets[len(buckets)]
		ps := mkPairs(ks.Keys, genValues(rnd, len(ks.Keys)))
		b := &kvBucket{id: bid, ks: ks, chunks: splitChunks(rnd, ps, rounds), probes: genProbes(rnd, ks, probeMax)}
		if len(ks.Keys) > 24 {
			b.probes = append(b.probes, sampleKeys(rnd, ks.Keys, 30)...)
		}
		buckets = append(buckets, b)
		totalKeys += len(ks.Keys)
	}
	flushBS := []int{1, 3, 50, math.MaxInt16, math.MaxInt16}[rnd.Intn(5)]
	if totalKeys > 5000 {
		flushBS = math.MaxInt16 // what index/kv_store.go uses
	}
	desc := map[string]interface{}{"buckets": len(buckets), "rounds": rounds, "flush_block_size": flushBS, "keys": totalKeys}
	var kinds []string
	for _, b := range buckets {
		kinds = append(kinds, fmt.Sprintf("%d:%s:%d", b.id, b.ks.Kind, len(b.ks.Keys)))
	}
	desc["bucket_generators"] = kinds
	if totalKeys <= 32 {
		for _, b := range buckets {
			desc[fmt.Sprintf("bucket_%d_keys_hex", b.id)] = hxs(b.ks.Keys, 32)
		}
	}
	r.startCase(id, "kv-flusher-reader-merger", desc)
	r.sample(map[string]interface{}{"layer": "kv", "buckets": kinds, "rounds": rounds, "flush_block_size": flushBS})

	store, fam, err := openFamily(dir, id)
	if err != nil {
		r.viol("C20/kv/harness-open-store", "cannot create kv store/family: "+err.Error(), nil)
		return
	}
	defer func() {
		_ = kv.GetStoreManager().CloseStore(store.Name())
		_ = os.RemoveAll(filepath.Join(dir, id))
	}()

	wit := func(b *kvBucket, or *oracle, stage string) witFn {
		return func(op string, probe []byte, extra map[string]interface{}) map[string]interface{} {
			w := map[string]interface{}{"case": id, "bucket": b.id, "generator": b.ks.Kind, "stage": stage, "operation": op,
				"flush_block_size": flushBS, "keys": or.witnessKeys(probe)}
			if probe != nil {
				w["probe_hex"] = hx(probe)
			}
			for k, v := range extra {
				w[k] = v
			}
			return w
		}
	}

	flushRound := func(round int) bool {
		wrote := false
		var ferr error
		var cur *kvBucket
		pn, what := guard(func() {
			kvFlusher := fam.NewFlusher()
			defer kvFlusher.Release()
			fl, err := v1.NewIndexKVFlusher(flushBS, kvFlusher)
			if err != nil {
				ferr = err
				return
			}
			for _, b := range buckets {
				ch := b.chunks[round]
				if len(ch) == 0 {
					continue
				}
				cur = b
				keys := make([][]byte, len(ch))
				ids := make([]uint32, len(ch))
				for i, p := range ch {
					keys[i] = append([]byte{}, p.k...)
					ids[i] = p.v
				}
				fl.PrepareBucket(b.id)
				if ferr = fl.WriteKVs(keys, ids); ferr != nil {
					return
				}
				if ferr = fl.CommitBucket(); ferr != nil {
					return
				}
				wrote = true
			}
			ferr = fl.Close()
		})
		if pn {
			class := "C20/kv/panic-flush"
			if cur != nil && onlyEmptyKeyBlock(cur.chunks[round], flushBS) && isBuildEmptyKeyPanic(what) {
				class = "C20/trie/build-only-empty-key"
			}
			var w map[string]interface{}
			if cur != nil {
				w = wit(cur, newOracle(cur.chunks[round]), fmt.Sprintf("flush round %d", round))("IndexKVFlusher.WriteKVs", nil, nil)
			}
			r.viol(class, fmt.Sprintf("IndexKVFlusher(blockSize=%d) flush round %d panicked: %s", flushBS, round, what), w)
			return false
		}
		if ferr != nil {
			r.viol("C20/kv/flush-error", fmt.Sprintf("flush round %d: %v", round, ferr), nil)
			return false
		}
		if wrote {
			r.count("kv_flushes", 1)
		}
		return true
	}

	checkAll := func(round int, stage string) {
		snap := fam.GetSnapshot()
		defer snap.Close()
		reader := v1.NewIndexKVReader(snap)
		for _, b := range buckets {
			or := b.upTo(round)
			tb, err := reader.GetBucket(b.id)
			w := wit(b, or, stage)
			if err != nil {
				r.viol("C20/kv/reader-error", fmt.Sprintf("[%s] GetBucket(%d): %v", stage, b.id, err), w("IndexKVReader.GetBucket", nil, nil))
				continue
			}
			if or.n() == 0 {
				if tb != nil && len(tb.GetValues()) != 0 {
					r.viol("C20/kv/reader-bucket-not-written", fmt.Sprintf("[%s] bucket %d was never written but holds values", stage, b.id), w("IndexKVReader.GetBucket", nil, nil))
				}
				continue
			}
			if tb == nil {
				r.viol("C20/kv/reader-bucket-missing", fmt.Sprintf("[%s] GetBucket(%d) returns no bucket although %d pairs were flushed", stage, b.id, or.n()), w("IndexKVReader.GetBucket", nil, nil))
				continue
			}
			if or.n() >= 2 {
				r.nt("kv:" + stage[:2] + ":" + or.setHash())
			}
			r.count("kv_bucket_reads_checked", 1)
			checkBucket(r, fmt.Sprintf("kv-reader bucket=%d %s", b.id, stage), tb, or, b.ks, b.probes, rnd, w)
			tb.Release()
		}
		// a bucket id that was never written
		if tb, err := reader.GetBucket(untouched); err != nil || (tb != nil && len(tb.GetValues()) != 0) {
			r.viol("C20/kv/reader-bucket-not-written", fmt.Sprintf("[%s] bucket %d was never written: bucket=%v err=%v", stage, untouched, tb != nil, err), nil)
		} else {
			r.count("kv_unwritten_bucket_reads", 1)
		}
	}

	compact := func(round int) {
		l0, _ := levelFiles(fam)
		if l0 < 2 {
			return
		}
		fam.Compact()
		kv.VerifFamilyWait(fam)
		n0, n1 := levelFiles(fam)
		if n0 != 0 || n1 == 0 {
			r.viol("C20/kv/compaction-did-not-install", fmt.Sprintf("after Family.Compact with %d level-0 files: level0=%d level1=%d (merge failed, see child log)", l0, n0, n1),
				map[string]interface{}{"case": id, "desc": desc})
			return
		}
		r.count("kv_compactions_merging_2plus_files", 1)
		checkAll(round, fmt.Sprintf("compacted after round %d", round))
	}

	compactAt := 1 + rnd.Intn(rounds) // compact once in the middle, once at the end
	for round := 0; round < rounds; round++ {
		if !flushRound(round) {
			return
		}
		checkAll(round, fmt.Sprintf("flushed round %d", round))
		if round+1 == compactAt || round+1 == rounds {
			compact(round)
		}
	}
}

// ---- layer (d): index.IndexKVStore, the caller that lindb itself uses (memory + flushed + merged) ----

func runStoreCase(r *rec, rnd *rand.Rand, id, dir string, ks keySet, probeMax int) {
	bucketID := genBucketIDs(rnd, 1)[0]
	otherBucket := bucketID + 1
	keys := ks.Keys
	probes := genProbes(rnd, ks, probeMax)
	desc := map[string]interface{}{"generator": ks.Kind, "keys": len(keys), "bucket": bucketID}
	if len(keys) <= 32 {
		desc["keys_hex"] = hxs(keys, 32)
	}
	r.startCase(id, "index-kv-store", desc)
	store, fam, err := openFamily(dir, id)
	if err != nil {
		r.viol("C20/kv/harness-open-store", "cannot create kv store/family: "+err.Error(), nil)
		return
	}
	defer func() {
		_ = kv.GetStoreManager().CloseStore(store.Name())
		_ = os.RemoveAll(filepath.Join(dir, id))
	}()
	s := index.NewIndexKVStore(fam, 16, time.Minute)
	seq := rnd.Uint32() >> 1
	var ps []pair
	// which (bucket,key) the harness created since the last flush, split like the store splits them:
	// PrepareFlush moves "mutable" to "immutable" when there is no (or an empty) immutable generation
	type memKey struct {
		bucket uint32
		key    string
	}
	var mutGen, immGen []memKey
	// switchAgain mirrors the store (fix 75e3a98): a flush prepared while an immutable generation is still
	// there flushes that generation first, then switches and flushes what was written since then as well
	switchAgain := false
	prepare := func() {
		s.PrepareFlush()
		if len(immGen) == 0 {
			immGen, mutGen = mutGen, nil
		} else {
			switchAgain = true
		}
	}
	stageWit := func(or *oracle, stage string) witFn {
		return func(op string, probe []byte, extra map[string]interface{}) map[string]interface{} {
			w := map[string]interface{}{"case": id, "bucket": bucketID, "generator": ks.Kind, "stage": stage, "operation": op, "keys": or.witnessKeys(probe)}
			if probe != nil {
				w["probe_hex"] = hx(probe)
			}
			for k, v := range extra {
				w[k] = v
			}
			return w
		}
	}
	create := func(part [][]byte, stage string) bool {
		for _, k := range part {
			seq++
			want := seq
			var got uint32
			var isNew bool
			var err error
			if pn, what := guard(func() {
				got, isNew, err = s.GetOrCreateValue(bucketID, k, func() (uint32, error) { return want, nil })
			}); pn {
				r.viol(storePanicClass(what, len(k) == 0, "C20/store/panic-getorcreate"), fmt.Sprintf("[%s] GetOrCreateValue(%x) panicked: %s", stage, k, what), stageWit(newOracle(ps), stage)("GetOrCreateValue", k, nil))
				if len(k) == 0 {
					continue // the empty key cannot be stored through this entry point; go on without it
				}
				return false
			}
			if err != nil || !isNew || got != want {
				or := newOracle(ps)
				class := "C20/store/getorcreate-new-key"
				ext := append(append([]byte{}, k...), 0xFF)
				if xv, ok := or.get(ext); ok && xv == got && !isNew {
					class = "C20/trie/0xff-label-vs-terminator"
				}
				r.viol(class, fmt.Sprintf("[%s] GetOrCreateValue(%x) of a new key: id=%d isNew=%v err=%v, expected new id %d", stage, k, got, isNew, err, want),
					stageWit(or, stage)("GetOrCreateValue", k, nil))
				if err != nil || !isNew {
					// the key did not get the new id; the reference keeps what the store says
					if err == nil {
						continue
					}
					return false
				}
			}
			ps = append(ps, pair{append([]byte{}, k...), got})
			mutGen = append(mutGen, memKey{bucketID, string(k)})
			// also put something in a neighbour bucket: it must never show up in ours
			if rnd.Intn(8) == 0 {
				ok := append([]byte("other-"), k...)
				if _, isNew, err := s.GetOrCreateValue(otherBucket, ok, func() (uint32, error) { return 0xdead0000 + uint32(len(ps)), nil }); err == nil && isNew {
					mutGen = append(mutGen, memKey{otherBucket, string(ok)})
				}
			}
		}
		return true
	}
	flush := func(stage string) bool {
		var err error
		if pn, what := guard(func() { prepare(); err = s.Flush() }); pn {
			class := "C20/store/panic-flush"
			// the blocks handed to the trie builder for our bucket = its keys in the immutable generation and,
			// when the store switches again, its keys in the generation written since then (flush block size
			// is MaxInt16); known defect only if one of these blocks is exactly the empty key
			blockOf := func(gen []memKey) []string {
				var block []string
				for _, mk := range gen {
					if mk.bucket == bucketID {
						block = append(block, mk.key)
					}
				}
				return block
			}
			blocks := [][]string{blockOf(immGen)}
			if switchAgain {
				blocks = append(blocks, blockOf(mutGen))
			}
			block := blocks[0]
			for _, b := range blocks {
				if isBuildEmptyKeyPanic(what) && len(b) == 1 && b[0] == "" {
					class = "C20/trie/build-only-empty-key"
					block = b
					break
				}
			}
			r.viol(class, fmt.Sprintf("[%s] IndexKVStore.Flush of a generation holding %d keys of bucket %d panicked: %s", stage, len(block), bucketID, what),
				map[string]interface{}{"case": id, "desc": desc, "flushed_block_keys_hex": hexStrs(block, 32), "generations_flushed": len(blocks)})
			return false
		}
		if err == nil {
			immGen = nil
			if switchAgain {
				mutGen, switchAgain = nil, false
			}
		}
		if err != nil {
			r.viol("C20/store/flush-error", fmt.Sprintf("[%s] Flush: %v", stage, err), nil)
			return false
		}
		r.count("store_flushes", 1)
		return true
	}
	check := func(stage string) {
		or := newOracle(ps)
		if or.n() >= 2 {
			r.nt("store:" + stage + ":" + or.setHash())
		}
		checkStore(r, s, bucketID, or, ks, probes, rnd, stage, stageWit(or, stage))
		r.count("store_states_checked", 1)
	}
	// split the keys over four phases
	parts := make([][][]byte, 4)
	for _, k := range keys {
		i := rnd.Intn(4)
		parts[i] = append(parts[i], k)
	}
	if !create(parts[0], "memory") {
		return
	}
	check("memory")
	prepare() // parts[0] now immutable
	if !create(parts[1], "immutable+memory") {
		return
	}
	check("immutable+memory")
	if !flush("flush#1") { // flushes parts[0]
		return
	}
	check("flushed+memory")
	if !flush("flush#2") { // flushes parts[1]
		return
	}
	if !create(parts[2], "2 files+memory") {
		return
	}
	check("2 files+memory")
	if l0, _ := levelFiles(fam); l0 >= 2 {
		fam.Compact()
		kv.VerifFamilyWait(fam)
		if n0, n1 := levelFiles(fam); n0 != 0 || n1 == 0 {
			r.viol("C20/kv/compaction-did-not-install", fmt.Sprintf("IndexKVStore family: level0=%d level1=%d after Compact", n0, n1), map[string]interface{}{"case": id, "desc": desc})
			return
		}
		r.count("store_compactions", 1)
		// the store keeps reading through its old snapshot until the next flush; both must answer alike
		check("compacted(old snapshot)+memory")
	}
	if !flush("flush#3") {
		return
	}
	if !create(parts[3], "merged+file+memory") {
		return
	}
	check("merged+file+memory")
}

// explainedByFF: is the answer to "in (vals)" exactly what the known 0xFF defect produces - every value
// answered either correctly or with the id stored for value+FF (at least once the latter)?
func explainedByFF(or *oracle, vals []string, got []uint32) bool {
	remain := map[uint32]int{}
	for _, v := range got {
		remain[v]++
	}
	usedAlt := false
	for _, v := range vals {
		cv, cok := or.get([]byte(v))
		av, aok := or.get(append([]byte(v), 0xFF))
		switch {
		case cok && remain[cv] > 0:
			remain[cv]--
		case aok && remain[av] > 0:
			remain[av]--
			usedAlt = true
		case cok:
			return false // a stored value is missing from the answer
		}
	}
	for _, cnt := range remain {
		if cnt != 0 {
			return false
		}
	}
	return usedAlt
}

// storePanicClass: the known defect is strutil.ByteSlice2String(&b[0]) on an empty key in the lookup of
// the in-memory maps (index/kv_store.go getValueFromMem); everything else keeps the operation's class.
func storePanicClass(what string, emptyKeyInvolved bool, def string) string {
	if emptyKeyInvolved && strings.Contains(what, "ByteSlice2String") && strings.Contains(what, "getValueFromMem") {
		return "C20/store/empty-key-lookup-panics-in-memory-path"
	}
	return def
}

func checkStore(r *rec, s index.IndexKVStore, bucketID uint32, or *oracle, ks keySet, probes [][]byte, rnd *rand.Rand, stage string, wit witFn) {
	n := or.n()
	tag := "store " + stage
	for _, p := range probes {
		var v uint32
		var ok bool
		var err error
		if pn, what := guard(func() { v, ok, err = s.GetValue(bucketID, p) }); pn {
			r.viol(storePanicClass(what, len(p) == 0, "C20/store/panic-getvalue"), fmt.Sprintf("[%s] GetValue(%x) panicked: %s", tag, p, what), wit("GetValue", p, nil))
			continue
		}
		r.eval(1)
		ev, eok := or.get(p)
		switch {
		case err != nil:
			r.viol("C20/store/getvalue-error", fmt.Sprintf("[%s] GetValue(%x): %v", tag, p, err), wit("GetValue", p, nil))
		case eok && (!ok || v != ev):
			class := "C20/store/getvalue-present-key"
			if xv, xok := or.get(append(append([]byte{}, p...), 0xFF)); ok && xok && xv == v {
				class = "C20/trie/0xff-label-vs-terminator" // a block holding only probe+FF answers before the right block is asked
			}
			r.viol(class, fmt.Sprintf("[%s] GetValue(%x) = %d,%v (value of key %x); stored %d", tag, p, v, ok, or.byVal[v], ev), wit("GetValue", p, nil))
		case !eok && ok:
			class := "C20/store/getvalue-absent-key-found"
			ext := append(append([]byte{}, p...), 0xFF)
			if xv, xok := or.get(ext); xok && xv == v {
				class = "C20/trie/0xff-label-vs-terminator"
			}
			r.viol(class, fmt.Sprintf("[%s] GetValue(%x) found %d for a key never stored", tag, p, v), wit("GetValue", p, nil))
		}
	}
	// GetValues
	var vs []uint32
	var gerr error
	if pn, what := guard(func() { vs, gerr = s.GetValues(bucketID) }); pn {
		r.viol("C20/store/panic-getvalues", fmt.Sprintf("[%s] GetValues panicked: %s", tag, what), wit("GetValues", nil, nil))
	} else if gerr != nil {
		r.viol("C20/store/getvalues", fmt.Sprintf("[%s] GetValues: %v", tag, gerr), wit("GetValues", nil, nil))
	} else {
		vs = append([]uint32{}, vs...)
		sortU32(vs)
		r.eval(1)
		if !equalU32(vs, or.values()) {
			r.viol("C20/store/getvalues", fmt.Sprintf("[%s] GetValues returns %d values, stored %d (or different ones)", tag, len(vs), n), wit("GetValues", nil, nil))
		}
	}
	// equals / in
	if n > 0 {
		var vals []string
		var exp []uint32
		for i := 0; i < 5; i++ {
			p := probes[rnd.Intn(len(probes))]
			vals = append(vals, string(p))
			if v, ok := or.get(p); ok {
				exp = append(exp, v)
			}
		}
		e := or.sorted[rnd.Intn(n)]
		vals = append(vals, string(e.k))
		exp = append(exp, e.v)
		var got []uint32
		var err error
		hasEmpty := false
		for _, v := range vals {
			hasEmpty = hasEmpty || v == ""
		}
		if pn, what := guard(func() { got, err = s.FindValuesByExpr(bucketID, &stmt.InExpr{Key: "k", Values: vals}) }); pn {
			r.viol(storePanicClass(what, hasEmpty, "C20/store/panic-in-expr"), fmt.Sprintf("[%s] in %q panicked: %s", tag, vals, what), wit("FindValuesByExpr(in)", nil, nil))
		} else {
			got = append([]uint32{}, got...)
			sortU32(got)
			sortU32(exp)
			r.eval(1)
			if err != nil || !equalU32(got, exp) {
				class := "C20/store/in-expr"
				if err == nil && or.hasFF && explainedByFF(or, vals, got) {
					class = "C20/trie/0xff-label-vs-terminator"
				}
				r.viol(class, fmt.Sprintf("[%s] in %q selects %v (err %v), expected %v", tag, vals, got, err, exp), wit("FindValuesByExpr(in)", nil, nil))
			}
		}
		if pn, what := guard(func() { got, err = s.FindValuesByExpr(bucketID, &stmt.EqualsExpr{Key: "k", Value: string(e.k)}) }); pn {
			r.viol(storePanicClass(what, len(e.k) == 0, "C20/store/panic-equals-expr"), fmt.Sprintf("[%s] = %x panicked: %s", tag, e.k, what), wit("FindValuesByExpr(=)", e.k, nil))
		} else {
			r.eval(1)
			if err != nil || len(got) != 1 || got[0] != e.v {
				class := "C20/store/equals-expr"
				if err == nil && or.hasFF && explainedByFF(or, []string{string(e.k)}, got) {
					class = "C20/trie/0xff-label-vs-terminator"
				}
				r.viol(class, fmt.Sprintf("[%s] = %x selects %v (err %v), expected [%d]", tag, e.k, got, err, e.v), wit("FindValuesByExpr(=)", e.k, nil))
			}
		}
	}
	// like (through the real pattern dispatch of FindValuesByLike)
	for _, lp := range genLikes(rnd, ks, 9) {
		var got []uint32
		var err error
		if pn, what := guard(func() { got, err = s.FindValuesByExpr(bucketID, &stmt.LikeExpr{Key: "k", Value: lp.text()}) }); pn {
			r.viol("C20/store/panic-like", fmt.Sprintf("[%s] like %q panicked: %s", tag, lp.text(), what), wit("FindValuesByExpr(like)", lp.sub, nil))
			continue
		}
		got = append([]uint32{}, got...)
		sortU32(got)
		exp := or.filter(lp.match)
		r.eval(1)
		if err != nil || !equalU32(got, exp) {
			r.viol("C20/store/like-"+lp.shape, fmt.Sprintf("[%s] like %q selects %d values %v (err %v), predicate selects %d %v", tag, lp.text(), len(got), clipU(got, 6), err, len(exp), clipU(exp, 6)), wit("FindValuesByExpr(like)", lp.sub, nil))
		}
	}
	// regexp
	for _, rp := range genRegexps(rnd, ks, 9) {
		var got []uint32
		var err error
		if pn, what := guard(func() { got, err = s.FindValuesByExpr(bucketID, &stmt.RegexExpr{Key: "k", Regexp: rp.String()}) }); pn {
			r.viol("C20/store/panic-regexp", fmt.Sprintf("[%s] regexp %q panicked: %s", tag, rp.String(), what), wit("FindValuesByExpr(=~)", nil, nil))
			continue
		}
		got = append([]uint32{}, got...)
		sortU32(got)
		exp := or.filter(rp.Match)
		r.eval(1)
		if err != nil || !equalU32(got, exp) {
			class := "C20/store/regexp-error"
			if err == nil {
				class = strings.Replace(classifyRegexp(or, rp, got, exp), "C20/bucket/regexp-mismatch", "C20/store/regexp-mismatch", 1)
			}
			lit, _ := rp.LiteralPrefix()
			r.viol(class, fmt.Sprintf("[%s] regexp %q (literal prefix %q) selects %d values %v (err %v), Regexp.Match selects %d %v", tag, rp.String(), lit, len(got), clipU(got, 6), err, len(exp), clipU(exp, 6)),
				wit("FindValuesByExpr(=~)", nil, map[string]interface{}{"regexp": rp.String(), "literal_prefix": lit}))
		}
	}
	// suggest
	sp := probes
	if len(sp) > 25 {
		sp = sp[:25]
	}
	for _, p := range sp {
		matches := or.withPrefix(p)
		limit := []int{1, 2, 3, n + 1, 100}[rnd.Intn(5)]
		var got []string
		var err error
		if pn, what := guard(func() { got, err = s.Suggest(bucketID, string(p), limit) }); pn {
			r.viol("C20/store/panic-suggest", fmt.Sprintf("[%s] Suggest(%q) panicked: %s", tag, p, what), wit("Suggest", p, nil))
			continue
		}
		r.eval(1)
		var exp []string
		for i := 0; i < len(matches) && i < limit; i++ {
			exp = append(exp, string(matches[i].k))
		}
		if err != nil {
			r.viol("C20/store/suggest-error", fmt.Sprintf("[%s] Suggest(%q): %v", tag, p, err), wit("Suggest", p, nil))
			continue
		}
		if class := classifySuggest(got, exp, matches); class != "" {
			class = strings.Replace(class, "C20/bucket/suggest-mismatch", "C20/store/suggest-mismatch", 1)
			class = strings.Replace(class, "C20/bucket/suggest-count", "C20/store/suggest-count", 1)
			class = strings.Replace(class, "C20/bucket/suggest-order", "C20/store/suggest-order", 1)
			r.viol(class, fmt.Sprintf("[%s] Suggest(%q,%d) = %q, sorted map gives %q", tag, p, limit, clip(got, 6), clip(exp, 6)),
				wit("Suggest", p, map[string]interface{}{"limit": limit, "observed": hexStrs(got, 40), "expected": hexStrs(exp, 40)}))
		}
	}
	// CollectKVs
	if n > 0 {
		bm := roaring.New()
		want := map[uint32]string{}
		for i := 0; i < 30; i++ {
			e := or.sorted[rnd.Intn(n)]
			bm.Add(e.v)
			want[e.v] = string(e.k)
		}
		got := map[uint32]string{}
		var err error
		if pn, what := guard(func() { err = s.CollectKVs(bucketID, bm, got) }); pn {
			r.viol("C20/store/panic-collectkvs", fmt.Sprintf("[%s] CollectKVs panicked: %s", tag, what), wit("CollectKVs", nil, nil))
			return
		}
		r.eval(1)
		bad := err != nil || len(got) != len(want)
		for v, k := range want {
			if got[v] != k {
				bad = true
			}
		}
		if bad {
			r.viol("C20/store/collectkvs", fmt.Sprintf("[%s] CollectKVs returns %d pairs (err %v) for %d stored values, or wrong keys", tag, len(got), err, len(want)), wit("CollectKVs", nil, nil))
		}
	}
	_ = bytes.Equal
}
