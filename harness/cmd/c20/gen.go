package main

import (
	"bytes"
	"encoding/binary"
	"fmt"
	"math/rand"
	"sort"
	"strings"
)

// ---- key set generators (all randomness from the PRNG handed in) ----

var genKinds = []string{
	"small5", "small5", "small5", "small4", "small4", "ab", "ffheavy", "zeroheavy",
	"names", "names", "tagvalues", "tagvalues", "numbered", "numbered",
	"long", "chain", "randbytes", "fixed8", "single", "mixed",
}

var metricStems = []string{
	"cpu", "mem", "disk", "net", "go_memstats", "go_gc", "process", "http_request", "jvm", "lindb.tsdb",
	"lindb.kv.table", "system", "node", "kube_pod", "request_duration_seconds", "温度", "метрика", "λ",
}
var metricLeaves = []string{
	"idle", "user", "system", "usage", "usage_percent", "free", "total", "bytes", "bytes_total", "count", "sum",
	"bucket", "alloc_bytes", "heap_sys_bytes", "duration_seconds", "errors", "p99", "😀", "größe", "",
}
var tagValueStems = []string{
	"host-", "10.0.", "192.168.1.", "us-east-", "eu-west-", "sh-", "bj-", "nj-", "pod-abc-", "/api/v1/", "GET ", "节点-", "ünï-", "",
}

type keySet struct {
	Kind  string
	Alpha []byte // alphabet used for random probes
	Keys  [][]byte
}

func randFrom(rnd *rand.Rand, alpha []byte, n int) []byte {
	b := make([]byte, n)
	for i := range b {
		b[i] = alpha[rnd.Intn(len(alpha))]
	}
	return b
}

type keyAcc struct {
	seen map[string]struct{}
	keys [][]byte
}

func newAcc() *keyAcc { return &keyAcc{seen: map[string]struct{}{}} }
func (a *keyAcc) add(k []byte) {
	if _, ok := a.seen[string(k)]; ok {
		return
	}
	a.seen[string(k)] = struct{}{}
	c := make([]byte, len(k))
	copy(c, k)
	a.keys = append(a.keys, c)
}

// sizeDist draws a key-set size biased to small sets with a tail.
func sizeDist(rnd *rand.Rand, max int) int {
	switch r := rnd.Intn(100); {
	case r < 15:
		return 1 + rnd.Intn(3)
	case r < 60:
		return 2 + rnd.Intn(20)
	case r < 90:
		return 10 + rnd.Intn(80)
	default:
		return 50 + rnd.Intn(max)
	}
}

func genKeySet(rnd *rand.Rand, kind string, maxN int) keySet {
	if kind == "" {
		kind = genKinds[rnd.Intn(len(genKinds))]
	}
	acc := newAcc()
	n := sizeDist(rnd, maxN)
	var alpha []byte
	randomAlpha := func(al []byte, maxLen int) {
		alpha = al
		for tries := 0; len(acc.keys) < n && tries < n*20; tries++ {
			acc.add(randFrom(rnd, al, rnd.Intn(maxLen+1)))
		}
	}
	switch kind {
	case "small5":
		randomAlpha([]byte{0x00, 'a', 'b', 'c', 0xFF}, 1+rnd.Intn(6))
	case "small4":
		randomAlpha([]byte{0x00, 'a', 'b', 'c'}, 1+rnd.Intn(6))
	case "ab":
		randomAlpha([]byte{'a', 'b'}, 1+rnd.Intn(9))
	case "ffheavy":
		randomAlpha([]byte{0xFE, 0xFF, 'z'}, 1+rnd.Intn(6))
	case "zeroheavy":
		randomAlpha([]byte{0x00, 0x01, 'a'}, 1+rnd.Intn(6))
	case "randbytes":
		al := make([]byte, 256)
		for i := range al {
			al[i] = byte(i)
		}
		randomAlpha(al, 1+rnd.Intn(12))
	case "names":
		alpha = []byte("abcdefghijklmnopqrstuvwxyz._0123456789")
		seps := []string{".", "_", ":", "/"}
		sep := seps[rnd.Intn(len(seps))]
		for tries := 0; len(acc.keys) < n && tries < n*20; tries++ {
			parts := []string{metricStems[rnd.Intn(len(metricStems))]}
			for d := rnd.Intn(3); d > 0; d-- {
				parts = append(parts, metricLeaves[rnd.Intn(len(metricLeaves))])
			}
			acc.add([]byte(strings.Join(parts, sep)))
		}
	case "tagvalues":
		alpha = []byte("abcdefghost-0123456789.")
		for tries := 0; len(acc.keys) < n && tries < n*20; tries++ {
			stem := tagValueStems[rnd.Intn(len(tagValueStems))]
			switch rnd.Intn(3) {
			case 0:
				acc.add([]byte(fmt.Sprintf("%s%d", stem, rnd.Intn(3*n+5))))
			case 1:
				acc.add([]byte(fmt.Sprintf("%s%03d", stem, rnd.Intn(3*n+5))))
			default:
				acc.add([]byte(fmt.Sprintf("%s%d.%d", stem, rnd.Intn(4), rnd.Intn(n+3))))
			}
		}
	case "numbered":
		// dense sibling labels without suffix: host-0 .. host-N, a0..a9, 1..N
		alpha = []byte("host-0123456789")
		stem := tagValueStems[rnd.Intn(len(tagValueStems))]
		start := rnd.Intn(20)
		for i := 0; i < n; i++ {
			acc.add([]byte(fmt.Sprintf("%s%d", stem, start+i)))
		}
	case "long":
		alpha = []byte("abcXYZ/")
		base := randFrom(rnd, []byte("abcdefghijklmnopqrstuvwxyz/"), 256+rnd.Intn(300))
		tail := randFrom(rnd, []byte("XYZ"), 1+rnd.Intn(300))
		for tries := 0; len(acc.keys) < n && tries < n*20; tries++ {
			cut := rnd.Intn(len(base) + 1)
			if rnd.Intn(3) == 0 {
				cut = len(base) - rnd.Intn(4)
			}
			k := append([]byte{}, base[:cut]...)
			switch rnd.Intn(4) {
			case 0: // shared prefix, different short tail
				k = append(k, randFrom(rnd, alpha, rnd.Intn(4))...)
			case 1: // shared prefix + shared long suffix
				k = append(k, byte('0'+rnd.Intn(10)))
				k = append(k, tail...)
			case 2: // different first byte, shared long suffix
				k = append([]byte{byte('A' + rnd.Intn(26))}, tail...)
			default:
				k = append(k, randFrom(rnd, alpha, 256+rnd.Intn(64))...)
			}
			acc.add(k)
		}
	case "chain":
		alpha = []byte{'a', 'b', 0x00, 0xFF}
		base := randFrom(rnd, alpha[:2+rnd.Intn(3)], 2+rnd.Intn(40))
		for i := 0; i <= len(base) && len(acc.keys) < n; i++ {
			if rnd.Intn(4) != 0 {
				acc.add(base[:i])
			}
		}
		for tries := 0; len(acc.keys) < n && tries < n*20; tries++ {
			cut := rnd.Intn(len(base) + 1)
			acc.add(append(append([]byte{}, base[:cut]...), randFrom(rnd, alpha, rnd.Intn(3))...))
		}
	case "fixed8":
		alpha = []byte{0x00, 0x01, 0x7F, 0x80, 0xFE, 0xFF}
		start := rnd.Uint64()
		if rnd.Intn(2) == 0 {
			start = uint64(rnd.Intn(1000))
		}
		for i := 0; len(acc.keys) < n; i++ {
			var b [8]byte
			switch rnd.Intn(3) {
			case 0:
				binary.BigEndian.PutUint64(b[:], start+uint64(i))
			case 1:
				binary.LittleEndian.PutUint64(b[:], start+uint64(i))
			default:
				binary.BigEndian.PutUint64(b[:], rnd.Uint64())
			}
			acc.add(b[:])
		}
	case "single":
		alpha = []byte{0x00, 'a', 0xFF}
		singles := [][]byte{{}, {0xFF}, {0x00}, {'a'}, []byte("ab"), {0xFF, 0xFF}, {'a', 0xFF}, {0xFF, 'a'}, {0x00, 0x00},
			[]byte("cpu.usage"), bytes.Repeat([]byte{'x'}, 300), bytes.Repeat([]byte{0xFF}, 70)}
		acc.add(singles[rnd.Intn(len(singles))])
		if rnd.Intn(3) == 0 {
			acc.add(singles[rnd.Intn(len(singles))])
		}
	case "mixed":
		alpha = []byte{0x00, 'a', 'b', 'h', 'o', 's', 't', '-', '1', 0xFF}
		for len(acc.keys) < n {
			sub := genKeySet(rnd, genKinds[rnd.Intn(len(genKinds)-1)], maxN)
			for _, k := range sub.Keys {
				if len(acc.keys) >= n {
					break
				}
				acc.add(k)
			}
		}
	default:
		panic("unknown kind " + kind)
	}
	// the empty key together with other keys
	if rnd.Intn(5) == 0 {
		acc.add(nil)
	}
	// make some keys prefixes / one-byte extensions of others
	if len(acc.keys) > 0 && rnd.Intn(3) == 0 {
		for j := rnd.Intn(4); j >= 0; j-- {
			k := acc.keys[rnd.Intn(len(acc.keys))]
			if len(k) > 0 && rnd.Intn(2) == 0 {
				acc.add(k[:rnd.Intn(len(k))])
			} else {
				acc.add(append(append([]byte{}, k...), alpha[rnd.Intn(len(alpha))]))
			}
		}
	}
	rnd.Shuffle(len(acc.keys), func(i, j int) { acc.keys[i], acc.keys[j] = acc.keys[j], acc.keys[i] })
	return keySet{Kind: kind, Alpha: alpha, Keys: acc.keys}
}

// genLargeKeySet builds a set with thousands of keys and dense shared prefixes.
func genLargeKeySet(rnd *rand.Rand, n int) keySet {
	acc := newAcc()
	alpha := []byte{0x00, 'a', 'b', 'c', 0xFF}
	mode := rnd.Intn(4)
	for len(acc.keys) < n {
		switch mode {
		case 0: // small alphabet, deep
			acc.add(randFrom(rnd, alpha, rnd.Intn(12)))
		case 1: // numbered hosts with a few stems
			acc.add([]byte(fmt.Sprintf("%s%d", tagValueStems[rnd.Intn(4)], rnd.Intn(n*2))))
		case 2: // metric names with numeric leaves + random binary
			if rnd.Intn(4) == 0 {
				var b [8]byte
				binary.BigEndian.PutUint64(b[:], uint64(rnd.Intn(n*4)))
				acc.add(b[:])
			} else {
				acc.add([]byte(fmt.Sprintf("%s.%s.%d", metricStems[rnd.Intn(len(metricStems))], metricLeaves[rnd.Intn(len(metricLeaves))], rnd.Intn(n/8+2))))
			}
		default: // mixture
			switch rnd.Intn(3) {
			case 0:
				acc.add(randFrom(rnd, alpha[:4], rnd.Intn(10)))
			case 1:
				acc.add([]byte(fmt.Sprintf("host-%d", rnd.Intn(n*2))))
			default:
				acc.add(randFrom(rnd, []byte("ab"), rnd.Intn(18)))
			}
		}
	}
	if rnd.Intn(2) == 0 {
		acc.add(nil)
	}
	rnd.Shuffle(len(acc.keys), func(i, j int) { acc.keys[i], acc.keys[j] = acc.keys[j], acc.keys[i] })
	return keySet{Kind: fmt.Sprintf("large-%d", mode), Alpha: alpha, Keys: acc.keys}
}

// genValues returns distinct values (start + i*oddStride mod 2^32), sometimes touching 0 and MaxUint32.
func genValues(rnd *rand.Rand, n int) []uint32 {
	start := rnd.Uint32()
	stride := rnd.Uint32() | 1
	switch rnd.Intn(4) {
	case 0:
		start, stride = 0, 1
	case 1:
		start, stride = ^uint32(0), ^uint32(0) // MaxUint32, MaxUint32-1, ...
	}
	vs := make([]uint32, n)
	for i := range vs {
		vs[i] = start + uint32(i)*stride
	}
	return vs
}

// ---- probes ----

// genProbes: present keys, their proper prefixes, one-byte extensions, neighbours (+-1 on the last
// byte), inner-byte changes, random keys of the same alphabet, the empty key. De-duplicated, capped.
func genProbes(rnd *rand.Rand, ks keySet, max int) [][]byte {
	acc := newAcc()
	acc.add(nil)
	keys := ks.Keys
	alpha := ks.Alpha
	if len(alpha) == 0 {
		alpha = []byte{0x00, 'a', 0xFF}
	}
	perKey := func(k []byte) {
		acc.add(k)
		// proper prefixes
		if len(k) <= 6 {
			for i := 0; i < len(k); i++ {
				acc.add(k[:i])
			}
		} else {
			acc.add(k[:len(k)-1])
			acc.add(k[:rnd.Intn(len(k))])
			acc.add(k[:1])
		}
		// one-byte extensions
		for _, b := range []byte{0x00, 0xFF, alpha[rnd.Intn(len(alpha))]} {
			acc.add(append(append([]byte{}, k...), b))
		}
		if len(k) > 0 {
			// neighbours
			for _, d := range []int{-1, 1} {
				c := append([]byte{}, k...)
				c[len(c)-1] = byte(int(c[len(c)-1]) + d)
				acc.add(c)
			}
			// inner byte changed
			c := append([]byte{}, k...)
			i := rnd.Intn(len(c))
			c[i] = alpha[rnd.Intn(len(alpha))]
			acc.add(c)
			// suffix of the key (shared suffix, different head)
			acc.add(k[rnd.Intn(len(k)):])
		}
	}
	if len(keys) <= 24 {
		for _, k := range keys {
			perKey(k)
		}
	} else {
		for i := 0; i < 24; i++ {
			perKey(keys[rnd.Intn(len(keys))])
		}
	}
	maxLen := 1
	for i := 0; i < len(keys) && i < 50; i++ {
		if len(keys[i]) > maxLen {
			maxLen = len(keys[i])
		}
	}
	if maxLen > 16 {
		maxLen = 16
	}
	for i := 0; i < 30; i++ {
		acc.add(randFrom(rnd, alpha, rnd.Intn(maxLen+2)))
	}
	acc.add([]byte{0xFF})
	acc.add([]byte{0x00})
	acc.add(bytes.Repeat([]byte{0xFF}, 9))
	ps := acc.keys
	if len(ps) > max {
		// keep the empty key and a deterministic sample of the rest
		rest := ps[1:]
		rnd.Shuffle(len(rest), func(i, j int) { rest[i], rest[j] = rest[j], rest[i] })
		ps = ps[:max]
	}
	return ps
}

// present keys added to the probe list for big sets (sample) so that every probe list has hits.
func sampleKeys(rnd *rand.Rand, keys [][]byte, n int) [][]byte {
	if len(keys) <= n {
		return keys
	}
	idx := rnd.Perm(len(keys))[:n]
	sort.Ints(idx)
	rs := make([][]byte, 0, n)
	for _, i := range idx {
		rs = append(rs, keys[i])
	}
	return rs
}

// directedSets: small hand-made key sets around the empty key, 0xFF and suffix-free siblings.
func directedSets() []keySet {
	mk := func(keys ...string) keySet {
		ks := keySet{Kind: "directed", Alpha: []byte{0x00, 'a', 0xFF}}
		for _, k := range keys {
			ks.Keys = append(ks.Keys, []byte(k))
		}
		return ks
	}
	return []keySet{
		mk(""), mk("\xff"), mk("", "\xff"), mk("", "a", "\xff", "\xff\xff"), mk("", "a"), mk("a", "a\xff"), mk("a\xff", "a\xff\xff", "b"),
		mk("\x00", "\x00\x00", ""), mk("ab", "ac", "ad", "b"), mk("host-0", "host-1", "host-2", "host-3", "host-10", "host-11"),
		mk("\xff\xff", "\xff\xfe", "\xfe\xff", "\xfe"), mk("a", "ab", "abc", "abcd", "abcde", ""),
	}
}
