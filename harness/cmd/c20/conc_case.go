package main

import (
	"bytes"
	"encoding/binary"
	"fmt"
	"math"
	"math/rand"
	"os"
	"path/filepath"
	"regexp"
	"sort"
	"sync"
	"sync/atomic"
	"time"

	"github.com/lindb/roaring"

	"github.com/lindb/lindb/index"
	"github.com/lindb/lindb/index/model"
	v1 "github.com/lindb/lindb/index/v1"
	"github.com/lindb/lindb/kv"
	"github.com/lindb/lindb/sql/stmt"
)

// Layer (r): concurrent readers of one loaded bucket.
//
// A dictionary is immutable once it is built, and lindb hands the same loaded *model.TrieBucket to every
// goroutine that resolves a name (index kv store: bucketCache). So N goroutines that only read one loaded
// bucket - whatever they interleave like - must each get exactly the answers of the sorted map, and the
// bucket must still be the same sorted map when they are done (single-threaded re-check, merge of it).
//
// One case = one key set spread over several tries of ONE bucket (several flushes before a compaction and/or
// more keys than the block size), loaded once
//
//	bucket : TrieBucketBuilder.Write per flush -> TrieBucket.Unmarshal per "file"
//	reader : IndexKVFlusher -> kv family (no compaction) -> IndexKVReader.GetBucket, one bucket object for all readers
//	store  : index.IndexKVStore, keys created and flushed in rounds, looked up through the store (bucket cache)
//
// then 8-16 goroutines (released together) run deterministic scripts of exact lookups of present keys (which
// live in different tries), absent proper prefixes / one-byte extensions / neighbours, and prefix enumeration
// (suggest), like, regexp, value listing and value->key collection; every answer is compared with the map.

type concTarget interface {
	get(k []byte) (uint32, bool, error)
	suggest(prefix []byte, limit int) ([]string, error)
	like(lp likePattern) ([]uint32, error)
	regex(rp *regexp.Regexp) ([]uint32, error)
	values() ([]uint32, error)
	collect(bm *roaring.Bitmap, out map[uint32]string) error
}

type bucketTarget struct{ tb *model.TrieBucket }

func (t *bucketTarget) get(k []byte) (uint32, bool, error) {
	v, ok := t.tb.GetValue(k)
	return v, ok, nil
}
func (t *bucketTarget) suggest(prefix []byte, limit int) ([]string, error) {
	return t.tb.Suggest(string(prefix), limit), nil
}
func (t *bucketTarget) like(lp likePattern) ([]uint32, error) {
	switch lp.shape {
	case "prefix":
		return t.tb.FindValuesByLike(lp.sub, lp.sub, bytes.HasPrefix, nil), nil
	case "suffix":
		return t.tb.FindValuesByLike(nil, lp.sub, bytes.HasSuffix, nil), nil
	default:
		return t.tb.FindValuesByLike(nil, lp.sub, bytes.Contains, nil), nil
	}
}
func (t *bucketTarget) regex(rp *regexp.Regexp) ([]uint32, error) {
	return t.tb.FindValuesByRegexp(rp, nil), nil
}
func (t *bucketTarget) values() ([]uint32, error) {
	return append([]uint32{}, t.tb.GetValues()...), nil
}
func (t *bucketTarget) collect(bm *roaring.Bitmap, out map[uint32]string) error {
	t.tb.CollectKVs(bm, out)
	return nil
}

type storeTarget struct {
	s      index.IndexKVStore
	bucket uint32
}

func (t *storeTarget) get(k []byte) (uint32, bool, error) { return t.s.GetValue(t.bucket, k) }
func (t *storeTarget) suggest(prefix []byte, limit int) ([]string, error) {
	return t.s.Suggest(t.bucket, string(prefix), limit)
}
func (t *storeTarget) like(lp likePattern) ([]uint32, error) {
	return t.s.FindValuesByExpr(t.bucket, &stmt.LikeExpr{Key: "k", Value: lp.text()})
}
func (t *storeTarget) regex(rp *regexp.Regexp) ([]uint32, error) {
	return t.s.FindValuesByExpr(t.bucket, &stmt.RegexExpr{Key: "k", Regexp: rp.String()})
}
func (t *storeTarget) values() ([]uint32, error) {
	vs, err := t.s.GetValues(t.bucket)
	return append([]uint32{}, vs...), err
}
func (t *storeTarget) collect(bm *roaring.Bitmap, out map[uint32]string) error {
	return t.s.CollectKVs(t.bucket, bm, out)
}

// getOrCreate: what lindb's write path does with a name - for a stored key it must answer the stored id.
func (t *storeTarget) getOrCreate(k []byte, fresh uint32) (uint32, bool, error) {
	return t.s.GetOrCreateValue(t.bucket, k, func() (uint32, error) { return fresh, nil })
}

const (
	lkPresent = iota
	lkProperPrefix
	lkExtension
	lkOther
)

var lkNames = []string{"present", "absent_proper_prefix", "absent_one_byte_extension", "absent_neighbour_or_random"}

type concLookup struct {
	k    []byte
	kind int
}

type concEnum struct {
	kind   string // suggest | like | regexp | values | collect
	prefix []byte
	limit  int
	lp     likePattern
	rp     *regexp.Regexp
	vals   []uint32 // collect: stored values asked for
	absent []uint32 // collect: values never stored
}

type concDev struct {
	class string
	msg   string
	op    string
	probe []byte
	extra map[string]interface{}
}

type paddedCounter struct {
	n atomic.Int64
	_ [56]byte
}

type readerResult struct {
	lookups          [4]int
	enums            map[string]int
	getOrCreates     int
	passes           int
	overlappedPasses int
	opsInOverlapped  int
	devCount         map[string]int
	devs             []concDev
}

func (rr *readerResult) dev(class, msg, op string, probe []byte, extra map[string]interface{}) {
	rr.devCount[class]++
	if rr.devCount[class] <= 2 {
		rr.devs = append(rr.devs, concDev{class, msg, op, append([]byte{}, probe...), extra})
	}
}

// genConcLookups: present keys (all, or a sample of 2000), and absent probes derived from present keys.
func genConcLookups(rnd *rand.Rand, ks keySet, or *oracle) []concLookup {
	var ls []concLookup
	present := ks.Keys
	if len(present) > 2000 {
		present = sampleKeys(rnd, present, 2000)
	}
	for _, k := range present {
		ls = append(ls, concLookup{k, lkPresent})
	}
	seen := map[string]bool{}
	addAbsent := func(k []byte, kind int) {
		if _, ok := or.get(k); ok || seen[string(k)] {
			return
		}
		seen[string(k)] = true
		ls = append(ls, concLookup{append([]byte{}, k...), kind})
	}
	alpha := ks.Alpha
	if len(alpha) == 0 {
		alpha = []byte{0x00, 'a', 0xFF}
	}
	for _, k := range sampleKeys(rnd, ks.Keys, 150) {
		if len(k) > 0 {
			addAbsent(k[:len(k)-1], lkProperPrefix)
			addAbsent(k[:rnd.Intn(len(k))], lkProperPrefix)
		}
		for _, b := range []byte{0x00, 0xFF, alpha[rnd.Intn(len(alpha))]} {
			addAbsent(append(append([]byte{}, k...), b), lkExtension)
		}
		if len(k) > 0 {
			c := append([]byte{}, k...)
			c[len(c)-1]++
			addAbsent(c, lkOther)
			c = append([]byte{}, k...)
			c[rnd.Intn(len(c))] = alpha[rnd.Intn(len(alpha))]
			addAbsent(c, lkOther)
		}
	}
	for i := 0; i < 20; i++ {
		addAbsent(randFrom(rnd, alpha, 1+rnd.Intn(10)), lkOther)
	}
	return ls
}

func genConcEnums(rnd *rand.Rand, ks keySet, or *oracle, n int) []concEnum {
	var es []concEnum
	likes := genLikes(rnd, ks, n)
	regs := genRegexps(rnd, ks, n)
	nk := or.n()
	for i := 0; i < n; i++ {
		switch i % 5 {
		case 0: // prefix enumeration
			k := ks.Keys[rnd.Intn(len(ks.Keys))]
			p := k
			if len(k) > 0 {
				p = k[:rnd.Intn(len(k)+1)]
			}
			if len(or.withPrefix(p)) > 3000 && len(k) > 0 {
				p = k[:1+rnd.Intn(len(k))]
			}
			limit := []int{1, 2, 3, 10, 100, nk + 5}[rnd.Intn(6)]
			es = append(es, concEnum{kind: "suggest", prefix: append([]byte{}, p...), limit: limit})
		case 1:
			if len(likes) > 0 {
				es = append(es, concEnum{kind: "like", lp: likes[rnd.Intn(len(likes))]})
			}
		case 2:
			if len(regs) > 0 {
				es = append(es, concEnum{kind: "regexp", rp: regs[rnd.Intn(len(regs))]})
			}
		case 3:
			es = append(es, concEnum{kind: "values"})
		default:
			e := concEnum{kind: "collect"}
			seen := map[uint32]bool{}
			for j := 0; j < 24; j++ {
				p := or.sorted[rnd.Intn(nk)]
				if !seen[p.v] {
					seen[p.v] = true
					e.vals = append(e.vals, p.v)
				}
			}
			for j := 0; j < 2; j++ {
				v := rnd.Uint32()
				if _, ok := or.byVal[v]; !ok && !seen[v] {
					seen[v] = true
					e.absent = append(e.absent, v)
				}
			}
			es = append(es, e)
		}
	}
	return es
}

// runEnum runs one enumeration operation and returns "" or the deviation from the sorted map.
func runEnum(tgt concTarget, or *oracle, e *concEnum) (class, msg string, probe []byte, extra map[string]interface{}) {
	switch e.kind {
	case "suggest":
		got, err := tgt.suggest(e.prefix, e.limit)
		if err != nil {
			return "error-suggest", fmt.Sprintf("Suggest(%q,%d): %v", e.prefix, e.limit, err), e.prefix, nil
		}
		matches := or.withPrefix(e.prefix)
		var exp []string
		for i := 0; i < len(matches) && i < e.limit; i++ {
			exp = append(exp, string(matches[i].k))
		}
		same := len(got) == len(exp)
		for i := 0; same && i < len(got); i++ {
			same = got[i] == exp[i]
		}
		if !same {
			return "suggest-mismatch", fmt.Sprintf("Suggest(%q,%d) returns %d keys %q, the sorted map gives %d %q", e.prefix, e.limit, len(got), clip(got, 4), len(exp), clip(exp, 4)),
				e.prefix, map[string]interface{}{"limit": e.limit, "observed": hexStrs(got, 24), "expected": hexStrs(exp, 24)}
		}
	case "like":
		got, err := tgt.like(e.lp)
		if err != nil {
			return "error-like", fmt.Sprintf("like %q: %v", e.lp.text(), err), e.lp.sub, nil
		}
		got = append([]uint32{}, got...)
		sortU32(got)
		exp := or.filter(e.lp.match)
		if !equalU32(got, exp) {
			return "like-mismatch", fmt.Sprintf("like %q selects %d values, the predicate over the pairs selects %d", e.lp.text(), len(got), len(exp)), e.lp.sub, map[string]interface{}{"shape": e.lp.shape}
		}
	case "regexp":
		got, err := tgt.regex(e.rp)
		if err != nil {
			return "error-regexp", fmt.Sprintf("regexp %q: %v", e.rp.String(), err), nil, nil
		}
		got = append([]uint32{}, got...)
		sortU32(got)
		exp := or.filter(e.rp.Match)
		if !equalU32(got, exp) {
			return "regexp-mismatch", fmt.Sprintf("regexp %q selects %d values, Regexp.Match over the pairs selects %d", e.rp.String(), len(got), len(exp)), nil, map[string]interface{}{"regexp": e.rp.String()}
		}
	case "values":
		got, err := tgt.values()
		if err != nil {
			return "error-getvalues", fmt.Sprintf("GetValues: %v", err), nil, nil
		}
		sortU32(got)
		if !equalU32(got, or.values()) {
			return "getvalues-mismatch", fmt.Sprintf("GetValues returns %d values, %s; stored %d distinct values", len(got), dupNote(got), or.n()), nil, nil
		}
	case "collect":
		bm := roaring.New()
		bm.AddMany(e.vals)
		bm.AddMany(e.absent)
		got := map[uint32]string{}
		if err := tgt.collect(bm, got); err != nil {
			return "error-collectkvs", fmt.Sprintf("CollectKVs: %v", err), nil, nil
		}
		for _, v := range e.vals {
			if g, ok := got[v]; !ok {
				return "collectkvs-mismatch", fmt.Sprintf("CollectKVs: stored value %d (key %x) not collected", v, or.byVal[v]), []byte(or.byVal[v]), nil
			} else if g != or.byVal[v] {
				return "collectkvs-mismatch", fmt.Sprintf("CollectKVs: value %d collected with key %x, stored key %x", v, g, or.byVal[v]), []byte(or.byVal[v]), nil
			}
		}
		if len(got) != len(e.vals) {
			return "collectkvs-mismatch", fmt.Sprintf("CollectKVs: %d pairs collected for %d stored values", len(got), len(e.vals)), nil, nil
		}
	}
	return "", "", nil, nil
}

func dupNote(sorted []uint32) string {
	d := 0
	for i := 1; i < len(sorted); i++ {
		if sorted[i] == sorted[i-1] {
			d++
		}
	}
	return fmt.Sprintf("%d of them twice", d)
}

// countTries walks the size-prefixed dictionaries of one serialised bucket value (the format
// TrieBucket.Unmarshal reads).
func countTries(block []byte) int {
	n := 0
	for len(block) >= 4 {
		size := int(binary.LittleEndian.Uint32(block[:4]))
		if 4+size > len(block) {
			break
		}
		block = block[4+size:]
		n++
	}
	return n
}

// concChunks splits the pairs into `rounds` flushes; every chunk gets at least two pairs.
func concChunks(rnd *rand.Rand, ps []pair, rounds int) [][]pair {
	var chunks [][]pair
	if rnd.Intn(3) == 0 {
		// contiguous key ranges per flush (names created in order)
		sorted := append([]pair{}, ps...)
		sort.Slice(sorted, func(i, j int) bool { return bytes.Compare(sorted[i].k, sorted[j].k) < 0 })
		per := (len(sorted) + rounds - 1) / rounds
		for i := 0; i < len(sorted); i += per {
			e := i + per
			if e > len(sorted) {
				e = len(sorted)
			}
			chunks = append(chunks, sorted[i:e])
		}
	} else {
		chunks = splitChunks(rnd, ps, rounds)
	}
	var out [][]pair
	for _, ch := range chunks {
		if len(ch) < 2 && len(out) > 0 {
			out[len(out)-1] = append(out[len(out)-1], ch...)
			continue
		}
		if len(ch) > 0 {
			out = append(out, ch)
		}
	}
	if len(out) > 1 && len(out[0]) < 2 {
		out[1] = append(out[1], out[0]...)
		out = out[1:]
	}
	return out
}

func concKeySet(rnd *rand.Rand, quick bool) keySet {
	if rnd.Intn(4) == 0 {
		for t := 0; t < 20; t++ {
			if ks := genKeySet(rnd, "", 600); len(ks.Keys) >= 40 {
				return ks
			}
		}
	}
	max := 2700
	if !quick {
		max = 6000
	}
	return genLargeKeySet(rnd, 300+rnd.Intn(max))
}

type concCase struct {
	id     string
	layer  string
	ks     keySet
	or     *oracle
	chunks [][]pair
	bs     int // flush block size
}

// runConcCase builds one shared bucket for the layer and runs the concurrent readers on it.
func runConcCase(r *rec, rnd *rand.Rand, id, layer, dir string, quick, underRace bool) {
	ks := concKeySet(rnd, quick)
	ps := mkPairs(ks.Keys, genValues(rnd, len(ks.Keys)))
	or := newOracle(ps)
	n := or.n()
	rounds := 1 + rnd.Intn(5)
	if layer == "store" {
		rounds = 2 + rnd.Intn(5) // the store writes one dictionary per flush (block size MaxInt16)
	}
	chunks := concChunks(rnd, ps, rounds)
	// block size: so that the bucket ends up with about 2..16 tries
	bs := math.MaxInt16
	if layer != "store" {
		wantTries := 2 + rnd.Intn(15)
		perChunk := (wantTries + len(chunks) - 1) / len(chunks)
		bs = (n/len(chunks))/perChunk + 1
		if bs < 2 {
			bs = 2
		}
	}
	cc := &concCase{id: id, layer: layer, ks: ks, or: or, chunks: chunks, bs: bs}
	desc := map[string]interface{}{"generator": ks.Kind, "keys": n, "flushes": len(chunks), "flush_block_size": bs, "layer": layer}
	r.startCase(id, "concurrent-readers/"+layer, desc)
	countFeatures(r, or.features())

	switch layer {
	case "bucket":
		var files [][]byte
		tries := 0
		for _, ch := range chunks {
			ch := ch
			f, ok := writeDict(r, ch, bs, func(op string, probe []byte, extra map[string]interface{}) map[string]interface{} {
				return map[string]interface{}{"case": id, "operation": op, "dictionary_keys_hex": hxs(keysOf(ch), 64), "block_size": bs}
			})
			if !ok {
				return
			}
			files = append(files, f)
			tries += countTries(f)
		}
		tb := model.NewTrieBucket()
		if !loadBucket(r, tb, files, func(op string, probe []byte, extra map[string]interface{}) map[string]interface{} {
			return map[string]interface{}{"case": id, "operation": op, "desc": desc}
		}) {
			return
		}
		concReaders(r, rnd, cc, &bucketTarget{tb}, tb, tries, underRace)
		tb.Release()
	case "reader":
		store, fam, err := openFamily(dir, id)
		if err != nil {
			r.viol("C20/kv/harness-open-store", "cannot create kv store/family: "+err.Error(), nil)
			return
		}
		defer func() {
			_ = kv.GetStoreManager().CloseStore(store.Name())
			_ = os.RemoveAll(filepath.Join(dir, id))
		}()
		bid := genBucketIDs(rnd, 1)[0]
		for round, ch := range chunks {
			var ferr error
			pn, what := guard(func() {
				kvFlusher := fam.NewFlusher()
				defer kvFlusher.Release()
				fl, err := v1.NewIndexKVFlusher(bs, kvFlusher)
				if err != nil {
					ferr = err
					return
				}
				write := func(bucket uint32, keys [][]byte, ids []uint32) {
					if ferr != nil {
						return
					}
					fl.PrepareBucket(bucket)
					if ferr = fl.WriteKVs(keys, ids); ferr == nil {
						ferr = fl.CommitBucket()
					}
				}
				keys := make([][]byte, len(ch))
				ids := make([]uint32, len(ch))
				for i, p := range ch {
					keys[i], ids[i] = append([]byte{}, p.k...), p.v
				}
				// neighbour buckets below and above ours (written in ascending bucket order)
				nb := [][]byte{[]byte(fmt.Sprintf("neighbour-%d-a", round)), []byte(fmt.Sprintf("neighbour-%d-b", round))}
				if bid > 0 {
					write(bid-1, nb, []uint32{0xdead0000 + uint32(round)*2, 0xdead0001 + uint32(round)*2})
				}
				write(bid, keys, ids)
				if bid < math.MaxUint32 {
					write(bid+1, [][]byte{nb[0], nb[1]}, []uint32{0xbeef0000 + uint32(round)*2, 0xbeef0001 + uint32(round)*2})
				}
				if ferr == nil {
					ferr = fl.Close()
				}
			})
			if pn || ferr != nil {
				r.viol("C20/concurrent/reader/flush-failed", fmt.Sprintf("flush round %d (block size %d, %d pairs): panic=%v %s err=%v", round, bs, len(ch), pn, what, ferr), map[string]interface{}{"case": id, "desc": desc})
				return
			}
		}
		snap := fam.GetSnapshot()
		defer snap.Close()
		tries := 0
		_ = snap.Load(bid, func(value []byte) error { tries += countTries(value); return nil })
		var tb *model.TrieBucket
		var err2 error
		if pn, what := guard(func() { tb, err2 = v1.NewIndexKVReader(snap).GetBucket(bid) }); pn || err2 != nil || tb == nil {
			r.viol("C20/kv/reader-error", fmt.Sprintf("GetBucket(%d) after %d flushes: panic=%v %s err=%v bucket=%v", bid, len(chunks), pn, what, err2, tb != nil), map[string]interface{}{"case": id, "desc": desc})
			return
		}
		concReaders(r, rnd, cc, &bucketTarget{tb}, tb, tries, underRace)
		tb.Release()
	case "store":
		store, fam, err := openFamily(dir, id)
		if err != nil {
			r.viol("C20/kv/harness-open-store", "cannot create kv store/family: "+err.Error(), nil)
			return
		}
		defer func() {
			_ = kv.GetStoreManager().CloseStore(store.Name())
			_ = os.RemoveAll(filepath.Join(dir, id))
		}()
		bid := genBucketIDs(rnd, 1)[0]
		s := index.NewIndexKVStore(fam, 16, time.Hour)
		for round, ch := range chunks {
			var ferr error
			pn, what := guard(func() {
				for _, p := range ch {
					want := p.v
					got, isNew, err := s.GetOrCreateValue(bid, p.k, func() (uint32, error) { return want, nil })
					if err != nil || !isNew || got != want {
						ferr = fmt.Errorf("GetOrCreateValue(%x) of a new key: id=%d isNew=%v err=%v, expected new id %d", p.k, got, isNew, err, want)
						return
					}
				}
				_, _, _ = s.GetOrCreateValue(bid+1, []byte(fmt.Sprintf("neighbour-%d", round)), func() (uint32, error) { return 0xdead0000 + uint32(round), nil })
				s.PrepareFlush()
				ferr = s.Flush()
			})
			if pn || ferr != nil {
				// single-threaded creation/flush is judged by the store layer; this case cannot run
				r.count("conc_cases_skipped_setup_failed", 1)
				r.viol("C20/concurrent/store/setup-failed", fmt.Sprintf("round %d: panic=%v %s err=%v", round, pn, what, ferr), map[string]interface{}{"case": id, "desc": desc})
				return
			}
		}
		snap := fam.GetSnapshot()
		tries := 0
		_ = snap.Load(bid, func(value []byte) error { tries += countTries(value); return nil })
		snap.Close()
		concReaders(r, rnd, cc, &storeTarget{s, bid}, nil, tries, underRace)
	}
}

// concReaders: sanity pass with one reader, the concurrent phase, the single-threaded re-check and the merge.
func concReaders(r *rec, rnd *rand.Rand, cc *concCase, tgt concTarget, tb *model.TrieBucket, tries int, underRace bool) {
	or, ks, layer := cc.or, cc.ks, cc.layer
	n := or.n()
	lookups := genConcLookups(rnd, ks, or)
	goroutines := 8 + rnd.Intn(9)
	passes := 2 + rnd.Intn(3)
	if underRace {
		passes = 2
	}
	wit := func(op string, probe []byte, extra map[string]interface{}) map[string]interface{} {
		w := map[string]interface{}{"case": cc.id, "layer": layer, "generator": ks.Kind, "operation": op, "keys": or.witnessKeys(probe),
			"tries_in_bucket": tries, "flushes": len(cc.chunks), "flush_block_size": cc.bs, "reader_goroutines": goroutines, "passes": passes}
		if probe != nil {
			w["probe_hex"] = hx(probe)
		}
		for k, v := range extra {
			w[k] = v
		}
		return w
	}
	cls := func(what string) string { return "C20/concurrent/" + layer + "/" + what }

	// ---- one reader first: whatever is already wrong single-threaded is judged by the other layers
	var sane = true
	if pn, _ := guard(func() {
		for _, l := range lookups {
			v, ok, err := tgt.get(l.k)
			ev, eok := or.get(l.k)
			if err != nil || ok != eok || (ok && v != ev) {
				sane = false
				return
			}
		}
		vs, err := tgt.values()
		sortU32(vs)
		if err != nil || !equalU32(vs, or.values()) {
			sane = false
		}
	}); pn {
		sane = false
	}
	if !sane {
		r.count("conc_cases_wrong_before_concurrency", 1)
		return
	}
	if tries < 2 {
		r.count("conc_cases_single_trie_bucket", 1)
	}

	// ---- scripts (deterministic per goroutine), built before the readers start
	type script struct {
		seed  int64
		enums []concEnum
	}
	scripts := make([]script, goroutines)
	enumEvery := 197
	perPassEnums := len(lookups)/enumEvery + 1
	for g := range scripts {
		scripts[g] = script{seed: rnd.Int63(), enums: genConcEnums(rnd, ks, or, perPassEnums*passes)}
	}
	st, isStore := tgt.(*storeTarget)
	prog := make([]paddedCounter, goroutines)
	others := func(g int) int64 {
		var s int64
		for j := range prog {
			if j != g {
				s += prog[j].n.Load()
			}
		}
		return s
	}
	results := make([]*readerResult, goroutines)
	start := make(chan struct{})
	var ready, wg sync.WaitGroup
	for g := 0; g < goroutines; g++ {
		g := g
		ready.Add(1)
		wg.Add(1)
		go func() {
			defer wg.Done()
			rr := &readerResult{enums: map[string]int{}, devCount: map[string]int{}}
			results[g] = rr
			lr := rand.New(rand.NewSource(scripts[g].seed))
			order := lr.Perm(len(lookups))
			enums := scripts[g].enums
			ei := 0
			ready.Done()
			<-start
			for pass := 0; pass < passes; pass++ {
				lr.Shuffle(len(order), func(i, j int) { order[i], order[j] = order[j], order[i] })
				before := others(g)
				ops := 0
				for i, li := range order {
					l := lookups[li]
					ev, eok := or.get(l.k)
					var v uint32
					var ok, isNew bool
					var err error
					opName := "GetValue"
					useCreate := isStore && l.kind == lkPresent && (i+g)%2 == 0
					pn, what := guard(func() {
						if useCreate {
							opName = "GetOrCreateValue"
							v, isNew, err = st.getOrCreate(l.k, 0xF0000000+uint32(g)<<20+uint32(i))
							ok = true
						} else {
							v, ok, err = tgt.get(l.k)
						}
					})
					switch {
					case pn:
						rr.dev(cls("panic-getvalue"), fmt.Sprintf("%s(%x) panicked: %s", opName, l.k, what), opName, l.k, nil)
					case err != nil:
						rr.dev(cls("error-getvalue"), fmt.Sprintf("%s(%x): %v", opName, l.k, err), opName, l.k, nil)
					case useCreate && isNew:
						rr.dev(cls("getorcreate-stored-key-gets-new-id"), fmt.Sprintf("GetOrCreateValue(%x) created the new id %d for a key stored with id %d", l.k, v, ev), opName, l.k, nil)
					case eok && !ok:
						rr.dev(cls("getvalue-present-key-missing"), fmt.Sprintf("%s(%x) reports absence of a stored key (value %d) while other readers use the bucket", opName, l.k, ev), opName, l.k, nil)
					case eok && v != ev:
						rr.dev(cls("getvalue-wrong-value"), fmt.Sprintf("%s(%x)=%d (the value stored for key %x), stored %d", opName, l.k, v, or.byVal[v], ev), opName, l.k, nil)
					case !eok && ok:
						rr.dev(cls("getvalue-absent-key-found"), fmt.Sprintf("%s(%x) found value %d for a key never stored (%s)", opName, l.k, v, lkNames[l.kind]), opName, l.k, nil)
					}
					rr.lookups[l.kind]++
					if useCreate {
						rr.getOrCreates++
					}
					ops++
					prog[g].n.Add(1)
					if i%enumEvery == enumEvery-1 && ei < len(enums) {
						e := &enums[ei]
						ei++
						var class, msg string
						var probe []byte
						var extra map[string]interface{}
						if pn, what := guard(func() { class, msg, probe, extra = runEnum(tgt, or, e) }); pn {
							class, msg = "panic-"+e.kind, fmt.Sprintf("%s panicked: %s", e.kind, what)
						}
						if class != "" {
							rr.dev(cls(class), msg+" while other readers use the bucket", e.kind, probe, extra)
						}
						rr.enums[e.kind]++
						ops++
						prog[g].n.Add(1)
					}
				}
				rr.passes++
				if others(g) > before {
					rr.overlappedPasses++
					rr.opsInOverlapped += ops
				}
			}
		}()
	}
	ready.Wait()
	close(start)
	wg.Wait()

	// ---- collect
	during := 0
	for _, rr := range results {
		for k, c := range rr.lookups {
			r.count("conc_lookups_"+lkNames[k], c)
			r.eval(c)
		}
		for k, c := range rr.enums {
			r.count("conc_enumerations_"+k, c)
			r.eval(c)
		}
		r.count("conc_getorcreate_of_stored_keys", rr.getOrCreates)
		r.count("conc_reader_passes", rr.passes)
		r.count("conc_reader_passes_overlapping_other_readers", rr.overlappedPasses)
		r.count("conc_operations_in_overlapping_passes", rr.opsInOverlapped)
		for _, d := range rr.devs {
			r.viol(d.class, fmt.Sprintf("[%s, %d tries, %d readers] %s", cc.id, tries, goroutines, d.msg), wit(d.op, d.probe, d.extra))
		}
		for class, c := range rr.devCount {
			during += c
			written := c
			if written > 2 {
				written = 2
			}
			r.violCount[class] += c - written // occurrences beyond the written witnesses
		}
	}
	r.count("conc_cases_"+layer, 1)
	r.count("conc_reader_goroutines", goroutines)
	r.count("conc_tries_in_shared_buckets", tries)
	if tries >= 2 {
		r.count("conc_shared_buckets_with_2plus_tries_"+layer, 1)
	}
	if tries >= 4 {
		r.count("conc_shared_buckets_with_4plus_tries", 1)
	}
	r.nt("conc:" + layer + ":" + or.setHash())
	r.sample(map[string]interface{}{"layer": "concurrent-readers/" + layer, "generator": ks.Kind, "keys": n, "tries_in_bucket": tries,
		"flushes": len(cc.chunks), "flush_block_size": cc.bs, "reader_goroutines": goroutines, "passes": passes, "lookups_per_pass": len(lookups)})

	// ---- the readers are gone: the bucket must still be the sorted map (single-threaded)
	after := 0
	if pn, what := guard(func() {
		missing, wrong := 0, 0
		var first, firstWrong []byte
		for _, e := range or.sorted {
			v, ok, err := tgt.get(e.k)
			if err != nil || !ok {
				if missing == 0 {
					first = e.k
				}
				missing++
			} else if v != e.v {
				if wrong == 0 {
					firstWrong = e.k
				}
				wrong++
			}
			r.eval(1)
		}
		if missing > 0 {
			after++
			r.viol(cls("after-readers-present-keys-missing"), fmt.Sprintf("[%s] after %d concurrent readers finished, a single reader finds %d of %d stored keys absent, first %x: the bucket (%d tries) no longer holds all its dictionaries", cc.id, goroutines, missing, n, first, tries),
				wit("GetValue", first, map[string]interface{}{"missing": missing, "wrong_value": wrong, "deviations_during_concurrent_phase": during}))
		}
		if wrong > 0 {
			after++
			r.viol(cls("after-readers-present-keys-wrong-value"), fmt.Sprintf("[%s] after %d concurrent readers finished, a single reader gets another value than the stored one for %d of %d stored keys, first %x", cc.id, goroutines, wrong, n, firstWrong),
				wit("GetValue", firstWrong, map[string]interface{}{"missing": missing, "wrong_value": wrong, "deviations_during_concurrent_phase": during}))
		}
		vs, err := tgt.values()
		sortU32(vs)
		r.eval(1)
		if err != nil || !equalU32(vs, or.values()) {
			after++
			r.viol(cls("after-readers-values-differ"), fmt.Sprintf("[%s] after %d concurrent readers finished, GetValues returns %d values, %s (err %v); stored %d distinct values", cc.id, goroutines, len(vs), dupNote(vs), err, n),
				wit("GetValues", nil, nil))
		}
		all, err := tgt.regex(regexp.MustCompile(`^`))
		all = append([]uint32{}, all...)
		sortU32(all)
		r.eval(1)
		if err != nil || !equalU32(all, or.values()) {
			after++
			r.viol(cls("after-readers-enumeration-differs"), fmt.Sprintf("[%s] after %d concurrent readers finished, the enumeration of all pairs (regexp ^) yields %d values, %s (err %v); stored %d", cc.id, goroutines, len(all), dupNote(all), err, n),
				wit("FindValuesByRegexp", nil, nil))
		}
		keys, err := tgt.suggest(nil, n+5)
		same := err == nil && len(keys) == n
		for i := 0; same && i < n; i++ {
			same = keys[i] == string(or.sorted[i].k)
		}
		r.eval(1)
		if !same {
			after++
			r.viol(cls("after-readers-ordered-enumeration-differs"), fmt.Sprintf("[%s] after %d concurrent readers finished, Suggest(\"\",%d) returns %d keys (err %v), the sorted map holds %d", cc.id, goroutines, n+5, len(keys), err, n),
				wit("Suggest", nil, nil))
		}
	}); pn {
		after++
		r.viol(cls("after-readers-panic"), fmt.Sprintf("[%s] single-threaded re-check after the concurrent readers panicked: %s", cc.id, what), wit("re-check", nil, nil))
	}
	r.count("conc_single_threaded_rechecks_after_readers", 1)

	// ---- and merging it (what a compaction does with the dictionaries of a bucket) yields the union
	if tb != nil {
		var out bytes.Buffer
		var err error
		if pn, what := guard(func() { err = tb.Write(&out) }); pn || err != nil {
			r.viol(cls("merge-after-readers-failed"), fmt.Sprintf("[%s] TrieBucket.Write of the bucket the readers used: panic=%v %s err=%v", cc.id, pn, what, err), wit("TrieBucket.Write", nil, map[string]interface{}{"recheck_deviations": after}))
			return
		}
		merged := model.NewTrieBucket()
		if pn, what := guard(func() { err = merged.Unmarshal(append([]byte{}, out.Bytes()...)) }); pn || err != nil {
			r.viol(cls("merge-after-readers-failed"), fmt.Sprintf("[%s] Unmarshal of the merged bucket: panic=%v %s err=%v", cc.id, pn, what, err), wit("TrieBucket.Unmarshal", nil, nil))
			return
		}
		if dev := lightBucket(merged, or, nil); dev != "" {
			r.viol(cls("merge-after-readers-differs-from-union"), fmt.Sprintf("[%s] the merge of the bucket (%d tries) that %d concurrent readers used is not the union of its pairs: %s", cc.id, tries, goroutines, dev),
				wit("TrieBucket.Write", nil, map[string]interface{}{"deviation": dev, "recheck_deviations": after}))
		}
		r.eval(1)
		merged.Release()
		r.count("conc_merges_after_readers", 1)
	}
}
