package main

import (
	"bytes"
	"fmt"
	"math/rand"
	"regexp"
	"sort"
	"unicode/utf8"

	"github.com/lindb/roaring"

	"github.com/lindb/lindb/index/model"
)

type witFn func(op string, probe []byte, extra map[string]interface{}) map[string]interface{}

// likePattern is one like expression in the three shapes lindb understands plus the exact match.
type likePattern struct {
	shape string // prefix | suffix | contains
	sub   []byte
}

func (l likePattern) text() string {
	switch l.shape {
	case "prefix":
		return string(l.sub) + "*"
	case "suffix":
		return "*" + string(l.sub)
	default:
		return "*" + string(l.sub) + "*"
	}
}

func (l likePattern) match(k []byte) bool {
	switch l.shape {
	case "prefix":
		return bytes.HasPrefix(k, l.sub)
	case "suffix":
		return bytes.HasSuffix(k, l.sub)
	default:
		return bytes.Contains(k, l.sub)
	}
}

func subOf(rnd *rand.Rand, k []byte, shape string) []byte {
	if len(k) == 0 {
		return nil
	}
	switch shape {
	case "prefix":
		return k[:1+rnd.Intn(len(k))]
	case "suffix":
		return k[rnd.Intn(len(k)):]
	default:
		i := rnd.Intn(len(k))
		j := i + 1 + rnd.Intn(len(k)-i)
		return k[i:j]
	}
}

func genLikes(rnd *rand.Rand, ks keySet, n int) []likePattern {
	var rs []likePattern
	shapes := []string{"prefix", "suffix", "contains"}
	for i := 0; i < n && len(ks.Keys) > 0; i++ {
		shape := shapes[i%3]
		k := ks.Keys[rnd.Intn(len(ks.Keys))]
		sub := subOf(rnd, k, shape)
		if rnd.Intn(5) == 0 && len(ks.Alpha) > 0 {
			sub = randFrom(rnd, ks.Alpha, 1+rnd.Intn(3))
		}
		// a pattern text must not itself start/end with '*' (it would change the shape) and is never empty
		if len(sub) == 0 || bytes.IndexByte(sub, '*') >= 0 {
			continue
		}
		rs = append(rs, likePattern{shape, append([]byte{}, sub...)})
	}
	return rs
}

// genRegexps builds regular expressions from key material (anchored and unanchored ones).
func genRegexps(rnd *rand.Rand, ks keySet, n int) []*regexp.Regexp {
	var rs []*regexp.Regexp
	add := func(src string) {
		if !utf8.ValidString(src) {
			return
		}
		if rp, err := regexp.Compile(src); err == nil {
			rs = append(rs, rp)
		}
	}
	pick := func() []byte {
		for t := 0; t < 8; t++ {
			k := ks.Keys[rnd.Intn(len(ks.Keys))]
			if len(k) > 0 && utf8.Valid(k) {
				return k
			}
		}
		return []byte("a")
	}
	validPart := func(k []byte, shape string) string {
		for t := 0; t < 6; t++ {
			s := subOf(rnd, k, shape)
			if utf8.Valid(s) && len(s) > 0 {
				return regexp.QuoteMeta(string(s))
			}
		}
		return "a"
	}
	for i := 0; i < n && len(ks.Keys) > 0; i++ {
		k := pick()
		switch i % 9 {
		case 0:
			add("^" + validPart(k, "prefix"))
		case 1:
			add("^" + validPart(k, "prefix") + ".*" + validPart(k, "suffix") + "$")
		case 2:
			add(validPart(k, "contains")) // unanchored literal
		case 3:
			add(validPart(k, "prefix") + "[0-9]+")
		case 4:
			add("^(" + validPart(k, "prefix") + "|" + validPart(pick(), "prefix") + ")")
		case 5:
			add(validPart(k, "suffix") + "$")
		case 6:
			add("(?i)^" + validPart(k, "prefix"))
		case 7:
			add("^" + validPart(k, "prefix") + ".?" + "$")
		default:
			add(".*" + validPart(k, "contains") + ".*")
		}
	}
	return rs
}

// checkBucket checks a loaded model.TrieBucket (one or several tries) against the sorted map.
func checkBucket(r *rec, tag string, tb *model.TrieBucket, or *oracle, ks keySet, probes [][]byte, rnd *rand.Rand, wit witFn) {
	n := or.n()
	// --- GetValue
	getOne := func(p []byte) {
		var v uint32
		var ok bool
		if pn, what := guard(func() { v, ok = tb.GetValue(p) }); pn {
			r.viol("C20/bucket/panic-getvalue", fmt.Sprintf("[%s] GetValue(%x) panicked: %s", tag, p, what), wit("GetValue", p, nil))
			return
		}
		r.eval(1)
		ev, eok := or.get(p)
		switch {
		case eok && !ok:
			r.viol("C20/bucket/getvalue-present-key-missing", fmt.Sprintf("[%s] GetValue(%x) reports absence of a stored key", tag, p), wit("GetValue", p, nil))
		case eok && v != ev:
			class := "C20/bucket/getvalue-wrong-value"
			ext := append(append([]byte{}, p...), 0xFF)
			if xv, xok := or.get(ext); xok && xv == v {
				// another trie of the bucket holds probe+FF and answers for the probe before the right trie is asked
				class = "C20/trie/0xff-label-vs-terminator"
			}
			r.viol(class, fmt.Sprintf("[%s] GetValue(%x)=%d (the value stored for key %x), stored %d", tag, p, v, or.byVal[v], ev), wit("GetValue", p, nil))
		case !eok && ok:
			class := "C20/bucket/getvalue-absent-key-found"
			ext := append(append([]byte{}, p...), 0xFF)
			if xv, xok := or.get(ext); xok && xv == v {
				class = "C20/trie/0xff-label-vs-terminator"
			}
			r.viol(class, fmt.Sprintf("[%s] GetValue(%x) found value %d for a key that was never stored", tag, p, v), wit("GetValue", p, map[string]interface{}{"returned_value": v}))
		}
		r.count("bucket_getvalue", 1)
	}
	for _, p := range probes {
		getOne(p)
	}
	if n <= 2000 {
		for _, e := range or.sorted {
			getOne(e.k)
		}
	}
	// --- GetValues
	{
		var vs []uint32
		if pn, what := guard(func() { vs = append(vs, tb.GetValues()...) }); pn {
			r.viol("C20/bucket/panic-getvalues", fmt.Sprintf("[%s] GetValues panicked: %s", tag, what), wit("GetValues", nil, nil))
		} else {
			sortU32(vs)
			r.eval(1)
			if !equalU32(vs, or.values()) {
				r.viol("C20/bucket/getvalues", fmt.Sprintf("[%s] GetValues returns %d values, stored %d (or different ones)", tag, len(vs), n), wit("GetValues", nil, nil))
			}
		}
	}
	// --- CollectKVs (value -> key)
	{
		bm := roaring.New()
		want := map[uint32]string{}
		pickN := 40
		if n > 5000 {
			pickN = 400
		}
		for i := 0; i < pickN && n > 0; i++ {
			e := or.sorted[rnd.Intn(n)]
			bm.Add(e.v)
			want[e.v] = string(e.k)
		}
		if n <= 64 { // everything: the full pair set through the real reader
			for _, e := range or.sorted {
				bm.Add(e.v)
				want[e.v] = string(e.k)
			}
		}
		var absent []uint32
		for i := 0; i < 3; i++ {
			v := rnd.Uint32()
			if _, ok := or.byVal[v]; !ok {
				absent = append(absent, v)
				bm.Add(v)
			}
		}
		got := map[uint32]string{}
		if pn, what := guard(func() { tb.CollectKVs(bm, got) }); pn {
			r.viol("C20/bucket/panic-collectkvs", fmt.Sprintf("[%s] CollectKVs panicked: %s", tag, what), wit("CollectKVs", nil, nil))
		} else {
			r.eval(1)
			bad := ""
			for v, k := range want {
				if g, ok := got[v]; !ok {
					bad = fmt.Sprintf("value %d (key %x) not collected", v, k)
					break
				} else if g != k {
					bad = fmt.Sprintf("value %d collected with key %x, stored key %x", v, g, k)
					break
				}
			}
			if bad == "" && len(got) != len(want) {
				bad = fmt.Sprintf("%d pairs collected for %d requested stored values", len(got), len(want))
			}
			if bad != "" {
				r.viol("C20/bucket/collectkvs", fmt.Sprintf("[%s] CollectKVs: %s", tag, bad), wit("CollectKVs", nil, nil))
			}
			r.count("bucket_collectkvs_values", len(want))
		}
	}
	// --- Suggest
	limits := []int{1, 2, 3, n, n + 5, 100}
	sugProbes := probes
	if len(sugProbes) > 60 {
		sugProbes = sugProbes[:60]
	}
	for _, p := range sugProbes {
		matches := or.withPrefix(p)
		if len(matches) > 20000 {
			continue
		}
		limit := limits[rnd.Intn(len(limits))]
		if limit < 1 {
			limit = 1
		}
		var got []string
		if pn, what := guard(func() { got = tb.Suggest(string(p), limit) }); pn {
			r.viol("C20/bucket/panic-suggest", fmt.Sprintf("[%s] Suggest(%x,%d) panicked: %s", tag, p, limit, what), wit("Suggest", p, nil))
			continue
		}
		r.eval(1)
		var exp []string
		for i := 0; i < len(matches) && i < limit; i++ {
			exp = append(exp, string(matches[i].k))
		}
		if class := classifySuggest(got, exp, matches); class != "" {
			r.viol(class, fmt.Sprintf("[%s] Suggest(%q,%d) = %q, sorted map gives %q", tag, p, limit, clip(got, 6), clip(exp, 6)),
				wit("Suggest", p, map[string]interface{}{"limit": limit, "observed": hexStrs(got, 40), "expected": hexStrs(exp, 40)}))
		}
		if len(exp) > 1 {
			r.count("bucket_suggest_multi", 1)
		} else {
			r.count("bucket_suggest_0or1", 1)
		}
	}
	// --- like
	for _, lp := range genLikes(rnd, ks, 12) {
		var got []uint32
		if pn, what := guard(func() {
			switch lp.shape {
			case "prefix":
				got = tb.FindValuesByLike(lp.sub, lp.sub, bytes.HasPrefix, nil)
			case "suffix":
				got = tb.FindValuesByLike(nil, lp.sub, bytes.HasSuffix, nil)
			default:
				got = tb.FindValuesByLike(nil, lp.sub, bytes.Contains, nil)
			}
		}); pn {
			r.viol("C20/bucket/panic-like", fmt.Sprintf("[%s] FindValuesByLike(%q) panicked: %s", tag, lp.text(), what), wit("FindValuesByLike", lp.sub, nil))
			continue
		}
		r.eval(1)
		got = append([]uint32{}, got...)
		sortU32(got)
		exp := or.filter(lp.match)
		if !equalU32(got, exp) {
			r.viol("C20/bucket/like-"+lp.shape, fmt.Sprintf("[%s] like %q selects %d values %v, predicate over the pairs selects %d %v", tag, lp.text(), len(got), clipU(got, 6), len(exp), clipU(exp, 6)),
				wit("FindValuesByLike", lp.sub, map[string]interface{}{"shape": lp.shape}))
		}
		if len(exp) > 0 {
			r.count("bucket_like_nonempty", 1)
		} else {
			r.count("bucket_like_empty", 1)
		}
	}
	// --- regexp
	for _, rp := range genRegexps(rnd, ks, 12) {
		var got []uint32
		if pn, what := guard(func() { got = tb.FindValuesByRegexp(rp, nil) }); pn {
			r.viol("C20/bucket/panic-regexp", fmt.Sprintf("[%s] FindValuesByRegexp(%q) panicked: %s", tag, rp.String(), what), wit("FindValuesByRegexp", nil, map[string]interface{}{"regexp": rp.String()}))
			continue
		}
		r.eval(1)
		got = append([]uint32{}, got...)
		sortU32(got)
		exp := or.filter(rp.Match)
		if !equalU32(got, exp) {
			class := classifyRegexp(or, rp, got, exp)
			lit, _ := rp.LiteralPrefix()
			r.viol(class, fmt.Sprintf("[%s] regexp %q (literal prefix %q) selects %d values %v, Regexp.Match over the pairs selects %d %v", tag, rp.String(), lit, len(got), clipU(got, 6), len(exp), clipU(exp, 6)),
				wit("FindValuesByRegexp", nil, map[string]interface{}{"regexp": rp.String(), "literal_prefix": lit}))
		}
		if len(exp) > 0 {
			r.count("bucket_regexp_nonempty", 1)
		} else {
			r.count("bucket_regexp_empty", 1)
		}
	}
}

// classifySuggest returns "" if got is the sorted map's answer. The known defect (the merged iterator
// keeps a slice of the trie iterator's key buffer and advances the iterator before copying it) keeps
// the number and the lengths of the returned strings and only corrupts bytes; anything else is another class.
func classifySuggest(got, exp []string, matches []pair) string {
	if len(got) == len(exp) {
		same := true
		for i := range got {
			if got[i] != exp[i] {
				same = false
				break
			}
		}
		if same {
			return ""
		}
	}
	if len(got) != len(exp) {
		return "C20/bucket/suggest-count"
	}
	a, b := append([]string{}, got...), append([]string{}, exp...)
	sort.Strings(a)
	sort.Strings(b)
	perm := true
	for i := range a {
		if a[i] != b[i] {
			perm = false
			break
		}
	}
	if perm {
		return "C20/bucket/suggest-order"
	}
	// lengths: every returned string has the length of some matching key; when nothing was cut off by
	// the limit the multiset of lengths must be that of the expected keys
	cut := len(matches) > len(exp)
	if cut {
		lens := map[int]bool{}
		for _, m := range matches {
			lens[len(m.k)] = true
		}
		for _, g := range got {
			if !lens[len(g)] {
				return "C20/bucket/suggest-mismatch"
			}
		}
	} else {
		la, lb := make([]int, len(got)), make([]int, len(exp))
		for i := range got {
			la[i], lb[i] = len(got[i]), len(exp[i])
		}
		sort.Ints(la)
		sort.Ints(lb)
		for i := range la {
			if la[i] != lb[i] {
				return "C20/bucket/suggest-mismatch"
			}
		}
	}
	return "C20/bucket/suggest-returns-overwritten-iterator-key"
}

// classifyRegexp: the known defect is that Regexp.LiteralPrefix (the literal every *match* begins with)
// is used as a prefix of the *key* although the search is unanchored: exactly keys that match but do
// not start with the literal prefix are lost.
func classifyRegexp(or *oracle, rp *regexp.Regexp, got, exp []uint32) string {
	lit, _ := rp.LiteralPrefix()
	if lit == "" {
		return "C20/bucket/regexp-mismatch"
	}
	gotSet := map[uint32]bool{}
	for _, v := range got {
		gotSet[v] = true
	}
	expSet := map[uint32]bool{}
	for _, v := range exp {
		expSet[v] = true
	}
	for _, v := range got {
		if !expSet[v] {
			return "C20/bucket/regexp-mismatch" // something selected that does not match
		}
	}
	lost := 0
	for _, v := range exp {
		if !gotSet[v] {
			lost++
			if bytes.HasPrefix([]byte(or.byVal[v]), []byte(lit)) {
				return "C20/bucket/regexp-mismatch" // lost although the key starts with the literal prefix
			}
		}
	}
	if lost == 0 {
		return "C20/bucket/regexp-mismatch"
	}
	return "C20/bucket/regexp-unanchored-literal-prefix-used-as-key-prefix"
}

func clip(s []string, n int) []string {
	if len(s) > n {
		return append(append([]string{}, s[:n]...), "...")
	}
	return s
}

func clipU(s []uint32, n int) []uint32 {
	if len(s) > n {
		return s[:n]
	}
	return s
}

func hexStrs(s []string, n int) []string {
	var rs []string
	for i, e := range s {
		if i >= n {
			rs = append(rs, "...")
			break
		}
		rs = append(rs, hx([]byte(e)))
	}
	return rs
}
