package main

import (
	"encoding/json"
	"fmt"
	"os"
	"runtime/debug"
	"strings"
)

// rec is the recorder of one child process: every record is one JSON line written immediately
// (unbuffered) so that a crash of the child loses nothing that was decided before it.
type rec struct {
	f          *os.File
	counters   map[string]int64
	evals      int64
	nontrivial map[string]struct{}
	samples    []interface{}
	violCount  map[string]int
	curCase    string
}

type line struct {
	K        string                 `json:"k"` // case | viol | done
	Case     string                 `json:"case,omitempty"`
	Layer    string                 `json:"layer,omitempty"`
	Desc     interface{}            `json:"desc,omitempty"`
	Class    string                 `json:"class,omitempty"`
	Msg      string                 `json:"msg,omitempty"`
	Witness  interface{}            `json:"witness,omitempty"`
	Counters map[string]int64       `json:"counters,omitempty"`
	Evals    int64                  `json:"evals,omitempty"`
	NT       []string               `json:"nt,omitempty"`
	Samples  []interface{}          `json:"samples,omitempty"`
	Viols    map[string]int         `json:"viols,omitempty"`
	Extra    map[string]interface{} `json:"extra,omitempty"`
}

func newRec(path string) *rec {
	f, err := os.OpenFile(path, os.O_CREATE|os.O_WRONLY|os.O_TRUNC, 0o644)
	if err != nil {
		panic(err)
	}
	return &rec{f: f, counters: map[string]int64{}, nontrivial: map[string]struct{}{}, violCount: map[string]int{}}
}

func (r *rec) write(l line) {
	data, err := json.Marshal(l)
	if err != nil {
		data, _ = json.Marshal(line{K: l.K, Class: l.Class, Msg: l.Msg + " (witness not serialisable: " + err.Error() + ")"})
	}
	_, _ = r.f.Write(append(data, '\n'))
}

// startCase is logged before the case runs (crash attribution).
func (r *rec) startCase(id, layer string, desc interface{}) {
	r.curCase = id
	r.write(line{K: "case", Case: id, Layer: layer, Desc: desc})
}

func (r *rec) count(name string, n int) { r.counters[name] += int64(n) }
func (r *rec) eval(n int)               { r.evals += int64(n) }
func (r *rec) nt(key string)            { r.nontrivial[key] = struct{}{} }
func (r *rec) sample(v interface{}) {
	if len(r.samples) < 2 {
		r.samples = append(r.samples, v)
	}
}

// viol records a violation; the first two witnesses of a class per child are written out.
func (r *rec) viol(class, msg string, witness interface{}) {
	r.violCount[class]++
	if r.violCount[class] <= 2 {
		r.write(line{K: "viol", Case: r.curCase, Class: class, Msg: msg, Witness: witness})
	}
}

func (r *rec) done() {
	nts := make([]string, 0, len(r.nontrivial))
	for k := range r.nontrivial {
		nts = append(nts, k)
	}
	r.write(line{K: "done", Counters: r.counters, Evals: r.evals, NT: nts, Samples: r.samples, Viols: r.violCount})
	_ = r.f.Close()
}

// guard runs fn and turns a panic into a description (value + the lindb frames of the stack).
func guard(fn func()) (panicked bool, what string) {
	defer func() {
		if e := recover(); e != nil {
			panicked = true
			what = fmt.Sprintf("%v | %s", e, lindbFrames(string(debug.Stack())))
		}
	}()
	fn()
	return false, ""
}

func lindbFrames(stack string) string {
	var rs []string
	lines := strings.Split(stack, "\n")
	for i := 0; i+1 < len(lines); i++ {
		l := lines[i]
		if strings.HasPrefix(l, "github.com/lindb/lindb/") && !strings.Contains(l, "/verif/") {
			fn := l
			if j := strings.LastIndex(fn, "("); j > 0 {
				fn = fn[:j]
			}
			loc := strings.TrimSpace(lines[i+1])
			if j := strings.Index(loc, " +0x"); j > 0 {
				loc = loc[:j]
			}
			if j := strings.LastIndex(loc, "/"); j > 0 {
				loc = loc[j+1:]
			}
			rs = append(rs, strings.TrimPrefix(fn, "github.com/lindb/lindb/")+"@"+loc)
			if len(rs) >= 5 {
				break
			}
		}
	}
	return strings.Join(rs, " <- ")
}
