// C20 - the on-disk string dictionary behaves like a sorted map.
//
// Runtime monitoring of the real lindb code in three (plus one) layers:
//
//	(a) pkg/trie            builder -> in-memory trie and Write -> UnmarshalBinary
//	(b) index/model         TrieBucketBuilder -> TrieBucket (several dictionaries, merge via Write)
//	(c) index/v1 + kv       IndexKVFlusher -> kv family -> Family.Compact (IndexKVMergerV1) -> IndexKVReader
//	(d) index.IndexKVStore  the caller lindb itself uses (memory + immutable + flushed + merged)
//	(h) histories           earlier in-memory tries / loaded tries / buckets are kept alive while the same
//	                        builders are reset and reused; every kept dictionary is re-checked after each step
//	(r) concurrent readers  one loaded multi-trie bucket (TrieBucket / IndexKVReader / IndexKVStore bucket cache) read by
//	                        8-16 goroutines at once, then re-checked single-threaded and merged (conc_case.go);
//	                        some batches also under the race detector
//
// Oracle: a sorted slice and a map (oracle.go). Every batch of cases runs in a child process that
// logs each case before it runs; panics of single operations are recovered per operation.
package main

import (
	"bufio"
	"encoding/json"
	"fmt"
	"os"
	"path/filepath"
	"runtime"
	"strconv"
	"strings"
	"time"

	commonlogger "github.com/lindb/common/pkg/logger"
	"go.uber.org/zap/zapcore"

	"github.com/lindb/lindb/pkg/trie"
	"github.com/lindb/lindb/verif/internal/core"
	"github.com/lindb/lindb/verif/internal/racefilter"
)

type batch struct {
	Type  string // mem | large | kv | store | huge
	Index int
	Cases int
	Size  int // keys for large/huge
}

func plan(c *core.Ctx) []batch {
	var bs []batch
	add := func(typ string, batches, cases, size int) {
		for i := 0; i < batches; i++ {
			bs = append(bs, batch{Type: typ, Index: i, Cases: cases, Size: size})
		}
	}
	add("hist", c.Pick(16, 400), c.Pick(6, 12), 0) // histories that keep earlier dictionaries alive while builders are reused
	add("directed", c.Pick(2, 8), 1, 0) // hand-made sets around the empty key and 0xFF, random partitions
	// concurrent readers of one loaded multi-trie bucket (bucket / reader / store layers per batch); the
	// "concrace" batches run the same cases in the -race build of this engine (VERIF_RACE_BIN)
	add("conc", c.Pick(12, 90), c.Pick(6, 12), 0)
	if os.Getenv("VERIF_RACE_BIN") != "" {
		add("concrace", c.Pick(3, 12), c.Pick(3, 6), 0)
	}
	if c.Quick() {
		add("huge", 0, 0, 0)
		add("large", 6, 1, 6000)
		add("large", 2, 1, 20000)
		add("kv", 32, 10, 0)
		add("store", 32, 10, 0)
		add("mem", 60, 50, 0) // 3000 key sets x ~200 probes
	} else {
		add("huge", 2, 1, 70000) // > 65535 keys in one bucket: merger keeps full tries as they are
		add("large", 12, 1, 50000)
		add("large", 24, 1, 8000)
		add("kv", 240, 40, 0)
		add("store", 240, 40, 0)
		add("mem", 2200, 100, 0) // 220 000 key sets
	}
	// distinct index per (type) so PRNG streams differ
	seen := map[string]int{}
	for i := range bs {
		bs[i].Index = seen[bs[i].Type]
		seen[bs[i].Type]++
	}
	return bs
}

func main() {
	if len(os.Args) >= 7 && os.Args[2] == "child" {
		childMain()
		return
	}
	c := core.New("C20", "exploration")
	c.SetRule("key sets drawn per seed from 20 generators (alphabets {00,a,b,c,FF}, {a,b}, {FE,FF,z}, {00,01,a}, all bytes; " +
		"UTF-8 metric names and tag values; densely numbered names; keys >= 256 bytes with shared prefixes/suffixes; prefix chains; " +
		"8-byte binary keys; single-key sets incl. {\"\"} and {FF}; mixtures; the empty key and prefixes/one-byte extensions of present keys mixed in; " +
		"sets of thousands of keys), distinct values; probes = present keys, their proper prefixes, one-byte extensions (00, FF, alphabet), " +
		"last byte +-1, inner byte changed, suffixes, random keys, empty key. A case is non-trivial if the key set has >= 2 keys " +
		"(or contains the empty key / a 0xFF byte); distinct = distinct key set per layer (mem / kv stage / store stage) by FNV hash of the sorted keys. " +
		"Concurrent-reader cases: one key set (40-6000 keys) spread over 2-16 tries of one bucket (1-6 flushes x flush block size), loaded once " +
		"(TrieBucket.Unmarshal / IndexKVReader.GetBucket / IndexKVStore bucket cache), 8-16 goroutines released together, each running a script drawn from the seed: " +
		"2-4 shuffled passes over present keys, absent proper prefixes, one-byte extensions and neighbours, and every 197th operation a suggest/like/regexp/GetValues/CollectKVs; " +
		"then a single-threaded re-check and a merge of the bucket. The interleaving itself is the scheduler's; a pass counts as overlapping when other readers completed operations on the same bucket during it")
	c.Assume("Go's regexp.Regexp.Match, bytes.HasPrefix/HasSuffix/Contains and bytes.Compare are the reference semantics of regexp/like/order")
	c.Assume("values of one dictionary are distinct (lindb assigns ids from sequences), so value->key collection is a function")
	c.Assume("dictionaries merged into one bucket have disjoint key sets (lindb looks a key up in memory and in flushed dictionaries before it creates it)")
	c.Assume("=~ is an unanchored regular-expression search (DESIGN C10, and lindb's own in-memory path uses Regexp.Match)")
	c.Assume("a loaded dictionary / bucket is immutable and shared between goroutines without a lock (index kv store bucketCache), so concurrent readers must each get the sorted map's answers")

	batches := plan(c)
	scratch := c.Scratch()
	workers := runtime.NumCPU()
	if workers > 16 {
		workers = 16
	}
	type outcome struct {
		b     batch
		res   core.ChildResult
		lines []line
	}
	outs := make([]outcome, len(batches))
	raceOut := make([]string, len(batches))
	raceBin := os.Getenv("VERIF_RACE_BIN")
	timeout := time.Duration(c.Pick(150, 3000)) * time.Second
	core.Parallel(len(batches), workers, func(i int) {
		b := batches[i]
		name := fmt.Sprintf("%s-%d", b.Type, b.Index)
		recFile := filepath.Join(scratch, name+".jsonl")
		outFile := filepath.Join(scratch, name+".out")
		dir := filepath.Join(scratch, name)
		_ = os.MkdirAll(dir, 0o755)
		args := []string{c.Tier, "child", b.Type, strconv.Itoa(b.Index), strconv.Itoa(b.Cases), strconv.Itoa(b.Size), recFile, dir}
		bin, env := "", []string(nil)
		if b.Type == "concrace" {
			bin = raceBin
			env = []string{"GORACE=halt_on_error=0 exitcode=0 log_path=" + filepath.Join(dir, "race")}
		}
		res := core.RunChild(bin, args, env, timeout, outFile)
		outs[i] = outcome{b: b, res: res, lines: readLines(recFile)}
		if b.Type == "concrace" {
			raceOut[i] = racefilter.ReadLogs(filepath.Join(dir, "race"), outFile)
		}
		_ = os.RemoveAll(dir)
	})

	for i, o := range outs {
		name := fmt.Sprintf("%s-%d", o.b.Type, o.b.Index)
		if o.b.Type == "concrace" {
			// a data race whose top lindb frame lies in the dictionary code: readers of a loaded (immutable)
			// dictionary write shared state
			reports := racefilter.Parse(raceOut[i])
			c.Count("conc_race_reports_total", len(reports))
			c.Count("conc_batches_under_race_detector", 1)
			for _, rep := range racefilter.Attributed(reports, []string{"pkg/trie/", "index/model/", "index/v1/", "index/kv_store.go"}) {
				c.Violation("C20/data-race/"+strings.Join(rep.TopFrames, "+"), fmt.Sprintf("batch %s: data race between readers of a loaded dictionary, top frames %v", name, rep.TopFrames), rep.Text)
			}
		}
		var last *line
		done := false
		for i := range o.lines {
			l := &o.lines[i]
			switch l.K {
			case "case":
				last = l
			case "viol":
				c.Violation(l.Class, l.Msg, l.Witness)
			case "done":
				done = true
				c.Eval(int(l.Evals))
				for k, v := range l.Counters {
					c.Count(k, int(v))
				}
				for _, k := range l.NT {
					c.Nontrivial(k)
				}
				for _, s := range l.Samples {
					c.Sample(s)
				}
				for class, n := range l.Viols {
					written := n
					if written > 2 {
						written = 2
					}
					for j := written; j < n; j++ { // occurrences beyond the written witnesses
						c.Violation(class, "", nil)
					}
				}
			}
		}
		c.Count("child_batches", 1)
		if done && o.res.ExitCode == 0 && !o.res.TimedOut {
			continue
		}
		if o.res.TimedOut {
			c.Inconclusive("batch %s: watchdog fired (last case %v)", name, caseID(last))
			continue
		}
		// the child died: fatal error / unrecovered panic in a lindb goroutine
		layer, desc := "?", interface{}(nil)
		if last != nil {
			layer, desc = last.Layer, last.Desc
		}
		c.Violation("C20/child-crash/"+layer, fmt.Sprintf("batch %s died (exit %d) while running case %s: %s", name, o.res.ExitCode, caseID(last), crashHead(o.res.Output)),
			map[string]interface{}{"batch": name, "case": caseID(last), "desc": desc, "output_tail": tail(o.res.Output, 4000)})
	}
	// the run must have observed every layer
	for _, k := range []string{"trie_serialise_load_roundtrips", "bucket_merges_of_2plus_dictionaries", "kv_compactions_merging_2plus_files",
		"store_states_checked", "history_kept_dictionary_rechecks", "history_dictionaries_kept_in-memory-trie",
		"history_dictionaries_kept_loaded-trie", "history_dictionaries_kept_bucket", "seek_present", "seek_absent", "prefix_enumerations_nonempty", "keysets_with_empty_key", "keysets_with_0xff",
		"keysets_with_0x00", "keysets_with_key_prefix_of_other", "keysets_with_key_ge_256_bytes", "keysets_ge_1000_keys",
		"conc_shared_buckets_with_2plus_tries_bucket", "conc_shared_buckets_with_2plus_tries_reader", "conc_shared_buckets_with_2plus_tries_store",
		"conc_shared_buckets_with_4plus_tries", "conc_reader_passes_overlapping_other_readers", "conc_lookups_present",
		"conc_lookups_absent_proper_prefix", "conc_lookups_absent_one_byte_extension", "conc_getorcreate_of_stored_keys",
		"conc_enumerations_suggest", "conc_enumerations_like", "conc_enumerations_regexp", "conc_enumerations_values", "conc_enumerations_collect",
		"conc_single_threaded_rechecks_after_readers", "conc_merges_after_readers"} {
		if c.Counter(k) == 0 {
			c.Inconclusive("nothing observed for %s", k)
		}
	}
	// the concurrent phase only means something if the readers really ran at the same time
	if p, o := c.Counter("conc_reader_passes"), c.Counter("conc_reader_passes_overlapping_other_readers"); p > 0 && o*2 < p {
		c.Inconclusive("only %d of %d reader passes overlapped with lookups of other readers of the same bucket", o, p)
	}
	if raceBin != "" && c.Counter("conc_batches_under_race_detector") == 0 {
		c.Inconclusive("no batch of concurrent readers ran under the race detector")
	}
	c.Finish()
}

func caseID(l *line) string {
	if l == nil {
		return "<none started>"
	}
	return l.Case
}

func crashHead(out string) string {
	for _, l := range strings.Split(out, "\n") {
		if strings.HasPrefix(l, "panic:") || strings.HasPrefix(l, "fatal error:") || strings.Contains(l, "unexpected fault address") {
			return l
		}
	}
	return "no panic line in output"
}

func tail(s string, n int) string {
	if len(s) > n {
		return s[len(s)-n:]
	}
	return s
}

func readLines(path string) []line {
	f, err := os.Open(path)
	if err != nil {
		return nil
	}
	defer f.Close()
	var rs []line
	sc := bufio.NewScanner(f)
	sc.Buffer(make([]byte, 1<<20), 64<<20)
	for sc.Scan() {
		var l line
		if json.Unmarshal(sc.Bytes(), &l) == nil {
			rs = append(rs, l)
		}
	}
	return rs
}

// ---- child ----

func childMain() {
	// argv: tier child type index cases size recFile dir
	typ := os.Args[3]
	idx, _ := strconv.Atoi(os.Args[4])
	cases, _ := strconv.Atoi(os.Args[5])
	size, _ := strconv.Atoi(os.Args[6])
	recFile, dir := os.Args[7], os.Args[8]
	commonlogger.RunningAtomicLevel.SetLevel(zapcore.ErrorLevel)
	c := core.New("C20", "exploration") // only for the seed-derived PRNG streams
	rnd := c.Rand(fmt.Sprintf("%s-batch-%d", typ, idx))
	r := newRec(recFile)
	quick := c.Quick()
	switch typ {
	case "mem":
		b := trie.NewBuilder()
		for i := 0; i < cases; i++ {
			ks := genKeySet(rnd, "", 400)
			runMemCase(r, rnd, &b, fmt.Sprintf("mem-%d/%d", idx, i), ks, 200)
		}
	case "large":
		b := trie.NewBuilder()
		for i := 0; i < cases; i++ {
			ks := genLargeKeySet(rnd, size)
			runMemCase(r, rnd, &b, fmt.Sprintf("large-%d/%d", idx, i), ks, 200)
		}
	case "kv":
		for i := 0; i < cases; i++ {
			nb := 1 + rnd.Intn(3)
			var sets []keySet
			for j := 0; j < nb; j++ {
				if !quick && i%20 == 0 && j == 0 {
					sets = append(sets, genLargeKeySet(rnd, 3000+rnd.Intn(6000)))
				} else {
					sets = append(sets, genKeySet(rnd, "", 300))
				}
			}
			runKVCase(r, rnd, fmt.Sprintf("kv-%d-%d", idx, i), dir, sets, 2+rnd.Intn(4), 60)
		}
	case "store":
		for i := 0; i < cases; i++ {
			runStoreCase(r, rnd, fmt.Sprintf("store-%d-%d", idx, i), dir, genKeySet(rnd, "", 200), 50)
		}
	case "hist":
		for i := 0; i < cases; i++ {
			runHistoryCase(r, rnd, fmt.Sprintf("hist-%d/%d", idx, i), 6+rnd.Intn(7))
		}
	case "directed":
		b := trie.NewBuilder()
		for i, ks := range directedSets() {
			for j := 0; j < 3; j++ {
				runMemCase(r, rnd, &b, fmt.Sprintf("directed-%d/mem-%d-%d", idx, i, j), ks, 200)
			}
			for j := 0; j < 4; j++ {
				runKVCase(r, rnd, fmt.Sprintf("directed-%d-kv-%d-%d", idx, i, j), dir, []keySet{ks}, 1+rnd.Intn(4), 60)
			}
			for j := 0; j < 6; j++ {
				runStoreCase(r, rnd, fmt.Sprintf("directed-%d-store-%d-%d", idx, i, j), dir, ks, 50)
			}
		}
	case "conc", "concrace":
		layers := []string{"bucket", "reader", "store"}
		for i := 0; i < cases; i++ {
			layer := layers[(i+idx)%3]
			runConcCase(r, rnd, fmt.Sprintf("%s-%d-%d-%s", typ, idx, i, layer), layer, dir, quick, typ == "concrace")
		}
	case "huge":
		for i := 0; i < cases; i++ {
			runKVCase(r, rnd, fmt.Sprintf("huge-%d-%d", idx, i), dir, []keySet{genLargeKeySet(rnd, size)}, 3, 120)
		}
	default:
		fmt.Println("unknown batch type", typ)
		os.Exit(4)
	}
	r.done()
}
