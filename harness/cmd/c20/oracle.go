package main

import (
	"bytes"
	"encoding/hex"
	"hash/fnv"
	"sort"
)

// pair is one (key, value) of a dictionary.
type pair struct {
	k []byte
	v uint32
}

// oracle is the reference: a sorted slice plus a map, written without any lindb code.
type oracle struct {
	sorted []pair            // ascending by bytes.Compare
	byKey  map[string]uint32 // exact lookup
	byVal  map[uint32]string // values are generated distinct
	hasFF  bool
}

func newOracle(ps []pair) *oracle {
	o := &oracle{byKey: make(map[string]uint32, len(ps)), byVal: make(map[uint32]string, len(ps))}
	o.sorted = make([]pair, len(ps))
	copy(o.sorted, ps)
	sort.Slice(o.sorted, func(i, j int) bool { return bytes.Compare(o.sorted[i].k, o.sorted[j].k) < 0 })
	for _, p := range o.sorted {
		o.byKey[string(p.k)] = p.v
		o.byVal[p.v] = string(p.k)
		if bytes.IndexByte(p.k, 0xFF) >= 0 {
			o.hasFF = true
		}
	}
	return o
}

func (o *oracle) n() int { return len(o.sorted) }

func (o *oracle) get(k []byte) (uint32, bool) {
	v, ok := o.byKey[string(k)]
	return v, ok
}

// lowerBound returns the index of the smallest key >= k (n if none).
func (o *oracle) lowerBound(k []byte) int {
	return sort.Search(len(o.sorted), func(i int) bool { return bytes.Compare(o.sorted[i].k, k) >= 0 })
}

// withPrefix returns, in order, the pairs whose key starts with p (brute force on purpose).
func (o *oracle) withPrefix(p []byte) []pair {
	var rs []pair
	for _, e := range o.sorted {
		if bytes.HasPrefix(e.k, p) {
			rs = append(rs, e)
		}
	}
	return rs
}

// filter returns the sorted values of the pairs whose key satisfies f.
func (o *oracle) filter(f func(k []byte) bool) []uint32 {
	var rs []uint32
	for _, e := range o.sorted {
		if f(e.k) {
			rs = append(rs, e.v)
		}
	}
	sortU32(rs)
	return rs
}

func (o *oracle) values() []uint32 {
	rs := make([]uint32, 0, len(o.sorted))
	for _, e := range o.sorted {
		rs = append(rs, e.v)
	}
	sortU32(rs)
	return rs
}

// setHash identifies the key set (for the distinct non-trivial count).
func (o *oracle) setHash() string {
	h := fnv.New64a()
	var l [4]byte
	for _, e := range o.sorted {
		l[0], l[1], l[2], l[3] = byte(len(e.k)), byte(len(e.k)>>8), byte(len(e.k)>>16), byte(len(e.k)>>24)
		_, _ = h.Write(l[:])
		_, _ = h.Write(e.k)
	}
	return hex.EncodeToString(h.Sum(nil))
}

// features of a key set that the property statement names.
type features struct {
	N            int
	EmptyKey     bool
	PrefixOfOther bool
	Has00        bool
	HasFF        bool
	LongKey      bool // >= 256 bytes
	SharedPrefix bool // two neighbours share >= 1 leading byte
	NonASCII     bool
}

func (o *oracle) features() features {
	f := features{N: len(o.sorted)}
	for i, e := range o.sorted {
		if len(e.k) == 0 {
			f.EmptyKey = true
		}
		if len(e.k) >= 256 {
			f.LongKey = true
		}
		for _, b := range e.k {
			switch {
			case b == 0:
				f.Has00 = true
			case b == 0xFF:
				f.HasFF = true
			}
			if b >= 0x80 {
				f.NonASCII = true
			}
		}
		if i+1 < len(o.sorted) {
			nx := o.sorted[i+1].k
			if bytes.HasPrefix(nx, e.k) {
				f.PrefixOfOther = true
			}
			if len(e.k) > 0 && len(nx) > 0 && e.k[0] == nx[0] {
				f.SharedPrefix = true
			}
		}
	}
	return f
}

func sortU32(a []uint32) { sort.Slice(a, func(i, j int) bool { return a[i] < a[j] }) }

func equalU32(a, b []uint32) bool {
	if len(a) != len(b) {
		return false
	}
	for i := range a {
		if a[i] != b[i] {
			return false
		}
	}
	return true
}

func hx(b []byte) string { return hex.EncodeToString(b) }

func hxs(ks [][]byte, max int) []string {
	var rs []string
	for i, k := range ks {
		if i >= max {
			rs = append(rs, "...")
			break
		}
		rs = append(rs, hx(k))
	}
	return rs
}

// witnessKeys renders the key set for a replay file: all pairs when small, otherwise the
// neighbourhood of the probe.
func (o *oracle) witnessKeys(probe []byte) interface{} {
	type kv struct {
		K string `json:"key_hex"`
		V uint32 `json:"value"`
	}
	var rs []kv
	if len(o.sorted) <= 64 {
		for _, e := range o.sorted {
			rs = append(rs, kv{hx(e.k), e.v})
		}
		return rs
	}
	i := o.lowerBound(probe)
	lo, hi := i-4, i+4
	if lo < 0 {
		lo = 0
	}
	if hi > len(o.sorted) {
		hi = len(o.sorted)
	}
	for _, e := range o.sorted[lo:hi] {
		rs = append(rs, kv{hx(e.k), e.v})
	}
	return map[string]interface{}{"total_keys": len(o.sorted), "neighbourhood_of_probe": rs}
}
