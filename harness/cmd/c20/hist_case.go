package main

import (
	"bytes"
	"fmt"
	"math"
	"math/rand"

	"github.com/lindb/roaring"

	"github.com/lindb/lindb/index/model"
	"github.com/lindb/lindb/pkg/trie"
)

// A history keeps dictionaries that were handed out earlier (in-memory tries from builder.Trie(), tries
// loaded from the bytes the builder wrote, buckets loaded from a reused TrieBucketBuilder) alive while
// the same builder objects are reset and reused for other key sets, and re-checks every kept dictionary
// against its own sorted map after every later builder step: a dictionary handed out earlier never changes.

type keptDict struct {
	name   string // e.g. "step3/Trie#1"
	kind   string // in-memory-trie | loaded-trie | bucket
	step   int
	or     *oracle
	ks     keySet
	probes [][]byte
	t      trie.SuccinctTrie
	b      *model.TrieBucket
}

// lightTrie returns "" if the trie answers like its sorted map (exact lookup, ordered iteration both
// ways, prefix enumeration, seek of stored keys), else the first deviation.
func lightTrie(t trie.SuccinctTrie, or *oracle, probes [][]byte) (dev string) {
	pn, what := guard(func() {
		n := or.n()
		if t.Size() != n {
			dev = fmt.Sprintf("Size()=%d, stored %d", t.Size(), n)
			return
		}
		vs := append([]uint32{}, t.Values()...)
		sortU32(vs)
		if !equalU32(vs, or.values()) {
			dev = "Values() differ from the stored values"
			return
		}
		stepK := 1
		if n > 3000 {
			stepK = n / 3000
		}
		for i := 0; i < n; i += stepK {
			e := or.sorted[i]
			if v, ok := t.Get(e.k); !ok || v != e.v {
				dev = fmt.Sprintf("Get(%x)=(%d,%v), stored %d", e.k, v, ok, e.v)
				return
			}
		}
		for _, p := range probes {
			ev, eok := or.get(p)
			if v, ok := t.Get(p); ok != eok || (ok && v != ev) {
				dev = fmt.Sprintf("Get(%x)=(%d,%v), sorted map (%d,%v)", p, v, ok, ev, eok)
				return
			}
		}
		it := t.NewIterator()
		i := 0
		for it.SeekToFirst(); it.Valid(); it.Next() {
			if i >= n || !bytes.Equal(it.Key(), or.sorted[i].k) || it.Value() != or.sorted[i].v {
				dev = fmt.Sprintf("forward iteration item #%d is %x=%d", i, it.Key(), it.Value())
				return
			}
			i++
		}
		if i != n {
			dev = fmt.Sprintf("forward iteration yields %d of %d pairs", i, n)
			return
		}
		i = n - 1
		for it.SeekToLast(); it.Valid(); it.Prev() {
			if i < 0 || !bytes.Equal(it.Key(), or.sorted[i].k) || it.Value() != or.sorted[i].v {
				dev = fmt.Sprintf("backward iteration item #%d is %x=%d", i, it.Key(), it.Value())
				return
			}
			i--
		}
		if i != -1 && n > 0 {
			dev = fmt.Sprintf("backward iteration stops with %d pairs left", i+1)
			return
		}
		for j, p := range probes {
			if j >= 16 {
				break
			}
			exp := or.withPrefix(p)
			pit := t.NewPrefixIterator(p)
			k := 0
			for ; pit.Valid(); pit.Next() {
				if k >= len(exp) || !bytes.Equal(pit.Key(), exp[k].k) || pit.Value() != exp[k].v {
					dev = fmt.Sprintf("prefix %x item #%d is %x=%d", p, k, pit.Key(), pit.Value())
					return
				}
				k++
			}
			if k != len(exp) {
				dev = fmt.Sprintf("prefix %x enumerates %d of %d pairs", p, k, len(exp))
				return
			}
			if _, ok := or.get(p); ok {
				it.Seek(p)
				if !it.Valid() || !bytes.Equal(it.Key(), p) {
					dev = fmt.Sprintf("Seek(%x) of a stored key does not stand on it", p)
					return
				}
			}
		}
	})
	if pn {
		return "panic: " + what
	}
	return dev
}

func lightBucket(b *model.TrieBucket, or *oracle, probes [][]byte) (dev string) {
	pn, what := guard(func() {
		n := or.n()
		vs := append([]uint32{}, b.GetValues()...)
		sortU32(vs)
		if !equalU32(vs, or.values()) {
			dev = fmt.Sprintf("GetValues returns %d values, stored %d (or different ones)", len(vs), n)
			return
		}
		stepK := 1
		if n > 3000 {
			stepK = n / 3000
		}
		for i := 0; i < n; i += stepK {
			e := or.sorted[i]
			if v, ok := b.GetValue(e.k); !ok || v != e.v {
				dev = fmt.Sprintf("GetValue(%x)=(%d,%v), stored %d", e.k, v, ok, e.v)
				return
			}
		}
		for _, p := range probes {
			ev, eok := or.get(p)
			if v, ok := b.GetValue(p); ok != eok || (ok && v != ev) {
				dev = fmt.Sprintf("GetValue(%x)=(%d,%v), sorted map (%d,%v)", p, v, ok, ev, eok)
				return
			}
		}
		all := append([]uint32{}, b.FindValuesByLike(nil, nil, func(_, _ []byte) bool { return true }, nil)...)
		sortU32(all)
		if !equalU32(all, or.values()) {
			dev = "full enumeration (like *) differs from the stored values"
			return
		}
		if n <= 200 {
			bm := roaring.New()
			for _, e := range or.sorted {
				bm.Add(e.v)
			}
			got := map[uint32]string{}
			b.CollectKVs(bm, got)
			for _, e := range or.sorted {
				if got[e.v] != string(e.k) {
					dev = fmt.Sprintf("CollectKVs: value %d has key %x, stored %x", e.v, got[e.v], e.k)
					return
				}
			}
		}
	})
	if pn {
		return "panic: " + what
	}
	return dev
}

func (k *keptDict) check() string {
	if k.b != nil {
		return lightBucket(k.b, k.or, k.probes)
	}
	return lightTrie(k.t, k.or, k.probes)
}

func histKeySet(rnd *rand.Rand) keySet {
	switch r := rnd.Intn(10); {
	case r < 6:
		return genKeySet(rnd, "", 300)
	case r < 9:
		return genKeySet(rnd, []string{"numbered", "names", "tagvalues", "small5", "ab", "long"}[rnd.Intn(6)], 1500)
	default:
		return genLargeKeySet(rnd, 1500+rnd.Intn(2500))
	}
}

func runHistoryCase(r *rec, rnd *rand.Rand, id string, steps int) {
	r.startCase(id, "history", map[string]interface{}{"steps": steps})
	b := trie.NewBuilder()
	var bucketBuf bytes.Buffer
	bb := model.NewTrieBucketBuilder([]int{3, 50, math.MaxInt16, math.MaxInt16}[rnd.Intn(4)], &bucketBuf)
	var kept []*keptDict
	var trail []string // the operations so far (witness)

	recheck := func(after string) {
		alive := kept[:0]
		for _, k := range kept {
			dev := k.check()
			r.eval(1)
			r.count("history_kept_dictionary_rechecks", 1)
			if dev == "" {
				alive = append(alive, k)
				continue
			}
			class := "C20/history/kept-" + k.kind + "-changed"
			r.viol(class, fmt.Sprintf("%s (%d keys), correct when handed out, deviates from its sorted map after %q: %s", k.name, k.or.n(), after, dev),
				map[string]interface{}{"case": id, "kept_dictionary": k.name, "kind": k.kind, "keys": k.or.witnessKeys(nil),
					"generator": k.ks.Kind, "deviation": dev, "after_operation": after, "operations": append([]string{}, trail...)})
			// reported once; not checked again
		}
		kept = alive
	}
	keep := func(k *keptDict) {
		// baseline: only dictionaries that are right when handed out are tracked (the other layers judge those)
		if dev := k.check(); dev != "" {
			r.count("history_dictionaries_wrong_at_handout", 1)
			return
		}
		kept = append(kept, k)
		r.count("history_dictionaries_kept_"+k.kind, 1)
	}

	for step := 0; step < steps; step++ {
		ks := histKeySet(rnd)
		or := newOracle(mkPairs(ks.Keys, genValues(rnd, len(ks.Keys))))
		if or.n() == 1 && len(or.sorted[0].k) == 0 {
			continue // Build({""}) panics (open finding), judged by the trie layer
		}
		probes := genProbes(rnd, ks, 40)
		r.nt("hist:" + or.setHash())
		countFeatures(r, or.features())
		keys := make([][]byte, or.n())
		vals := make([]uint32, or.n())
		for i, e := range or.sorted {
			keys[i] = append([]byte{}, e.k...)
			vals[i] = e.v
		}
		op := func(name string, fn func()) bool {
			trail = append(trail, fmt.Sprintf("step%d(%s,%d keys):%s", step, ks.Kind, or.n(), name))
			if pn, what := guard(fn); pn {
				r.viol("C20/history/panic-"+name, fmt.Sprintf("builder.%s in step %d panicked: %s", name, step, what), map[string]interface{}{"case": id, "operations": append([]string{}, trail...)})
				return false
			}
			r.count("history_builder_operations", 1)
			recheck(trail[len(trail)-1])
			return true
		}
		if !op("Reset", func() { b.Reset() }) || !op("Build", func() { b.Build(keys, vals) }) {
			b = trie.NewBuilder()
			continue
		}
		// MarshalSize / Write / Trie in a random order, some twice, Trie sometimes not at all
		ops := []string{"MarshalSize", "Write", "Trie"}
		for i := rnd.Intn(3); i > 0; i-- {
			ops = append(ops, ops[rnd.Intn(3)])
		}
		if rnd.Intn(5) == 0 {
			ops = []string{"MarshalSize", "Write"}
		}
		rnd.Shuffle(len(ops), func(i, j int) { ops[i], ops[j] = ops[j], ops[i] })
		nTrie, nWrite := 0, 0
		for _, o := range ops {
			switch o {
			case "MarshalSize":
				op("MarshalSize", func() { _ = b.MarshalSize() })
			case "Write":
				var buf bytes.Buffer
				if !op("Write", func() { _ = b.Write(&buf) }) {
					continue
				}
				nWrite++
				loaded := trie.NewTrie()
				data := buf.Bytes() // on purpose not copied: the loaded trie lives on these bytes
				if err := loaded.UnmarshalBinary(data); err != nil {
					r.viol("C20/trie/unmarshal-error", fmt.Sprintf("history step %d: %v", step, err), map[string]interface{}{"case": id, "operations": append([]string{}, trail...)})
					continue
				}
				keep(&keptDict{name: fmt.Sprintf("step%d/Write#%d->loaded", step, nWrite), kind: "loaded-trie", step: step, or: or, ks: ks, probes: probes, t: loaded})
			case "Trie":
				var t trie.SuccinctTrie
				if !op("Trie", func() { t = b.Trie() }) {
					continue
				}
				nTrie++
				keep(&keptDict{name: fmt.Sprintf("step%d/Trie#%d", step, nTrie), kind: "in-memory-trie", step: step, or: or, ks: ks, probes: probes, t: t})
			}
		}
		// the reused TrieBucketBuilder (one writer, one inner trie builder for all steps)
		if rnd.Intn(3) != 0 {
			start := bucketBuf.Len()
			bk := make([][]byte, len(keys))
			bv := append([]uint32{}, vals...)
			for i := range keys {
				bk[i] = append([]byte{}, keys[i]...)
			}
			rnd.Shuffle(len(bk), func(i, j int) { bk[i], bk[j] = bk[j], bk[i]; bv[i], bv[j] = bv[j], bv[i] })
			trail = append(trail, fmt.Sprintf("step%d:TrieBucketBuilder.Write", step))
			var werr error
			if pn, what := guard(func() { werr = bb.Write(bk, bv) }); pn || werr != nil {
				if !(pn && isBuildEmptyKeyPanic(what)) {
					r.viol("C20/history/bucket-builder-write", fmt.Sprintf("step %d: panic=%v %s err=%v", step, pn, what, werr), map[string]interface{}{"case": id, "operations": append([]string{}, trail...)})
				}
				bucketBuf.Truncate(start)
				bb = model.NewTrieBucketBuilder(math.MaxInt16, &bucketBuf)
			} else {
				recheck(trail[len(trail)-1])
				tb := model.NewTrieBucket()
				if err := tb.Unmarshal(bucketBuf.Bytes()[start:]); err == nil {
					keep(&keptDict{name: fmt.Sprintf("step%d/bucket", step), kind: "bucket", step: step, or: or, ks: ks, probes: probes, b: tb})
				} else {
					r.viol("C20/bucket/unmarshal-error", fmt.Sprintf("history step %d: %v", step, err), nil)
				}
			}
		}
		// let some kept buckets go back to the trie pool while others stay alive
		if len(kept) > 4 && rnd.Intn(2) == 0 {
			i := rnd.Intn(len(kept))
			if kept[i].b != nil {
				kept[i].b.Release()
				kept = append(kept[:i], kept[i+1:]...)
				recheck("TrieBucket.Release of another bucket")
			}
		}
		r.count("history_steps", 1)
	}
	r.count("histories", 1)
	r.sample(map[string]interface{}{"layer": "history", "steps": steps, "operations_head": trail[:minInt(len(trail), 12)]})
}

func minInt(a, b int) int {
	if a < b {
		return a
	}
	return b
}
