package main

import (
	"regexp"
	"sort"
	"strings"
)

// Reference semantics of lindb's tag conditions, as the language defines them (read from sql/grammar/SQL.g4,
// sql/base_stmt_parser.go, index/kv_store.go FindValuesByExpr/FindValuesByLike and query/operator/series_filtering.go,
// and confirmed by a probe through the real root -> leaf path):
//
//   - an atom speaks about series that HAVE the key; `=`/`in` compare the whole value;
//   - `like`: a `*` as first and/or last character of the pattern is a wildcard (suffix / prefix / contains match on
//     the remaining text); any other `*` is an ordinary character; a pattern without leading/trailing `*` is an exact
//     match; the empty pattern matches nothing (no series can have an empty value);
//   - `=~`: unanchored Go (RE2) regular expression search over the value;
//   - `!=`, `<>`, `not in`, `not like`, `!~`: series that have the key and do not match the positive atom;
//   - `and` / `or` have the same precedence and associate to the left; parentheses group.
//
// The oracle evaluates the predicate on every recorded tag map, nothing else.

// likeMatch implements the like semantics on one value.
func likeMatch(pattern, v string) bool {
	if pattern == "" {
		return false
	}
	pre := strings.HasPrefix(pattern, "*")
	suf := strings.HasSuffix(pattern, "*")
	switch {
	case pattern == "*":
		return true // both first and last character: everything with the key
	case pre && suf:
		return strings.Contains(v, pattern[1:len(pattern)-1])
	case pre:
		return strings.HasSuffix(v, pattern[1:])
	case suf:
		return strings.HasPrefix(v, pattern[:len(pattern)-1])
	default:
		return v == pattern
	}
}

type evaluator struct {
	regex map[string]*regexp.Regexp
	bad   map[string]bool
}

func newEvaluator() *evaluator {
	return &evaluator{regex: map[string]*regexp.Regexp{}, bad: map[string]bool{}}
}

// compile returns the compiled expression or nil when Go's regexp rejects it.
func (e *evaluator) compile(p string) *regexp.Regexp {
	if re, ok := e.regex[p]; ok {
		return re
	}
	if e.bad[p] {
		return nil
	}
	re, err := regexp.Compile(p)
	if err != nil {
		e.bad[p] = true
		return nil
	}
	e.regex[p] = re
	return re
}

// invalidRegex reports whether the condition holds a regular expression Go cannot compile (lindb answers such a
// query with the compile error).
func (e *evaluator) invalidRegex(c *chain) bool {
	for _, a := range c.atoms(nil) {
		if (a.Cmp == "=~" || a.Cmp == "!~") && e.compile(a.Vals[0]) == nil {
			return true
		}
	}
	return false
}

func (e *evaluator) atom(a *atom, tags map[string]string) bool {
	v, ok := tags[a.Key]
	if !ok {
		return false
	}
	pos := false
	switch a.Cmp {
	case "=", "!=":
		pos = v == a.Vals[0]
	case "in", "notin":
		for _, x := range a.Vals {
			if x == v {
				pos = true
				break
			}
		}
	case "like", "notlike":
		pos = likeMatch(a.Vals[0], v)
	case "=~", "!~":
		re := e.compile(a.Vals[0])
		pos = re != nil && re.MatchString(v)
	}
	switch a.Cmp {
	case "!=", "notin", "notlike", "!~":
		return !pos
	}
	return pos
}

func (e *evaluator) term(t *term, tags map[string]string) bool {
	if t.Atom != nil {
		return e.atom(t.Atom, tags)
	}
	return e.chain(t.Sub, tags)
}

// chain is a left fold: ((t0 op0 t1) op1 t2) ...
func (e *evaluator) chain(c *chain, tags map[string]string) bool {
	acc := e.term(c.Terms[0], tags)
	for i, op := range c.Ops {
		rhs := e.term(c.Terms[i+1], tags)
		if op == "and" {
			acc = acc && rhs
		} else {
			acc = acc || rhs
		}
	}
	return acc
}

// chainSQLPrecedence evaluates with SQL's usual precedence (and before or); only used to count how often the two
// readings differ on the data.
func (e *evaluator) chainSQLPrecedence(c *chain, tags map[string]string) bool {
	term := func(t *term) bool {
		if t.Atom != nil {
			return e.atom(t.Atom, tags)
		}
		return e.chainSQLPrecedence(t.Sub, tags)
	}
	or := false
	and := term(c.Terms[0])
	for i, op := range c.Ops {
		rhs := term(c.Terms[i+1])
		if op == "and" {
			and = and && rhs
		} else {
			or = or || and
			and = rhs
		}
	}
	return or || and
}

// selectSeries returns the series (of the queried metric, already restricted to those written) satisfying c; c == nil
// selects everything.
func (e *evaluator) selectSeries(c *chain, written []*seriesSpec) []*seriesSpec {
	var rs []*seriesSpec
	for _, s := range written {
		if c == nil || e.chain(c, s.Tags) {
			rs = append(rs, s)
		}
	}
	return rs
}

// group is one expected group: the values of the grouping keys and the sum of the weights of its series.
type group struct {
	Values []string
	Sum    float64
	N      int
}

const groupSep = "\x00\x01"

// project groups the selected series by keys; series lacking one of the keys are left out (lindb's definition:
// index.forwardIndex.GetGroupingContext intersects the selected series with the series of every grouping key).
func project(selected []*seriesSpec, keys []string) map[string]*group {
	out := map[string]*group{}
	for _, s := range selected {
		vals := make([]string, len(keys))
		ok := true
		for i, k := range keys {
			v, has := s.Tags[k]
			if !has {
				ok = false
				break
			}
			vals[i] = v
		}
		if !ok {
			continue
		}
		id := strings.Join(vals, groupSep)
		g := out[id]
		if g == nil {
			g = &group{Values: vals}
			out[id] = g
		}
		g.Sum += s.Weight
		g.N++
	}
	return out
}

func sortedKeys(m map[string]*group) []string {
	ks := make([]string, 0, len(m))
	for k := range m {
		ks = append(ks, k)
	}
	sort.Strings(ks)
	return ks
}
