package main

import (
	"context"
	"fmt"
	"path/filepath"
	"sync"
	"time"

	"github.com/lindb/lindb/internal/concurrent"
	"github.com/lindb/lindb/models"
	"github.com/lindb/lindb/verif/internal/node"
)

// parkPool wraps the database's grouping pool: the first task submitted while armed waits for release before it is
// handed to the real pool. The grouping stage of a leaf query is submitted there after the shard scan stage (series
// filtering + forwardIndex.GetGroupingContext) has completed.
type parkPool struct {
	inner   concurrent.Pool
	mu      sync.Mutex
	armed   bool
	parked  chan struct{}
	release chan struct{}
}

func (p *parkPool) Submit(ctx context.Context, task *concurrent.Task) {
	p.mu.Lock()
	hit := p.armed
	p.armed = false
	p.mu.Unlock()
	if hit {
		p.parked <- struct{}{}
		<-p.release
	}
	p.inner.Submit(ctx, task)
}
func (p *parkPool) Stopped() bool { return p.inner.Stopped() }
func (p *parkPool) Stop()         { p.inner.Stop() }

// runUnmapCase: a group-by query is held between its shard scan stage (which built the grouping context over the
// forward-index table files and closed the kv snapshot) and its grouping stage; meanwhile the forward family is
// compacted, so the files the grouping scanners point into become obsolete. The query must still answer right (the
// process must not die reading an unmapped file).
func runUnmapCase(idx int, dir, tier string, seed int64) *caseResult {
	res := &caseResult{Kind: "unmap", Index: idx}
	n, err := node.Open(node.Options{Dir: filepath.Join(dir, "n"), ShardIDs: []models.ShardID{0}})
	if err != nil {
		res.violation("C10/operation-failed", "unmap: open: "+err.Error(), nil)
		return res
	}
	cl := node.NewCluster(n, node.Layout{})
	cl.Grace = 10 * time.Second
	defer func() { cl.Close(); n.Close() }()
	now := time.Now().UnixMilli()
	t0 := now - now%3600_000 - 2*3600_000
	ts := t0 + 600_000
	var all []*seriesSpec
	write := func(prefix string, k int) error {
		var pts []node.Point
		for i := 0; i < k; i++ {
			s := &seriesSpec{Idx: len(all), Metric: "m", Weight: float64(len(all) + 1),
				Tags: map[string]string{"uid": fmt.Sprintf("%s%d", prefix, i), "host": fmt.Sprintf("h%d", i%3)}}
			all = append(all, s)
			pts = append(pts, pointOf(s, ts, s.Weight))
		}
		_, err := n.Write(pts)
		return err
	}
	for _, p := range []string{"a", "b", "c"} {
		fmt.Println("write + flush", p)
		if err := write(p, 2000); err != nil {
			res.violation("C10/operation-failed", "unmap: write: "+err.Error(), nil)
			return res
		}
		if err := n.FlushMeta(); err != nil {
			res.violation("C10/operation-failed", "unmap: flush: "+err.Error(), nil)
			return res
		}
		if err := n.FlushIndex(); err != nil {
			res.violation("C10/operation-failed", "unmap: flush: "+err.Error(), nil)
			return res
		}
	}
	ep := n.DB.ExecutorPool()
	pp := &parkPool{inner: ep.Grouping, armed: true, parked: make(chan struct{}, 1), release: make(chan struct{})}
	ep.Grouping = pp
	defer func() { ep.Grouping = pp.inner }()
	text := fmt.Sprintf("select f from m where time >= '%s' and time <= '%s' group by uid limit 100000", node.FormatTime(t0), node.FormatTime(t0+3599_000))
	done := make(chan *observation, 1)
	fmt.Println("query", text)
	go func() { done <- observe(cl.Query(text), []string{"uid"}) }()
	select {
	case <-pp.parked:
		fmt.Println("grouping stage parked after the shard scan stage; compacting the index families")
		res.count("grouping_stages_parked_after_the_shard_scan", 1)
	case o := <-done:
		res.count("grouping_stage_not_parked", 1)
		res.Notes = append(res.Notes, fmt.Sprintf("unmap: query finished without reaching the grouping pool (err=%q)", o.Err))
		return res
	case <-time.After(60 * time.Second):
		res.Notes = append(res.Notes, "watchdog: unmap: query neither parked nor finished")
		close(pp.release)
		return res
	}
	k := n.CompactStores("index")
	res.count("index_families_compacted_under_a_parked_grouping_stage", k)
	fmt.Println("compacted families:", k, "- releasing the grouping stage")
	close(pp.release)
	var o *observation
	select {
	case o = <-done:
	case <-time.After(120 * time.Second):
		res.Notes = append(res.Notes, "watchdog: unmap: query did not finish after release")
		return res
	}
	res.Evals++
	if o.Bad != "" {
		res.Notes = append(res.Notes, "watchdog: "+o.Bad)
		return res
	}
	exp := project(all, []string{"uid"})
	d := compare(exp, o)
	if o.Err != "" || !d.empty() {
		res.violation("C10/use-after-unmap/grouping-scan-after-compaction",
			fmt.Sprintf("unmap: the query held between shard scan and grouping while the forward family was compacted: error %q, missing %v, extra %v, wrong sum %v",
				o.Err, trunc(d.Missing, 5), trunc(d.Extra, 5), trunc(d.WrongSum, 3)), map[string]interface{}{"sql": text})
	} else {
		res.count("queries_right_after_compaction_under_a_parked_grouping_stage", 1)
		res.Nontrivial = append(res.Nontrivial, hashKey("unmap", idx))
	}
	return res
}
