package main

import (
	"fmt"
	"os"
	"testing"
	"time"

	"github.com/lindb/lindb/verif/internal/node"
)

func TestDbg(t *testing.T) {
	if os.Getenv("C10_PROBE") == "" {
		t.Skip()
	}
	dir, _ := os.MkdirTemp("", "c10probe")
	defer os.RemoveAll(dir)
	n, err := node.Open(node.Options{Dir: dir})
	if err != nil {
		t.Fatal(err)
	}
	now := time.Now().UnixMilli()
	t0 := now - now%3600_000 - 2*3600_000
	ts := t0 + 600_000
	w := func(metric, uid string, tags map[string]string) {
		tg := map[string]string{"uid": uid}
		for k, v := range tags {
			tg[k] = v
		}
		if _, err := n.Write([]node.Point{{Metric: metric, Tags: tg, Timestamp: ts, Fields: []node.Field{{Name: "f", Type: node.Sum, Value: 1}}}}); err != nil {
			t.Fatal(err)
		}
	}
	c := node.NewCluster(n, node.Layout{})
	defer func() { c.Close(); n.Close() }()
	tr := fmt.Sprintf("time >= '%s' and time <= '%s'", node.FormatTime(t0), node.FormatTime(t0+3599_000))
	q := func(label, cond string) {
		res := c.Query("select f from m where " + cond + " and " + tr + " group by uid limit 1000")
		ng := 0
		if res.ResultSet != nil {
			ng = len(res.ResultSet.Series)
		}
		fmt.Printf("%-30s %-40s err=%v groups=%d\n", label, cond, res.Err, ng)
	}
	w("m", "u0", map[string]string{"host": "a"})
	w("m2", "u0", map[string]string{"host": "a", "rack": "r"})
	q("mem", "rack='r'")
	q("mem", "host='zz' and rack='r'")
	q("mem", "host='a' or rack='r'")
	n.FlushMeta()
	n.FlushIndex()
	q("flushed", "rack='r'")
	q("flushed", "host='zz' and rack='r'")
	w("m", "u1", map[string]string{"host": "b"})
	w("m2", "u1", map[string]string{"host": "b", "rack": "r"})
	n.FlushMeta()
	n.FlushIndex()
	q("flushed2", "rack='r'")
	q("flushed2", "host='zz' and rack='r'")
	n.CompactStores("index")
	q("compacted idx", "rack='r'")
	q("compacted idx", "host='zz' and rack='r'")
	q("compacted idx", "host='a' or rack='r'")
	q("compacted idx", "host='a'")
	q("compacted idx", "host!='zz'")
}
