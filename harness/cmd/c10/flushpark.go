package main

import (
	"fmt"
	"math/rand"
	"path/filepath"
	"runtime"
	"sort"
	"strconv"
	"strings"
	"sync"
	"time"

	"github.com/lindb/lindb/models"
	"github.com/lindb/lindb/series/tag"
	"github.com/lindb/lindb/verif/internal/node"
	"github.com/lindb/lindb/verif/internal/seam"
)

// park cases: a running flush (the dictionaries of the metadata database, or the index database of the shard) is
// parked at each of its file-system steps in turn - before the new table file is created, between its writes, before
// its sync / close, before / inside the manifest commit - through the kv file seams, i.e. after some or all of its
// entries were handed to the kv flusher and before the store swaps to the new snapshot. While it is parked the
// harness looks values up the way queries and writers do (exact-match and in atoms for values that live in a table
// file, in the immutable store and in the mutable store; writes of series that carry values flushed earlier), then
// lets the flush finish. Nothing runs concurrently with a query, so the oracle is exact:
//
//	inside the window and after the flush completed every atom kind (=, in, !=, not in, like, not like, =~, !~), and/or
//	combinations and group-by over the values of that flush and of earlier flushes select exactly the series whose
//	tags satisfy the condition; a tag value keeps the one id it got when it was created (asked the way the write path
//	asks: MetricMetaDatabase.GenTagValueID) inside the window, after the flush, and after the next full flush; a new
//	series that carries a value of that flush is found together with the older series of that value.
//
// One case = one node, one round per park point (the list of steps is learned in a counting round of the same flush
// shape, so it follows the code instead of being written down here). A step at which the lookups cannot run (they
// need a lock the parked flush holds) is released after a pause and counted as blocked, never judged. A case stops
// after the first round in which something was wrong.

// flushGate is a seam.Interceptor that counts the file-system operations of one goroutine (the flush under
// observation) and parks it before operation number parkAt.
type flushGate struct {
	mu       sync.Mutex
	gid      int64
	parkKind string // park before the parkN-th (0-based) operation of this kind; "" = count only
	parkN    int
	seen     map[string]int
	ops      []string
	parked   chan string
	release  chan struct{}
	// fault cases (flushfault.go): the faultN-th (0-based) operation of kind faultKind fails once
	faultKind string
	faultN    int
	faultLate bool   // the operation is executed and its failure is reported afterwards (else it is not executed)
	fired     string // label of the operation that was made to fail
}

// parkPoint names one step of a flush: the n-th operation (0-based, counted over the whole flush) of a kind
// (verb + family + kind of file).
type parkPoint struct {
	kind string
	n    int
}

// parkPoints reduces the operation list of a flush to the steps worth parking at: for every run of operations of one
// kind the first one and one in the middle (the state before the last one differs from the state before the next
// run's first one by a single buffered write).
func parkPoints(ops []string) []parkPoint {
	var pts []parkPoint
	before := map[string]int{} // operations of the kind before the run
	for i := 0; i < len(ops); {
		j := i
		for j < len(ops) && ops[j] == ops[i] {
			j++
		}
		run := j - i
		pts = append(pts, parkPoint{ops[i], before[ops[i]]})
		if run >= 3 {
			pts = append(pts, parkPoint{ops[i], before[ops[i]] + run/2})
		}
		before[ops[i]] += run
		i = j
	}
	return pts
}

func curGID() int64 {
	var buf [64]byte
	s := string(buf[:runtime.Stack(buf[:], false)]) // "goroutine 123 [running]:..."
	s = strings.TrimPrefix(s, "goroutine ")
	if i := strings.IndexByte(s, ' '); i > 0 {
		id, _ := strconv.ParseInt(s[:i], 10, 64)
		return id
	}
	return -1
}

// opKind reduces an operation label (`sync /dir/.../tv/000003.sst`) to verb + family + kind of file.
func opKind(label string) string {
	parts := strings.Fields(label)
	if len(parts) < 2 {
		return label
	}
	p := parts[1]
	fam := filepath.Base(filepath.Dir(p))
	base := filepath.Base(p)
	switch {
	case strings.HasSuffix(base, ".sst"):
		base = "table"
	case strings.HasPrefix(base, "MANIFEST"):
		base = "manifest"
		fam = ""
	case strings.HasPrefix(base, "CURRENT"):
		base = "current"
		fam = ""
	default:
		fam = ""
	}
	if fam != "" {
		return parts[0] + " " + fam + "/" + base
	}
	return parts[0] + " " + base
}

func (g *flushGate) arm(pt parkPoint) {
	g.mu.Lock()
	g.gid = curGID()
	g.parkKind, g.parkN = pt.kind, pt.n
	g.faultKind, g.faultN, g.faultLate, g.fired = "", 0, false, ""
	g.ops = nil
	g.seen = map[string]int{}
	g.parked = make(chan string, 1)
	g.release = make(chan struct{})
	g.mu.Unlock()
}

func (g *flushGate) disarm() []string {
	g.mu.Lock()
	defer g.mu.Unlock()
	g.gid = 0
	return g.ops
}

func (g *flushGate) Do(label string, op func() error) error {
	g.mu.Lock()
	if g.gid == 0 || g.gid != curGID() {
		g.mu.Unlock()
		return op()
	}
	kind := opKind(label)
	g.ops = append(g.ops, kind)
	park := kind == g.parkKind && g.seen[kind] == g.parkN
	fault := g.faultKind != "" && kind == g.faultKind && g.seen[kind] == g.faultN && g.fired == ""
	late := g.faultLate
	if fault {
		g.fired = label
	}
	g.seen[kind]++
	parked, release := g.parked, g.release
	g.mu.Unlock()
	if fault {
		if late {
			_ = op()
		}
		return &injectedFault{label: label, late: late}
	}
	if park {
		parked <- kind
		<-release
	}
	return op()
}

type parkCase struct {
	res    *caseResult
	caseID string
	target string // "meta" | "index"
	n      *node.Node
	cl     *node.Cluster
	r      *rand.Rand
	ev     *evaluator
	t0, ts int64
	all    []*seriesSpec // every series whose write returned, all metrics
	ids    map[string]uint32
	idSeen map[string]string // where the id was learned
	log    []string
	round  int
	phase  string
	// value pools of the main metric
	flushedHosts []string // host values that live in a table file of the dictionary
	roundHosts   []string // host values of the running round (immutable while the flush is parked)
	dcs          []string
	uidSeq       int
	// fault cases: counter prefix and the (family, step kind) of the fault of the running round
	ctr      string
	faultTag string
}

// cn names a counter of the case family (park_... / fault_...).
func (p *parkCase) cn(name string) string {
	if p.ctr == "" {
		return "park_" + name
	}
	return p.ctr + "_" + name
}

const parkMetric = "pm"

func (p *parkCase) logf(format string, args ...interface{}) {
	s := fmt.Sprintf(format, args...)
	p.log = append(p.log, s)
	if len(p.log) > 300 {
		p.log = p.log[len(p.log)-200:]
	}
	fmt.Println(time.Now().Format("15:04:05.000"), p.caseID, s)
}

func (p *parkCase) class(what string) string {
	if p.faultTag != "" {
		return "C10/flush-fault/" + p.target + "/" + p.faultTag + "/" + what
	}
	return "C10/flush-parked/" + p.target + "/" + what
}

func (p *parkCase) write(metric string, tagSets ...map[string]string) bool {
	var pts []node.Point
	var specs []*seriesSpec
	for _, t := range tagSets {
		s := &seriesSpec{Idx: len(p.all) + len(specs), Metric: metric, Tags: t, Weight: float64(len(p.all) + len(specs) + 1)}
		specs = append(specs, s)
		pts = append(pts, pointOf(s, p.ts, s.Weight))
	}
	p.logf("write %d series of %s: %v", len(pts), metric, tagSets)
	if _, err := p.n.Write(pts); err != nil {
		p.res.violation("C10/operation-failed", fmt.Sprintf("%s: write: %v", p.caseID, err), nil)
		return false
	}
	p.all = append(p.all, specs...)
	return true
}

func (p *parkCase) written(metric string) []*seriesSpec {
	var rs []*seriesSpec
	for _, s := range p.all {
		if s.Metric == metric {
			rs = append(rs, s)
		}
	}
	return rs
}

// expect asks one query and compares with the predicate evaluated on every written series of the metric.
func (p *parkCase) expect(c *chain, group []string, what string) bool {
	return p.expectM(parkMetric, c, group, what)
}

// expectM is expect for any metric of the case.
func (p *parkCase) expectM(metric string, c *chain, group []string, what string) bool {
	written := p.written(metric)
	timeCond := fmt.Sprintf("time >= '%s' and time <= '%s'", node.FormatTime(p.t0), node.FormatTime(p.t0+3599_000))
	text := buildSQL(metric, c, group, timeCond, rand.New(rand.NewSource(int64(p.res.Evals))))
	o := observe(p.cl.Query(text), group)
	p.res.Evals++
	p.res.count(p.cn("queries."+p.phase), 1)
	if o.Bad != "" {
		p.res.Notes = append(p.res.Notes, "watchdog: "+o.Bad+" "+text)
		return true
	}
	sel := p.ev.selectSeries(c, written)
	exp := project(sel, group)
	if len(sel) > 0 && len(sel) < len(written) {
		p.res.Nontrivial = append(p.res.Nontrivial, hashKey(p.caseID, p.round, p.phase, text))
	}
	df := compare(exp, o)
	if o.Err != "" && len(exp) == 0 && strings.Contains(o.Err, "not found") {
		p.res.count(p.cn("queries_matching_the_oracle"), 1)
		return true
	}
	if o.Err == "" && df.empty() {
		p.res.count(p.cn("queries_matching_the_oracle"), 1)
		return true
	}
	tok := "all"
	if c != nil {
		as := c.atoms(nil)
		tok = cmpToken(as[0].Cmp)
		if len(as) > 1 {
			tok = "combination"
		}
	}
	if len(group) != 1 || group[0] != "uid" {
		tok = "groupby"
	}
	if metric != parkMetric {
		tok = "other-metric"
	}
	kind := df.kind()
	if o.Err != "" {
		kind = "error"
	}
	p.res.violation(p.class(p.phase+"/"+tok+"/"+kind),
		fmt.Sprintf("%s round %d (%s): %s: error %q, missing %v, extra %v, wrong sum %v: %s", p.caseID, p.round, p.phase, what, o.Err, trunc(df.Missing, 6), trunc(df.Extra, 6), trunc(df.WrongSum, 3), text),
		map[string]interface{}{"case": p.caseID, "round": p.round, "phase": p.phase, "sql": text, "error": o.Err, "missing": df.Missing, "extra": df.Extra, "wrong_sum": df.WrongSum, "steps": append([]string{}, p.log...)})
	return false
}

// tagKeyID resolves a tag key of the main metric through the real schema store.
func (p *parkCase) tagKeyID(key string) (tag.KeyID, bool) {
	meta := p.n.DB.MetaDB()
	mid, err := meta.GetMetricID(node.DefaultNamespace, parkMetric)
	if err != nil {
		return 0, false
	}
	schema, err := meta.GetSchema(mid)
	if err != nil || schema == nil {
		return 0, false
	}
	for _, tk := range schema.TagKeys {
		if tk.Key == key {
			return tk.ID, true
		}
	}
	return 0, false
}

// checkIDs asks the dictionary for the ids of written values the way the write path does (GenTagValueID of a value
// that exists returns its id) and compares with the id seen first.
func (p *parkCase) checkIDs(key string, values []string) {
	kid, ok := p.tagKeyID(key)
	if !ok {
		p.res.count(p.cn("tag_key_not_resolved"), 1)
		return
	}
	meta := p.n.DB.MetaDB()
	for _, v := range values {
		id, err := meta.GenTagValueID(kid, []byte(v))
		if err != nil {
			p.res.violation("C10/operation-failed", fmt.Sprintf("%s: GenTagValueID(%s=%s): %v", p.caseID, key, v, err), nil)
			continue
		}
		k := key + "\x00" + v
		p.res.Evals++
		old, seen := p.ids[k]
		where := fmt.Sprintf("round %d %s", p.round, p.phase)
		if !seen {
			p.ids[k] = id
			p.idSeen[k] = where
			continue
		}
		p.res.count(p.cn("tag_value_ids_compared."+p.phase), 1)
		if old != id {
			p.res.violation(p.class(p.phase+"/written-tag-value-got-a-second-id"),
				fmt.Sprintf("%s %s: the written tag value %s=%q had id %d (%s) and is given id %d now: the dictionary no longer finds it, series written from now on carry another identity of the same value",
					p.caseID, where, key, v, old, p.idSeen[k], id),
				map[string]interface{}{"case": p.caseID, "round": p.round, "phase": p.phase, "key": key, "value": v, "first_id": old, "first_seen": p.idSeen[k], "id_now": id, "steps": append([]string{}, p.log...)})
			p.ids[k] = id // report once per change
			p.idSeen[k] = where
		}
	}
}

func (p *parkCase) newUID() string {
	p.uidSeq++
	return fmt.Sprintf("u%04d", p.uidSeq)
}

func pickN(r *rand.Rand, s []string, n int) []string {
	if len(s) <= n {
		return append([]string{}, s...)
	}
	idx := r.Perm(len(s))[:n]
	sort.Ints(idx)
	out := make([]string, 0, n)
	for _, i := range idx {
		out = append(out, s[i])
	}
	return out
}

// lookups are the queries of one phase: exact-match atoms first (they are the ones that go through the dictionary's
// bucket cache), then the other atom kinds over the same values, combinations and a group-by.
func (p *parkCase) lookups(full bool) {
	old := pickN(p.r, p.flushedHosts, 2)
	cur := pickN(p.r, p.roundHosts, 2)
	if len(old) == 0 {
		old = cur
	}
	uid := []string{"uid"}
	p.expect(one("host", "=", old[0]), uid, "a value that lives in a table file of the dictionary")
	for _, v := range cur {
		p.expect(one("host", "=", v), uid, "a value of the flush under observation")
	}
	p.expect(one("host", "in", append(append([]string{"never-seen"}, cur...), old...)...), uid, "in-list over values of this flush and of earlier ones")
	p.expect(one("dc", "=", p.dcs[p.r.Intn(len(p.dcs))]), uid, "a value shared by every flush")
	p.expect(one("host", "!=", cur[0]), uid, "negation of a value of this flush")
	if !full {
		return
	}
	prefix := cur[0][:strings.IndexByte(cur[0], '-')+1] // "h<round>-"
	p.expect(one("host", "notin", cur[0], old[0]), uid, "not in over values of this flush and an earlier one")
	p.expect(one("host", "like", prefix+"*"), uid, "prefix like over the values of this flush")
	p.expect(one("host", "like", cur[len(cur)-1]), uid, "like without wildcard (an exact match)")
	p.expect(one("host", "notlike", prefix+"*"), uid, "not like over the values of this flush")
	p.expect(one("host", "=~", "^"+prefix), uid, "regex over the values of this flush")
	p.expect(one("host", "!~", "^"+prefix), uid, "negated regex over the values of this flush")
	p.expect(two(one("host", "=", cur[0]), "or", one("host", "=", old[0])), uid, "or of two exact matches")
	p.expect(two(one("host", "=", cur[0]), "and", one("dc", "=", p.dcs[0])), uid, "and of two exact matches")
	p.expect(two(one("host", "like", prefix+"*"), "and", one("host", "!=", cur[0])), uid, "like and negated exact match")
	p.expect(one("host", "in", cur...), []string{"host", "dc"}, "group by over the values of this flush")
	p.expect(nil, []string{"host", "uid"}, "group by host, uid over everything")
}

func runParkCase(idx int, dir, tier string, seed int64) *caseResult {
	res := &caseResult{Kind: "park", Index: idx}
	p := &parkCase{res: res, caseID: fmt.Sprintf("park-%d", idx), ev: newEvaluator(), ids: map[string]uint32{}, idSeen: map[string]string{},
		r: rand.New(rand.NewSource(seed*1_000_033 + int64(idx)*7919 + 5))}
	p.target = []string{"meta", "index"}[idx%2]
	// variant: what the other database does around the observed flush
	otherFlushed := (idx/2)%2 == 0
	now := time.Now().UnixMilli()
	p.t0 = now - now%3600_000 - 2*3600_000
	p.ts = p.t0 + 600_000
	// installed before the node opens, so that the manifest writers the stores create at open go through the gate too
	gate := &flushGate{}
	seam.InstallKV(gate, nil)
	defer seam.Restore()
	n, err := node.Open(node.Options{Dir: filepath.Join(dir, "n"), ShardIDs: []models.ShardID{0}})
	if err != nil {
		res.violation("C10/operation-failed", p.caseID+": open: "+err.Error(), nil)
		return res
	}
	p.n = n
	p.cl = node.NewCluster(n, node.Layout{})
	defer func() { p.cl.Close(); p.n.Close() }()
	shard, _ := n.Shard(0)
	idxDB, metaDB := shard.IndexDB(), n.DB.MetaDB()

	nDC := 2 + p.r.Intn(2)
	for i := 0; i < nDC; i++ {
		p.dcs = append(p.dcs, fmt.Sprintf("d%d", i))
	}
	batch := func(round int) []map[string]string {
		p.roundHosts = nil
		k := 3 + p.r.Intn(4)
		var ts []map[string]string
		for i := 0; i < k; i++ {
			h := fmt.Sprintf("h%d-%d", round, i)
			p.roundHosts = append(p.roundHosts, h)
			t := map[string]string{"uid": p.newUID(), "host": h, "dc": p.dcs[p.r.Intn(len(p.dcs))]}
			if p.r.Intn(3) == 0 {
				t["opt"] = fmt.Sprintf("o%d", p.r.Intn(3))
			}
			ts = append(ts, t)
		}
		// series that share host values with earlier rounds (values that live in table files)
		for _, h := range pickN(p.r, p.flushedHosts, 2) {
			ts = append(ts, map[string]string{"uid": p.newUID(), "host": h, "dc": p.dcs[p.r.Intn(len(p.dcs))]})
		}
		return ts
	}
	fullFlush := func() bool {
		if err := n.FlushMeta(); err != nil {
			res.violation("C10/operation-failed", p.caseID+": flush meta: "+err.Error(), nil)
			return false
		}
		if err := n.FlushIndex(); err != nil {
			res.violation("C10/operation-failed", p.caseID+": flush index: "+err.Error(), nil)
			return false
		}
		return true
	}
	// round 0: every bucket / posting list gets a table file
	p.phase = "setup"
	if !p.write(parkMetric, batch(0)...) || !fullFlush() {
		return res
	}
	p.flushedHosts = append(p.flushedHosts, p.roundHosts...)
	p.checkIDs("host", p.flushedHosts)
	p.checkIDs("dc", p.dcs)

	var points []parkPoint // the steps of the observed flush, learned in the counting round
	var stepKinds []string
	learned := false
	blockedKinds := map[string]bool{}
	maxRounds := 80
	next := 0 // next park point
	for p.round = 1; p.round <= maxRounds; p.round++ {
		var pt parkPoint
		if learned {
			for next < len(points) && blockedKinds[points[next].kind] {
				res.count("park_points_skipped_lookups_blocked_at_this_kind_of_step", 1)
				next++
			}
			if next >= len(points) {
				break
			}
			pt = points[next]
			next++
		}
		violationsBefore := len(res.Violations)
		p.phase = "before"
		// a second metric gets a new series too, so that the metric / schema dictionaries take part in the flush
		if !p.write(parkMetric, batch(p.round)...) || !p.write(fmt.Sprintf("side%d", p.round), map[string]string{"uid": p.newUID(), "host": p.roundHosts[0]}) {
			return res
		}
		p.checkIDs("host", p.roundHosts)
		var flush func() error
		if p.target == "meta" {
			if otherFlushed {
				if err := n.FlushIndex(); err != nil {
					res.violation("C10/operation-failed", p.caseID+": flush index: "+err.Error(), nil)
					return res
				}
			}
			p.logf("meta PrepareFlush")
			metaDB.PrepareFlush()
			flush = metaDB.Flush
		} else {
			if otherFlushed {
				if err := n.FlushMeta(); err != nil {
					res.violation("C10/operation-failed", p.caseID+": flush meta: "+err.Error(), nil)
					return res
				}
			}
			p.logf("index PrepareFlush")
			idxDB.PrepareFlush()
			flush = idxDB.Flush
		}
		flushed := make(chan error, 1)
		armed := make(chan struct{})
		go func() {
			gate.arm(pt)
			close(armed)
			flushed <- flush()
		}()
		<-armed
		if !learned {
			// counting round
			if err := <-flushed; err != nil {
				res.violation("C10/operation-failed", p.caseID+": flush: "+err.Error(), nil)
				return res
			}
			stepKinds = gate.disarm()
			learned = true
			points = parkPoints(stepKinds)
			p.logf("the %s flush has %d file-system steps, %d park points: %v", p.target, len(stepKinds), len(points), points)
			res.count("park_flush_steps_learned", len(stepKinds))
			res.count("park_points_learned", len(points))
			if len(points) == 0 {
				res.Notes = append(res.Notes, "note: the observed flush ran no file-system operation on its own goroutine")
				break
			}
		} else {
			select {
			case at := <-gate.parked:
				p.logf("%s flush parked before operation %d of kind %q", p.target, pt.n, at)
				res.count("park_flushes_parked", 1)
				// inside the window
				p.phase = "during"
				done := make(chan struct{})
				go func() {
					defer close(done)
					p.lookups(false)
					// writers of values that live in table files / in the immutable store, while the flush is parked
					p.write(parkMetric,
						map[string]string{"uid": p.newUID(), "host": p.flushedHosts[p.r.Intn(len(p.flushedHosts))], "dc": p.dcs[0]},
						map[string]string{"uid": p.newUID(), "host": p.roundHosts[0], "dc": p.dcs[len(p.dcs)-1]})
					p.checkIDs("host", pickN(p.r, p.flushedHosts, 3))
					p.checkIDs("host", p.roundHosts)
					p.checkIDs("dc", p.dcs)
					p.expect(one("host", "=", p.roundHosts[0]), []string{"uid"}, "a value of the flush under observation, after a writer used it")
				}()
				inside := false
				select {
				case <-done:
					inside = true
				case <-time.After(6 * time.Second):
					// pacing only: the lookups wait for something the parked flush holds
				}
				close(gate.release)
				<-done
				if inside {
					res.count("park_lookups_and_writes_completed_inside_a_parked_flush", 1)
					res.count("park_inside."+strings.ReplaceAll(at, " ", "_"), 1)
				} else {
					blockedKinds[at] = true
					res.count("park_lookups_blocked_by_the_parked_flush."+strings.ReplaceAll(at, " ", "_"), 1)
				}
			case err := <-flushed:
				// the flush had fewer steps this time
				flushed <- err
				res.count("park_point_not_reached", 1)
			case <-time.After(60 * time.Second):
				res.Notes = append(res.Notes, fmt.Sprintf("watchdog: %s: flush neither parked at %v nor finished", p.caseID, pt))
				return res
			}
			select {
			case err := <-flushed:
				if err != nil {
					res.violation("C10/operation-failed", p.caseID+": flush: "+err.Error(), nil)
					return res
				}
			case <-time.After(60 * time.Second):
				res.Notes = append(res.Notes, fmt.Sprintf("watchdog: %s: flush did not finish after release", p.caseID))
				return res
			}
			gate.disarm()
		}
		// after the flush completed
		p.phase = "after"
		p.logf("flush completed")
		p.lookups(true)
		p.checkIDs("host", p.roundHosts)
		p.checkIDs("host", pickN(p.r, p.flushedHosts, 3))
		p.checkIDs("dc", p.dcs)
		// a new series that carries a value of this flush: found together with the older series of the value
		p.phase = "after-rewrite"
		v := p.roundHosts[p.r.Intn(len(p.roundHosts))]
		if !p.write(parkMetric, map[string]string{"uid": p.newUID(), "host": v, "dc": p.dcs[0]}) {
			return res
		}
		p.expect(one("host", "=", v), []string{"uid"}, "a value of the completed flush after a new series with the same value was written")
		p.expect(two(one("host", "=", v), "and", one("dc", "=", p.dcs[0])), []string{"uid"}, "the same with a second exact match")
		p.flushedHosts = append(p.flushedHosts, p.roundHosts...)
		if p.round%4 == 0 {
			// everything to disk; the identities must survive
			p.phase = "after-full-flush"
			if !fullFlush() {
				return res
			}
			p.expect(one("host", "=", v), []string{"uid"}, "a value of an observed flush after the next full flush")
			p.checkIDs("host", pickN(p.r, p.flushedHosts, 6))
		}
		writeResult(dir, res) // what was seen so far survives a death of the child in a later round
		if len(res.Violations) > violationsBefore {
			// the dictionary / index is inconsistent from here on: further rounds would only restate it at other phases
			res.count("park_cases_stopped_after_the_first_violating_round", 1)
			p.round++
			break
		}
	}
	// final: everything flushed, every host value asked once
	p.phase = "final"
	if len(res.Violations) == 0 && fullFlush() {
		p.checkIDs("host", p.flushedHosts)
		for _, v := range pickN(p.r, p.flushedHosts, 12) {
			p.expect(one("host", "=", v), []string{"uid"}, "exact match after the last full flush")
		}
		p.expect(nil, []string{"host", "uid"}, "group by host, uid over everything after the last full flush")
	}
	res.count("park_rounds", p.round-1)
	res.count("park_cases."+p.target, 1)
	if idx < 2 {
		res.Sample = map[string]interface{}{"case": p.caseID, "target": p.target, "flush_steps": stepKinds, "series": len(p.all)}
	}
	return res
}
