package main

import (
	"fmt"
	"math/rand"
	"path/filepath"
	"strings"
	"time"

	"github.com/lindb/lindb/models"
	"github.com/lindb/lindb/verif/internal/node"
	"github.com/lindb/lindb/verif/internal/seam"
)

// fault cases: one file-system step of a running flush (the dictionaries of the metadata database, or the index
// database of the shard) FAILS once - an I/O error, not a crash: the node keeps running and Flush returns its error.
// The steps are the ones the park cases use (learned from a counting round of the same flush through the kv / kv-version
// / kv-table seams, plus the sync of the id sequence file): table file create / write / close and manifest write / sync
// of every family the flush touches (meta: ns, metric, schema, tv + sequence; index: metric, forward, inverted,
// series). One round per step:
//
//	write new series (new tag values, values of earlier flushes, a second metric, a new namespace) -> PrepareFlush ->
//	Flush with the n-th operation of a kind failing -> queries -> new series that carry values of the failed flush,
//	values of earlier flushes and new values -> queries -> one or two further PrepareFlush + Flush cycles that succeed
//	(called directly or through the production flush job), with writes between them -> queries after each -> now and then
//	a compaction of the store's families -> queries.
//
// Nothing runs concurrently with a query, so the oracle is exact at every one of these points: every atom kind
// (=, in, !=, not in, like, not like, =~, !~), and/or combinations and group-by select exactly the series whose tags
// satisfy the condition - over series written before the failed flush, between the failed flush and the next cycle,
// and after it; a written tag value keeps the id it got when it was created (MetricMetaDatabase.GenTagValueID, the
// way the write path asks). A failed flush may lose nothing that a query can see: what it could not make durable
// stays readable in memory until a later cycle has written it.
//
// The failing operation is either not executed at all ("skip": e.g. ENOSPC at create / write, EIO before the close) or,
// for the close of a table file, executed with the failure reported afterwards ("late": the error a close / fsync
// reports although the bytes reached the file). A case stops after the first round in which something was wrong (the
// state is damaged from there on); the cases of one target start at different steps, so that one damaged step does
// not hide the others.

type injectedFault struct {
	label string
	late  bool
}

func (e *injectedFault) Error() string {
	if e.late {
		return "verif: injected i/o error reported by " + e.label
	}
	return "verif: injected i/o error at " + e.label
}

// faultPoint is one step of a flush that is made to fail.
type faultPoint struct {
	parkPoint
	family string // kv family whose commit the step belongs to (manifest operations: the family of the table file written before)
	step   string // table-create | table-write | table-close | manifest-write | manifest-sync | sync ...
}

func (f faultPoint) tag() string { return f.family + "/" + f.step }

// commit reports whether the step belongs to the commit of the new table file (flusher.Close: table file close, edit log).
func (f faultPoint) commit() bool {
	return f.step == "table-close" || strings.HasPrefix(f.step, "manifest-")
}

// faultPoints reduces the operation list of a flush to the steps that are made to fail: like parkPoints, the first
// operation of every run of one kind and one in the middle of a long run.
func faultPoints(ops []string) []faultPoint {
	var pts []faultPoint
	before := map[string]int{}
	fam := "none"
	for i := 0; i < len(ops); {
		j := i
		for j < len(ops) && ops[j] == ops[i] {
			j++
		}
		run := j - i
		kind := ops[i]
		verb, rest := kind, ""
		if sp := strings.IndexByte(kind, ' '); sp > 0 {
			verb, rest = kind[:sp], kind[sp+1:]
		}
		step := ""
		f := fam
		switch {
		case strings.HasSuffix(rest, "/table"):
			fam = strings.TrimSuffix(rest, "/table")
			f = fam
			step = "table-" + verb
		case rest == "manifest" || rest == "current":
			step = rest + "-" + verb
		case kind == "seqsync":
			f, step = "sequence", "sync"
		default:
			step = classToken(kind)
		}
		pts = append(pts, faultPoint{parkPoint{kind, before[kind]}, f, step})
		if run >= 3 {
			pts = append(pts, faultPoint{parkPoint{kind, before[kind] + run/2}, f, step})
		}
		before[kind] += run
		i = j
	}
	return pts
}

func (g *flushGate) armFault(pt parkPoint, late bool) {
	g.arm(parkPoint{})
	g.mu.Lock()
	g.parkKind = ""
	g.faultKind, g.faultN, g.faultLate = pt.kind, pt.n, late
	g.mu.Unlock()
}

func (g *flushGate) firedLabel() string {
	g.mu.Lock()
	defer g.mu.Unlock()
	return g.fired
}

func ctrKey(kind string) string { return strings.ReplaceAll(kind, " ", "_") }

func runFaultCase(idx int, dir, tier string, seed int64) *caseResult {
	res := &caseResult{Kind: "fault", Index: idx}
	p := &parkCase{res: res, caseID: fmt.Sprintf("fault-%d", idx), ev: newEvaluator(), ids: map[string]uint32{}, idSeen: map[string]string{},
		r: rand.New(rand.NewSource(seed*1_000_081 + int64(idx)*6151 + 11)), ctr: "fault", faultTag: "none/no-fault"}
	p.target = []string{"index", "meta"}[idx%2]
	variant := idx / 2
	otherFlushed := variant%2 == 0 // the other database is flushed before the observed flush is prepared
	now := time.Now().UnixMilli()
	p.t0 = now - now%3600_000 - 2*3600_000
	p.ts = p.t0 + 600_000
	gate := &flushGate{}
	seam.InstallKV(gate, nil)
	seam.InstallIndexSequence(gate)
	defer seam.Restore()
	n, err := node.Open(node.Options{Dir: filepath.Join(dir, "n"), ShardIDs: []models.ShardID{0}})
	if err != nil {
		res.violation("C10/operation-failed", p.caseID+": open: "+err.Error(), nil)
		return res
	}
	p.n = n
	p.cl = node.NewCluster(n, node.Layout{})
	defer func() { p.cl.Close(); p.n.Close() }()
	shard, _ := n.Shard(0)
	idxDB, metaDB := shard.IndexDB(), n.DB.MetaDB()

	nDC := 2 + p.r.Intn(2)
	for i := 0; i < nDC; i++ {
		p.dcs = append(p.dcs, fmt.Sprintf("d%d", i))
	}
	dc := func() string { return p.dcs[p.r.Intn(len(p.dcs))] }
	batch := func(round int) []map[string]string {
		p.roundHosts = nil
		k := 3 + p.r.Intn(4)
		var ts []map[string]string
		for i := 0; i < k; i++ {
			h := fmt.Sprintf("h%d-%d", round, i)
			p.roundHosts = append(p.roundHosts, h)
			t := map[string]string{"uid": p.newUID(), "host": h, "dc": dc()}
			if p.r.Intn(3) == 0 {
				t["opt"] = fmt.Sprintf("o%d", p.r.Intn(3))
			}
			ts = append(ts, t)
		}
		for _, h := range pickN(p.r, p.flushedHosts, 2) {
			ts = append(ts, map[string]string{"uid": p.newUID(), "host": h, "dc": dc()})
		}
		return ts
	}
	var sides []string // metrics of the default namespace other than the main one
	// writeRound writes the batch of a round, a series of a new metric and a series of a new namespace (so that the
	// ns / metric / schema dictionaries and the metric -> series index take part in the flush).
	writeRound := func(round int) bool {
		side := fmt.Sprintf("side%d", round)
		if !p.write(parkMetric, batch(round)...) || !p.write(side, map[string]string{"uid": p.newUID(), "host": p.roundHosts[0]}) {
			return false
		}
		sides = append(sides, side)
		pt := node.Point{Namespace: fmt.Sprintf("ns%d", round), Metric: "nm", Tags: map[string]string{"uid": p.newUID(), "host": p.roundHosts[0]},
			Timestamp: p.ts, Fields: []node.Field{{Name: "f", Type: node.Sum, Value: 1}}}
		if _, err := p.n.Write([]node.Point{pt}); err != nil {
			res.violation("C10/operation-failed", fmt.Sprintf("%s: write into namespace %s: %v", p.caseID, pt.Namespace, err), nil)
			return false
		}
		return true
	}
	prepare := func() {
		if p.target == "meta" {
			metaDB.PrepareFlush()
		} else {
			idxDB.PrepareFlush()
		}
	}
	flushTarget := func() error {
		if p.target == "meta" {
			return metaDB.Flush()
		}
		return idxDB.Flush()
	}
	flushOther := func() error {
		if p.target == "meta" {
			return n.FlushIndex()
		}
		return n.FlushMeta()
	}
	// cycle is one complete flush cycle of the observed database without a fault: called directly, or through the
	// production flush job (Database.FlushMeta / Shard.FlushIndex)
	cycle := func(production bool) error {
		if production {
			p.logf("%s flush cycle through the production flush job", p.target)
			if p.target == "meta" {
				return n.FlushMeta()
			}
			return n.FlushIndex()
		}
		p.logf("%s PrepareFlush + Flush", p.target)
		prepare()
		return flushTarget()
	}
	fullFlush := func() bool {
		if err := n.FlushMeta(); err != nil {
			res.violation("C10/operation-failed", p.caseID+": flush meta: "+err.Error(), nil)
			return false
		}
		if err := n.FlushIndex(); err != nil {
			res.violation("C10/operation-failed", p.caseID+": flush index: "+err.Error(), nil)
			return false
		}
		return true
	}
	var gHosts []string // values created between a failed flush and the next cycle
	// extra are the lookups over what the round wrote after the failed flush, and over the other metrics
	extra := func() {
		uid := []string{"uid"}
		if len(gHosts) > 0 {
			g := gHosts[len(gHosts)-1]
			prefix := g[:strings.IndexByte(g, '-')+1]
			p.expect(one("host", "=", g), uid, "a value created after the failed flush")
			p.expect(one("host", "in", g, p.roundHosts[0], p.flushedHosts[0]), uid, "in-list over a value created after the failed flush, one of the failed flush and a flushed one")
			p.expect(one("host", "like", prefix+"*"), uid, "prefix like over the values created after the failed flush")
			p.expect(one("host", "!=", g), uid, "negation of a value created after the failed flush")
		}
		p.expect(one("host", "=", p.roundHosts[0]), uid, "a value of the failed flush that series written after it carry too")
		p.expect(two(one("host", "in", p.roundHosts...), "and", one("dc", "!=", p.dcs[0])), uid, "values of the failed flush and a negated exact match")
		if len(sides) > 0 {
			side := sides[len(sides)-1]
			p.expectM(side, nil, uid, "the metric created in the round of the failed flush")
			p.expectM(side, one("host", "=", p.roundHosts[0]), uid, "the same metric, exact match on its tag")
			if len(sides) > 1 {
				p.expectM(sides[p.r.Intn(len(sides)-1)], nil, uid, "a metric created in an earlier round")
			}
		}
	}
	ids := func() {
		p.checkIDs("host", p.roundHosts)
		p.checkIDs("host", gHosts)
		p.checkIDs("host", pickN(p.r, p.flushedHosts, 3))
		p.checkIDs("dc", p.dcs)
	}

	// round 0: every bucket / posting list gets a table file
	p.phase = "setup"
	if !writeRound(0) || !fullFlush() {
		return res
	}
	p.flushedHosts = append(p.flushedHosts, p.roundHosts...)
	p.checkIDs("host", p.flushedHosts)
	p.checkIDs("dc", p.dcs)

	// counting round: the steps of the observed flush
	p.round = 1
	p.phase = "before"
	if !writeRound(1) {
		return res
	}
	if otherFlushed {
		if err := flushOther(); err != nil {
			res.violation("C10/operation-failed", p.caseID+": flush of the other database: "+err.Error(), nil)
			return res
		}
	}
	prepare()
	gate.arm(parkPoint{})
	err = flushTarget()
	stepKinds := gate.disarm()
	if err != nil {
		res.violation("C10/operation-failed", p.caseID+": flush: "+err.Error(), nil)
		return res
	}
	points := faultPoints(stepKinds)
	p.logf("the %s flush has %d file-system steps, %d fault points: %v", p.target, len(stepKinds), len(points), points)
	res.count("fault_flush_steps_learned", len(stepKinds))
	res.count("fault_points_learned", len(points))
	p.phase = "after"
	p.lookups(true)
	ids()
	p.flushedHosts = append(p.flushedHosts, p.roundHosts...)
	if len(points) == 0 {
		res.Notes = append(res.Notes, "note: the observed flush ran no file-system operation on its own goroutine")
		return res
	}
	// the cases of one target start at different steps
	if off := (variant % 3) * len(points) / 3; off > 0 {
		points = append(append([]faultPoint{}, points[off:]...), points[:off]...)
	}

	violationsBefore := 0
	bad := func() bool { return len(res.Violations) > violationsBefore }
	// runRound returns false when the case cannot go on
	runRound := func(pt faultPoint) bool {
		p.round++
		violationsBefore = len(res.Violations)
		p.faultTag = "none/no-fault"
		p.phase = "before"
		gHosts = nil
		if !writeRound(p.round) {
			return false
		}
		p.checkIDs("host", p.roundHosts)
		if otherFlushed {
			if err := flushOther(); err != nil {
				res.violation("C10/operation-failed", p.caseID+": flush of the other database: "+err.Error(), nil)
				return false
			}
		}
		late := pt.step == "table-close" && p.r.Intn(2) == 0
		mode := "skip"
		if late {
			mode = "late"
		}
		p.logf("%s PrepareFlush, then Flush with operation %d of kind %q failing (%s)", p.target, pt.n, pt.kind, mode)
		prepare()
		gate.armFault(pt.parkPoint, late)
		ferr := flushTarget()
		fired := gate.firedLabel()
		gate.disarm()
		if fired == "" {
			// the flush had fewer steps this time: an ordinary round
			res.count("fault_point_not_reached", 1)
			if ferr != nil {
				res.violation("C10/operation-failed", p.caseID+": flush without a fault: "+ferr.Error(), nil)
				return false
			}
		} else {
			p.faultTag = pt.tag()
			res.count("fault_injected."+ctrKey(pt.kind), 1)
			res.count("fault_injected_mode."+mode, 1)
			if pt.commit() {
				res.count("fault_injected_at_the_commit_of."+p.target+"/"+pt.family, 1)
			}
			if ferr != nil {
				p.logf("Flush returned: %v", ferr)
				res.count("fault_flushes_that_returned_an_error", 1)
				res.count("fault_flush_error."+ctrKey(pt.kind), 1)
			} else {
				p.logf("Flush returned no error although %s failed", fired)
				res.count("fault_flushes_that_returned_no_error."+ctrKey(pt.kind), 1)
			}
		}
		// after the failed flush
		p.phase = "failed"
		p.lookups(true)
		extra()
		ids()
		if bad() {
			return true
		}
		// new series: a value of the failed flush, a flushed value, a new value
		p.phase = "failed-write"
		g := fmt.Sprintf("g%d-0", p.round)
		if !p.write(parkMetric,
			map[string]string{"uid": p.newUID(), "host": p.roundHosts[p.r.Intn(len(p.roundHosts))], "dc": dc()},
			map[string]string{"uid": p.newUID(), "host": p.roundHosts[0], "dc": p.dcs[0]},
			map[string]string{"uid": p.newUID(), "host": p.flushedHosts[p.r.Intn(len(p.flushedHosts))], "dc": dc()},
			map[string]string{"uid": p.newUID(), "host": g, "dc": dc(), "opt": "og"}) {
			return false
		}
		gHosts = append(gHosts, g)
		p.lookups(false)
		extra()
		ids()
		if bad() {
			return true
		}
		// further cycles succeed
		cycles := 1 + p.r.Intn(2)
		for cy := 1; cy <= cycles; cy++ {
			production := p.r.Intn(2) == 0
			if err := cycle(production); err != nil {
				p.phase = fmt.Sprintf("retry%d", cy)
				res.violation(p.class(p.phase+"/flush-fails-again-without-a-fault"),
					fmt.Sprintf("%s round %d: flush cycle %d after the failed flush (%s) returned %v although no operation was made to fail", p.caseID, p.round, cy, fired, err),
					map[string]interface{}{"case": p.caseID, "round": p.round, "error": err.Error(), "steps": append([]string{}, p.log...)})
				break
			}
			if fired != "" {
				res.count("fault_successful_cycles_after_a_failed_flush", 1)
			}
			p.phase = fmt.Sprintf("retry%d", cy)
			p.lookups(cy == cycles)
			extra()
			ids()
			if bad() {
				return true
			}
			if cy < cycles {
				p.phase = fmt.Sprintf("retry%d-write", cy)
				g := fmt.Sprintf("g%d-%d", p.round, cy)
				if !p.write(parkMetric,
					map[string]string{"uid": p.newUID(), "host": p.roundHosts[len(p.roundHosts)-1], "dc": dc()},
					map[string]string{"uid": p.newUID(), "host": gHosts[0], "dc": dc()},
					map[string]string{"uid": p.newUID(), "host": g, "dc": dc()}) {
					return false
				}
				gHosts = append(gHosts, g)
				p.lookups(false)
				extra()
				if bad() {
					return true
				}
			}
		}
		if !bad() && p.r.Intn(3) == 0 {
			kind := p.target
			k := n.CompactStores(kind)
			p.logf("compacted the %s families (%d with 2+ files)", kind, k)
			res.count("fault_"+kind+"_families_compacted_with_2+_files", k)
			p.phase = "compacted"
			p.lookups(true)
			extra()
			ids()
		}
		p.flushedHosts = append(p.flushedHosts, p.roundHosts...)
		p.flushedHosts = append(p.flushedHosts, gHosts...)
		if p.round%5 == 0 && !bad() {
			p.phase = "full-flush"
			if !fullFlush() {
				return false
			}
			p.lookups(false)
			p.checkIDs("host", pickN(p.r, p.flushedHosts, 6))
		}
		return true
	}
	for _, pt := range points {
		ok := runRound(pt)
		writeResult(dir, res)
		if bad() {
			// the index / dictionary is damaged from here on: later phases and rounds would only restate it
			res.count("fault_cases_stopped_after_the_first_violating_phase", 1)
			break
		}
		if !ok {
			return res
		}
	}
	// final: everything flushed and compacted, every host value asked once
	if len(res.Violations) == 0 {
		p.faultTag = "none/final"
		p.phase = "final"
		if fullFlush() {
			n.CompactStores("index")
			n.CompactStores("meta")
			p.checkIDs("host", p.flushedHosts)
			for _, v := range pickN(p.r, p.flushedHosts, 16) {
				p.expect(one("host", "=", v), []string{"uid"}, "exact match after the last full flush and compaction")
			}
			p.expect(nil, []string{"host", "uid"}, "group by host, uid over everything after the last full flush and compaction")
			for _, s := range pickN(p.r, sides, 4) {
				p.expectM(s, nil, []string{"uid"}, "a metric of an earlier round after the last full flush and compaction")
			}
		}
	}
	res.count("fault_rounds", p.round-1)
	res.count("fault_cases."+p.target, 1)
	if idx < 2 {
		res.Sample = map[string]interface{}{"case": p.caseID, "target": p.target, "flush_steps": stepKinds, "fault_points": len(points), "series": len(p.all)}
	}
	return res
}
