package main

// Minimal reproductions of the C10 findings, one test each. They FAIL on a tree that has the defect and PASS once it is
// repaired (the expectation is brute-force evaluation of the predicate, not current behaviour). Skipped unless C10_REPRO=1:
//
//	cd /verif/harness && C10_REPRO=1 LOG_LEVEL=fatal TZ=UTC GOFLAGS=-mod=mod GOPROXY=off GOSUMDB=off GOTOOLCHAIN=local \
//	  go test -tags verif -count=1 -v -run 'TestRepro' ./cmd/c10/
//
// LikeSingleStar, AtomsWithEqualRewrite, FlushWindows and ForwardReaderThirdContainer were repaired in /repo by 6bd5028,
// 8fede1a, 66e42e1 and f8370a5 and pass now; GroupByValueWithComma is still open. The node crash (use-after-unmap) is reproduced by
// `LOG_LEVEL=fatal TZ=UTC bin/c10 case unmap 0 <empty dir> quick` (the process dies with SIGSEGV).

import (
	"bytes"
	"fmt"
	"os"
	"testing"

	"github.com/lindb/roaring"

	v1 "github.com/lindb/lindb/index/v1"
	"github.com/lindb/lindb/pkg/encoding"
)

func reproDir(t *testing.T) (*caseResult, string) {
	if os.Getenv("C10_REPRO") == "" {
		t.Skip("set C10_REPRO=1")
	}
	dir, err := os.MkdirTemp("", "c10repro")
	if err != nil {
		t.Fatal(err)
	}
	t.Cleanup(func() { os.RemoveAll(dir) })
	return &caseResult{}, dir
}

func failOn(t *testing.T, res *caseResult, classes ...string) {
	for _, v := range res.Violations {
		for _, c := range classes {
			if v.Class == c {
				t.Errorf("%s: %s", v.Class, v.Message)
			}
		}
	}
}

func reproData(d *directed) {
	d.write("m",
		map[string]string{"uid": "u0", "host": "a", "dc": "x"},
		map[string]string{"uid": "u1", "host": "ab", "dc": "x,y"},
		map[string]string{"uid": "u2", "host": "~b", "dc": "x"},
		map[string]string{"uid": "u3", "host": "b"},
		map[string]string{"uid": "u4", "dc": "y"},
	)
	d.write("other", map[string]string{"uid": "u0", "rack": "r1"})
}

// `where host like '*'` panics in indexKVStore.FindValuesByLike (likeSlice[1:0]).
func TestReproLikeSingleStar(t *testing.T) {
	res, dir := reproDir(t)
	d, err := newDirected(res, dir, "like-star")
	if err != nil {
		t.Fatal(err)
	}
	defer d.close()
	reproData(d)
	d.expect("m", one("host", "like", "*"), []string{"uid"}, "X", "like '*' selects every series that has host")
	failOn(t, res, "X")
}

// host=~'b' and host='~b' share the lookup table entry `host=~b`.
func TestReproAtomsWithEqualRewrite(t *testing.T) {
	res, dir := reproDir(t)
	d, err := newDirected(res, dir, "twins")
	if err != nil {
		t.Fatal(err)
	}
	defer d.close()
	reproData(d)
	d.expect("m", two(one("host", "=~", "b"), "or", one("host", "=", "~b")), []string{"uid"}, "X", "expected u1 u2 u3")
	d.expect("m", two(one("dc", "in", "x,y"), "or", one("dc", "in", "x", "y")), []string{"uid"}, "X", "expected u0 u1 u2 u4")
	failOn(t, res, "X")
}

// group by over a value containing ',' loses the group at the root.
func TestReproGroupByValueWithComma(t *testing.T) {
	res, dir := reproDir(t)
	d, err := newDirected(res, dir, "comma")
	if err != nil {
		t.Fatal(err)
	}
	defer d.close()
	reproData(d)
	d.expect("m", nil, []string{"dc"}, "X", "expected the groups x, y and `x,y`")
	failOn(t, res, "X")
}

// a flush completing between a lookup's kv snapshot and its memory read loses the flushed entries.
func TestReproFlushWindows(t *testing.T) {
	res, dir := reproDir(t)
	for _, w := range []string{"inverted", "metric", "dictionary-like", "dictionary-regex", "dictionary-collect"} {
		scenarioFlushWindow(res, dir, w)
	}
	scenarioGroupingFlushWindow(res, dir)
	if res.Counters["grouping_lookups_straddling_a_completed_flush"] != 1 {
		t.Errorf("the group-by lookup did not straddle the flush")
	}
	for _, v := range res.Violations {
		t.Errorf("%s: %s", v.Class, v.Message)
	}
	if res.Counters["flushes_completed_inside_a_parked_query"] != 5 {
		t.Errorf("only %d of 5 windows were opened", res.Counters["flushes_completed_inside_a_parked_query"])
	}
}

// the offset table of a forward-index entry with three roaring containers (unit level, no node needed).
func TestReproForwardReaderThirdContainer(t *testing.T) {
	if os.Getenv("C10_REPRO") == "" {
		t.Skip("set C10_REPRO=1")
	}
	// series 10, 65536+20, 65536+21, 131072+30 with tag value ids 1, 2, 3, 4
	ids := roaring.BitmapOf(10, 65536+20, 65536+21, 131072+30)
	var buf bytes.Buffer
	if _, err := ids.WriteTo(&buf); err != nil {
		t.Fatal(err)
	}
	buf.Write(encoding.U32SliceToBytes([]uint32{1}))
	buf.Write(encoding.U32SliceToBytes([]uint32{2, 3}))
	buf.Write(encoding.U32SliceToBytes([]uint32{4}))
	r, err := v1.NewTagForwardReader(buf.Bytes())
	if err != nil {
		t.Fatal(err)
	}
	_, got := r.GetSeriesAndTagValue(2)
	if fmt.Sprint(got) != "[4]" {
		t.Errorf("tag value ids of the third container: got %v, expected [4] (the offset table holds the cardinality of the previous container, not the running sum)", got)
	}
}
