package main

import (
	"fmt"
	"os"
	"sort"
	"strings"
	"testing"
	"time"

	"github.com/lindb/lindb/sql"
	"github.com/lindb/lindb/sql/stmt"
	"github.com/lindb/lindb/verif/internal/node"
)

func TestProbe(t *testing.T) {
	if os.Getenv("C10_PROBE") == "" {
		t.Skip()
	}
	dir, _ := os.MkdirTemp("", "c10probe")
	defer os.RemoveAll(dir)
	n, err := node.Open(node.Options{Dir: dir})
	if err != nil {
		t.Fatal(err)
	}
	now := time.Now().UnixMilli()
	t0 := now - now%3600_000 - 2*3600_000
	ts := t0 + 600_000
	mk := func(uid string, tags map[string]string) node.Point {
		tg := map[string]string{"uid": uid}
		for k, v := range tags {
			tg[k] = v
		}
		return node.Point{Metric: "m", Tags: tg, Timestamp: ts, Fields: []node.Field{{Name: "f", Type: node.Sum, Value: 1}}}
	}
	pts := []node.Point{
		mk("u0", map[string]string{"host": "a", "dc": "x"}),
		mk("u1", map[string]string{"host": "ab", "dc": "y"}),
		mk("u2", map[string]string{"host": "b"}),
		mk("u3", map[string]string{"dc": "x"}),
		mk("u4", map[string]string{"host": "*", "dc": "a*b"}),
		mk("u5", map[string]string{"host": "~x", "my key": "v 1"}),
		mk("u6", map[string]string{"host": "x", "dc": "it's"}),
	}
	if _, err := n.Write(pts); err != nil {
		t.Fatal(err)
	}
	c := node.NewCluster(n, node.Layout{})
	defer func() { c.Close(); n.Close() }()
	tr := fmt.Sprintf("time >= '%s' and time <= '%s'", node.FormatTime(t0), node.FormatTime(t0+3599_000))
	q := func(cond, group string) {
		sqlText := "select f from m where " + tr
		if cond != "" {
			sqlText = "select f from m where " + cond + " and " + tr
		}
		if group != "" {
			sqlText += " group by " + group
		}
		sqlText += " limit 100000"
		res := c.Query(sqlText)
		var groups []string
		if res.ResultSet != nil {
			for _, s := range res.ResultSet.Series {
				var kv []string
				for k, v := range s.Tags {
					kv = append(kv, k+"="+v)
				}
				sort.Strings(kv)
				groups = append(groups, strings.Join(kv, ","))
			}
		}
		sort.Strings(groups)
		rw := ""
		if res.Statement != nil && res.Statement.Condition != nil {
			rw = res.Statement.Condition.Rewrite()
		}
		fmt.Printf("COND %-50s group=%-8s err=%v stuck=%v rewrite=%q\n    -> %v\n", cond, group, res.Err, res.Stuck, rw, groups)
	}
	for _, cond := range []string{
		"", "host='a'", "host='never'", "(host='a' or host='never')", "host='a' or host='never'", "nokey='a'", "(host='a' or nokey='x')",
		"host!='a'", "host like '*'", "host like '**'", "host like 'a*'", "host like '*b'", "host like '*a*'", "host like ''", "host=''",
		"host like 'a*b'", "dc like 'a*b'", "host not like 'a*'", "host =~ 'a'", "host =~ '^a$'", "host !~ 'a'", "host in ('a','b','zz')", "host not in ('a')",
		"host in ('zz')", "host='a' or dc='x' and host='b'", "host='a' or (dc='x' and host='b')", "(host='~x' or host=~'x')",
		"'my key'='v 1'", "\"my key\"='v 1'", "`my key`='v 1'", "dc=\"it's\"", "host =~ '('", "host <> 'a'", "not host='a'", "host not in ('never')",
		"host='a' and dc='never'", "(dc='never' or dc!='never2') ",
	} {
		func() {
			defer func() {
				if r := recover(); r != nil {
					fmt.Println("PANIC", cond, r)
				}
			}()
			q(cond, "uid")
		}()
	}
	q("", "host")
	q("", "host,dc")
	q("host='a'", "nokey")
	q("dc='x'", "host")
	q("dc='x'", "uid,host")
	q("", "'my key'")
	st, err := sql.Parse("select f from m where a='1' or b='2' and c='3' or d='4'")
	fmt.Println(err, st.(*stmt.Query).Condition.Rewrite())
}
