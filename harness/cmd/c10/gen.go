package main

import (
	"fmt"
	"math/rand"
	"regexp"
	"sort"
	"strings"
	"unicode/utf8"
)

// ---------------------------------------------------------------------------------------------
// data sets

// seriesSpec is one written series: metric, tags (always with a unique "uid") and the value every point of it carries.
// The value is the series' own weight (index+1), so the sum lindb returns for a group identifies which series were
// aggregated into it.
type seriesSpec struct {
	Idx    int               `json:"idx"`
	Metric string            `json:"m"`
	Tags   map[string]string `json:"tags"`
	Weight float64           `json:"w"`
	Batch  int               `json:"batch"`
}

type dataset struct {
	Metric  string
	Decoy   string // second metric with the same tag keys/values (own tag key ids, overlapping series ids); "" = none
	Keys    []string
	Series  []*seriesSpec // write order
	Batches int
	Comma   bool // values containing ',' are present (group-by on them is a known finding)
	// value pools per key (every value some series of the main metric carries), and over all keys
	valuesOf map[string][]string
	all      []string
}

var (
	stemVals    = []string{"a", "ab", "abc", "abcd", "b", "ba", "bab", "web", "web-1", "web-10", "web-11", "web-2", "db", "db.1", "db-1", "x", "xa", "xab", "A", "Ab", "WEB"}
	unicodeVals = []string{"ü", "über", "日本", "日本語", "語", "é", "é", "ÿ", "ÿÿ", "😀", "😀a", "a😀", "aü", "Ω", "ω", "аб", "а"} // the last two are cyrillic
	metaVals    = []string{"*", "**", "a*", "*a", "a*b", "*a*", ".", ".*", "a.b", "a|b", "(x)", "[ab]", "^a", "a$", "\\d", "a+", "?", "{1}", "a\\b", "$", "^", "+", "a?", "\\", "a\\", "(", ")", "[", "a(b"}
	spaceVals   = []string{" ", "  ", "a b", " a", "a ", "\t", "\n", "a\nb"}
	commaVals   = []string{"a,b", ",", "a,", "x,y,z", "web-1,web-2"}
	quoteVals   = []string{"it's", "'", "\"q\"", "`b`", "a'b"}
	miscVals    = []string{"~x", "~a", "~", "=a", "a=b", "-", "_", "0", "00", "1", "10", "100", "NULL", "null", "and", "or", "not", "like", "in", "time", "a in (b)", "m", "1m"}
	keyPool     = []string{"host", "dc", "zone", "app_1", "k.v", "Host", "my key", "ключ", "env"}
	// values that may be written without quotes in SQL (plain identifiers that are not keywords / unit letters)
	bareOK = map[string]bool{"a": true, "ab": true, "abc": true, "abcd": true, "b": true, "ba": true, "bab": true, "web": true, "db": true, "x": true, "xa": true, "xab": true, "Ab": true, "WEB": true}
)

func longVals() []string {
	p := strings.Repeat("p", 200)
	return []string{p, p + "1", p + "2", p + "12", strings.Repeat("L", 1024), strings.Repeat("日", 300)}
}

func pick(r *rand.Rand, s []string) string { return s[r.Intn(len(s))] }

// genDataset builds one data set. nSeries is the number of series of the main metric.
func genDataset(r *rand.Rand, nSeries int) *dataset {
	ds := &dataset{Metric: "m", valuesOf: map[string][]string{}}
	if r.Intn(3) > 0 {
		ds.Decoy = "m2"
	}
	ds.Comma = r.Intn(4) == 0
	nKeys := 2 + r.Intn(4)
	perm := r.Perm(len(keyPool))
	for i := 0; i < nKeys; i++ {
		ds.Keys = append(ds.Keys, keyPool[perm[i]])
	}
	// vocabulary of this data set
	vocab := append([]string{}, stemVals...)
	for _, extra := range [][]string{unicodeVals, metaVals, spaceVals, miscVals, quoteVals, longVals()} {
		if r.Intn(2) == 0 {
			n := 1 + r.Intn(len(extra))
			p := r.Perm(len(extra))
			for i := 0; i < n; i++ {
				vocab = append(vocab, extra[p[i]])
			}
		}
	}
	if ds.Comma {
		vocab = append(vocab, commaVals...)
	}
	// per key: a pool (size varies), presence probability, and one key that exactly one series carries
	type keyConf struct {
		pool     []string
		presence float64
	}
	conf := map[string]*keyConf{}
	for i, k := range ds.Keys {
		kc := &keyConf{}
		n := 2 + r.Intn(10)
		if r.Intn(3) == 0 {
			n = 1 + r.Intn(len(vocab))
		}
		p := r.Perm(len(vocab))
		for j := 0; j < n && j < len(p); j++ {
			kc.pool = append(kc.pool, vocab[p[j]])
		}
		switch {
		case i == 0:
			kc.presence = 1
		case i == 1:
			kc.presence = 0.3 + 0.5*r.Float64()
		default:
			kc.presence = []float64{1, 0.7, 0.4, 0.1}[r.Intn(4)]
		}
		conf[k] = kc
	}
	loneKey := ""
	if r.Intn(2) == 0 {
		loneKey = "lone"
	}
	ds.Batches = 3 + r.Intn(2)
	uidStyle := r.Intn(3)
	mkUID := func(i int) string {
		switch uidStyle {
		case 0:
			return fmt.Sprintf("u%d", i) // u1 is a prefix of u10
		case 1:
			return fmt.Sprintf("u%04d", i)
		default:
			return fmt.Sprintf("%d-ü", i)
		}
	}
	lonePos := r.Intn(nSeries)
	seen := map[string]bool{}
	for i := 0; i < nSeries; i++ {
		s := &seriesSpec{Idx: len(ds.Series), Metric: ds.Metric, Tags: map[string]string{"uid": mkUID(i)}}
		for _, k := range ds.Keys {
			kc := conf[k]
			if r.Float64() < kc.presence {
				s.Tags[k] = pick(r, kc.pool)
			}
		}
		if loneKey != "" && i == lonePos {
			s.Tags[loneKey] = pick(r, vocab)
		}
		s.Weight = float64(s.Idx + 1)
		s.Batch = r.Intn(ds.Batches)
		ds.Series = append(ds.Series, s)
		// decoy series interleaved: same tag values, different assignment, overlapping series ids, extra key "rack"
		if ds.Decoy != "" && r.Intn(2) == 0 {
			d := &seriesSpec{Idx: len(ds.Series), Metric: ds.Decoy, Tags: map[string]string{"uid": mkUID(r.Intn(nSeries + 3))}, Batch: s.Batch}
			key := d.Tags["uid"]
			for _, k := range ds.Keys {
				if r.Intn(2) == 0 {
					d.Tags[k] = pick(r, conf[k].pool)
					key += "|" + k + "=" + d.Tags[k]
				}
			}
			if r.Intn(2) == 0 {
				d.Tags["rack"] = pick(r, vocab)
				key += "|rack=" + d.Tags["rack"]
			}
			if !seen[key] {
				seen[key] = true
				d.Weight = float64(d.Idx + 1)
				ds.Series = append(ds.Series, d)
			}
		}
	}
	if loneKey != "" {
		ds.Keys = append(ds.Keys, loneKey)
	}
	// make sure batch 0 is not empty for the main metric
	ds.Series[0].Batch = 0
	ds.index()
	return ds
}

func (ds *dataset) index() {
	ds.valuesOf = map[string][]string{}
	set := map[string]map[string]bool{}
	allSet := map[string]bool{}
	for _, s := range ds.Series {
		if s.Metric != ds.Metric {
			continue
		}
		for k, v := range s.Tags {
			if set[k] == nil {
				set[k] = map[string]bool{}
			}
			set[k][v] = true
			if k != "uid" {
				allSet[v] = true
			}
		}
	}
	for k, m := range set {
		for v := range m {
			ds.valuesOf[k] = append(ds.valuesOf[k], v)
		}
		sort.Strings(ds.valuesOf[k])
	}
	for v := range allSet {
		ds.all = append(ds.all, v)
	}
	sort.Strings(ds.all)
}

// mainSeries returns the series of the queried metric whose batch is < upto.
func (ds *dataset) mainSeries(upto int) []*seriesSpec {
	var rs []*seriesSpec
	for _, s := range ds.Series {
		if s.Metric == ds.Metric && s.Batch < upto {
			rs = append(rs, s)
		}
	}
	return rs
}

// ---------------------------------------------------------------------------------------------
// conditions

// atom is `key cmp value(s)`. Cmp: = != in notin like notlike =~ !~
type atom struct {
	Key  string   `json:"key"`
	Cmp  string   `json:"cmp"`
	Vals []string `json:"vals"`
	// rendering choices
	NeqAlt  bool `json:"-"` // <> instead of !=
	Bare    bool `json:"-"` // value without quotes
	BareKey bool `json:"-"`
	Tight   bool `json:"-"` // no spaces around the operator
}

// chain is term (and|or term)* ; lindb's grammar gives `and` and `or` the same precedence and associates to the left,
// so the chain is evaluated as a left fold. A term is an atom or a parenthesised chain.
type chain struct {
	Terms []*term  `json:"terms"`
	Ops   []string `json:"ops"` // "and" / "or", len = len(Terms)-1
}

type term struct {
	Atom   *atom  `json:"atom,omitempty"`
	Sub    *chain `json:"sub,omitempty"`
	Parens int    `json:"parens,omitempty"` // pairs of parentheses around the term (>= 1 for Sub)
}

func canQuote(s string) bool {
	return utf8.ValidString(s) && !strings.Contains(s, "'")
}

func sqlQuote(s string) string { return "'" + s + "'" }

var bareKeyRe = regexp.MustCompile(`^[a-zA-Z][a-zA-Z0-9_.]*$`)

func sqlKey(k string, bare bool) string {
	if bare && bareKeyRe.MatchString(k) && k != "time" && k != "m" && k != "in" && k != "like" && k != "not" && k != "and" && k != "or" {
		return k
	}
	return sqlQuote(k)
}

func (a *atom) SQL(r *rand.Rand) string {
	sp := " "
	if a.Tight && (a.Cmp == "=" || a.Cmp == "!=" || a.Cmp == "=~" || a.Cmp == "!~") {
		sp = ""
	}
	key := sqlKey(a.Key, a.BareKey)
	val := func(v string) string {
		if a.Bare && bareOK[v] {
			return v
		}
		return sqlQuote(v)
	}
	kw := func(s string) string {
		if r != nil && r.Intn(4) == 0 {
			return strings.ToUpper(s)
		}
		return s
	}
	switch a.Cmp {
	case "in", "notin":
		vs := make([]string, len(a.Vals))
		for i, v := range a.Vals {
			vs[i] = val(v)
		}
		op := kw("in")
		if a.Cmp == "notin" {
			op = kw("not") + " " + kw("in")
		}
		return key + " " + op + " (" + strings.Join(vs, ",") + ")"
	case "like":
		return key + " " + kw("like") + " " + val(a.Vals[0])
	case "notlike":
		return key + " " + kw("not") + " " + kw("like") + " " + val(a.Vals[0])
	case "!=":
		op := "!="
		if a.NeqAlt {
			op = "<>"
		}
		return key + sp + op + sp + val(a.Vals[0])
	default:
		return key + sp + a.Cmp + sp + val(a.Vals[0])
	}
}

func (c *chain) SQL(r *rand.Rand) string {
	var b strings.Builder
	for i, t := range c.Terms {
		if i > 0 {
			op := c.Ops[i-1]
			if r != nil && r.Intn(4) == 0 {
				op = strings.ToUpper(op)
			}
			b.WriteString(" " + op + " ")
		}
		b.WriteString(strings.Repeat("(", t.Parens))
		if t.Atom != nil {
			b.WriteString(t.Atom.SQL(r))
		} else {
			b.WriteString(t.Sub.SQL(r))
		}
		b.WriteString(strings.Repeat(")", t.Parens))
	}
	return b.String()
}

func (c *chain) atoms(out []*atom) []*atom {
	for _, t := range c.Terms {
		if t.Atom != nil {
			out = append(out, t.Atom)
		} else {
			out = t.Sub.atoms(out)
		}
	}
	return out
}

func (c *chain) depth() int {
	d := 0
	for _, t := range c.Terms {
		td := t.Parens
		if t.Sub != nil {
			td = t.Parens - 1 + 1 + t.Sub.depth()
		}
		if td > d {
			d = td
		}
	}
	return d
}

// sqlPrecedenceDiffers reports whether evaluating the chain with SQL's usual precedence (and binds tighter than or)
// could differ structurally from the left fold (an `and` that follows an `or` inside one unparenthesised chain).
func (c *chain) mixesAndAfterOr() bool {
	seenOr := false
	for _, op := range c.Ops {
		if op == "or" {
			seenOr = true
		} else if seenOr {
			return true
		}
	}
	for _, t := range c.Terms {
		if t.Sub != nil && t.Sub.mixesAndAfterOr() {
			return true
		}
	}
	return false
}

// condGen generates conditions for one data set.
type condGen struct {
	r  *rand.Rand
	ds *dataset
}

func runePrefix(s string, n int) string {
	rs := []rune(s)
	if n > len(rs) {
		n = len(rs)
	}
	return string(rs[:n])
}

func runeSuffix(s string, n int) string {
	rs := []rune(s)
	if n > len(rs) {
		n = len(rs)
	}
	return string(rs[len(rs)-n:])
}

func runeMid(r *rand.Rand, s string) string {
	rs := []rune(s)
	if len(rs) == 0 {
		return ""
	}
	i := r.Intn(len(rs))
	j := i + 1 + r.Intn(len(rs)-i)
	return string(rs[i:j])
}

func (g *condGen) pickKey() string {
	r := g.r
	x := r.Intn(100)
	switch {
	case x < 2:
		return "nokey" // no series of any metric has it
	case x < 4 && g.ds.Decoy != "":
		return "rack" // only the other metric has it
	case x < 18:
		return "uid"
	default:
		return pick(r, g.ds.Keys)
	}
}

// pickValue returns a value for conditions on key: mostly one the key really has.
func (g *condGen) pickValue(key string) string {
	r := g.r
	for tries := 0; tries < 20; tries++ {
		var v string
		x := r.Intn(100)
		own := g.ds.valuesOf[key]
		switch {
		case x < 65 && len(own) > 0:
			v = pick(r, own)
		case x < 78 && len(g.ds.all) > 0:
			v = pick(r, g.ds.all) // a value of some key, maybe not of this one
		case x < 86:
			v = pick(r, []string{"never-seen", "zz", "Z", "web-3", "abcde", "日", "u99999", "-1"})
		case x < 93 && len(own) > 0:
			v = pick(r, own) + pick(r, []string{"x", "0", " ", "*", "ü"}) // extension of a real value
		default:
			if len(own) > 0 {
				w := pick(r, own)
				v = runePrefix(w, len([]rune(w))-1) // real value minus its last character
			}
		}
		if v != "" && canQuote(v) {
			return v
		}
	}
	return "a"
}

func (g *condGen) likePattern(key string) string {
	r := g.r
	v := g.pickValue(key)
	n := len([]rune(v))
	switch x := r.Intn(100); {
	case x < 22:
		return runePrefix(v, 1+r.Intn(n)) + "*"
	case x < 40:
		return "*" + runeSuffix(v, 1+r.Intn(n))
	case x < 58:
		return "*" + runeMid(r, v) + "*"
	case x < 72:
		return v // exact
	case x < 80:
		if n >= 2 {
			k := 1 + r.Intn(n-1)
			return runePrefix(v, k) + "*" + runeSuffix(v, n-k) // inner star: no wildcard meaning
		}
		return v + "*"
	case x < 84:
		return "**"
	case x < 88:
		return "*" + v // whole value as suffix
	case x < 92:
		return v + "*"
	case x < 95:
		return "*" + v + "*"
	case x < 97:
		return "***"
	default:
		return "*" // known finding C10/like-single-star (panics inside FindValuesByLike)
	}
}

func (g *condGen) regexPattern(key string) string {
	r := g.r
	v := g.pickValue(key)
	w := g.pickValue(key)
	n := len([]rune(v))
	q := regexp.QuoteMeta
	var p string
	switch x := r.Intn(100); {
	case x < 12:
		p = q(v)
	case x < 24:
		p = "^" + q(runePrefix(v, 1+r.Intn(n)))
	case x < 34:
		p = q(runeSuffix(v, 1+r.Intn(n))) + "$"
	case x < 44:
		p = "^" + q(v) + "$"
	case x < 52:
		p = q(v) + "|" + q(w)
	case x < 60:
		p = "^" + q(v) + "|" + q(runeMid(r, w)) // anchored first alternative only: the literal prefix trap
	case x < 66:
		p = "^(?:" + q(v) + "|" + q(w) + ")$"
	case x < 70:
		p = "^" + q(runePrefix(v, 1)) + "?" + q(runeSuffix(w, 1))
	case x < 74:
		p = "."
	case x < 77:
		p = ".*"
	case x < 80:
		p = "^.$"
	case x < 84:
		p = "(?i)" + q(strings.ToUpper(v))
	case x < 87:
		p = "^(?i)" + q(strings.ToLower(runePrefix(v, 1+r.Intn(n))))
	case x < 90:
		p = "\\d+"
	case x < 92:
		p = "^\\pL+$"
	case x < 94:
		p = "[" + q(runePrefix(v, 1)) + q(runePrefix(w, 1)) + "]" + q(runeSuffix(v, n-1))
	case x < 96:
		p = "^" + q(runePrefix(v, 1)) + ".*" + q(runeSuffix(v, 1)) + "$"
	case x < 97:
		p = ""
	case x < 98:
		p = "^$"
	default:
		p = v // the raw value as an expression (may be invalid)
	}
	if !canQuote(p) {
		return q("a")
	}
	return p
}

func (g *condGen) atom() *atom {
	r := g.r
	a := &atom{Key: g.pickKey(), NeqAlt: r.Intn(2) == 0, Bare: r.Intn(3) == 0, BareKey: r.Intn(4) != 0, Tight: r.Intn(2) == 0}
	switch x := r.Intn(100); {
	case x < 22:
		a.Cmp, a.Vals = "=", []string{g.pickValue(a.Key)}
	case x < 32:
		a.Cmp, a.Vals = "!=", []string{g.pickValue(a.Key)}
	case x < 44, x < 50:
		a.Cmp = "in"
		if x >= 44 {
			a.Cmp = "notin"
		}
		n := 1 + r.Intn(4)
		for i := 0; i < n; i++ {
			a.Vals = append(a.Vals, g.pickValue(a.Key))
		}
	case x < 68:
		a.Cmp, a.Vals = "like", []string{g.likePattern(a.Key)}
	case x < 75:
		a.Cmp, a.Vals = "notlike", []string{g.likePattern(a.Key)}
	case x < 93:
		a.Cmp, a.Vals = "=~", []string{g.regexPattern(a.Key)}
	default:
		a.Cmp, a.Vals = "!~", []string{g.regexPattern(a.Key)}
	}
	return a
}

// chainOf generates a chain with parenthesis depth <= depth.
func (g *condGen) chainOf(depth int, top bool) *chain {
	r := g.r
	n := 1
	switch x := r.Intn(100); {
	case top && x < 25:
		n = 1
	case x < 60:
		n = 2
	case x < 85:
		n = 3
	default:
		n = 4
	}
	c := &chain{}
	for i := 0; i < n; i++ {
		t := &term{}
		if depth > 0 && r.Intn(100) < 30 {
			t.Sub = g.chainOf(depth-1, false)
			t.Parens = 1
			if depth > 1 && r.Intn(10) == 0 {
				t.Parens = 2
			}
		} else {
			t.Atom = g.atom()
			if depth > 0 && r.Intn(8) == 0 {
				t.Parens = 1
			}
		}
		c.Terms = append(c.Terms, t)
		if i > 0 {
			c.Ops = append(c.Ops, []string{"and", "or"}[r.Intn(2)])
		}
	}
	return c
}

func (g *condGen) condition() *chain {
	for {
		c := g.chainOf(g.r.Intn(5), true)
		if c.depth() <= 4 {
			return c
		}
	}
}

// rewriteTwins returns conditions holding two different atoms that lindb renders to the same Rewrite() text (the key of
// its per-query lookup table): `k='~x'` / `k=~'x'` and `k in ('a,b')` / `k in ('a','b')`.
func (g *condGen) rewriteTwins() []*chain {
	var rs []*chain
	mk := func(a, b *atom, op string) *chain {
		return &chain{Terms: []*term{{Atom: a}, {Atom: b}}, Ops: []string{op}}
	}
	for _, k := range append([]string{"uid"}, g.ds.Keys...) {
		for _, v := range g.ds.valuesOf[k] {
			if strings.HasPrefix(v, "~") && len(v) > 1 && canQuote(v) {
				if _, err := regexp.Compile(v[1:]); err == nil {
					rs = append(rs, mk(&atom{Key: k, Cmp: "=~", Vals: []string{v[1:]}}, &atom{Key: k, Cmp: "=", Vals: []string{v}}, "or"))
					rs = append(rs, mk(&atom{Key: k, Cmp: "=", Vals: []string{v}}, &atom{Key: k, Cmp: "=~", Vals: []string{v[1:]}}, "and"))
				}
			}
			if strings.Contains(v, ",") && canQuote(v) {
				parts := strings.Split(v, ",")
				ok := true
				for _, p := range parts {
					if p == "" {
						ok = false
					}
				}
				if ok {
					rs = append(rs, mk(&atom{Key: k, Cmp: "in", Vals: []string{v}}, &atom{Key: k, Cmp: "in", Vals: parts}, "or"))
					rs = append(rs, mk(&atom{Key: k, Cmp: "in", Vals: parts}, &atom{Key: k, Cmp: "notin", Vals: []string{v}}, "and"))
				}
			}
		}
	}
	return rs
}

// hasRewriteTwins reports whether two atoms of the chain differ but render to the same lindb Rewrite() text.
func hasRewriteTwins(c *chain) bool {
	seen := map[string]string{}
	for _, a := range c.atoms(nil) {
		rw := lindbRewrite(a)
		id := a.Cmp + "\x00" + strings.Join(a.Vals, "\x00")
		if a.Cmp == "notin" {
			id = "in" + id[len("notin"):]
		}
		if a.Cmp == "!=" {
			id = "=" + id[2:]
		}
		if a.Cmp == "notlike" {
			id = "like" + id[len("notlike"):]
		}
		if a.Cmp == "!~" {
			id = "=~" + id[2:]
		}
		if prev, ok := seen[rw]; ok && prev != id {
			return true
		}
		seen[rw] = id
	}
	return false
}

// lindbRewrite is the text stmt.*Expr.Rewrite() produces for the positive form of the atom.
func lindbRewrite(a *atom) string {
	switch a.Cmp {
	case "=", "!=":
		return a.Key + "=" + a.Vals[0]
	case "in", "notin":
		return a.Key + " in (" + strings.Join(a.Vals, ",") + ")"
	case "like", "notlike":
		return a.Key + " like " + a.Vals[0]
	default:
		return a.Key + "=~" + a.Vals[0]
	}
}

// groupKeys picks a random non-empty subset of keys for a group by.
func (g *condGen) groupKeys() []string {
	r := g.r
	cands := append([]string{"uid"}, g.ds.Keys...)
	if r.Intn(12) == 0 {
		if g.ds.Decoy != "" && r.Intn(2) == 0 {
			return []string{"rack"}
		}
		return []string{"nokey"}
	}
	n := 1 + r.Intn(3)
	if n > len(cands) {
		n = len(cands)
	}
	p := r.Perm(len(cands))
	var rs []string
	for i := 0; i < n; i++ {
		rs = append(rs, cands[p[i]])
	}
	return rs
}
