package main

func runConcCase(idx int, dir, tier string, seed int64) *caseResult     { return &caseResult{Kind: "conc", Index: idx} }
