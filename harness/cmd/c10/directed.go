package main

import (
	"fmt"
	"math/rand"
	"os"
	"path/filepath"
	"runtime"
	"strings"
	"sync"
	"time"

	"github.com/lindb/roaring"

	"github.com/lindb/lindb/index"
	"github.com/lindb/lindb/index/model"
	"github.com/lindb/lindb/models"
	"github.com/lindb/lindb/pkg/trie"
	"github.com/lindb/lindb/verif/internal/node"
	"github.com/lindb/lindb/verif/internal/seam"
)

// Directed scenarios: small fixed data sets that make the narrow classes deterministic, and flushes that complete while
// a query is parked between taking its kv snapshot and reading the memory stores.

type directed struct {
	res    *caseResult
	dir    string
	n      *node.Node
	c      *node.Cluster
	t0, ts int64
	all    []*seriesSpec
	ev     *evaluator
	name   string
	log    []string
}

func newDirected(res *caseResult, dir, name string) (*directed, error) {
	d := &directed{res: res, dir: filepath.Join(dir, name), name: name, ev: newEvaluator()}
	now := time.Now().UnixMilli()
	d.t0 = now - now%3600_000 - 2*3600_000
	d.ts = d.t0 + 600_000
	n, err := node.Open(node.Options{Dir: d.dir, ShardIDs: []models.ShardID{0}})
	if err != nil {
		return nil, err
	}
	d.n = n
	d.c = node.NewCluster(n, node.Layout{})
	return d, nil
}

func (d *directed) close() {
	if d.c != nil {
		d.c.Close()
	}
	if d.n != nil {
		d.n.Close()
	}
	_ = os.RemoveAll(d.dir)
}

func (d *directed) logf(format string, args ...interface{}) {
	s := fmt.Sprintf(format, args...)
	d.log = append(d.log, s)
	fmt.Println(time.Now().Format("15:04:05.000"), d.name, s)
}

func (d *directed) write(metric string, tagSets ...map[string]string) {
	var pts []node.Point
	for _, t := range tagSets {
		s := &seriesSpec{Idx: len(d.all), Metric: metric, Tags: t, Weight: float64(len(d.all) + 1)}
		d.all = append(d.all, s)
		pts = append(pts, pointOf(s, d.ts, s.Weight))
	}
	d.logf("write %d series of %s", len(pts), metric)
	if _, err := d.n.Write(pts); err != nil {
		d.res.violation("C10/operation-failed", fmt.Sprintf("directed %s: write: %v", d.name, err), nil)
	}
}

func (d *directed) sql(metric, cond string, group ...string) string {
	s := "select f from " + metric + " where "
	if cond != "" {
		s += cond + " and "
	}
	s += fmt.Sprintf("time >= '%s' and time <= '%s'", node.FormatTime(d.t0), node.FormatTime(d.t0+3599_000))
	gs := make([]string, len(group))
	for i, g := range group {
		gs[i] = sqlKey(g, true)
	}
	return s + " group by " + strings.Join(gs, ",") + " limit 100000"
}

// expect runs the query and compares with the oracle over the series written so far; class is the class of a mismatch.
func (d *directed) expect(metric string, c *chain, group []string, class, what string) bool {
	var written []*seriesSpec
	for _, s := range d.all {
		if s.Metric == metric {
			written = append(written, s)
		}
	}
	cond := ""
	if c != nil {
		cond = c.SQL(nil)
	}
	text := d.sql(metric, cond, group...)
	d.logf("query %s", text)
	o := observe(d.c.Query(text), group)
	d.res.Evals++
	d.res.count("directed_queries", 1)
	if o.Bad != "" {
		d.res.Notes = append(d.res.Notes, "watchdog: "+o.Bad+" "+text)
		return true
	}
	sel := d.ev.selectSeries(c, written)
	exp := project(sel, group)
	if len(sel) > 0 && len(sel) < len(written) {
		d.res.Nontrivial = append(d.res.Nontrivial, hashKey("directed", d.name, text))
	}
	df := compare(exp, o)
	if o.Err == "" && df.empty() {
		d.res.count("directed_queries_matching_the_oracle", 1)
		return true
	}
	d.res.violation(class, fmt.Sprintf("directed %s: %s; error %q, missing %v, extra %v, wrong sum %v: %s", d.name, what, o.Err, trunc(df.Missing, 6), trunc(df.Extra, 6), trunc(df.WrongSum, 3), text),
		map[string]interface{}{"scenario": d.name, "sql": text, "error": o.Err, "missing": df.Missing, "extra": df.Extra, "wrong_sum": df.WrongSum, "series": written, "steps": d.log})
	return false
}

// expectRefused: a key the metric's schema does not have must be refused with `tag key not found`.
func (d *directed) expectRefused(metric string, c *chain, what string) {
	text := d.sql(metric, c.SQL(nil), "uid")
	d.logf("query %s", text)
	o := observe(d.c.Query(text), []string{"uid"})
	d.res.Evals++
	d.res.count("directed_queries", 1)
	switch {
	case strings.Contains(o.Err, "tag key not found"), o.Err == "" && len(o.Groups) == 0:
		d.res.count("unknown_key_refused", 1)
		d.res.count("directed_queries_matching_the_oracle", 1)
	default:
		d.res.violation("C10/unknown-tag-key-not-refused", fmt.Sprintf("directed %s: %s: expected `tag key not found`, got error %q and %d groups: %s", d.name, what, o.Err, len(o.Groups), text),
			map[string]interface{}{"scenario": d.name, "sql": text, "error": o.Err})
	}
}

func one(key, cmp string, vals ...string) *chain {
	return &chain{Terms: []*term{{Atom: &atom{Key: key, Cmp: cmp, Vals: vals, BareKey: true}}}}
}

func two(a *chain, op string, b *chain) *chain {
	return &chain{Terms: []*term{a.Terms[0], b.Terms[0]}, Ops: []string{op}}
}

// scenarioNarrowClasses: one small data set, the four narrow deviations in memory and again after flush + reopen.
func scenarioNarrowClasses(res *caseResult, dir string) {
	d, err := newDirected(res, dir, "narrow-classes")
	if err != nil {
		res.violation("C10/operation-failed", "directed: "+err.Error(), nil)
		return
	}
	defer d.close()
	d.write("m",
		map[string]string{"uid": "u0", "host": "a", "dc": "x"},
		map[string]string{"uid": "u1", "host": "ab", "dc": "x,y"},
		map[string]string{"uid": "u2", "host": "~b", "dc": "x"},
		map[string]string{"uid": "u3", "host": "b"},
		map[string]string{"uid": "u4", "host": "x,y", "dc": "y"},
		map[string]string{"uid": "u5", "dc": "y"},
	)
	d.write("other", map[string]string{"uid": "u0", "rack": "r1", "host": "a"})
	for round := 0; round < 2; round++ {
		d.expect("m", one("host", "like", "*"), []string{"uid"}, "C10/like-single-star-panics", "`like '*'` must select every series that has the key")
		d.expect("m", one("host", "notlike", "*"), []string{"uid"}, "C10/like-single-star-panics", "`not like '*'` must select nothing")
		d.expect("m", two(one("host", "=~", "b"), "or", one("host", "=", "~b")), []string{"uid"}, "C10/atoms-with-equal-rewrite-share-one-lookup",
			"host=~'b' and host='~b' both render to `host=~b`")
		d.expect("m", two(one("dc", "in", "x,y"), "or", one("dc", "in", "x", "y")), []string{"uid"}, "C10/atoms-with-equal-rewrite-share-one-lookup",
			"dc in ('x,y') and dc in ('x','y') both render to `dc in (x,y)`")
		d.expectRefused("m", two(one("host", "=", "a"), "or", one("rack", "=", "r1")), "`rack` is a key of another metric only")
		d.expectRefused("m", two(one("host", "=", "a"), "or", one("nokey", "!=", "v")), "`nokey` is a key nobody has")
		d.expect("m", nil, []string{"dc"}, "C10/groupby/tag-value-with-comma-dropped", "the group dc='x,y' must be returned")
		d.expect("m", one("host", "like", "*y"), []string{"host", "uid"}, "C10/groupby/tag-value-with-comma-dropped", "the group host='x,y' must be returned")
		// never-seen values inside or / in: must simply not contribute
		d.expect("m", two(one("host", "=", "a"), "or", one("host", "=", "never-seen")), []string{"uid"}, "C10/select/never-seen-value-in-or", "a value the index has never seen must select nothing, not fail")
		d.expect("m", one("host", "in", "never", "b", "never2"), []string{"uid"}, "C10/select/never-seen-value-in-or", "never-seen values in an in-list")
		d.expect("m", two(one("host", "!=", "never-seen"), "and", one("dc", "notin", "never")), []string{"uid"}, "C10/select/never-seen-value-in-or", "negation of never-seen values selects every series with the key")
		if round == 0 {
			d.logf("flush all + reopen")
			if err := d.n.FlushAll(); err != nil {
				res.violation("C10/operation-failed", "directed: flush: "+err.Error(), nil)
				return
			}
			d.c.Close()
			n2, err := d.n.Reopen()
			if err != nil {
				d.n, d.c = nil, nil
				res.violation("C10/operation-failed", "directed: reopen: "+err.Error(), nil)
				return
			}
			d.n = n2
			d.c = node.NewCluster(n2, node.Layout{})
		}
	}
	res.count("directed_scenarios.narrow-classes", 1)
}

// parker blocks the first call of a decode seam whose goroutine stack contains match (a function name of the lookup
// to be parked) until release is closed. The seams are called while a lookup decodes what it loaded from a kv table
// file: after it took its kv snapshot, before it reads the memory stores, holding no kv lock.
type parker struct {
	mu      sync.Mutex
	match   string
	armed   bool
	parked  chan string
	release chan struct{}
}

func (p *parker) maybePark() {
	p.mu.Lock()
	armed := p.armed
	p.mu.Unlock()
	if !armed {
		return
	}
	buf := make([]byte, 16<<10)
	buf = buf[:runtime.Stack(buf, false)]
	if !strings.Contains(string(buf), p.match) {
		return
	}
	p.mu.Lock()
	hit := p.armed
	p.armed = false
	p.mu.Unlock()
	if hit {
		p.parked <- p.match
		<-p.release
	}
}

// scenarioFlushWindow: a query is parked inside snapshot.Load of the kv family named by `family` (its first read of a
// table file that nobody has mapped yet), i.e. after it took its snapshot and before it reads the memory stores; the
// running flush completes meanwhile; the query resumes. Nothing is written while the query runs, so the oracle is exact.
func scenarioFlushWindow(res *caseResult, dir, which string) {
	d, err := newDirected(res, dir, "flush-window-"+which)
	if err != nil {
		res.violation("C10/operation-failed", "directed: "+err.Error(), nil)
		return
	}
	defer d.close()
	origBitmap, origTrie := index.VerifGetBitmapUnmarshal(), model.VerifGetTrieFn()
	restore := func() {
		index.VerifSetBitmapUnmarshal(origBitmap)
		model.VerifSetGetTrieFn(origTrie)
	}
	defer restore()
	shard, _ := d.n.Shard(0)
	idxDB, metaDB := shard.IndexDB(), d.n.DB.MetaDB()
	batch := func(prefix string, k int) []map[string]string {
		var ts []map[string]string
		for i := 0; i < k; i++ {
			ts = append(ts, map[string]string{"uid": fmt.Sprintf("%s%d", prefix, i), "host": "h", "dc": fmt.Sprintf("d%d", i%2)})
		}
		return ts
	}
	p := &parker{parked: make(chan string, 1), release: make(chan struct{})}
	var cond *chain
	var flush func() error
	class := "C10/flush-window/" + which
	switch which {
	case "inverted", "metric":
		// A flushed (its table files are not mapped: the write path never reads the inverted families), B in the immutable store
		d.write("m", batch("a", 6)...)
		if err := d.n.FlushMeta(); err != nil {
			res.violation("C10/operation-failed", err.Error(), nil)
			return
		}
		if err := d.n.FlushIndex(); err != nil {
			res.violation("C10/operation-failed", err.Error(), nil)
			return
		}
		d.write("m", batch("b", 6)...)
		d.logf("index PrepareFlush")
		idxDB.PrepareFlush()
		flush = idxDB.Flush
		if which == "inverted" {
			p.match = "invertedIndex).findSeriesIDsByKeys"
			cond = one("host", "=", "h")
		} else {
			p.match = "invertedIndex).getSeriesIDs"
			cond = nil
		}
	case "dictionary-like", "dictionary-regex", "dictionary-collect":
		// A is flushed while B is already in the mutable store (so B's id lookups never touched A's file), then B becomes
		// immutable and its flush completes while the query holds the bucket of the old snapshot
		d.write("m", batch("a", 6)...)
		d.logf("meta PrepareFlush (A immutable)")
		metaDB.PrepareFlush()
		d.write("m", batch("b", 6)...)
		d.logf("meta Flush (A -> file)")
		if err := metaDB.Flush(); err != nil {
			res.violation("C10/operation-failed", err.Error(), nil)
			return
		}
		d.logf("meta PrepareFlush (B immutable)")
		metaDB.PrepareFlush()
		flush = metaDB.Flush
		if which == "dictionary-collect" {
			// the index is still in memory, every series is selected; the values of the grouping key are resolved last
			p.match = "indexKVStore).CollectKVs"
			cond = nil
		} else if which == "dictionary-like" {
			p.match = "indexKVStore).findValuesByLike"
			cond = one("uid", "like", "b*")
		} else {
			p.match = "indexKVStore).FindValuesByRegexp"
			cond = one("uid", "=~", "^b")
		}
	}
	index.VerifSetBitmapUnmarshal(func(b *roaring.Bitmap, data []byte) (int64, error) {
		p.maybePark()
		return origBitmap(b, data)
	})
	model.VerifSetGetTrieFn(func() trie.SuccinctTrie {
		p.maybePark()
		return origTrie()
	})
	p.mu.Lock()
	p.armed = true
	p.mu.Unlock()
	type out struct{ ok bool }
	done := make(chan out, 1)
	go func() {
		ok := d.expect("m", cond, []string{"uid"}, class,
			"a flush completed between the query's kv snapshot and its read of the memory stores: the entries that moved from the immutable store into the new file are in neither")
		done <- out{ok}
	}()
	parkedAt := ""
	select {
	case parkedAt = <-p.parked:
		d.logf("query parked inside %s (decoding what it loaded from the table files of its snapshot)", parkedAt)
		res.count("queries_parked_between_snapshot_and_memory_read", 1)
	case o := <-done:
		// the query never mapped a file of the family: the window was not reached
		d.logf("query finished without decoding table data inside %s (ok=%v)", p.match, o.ok)
		res.count("flush_window_not_reached."+which, 1)
		return
	case <-time.After(60 * time.Second):
		res.Notes = append(res.Notes, "watchdog: flush-window "+which+": query neither parked nor finished")
		close(p.release)
		return
	}
	flushed := make(chan error, 1)
	go func() { flushed <- flush() }()
	select {
	case err := <-flushed:
		d.logf("flush completed while the query is parked (err=%v)", err)
		res.count("flushes_completed_inside_a_parked_query", 1)
	case <-time.After(20 * time.Second):
		// the flush needs something the parked reader holds: the window cannot be opened this way
		d.logf("flush did not complete while the query is parked")
		res.count("flush_blocked_by_parked_query."+which, 1)
		close(p.release)
		<-flushed
		<-done
		return
	}
	close(p.release)
	select {
	case <-done:
	case <-time.After(120 * time.Second):
		res.Notes = append(res.Notes, "watchdog: flush-window "+which+": query did not finish after release")
		return
	}
	restore()
	// afterwards (no window): the same query must be right
	d.expect("m", cond, []string{"uid"}, "C10/select/after-flush-window/"+which, "the same query after the flush")
	res.count("directed_scenarios.flush-window-"+which, 1)
}

// scenarioGroupingFlushWindow: the group-by path. forwardIndex.GetGroupingContext works key by key; for the first key
// it opens (maps) every table file of the forward family that nobody has read yet. The kv table map seam tells the
// harness that the lookup is there - its snapshot is taken, the first key's memory scanners are collected - and starts
// the running index flush (B is in the immutable stores); every further file mapping of the lookup is delayed a little
// (pacing only) until the flush has completed, so that the remaining files of the first key and all of the second
// key's work happen after the flush dropped the immutable store. The window counts as opened on logical events: the
// first forward file was mapped before the flush was started and a later one after it had completed. Nothing is
// written meanwhile, so the oracle is exact: every series of A and B in its (host, uid) group.
func scenarioGroupingFlushWindow(res *caseResult, dir string) {
	d, err := newDirected(res, dir, "flush-window-grouping")
	if err != nil {
		res.violation("C10/operation-failed", "directed: "+err.Error(), nil)
		return
	}
	defer d.close()
	defer seam.Restore()
	shard, _ := d.n.Shard(0)
	idxDB := shard.IndexDB()
	mk := func(prefix string, k int) []map[string]string {
		var ts []map[string]string
		for i := 0; i < k; i++ {
			ts = append(ts, map[string]string{"uid": fmt.Sprintf("%s-%d", prefix, i), "host": fmt.Sprintf("h%d", i%2), "dc": "d"})
		}
		return ts
	}
	// A: 40 flushes, each leaves one forward-index table file that no lookup has opened
	for i := 0; i < 40; i++ {
		d.write("m", mk(fmt.Sprintf("a%d", i), 3)...)
		if err := d.n.FlushMeta(); err != nil {
			res.violation("C10/operation-failed", err.Error(), nil)
			return
		}
		if err := d.n.FlushIndex(); err != nil {
			res.violation("C10/operation-failed", err.Error(), nil)
			return
		}
	}
	d.write("m", mk("b", 6)...)
	d.logf("index PrepareFlush (B immutable)")
	idxDB.PrepareFlush()
	var mu sync.Mutex
	maps, mapsAfterFlush := 0, 0
	flushStarted, flushDone := false, false
	start := make(chan struct{})
	flushed := make(chan error, 1)
	go func() {
		<-start
		err := idxDB.Flush()
		mu.Lock()
		flushDone = true
		mu.Unlock()
		flushed <- err
	}()
	marker := string(filepath.Separator) + "forward" + string(filepath.Separator)
	seam.InstallKV(seam.Direct{}, &seam.Observer{AfterMap: func(path string) {
		if !strings.Contains(path, marker) {
			return
		}
		mu.Lock()
		maps++
		first := !flushStarted
		flushStarted = true
		done := flushDone
		if done {
			mapsAfterFlush++
		}
		mu.Unlock()
		if first {
			close(start)
		}
		// pacing only (never the verdict): this runs under the table cache lock, which the flush's commit needs, so the
		// lookup cannot wait for the flush here; it yields in short steps (at most 50 ms per file, 40 files) and stops
		// yielding as soon as the flush has completed. Whether the window opened is decided on the two logical events.
		for i := 0; i < 25 && !done; i++ {
			time.Sleep(2 * time.Millisecond)
			mu.Lock()
			done = flushDone
			mu.Unlock()
		}
	}})
	ok := d.expect("m", nil, []string{"host", "uid"}, "C10/flush-window/grouping",
		"an index flush completed after the group-by lookup took the forward family's snapshot and before it read the memory stores of its later keys: "+
			"the series that moved from the immutable store into the new file are in neither")
	mu.Lock()
	started, after, total := flushStarted, mapsAfterFlush, maps
	mu.Unlock()
	if !started {
		close(start)
	}
	select {
	case <-flushed:
	case <-time.After(60 * time.Second):
		res.Notes = append(res.Notes, "watchdog: flush-window-grouping: flush did not complete")
		return
	}
	seam.Restore()
	d.logf("forward files mapped by the lookup: %d, of them after the flush completed: %d (answer right: %v)", total, after, ok)
	if started && after > 0 {
		res.count("grouping_lookups_straddling_a_completed_flush", 1)
	} else {
		res.count("flush_window_not_reached.grouping", 1)
	}
	d.expect("m", nil, []string{"host", "uid"}, "C10/select/after-flush-window/grouping", "the same query after the flush")
	res.count("directed_scenarios.flush-window-grouping", 1)
}

func runDirectedCase(idx int, dir, tier string, seed int64) *caseResult {
	res := &caseResult{Kind: "directed", Index: idx}
	_ = rand.New(rand.NewSource(seed))
	scenarioNarrowClasses(res, dir)
	for _, w := range []string{"inverted", "metric", "dictionary-like", "dictionary-regex", "dictionary-collect"} {
		scenarioFlushWindow(res, dir, w)
	}
	for attempt := 0; attempt < 3; attempt++ {
		scenarioGroupingFlushWindow(res, filepath.Join(dir, fmt.Sprintf("g%d", attempt)))
		if res.Counters["grouping_lookups_straddling_a_completed_flush"] > 0 {
			break
		}
	}
	res.Sample = map[string]interface{}{"case": "directed", "scenarios": []string{"narrow-classes", "flush-window-inverted", "flush-window-metric", "flush-window-dictionary-like", "flush-window-dictionary-regex", "flush-window-dictionary-collect", "flush-window-grouping"}}
	return res
}
