package main

import (
	"fmt"
	"math/rand"
	"os"
	"path/filepath"
	"strings"
	"sync"
	"sync/atomic"
	"time"

	"github.com/lindb/lindb/kv/table"
	"github.com/lindb/lindb/models"
	"github.com/lindb/lindb/verif/internal/node"
	"github.com/lindb/lindb/verif/internal/seam"
)

// runConcCase: queries while writes, production flushes (metadata + index) and compactions run freely.
//
// The writer writes the series of a generated data set in small chunks, one chunk per query (it starts a chunk when a
// query starts, so every query overlaps a write); the flusher cycles db.FlushMeta / shard.FlushIndex and compacts now
// and then. For a query the oracle knows two logical bounds: lo = series whose Write call had returned before the
// query was issued (they must be selected if they satisfy the condition), hi = series whose Write call had begun
// before the query returned (nothing else may be selected). Both are counters, not clocks.
func runConcCase(idx int, dir, tier string, seed int64) *caseResult {
	res := &caseResult{Kind: "conc", Index: idx}
	r := rand.New(rand.NewSource(seed*1_000_003 + int64(idx)*15485863 + 11))
	quick := tier == "quick"
	nSeries := 500 + r.Intn(400)
	if !quick {
		nSeries = 1500 + r.Intn(2500)
	}
	var ds *dataset
	for {
		ds = genDataset(r, nSeries)
		if !ds.Comma {
			break
		}
	}
	var series []*seriesSpec
	for _, s := range ds.Series {
		series = append(series, s) // both metrics, write order
	}
	g := &condGen{r: r, ds: ds}
	ev := newEvaluator()
	var conds []*chain
	for len(conds) < 30 {
		c := g.condition()
		if hasLikeStar(c) || hasRewriteTwins(c) || ev.invalidRegex(c) {
			continue
		}
		bad := false
		for _, a := range c.atoms(nil) {
			if a.Key == "nokey" || a.Key == "rack" {
				bad = true
			}
		}
		if !bad {
			conds = append(conds, c)
		}
	}
	caseID := fmt.Sprintf("conc-%d", idx)
	n, err := node.Open(node.Options{Dir: filepath.Join(dir, "n"), ShardIDs: []models.ShardID{0}, StrictTickGuard: true})
	if err != nil {
		res.violation("C10/operation-failed", caseID+": open: "+err.Error(), nil)
		return res
	}
	cl := node.NewCluster(n, node.Layout{})
	defer func() { cl.Close(); n.Close() }()
	// every unmap of a kv table file (obsolete after a compaction, released with the last version that holds it) is counted
	var unmaps atomic.Int64
	seam.InstallKV(seam.Direct{}, &seam.Observer{AfterUnmap: func(string) { unmaps.Add(1) }})
	defer seam.Restore()
	if os.Getenv("C10_CONC_NOUNMAP") != "" {
		// experiment: table files stay mapped (leaked) - separates use-after-unmap from everything else
		table.VerifSetSeams(table.VerifSeams{Unmap: func(*os.File, []byte) error { unmaps.Add(1); return nil }})
	}
	now := time.Now().UnixMilli()
	t0 := now - now%3600_000 - 2*3600_000
	ts := t0 + 600_000
	timeCond := fmt.Sprintf("time >= '%s' and time <= '%s'", node.FormatTime(t0), node.FormatTime(t0+3599_000))

	var started, completed atomic.Int64 // number of series (prefix of `series`) whose write began / returned
	var writerDone, stop atomic.Bool
	var opLog []string
	var logMu sync.Mutex
	logf := func(format string, args ...interface{}) {
		logMu.Lock()
		opLog = append(opLog, fmt.Sprintf(format, args...))
		if len(opLog) > 400 {
			opLog = opLog[len(opLog)-300:]
		}
		logMu.Unlock()
	}
	recent := func() []string {
		logMu.Lock()
		defer logMu.Unlock()
		return append([]string{}, opLog...)
	}
	tick := make(chan struct{}, 1)
	var wg sync.WaitGroup
	var writeErr, flushErr error
	// writer
	wg.Add(1)
	go func() {
		defer wg.Done()
		defer writerDone.Store(true)
		wr := rand.New(rand.NewSource(seed + int64(idx)))
		pos := 0
		for pos < len(series) {
			<-tick
			k := 1 + wr.Intn(6)
			if pos+k > len(series) {
				k = len(series) - pos
			}
			var pts []node.Point
			for _, s := range series[pos : pos+k] {
				pts = append(pts, pointOf(s, ts, s.Weight))
			}
			started.Store(int64(pos + k))
			logf("write series %d..%d", pos, pos+k-1)
			if _, err := n.Write(pts); err != nil {
				writeErr = err
				return
			}
			completed.Store(int64(pos + k))
			pos += k
		}
	}()
	// flusher
	var flushCycles, compactions atomic.Int64
	wg.Add(1)
	go func() {
		defer wg.Done()
		fr := rand.New(rand.NewSource(seed*7 + int64(idx)))
		for i := 0; !stop.Load(); i++ {
			logf("flush cycle %d (series completed: %d)", i, completed.Load())
			if err := n.FlushMeta(); err != nil {
				flushErr = err
				return
			}
			if err := n.FlushIndex(); err != nil {
				flushErr = err
				return
			}
			flushCycles.Add(1)
			if fr.Intn(6) == 0 && os.Getenv("C10_CONC_NOCOMPACT") == "" {
				logf("compact index + meta")
				n.CompactStores("index")
				n.CompactStores("meta")
				compactions.Add(1)
			}
			if fr.Intn(3) == 0 {
				time.Sleep(time.Duration(fr.Intn(3)) * time.Millisecond) // pacing only
			}
		}
	}()

	mainOf := func(k int64) []*seriesSpec {
		var rs []*seriesSpec
		for _, s := range series[:k] {
			if s.Metric == ds.Metric {
				rs = append(rs, s)
			}
		}
		return rs
	}
	qr := rand.New(rand.NewSource(seed*13 + int64(idx)))
	queriesDuring := 0
	for !writerDone.Load() {
		c := conds[qr.Intn(len(conds))]
		text := buildSQL(ds.Metric, c, []string{"uid"}, timeCond, rand.New(rand.NewSource(int64(qr.Intn(1000)))))
		lo := completed.Load()
		unmapsBefore := unmaps.Load()
		select {
		case tick <- struct{}{}:
		default:
		}
		o := observe(cl.Query(text), []string{"uid"})
		hi := started.Load()
		// was a table file unmapped at some point of the query? (logical: a counter fed by the kv table unmap seam, no clock)
		compactionOverlapped := unmaps.Load() > unmapsBefore
		if compactionOverlapped {
			res.count("concurrent_queries_during_which_a_table_file_was_unmapped", 1)
		}
		res.Evals++
		queriesDuring++
		if o.Bad != "" {
			res.Notes = append(res.Notes, "watchdog: "+o.Bad+" "+text)
			break
		}
		must := project(ev.selectSeries(c, mainOf(lo)), []string{"uid"})
		may := project(ev.selectSeries(c, mainOf(hi)), []string{"uid"})
		if len(must) > 0 {
			res.count("concurrent_queries_with_a_nonempty_lower_bound", 1)
			res.Nontrivial = append(res.Nontrivial, hashKey(caseID, queriesDuring))
		}
		if hi > lo {
			res.count("concurrent_queries_overlapping_a_write", 1)
		}
		if o.Err != "" {
			if len(must) == 0 && strings.Contains(o.Err, "not found") {
				res.count("not_found_error_where_nothing_must_be_selected", 1)
				continue
			}
			if strings.Contains(o.Err, "tag key not found") {
				// a key that only series written later (or being written) carry is not in the metric's schema yet: refused
				qc := &queryCase{Cond: c, Group: []string{"uid"}}
				if unk, _ := unknownKeys(qc, mainOf(lo)); len(unk) > 0 {
					res.count("unknown_key_refused", 1)
					continue
				}
			}
			if strings.Contains(o.Err, ".sst: no such file or directory") {
				// index/kv_store.go hands its one store-held kv snapshot to every lookup without a reference of their own; Flush
				// closes it, the version is released and table files a compaction made obsolete are removed under the lookup
				res.violation("C10/use-after-unmap/conc-table-file-removed-under-a-lookup", fmt.Sprintf("%s: query failed with %q: %s", caseID, o.Err, text),
					map[string]interface{}{"case": caseID, "sql": text, "error": o.Err, "recent": recent()})
				continue
			}
			res.violation("C10/conc/query-error/"+classToken(o.Err), fmt.Sprintf("%s: query failed with %q while flushes run; %d series must be selected: %s", caseID, o.Err, len(must), text),
				map[string]interface{}{"case": caseID, "sql": text, "error": o.Err, "recent": recent()})
			continue
		}
		if len(o.Groups) == 0 && len(must) > 0 {
			// a refused query (unknown tag key) whose error the root dropped shows as an empty result (see canonical in hist.go)
			qc := &queryCase{Cond: c, Group: []string{"uid"}}
			if unk, _ := unknownKeys(qc, mainOf(lo)); len(unk) > 0 {
				res.count("unknown_key_refused", 1)
				res.count("unknown_key_refused_but_the_error_was_dropped_by_the_root", 1)
				continue
			}
		}
		var missing, extra, wrong []string
		for id, gexp := range must {
			got, ok := o.Groups[id]
			if !ok {
				missing = append(missing, showGroup(id))
			} else if got != gexp.Sum {
				wrong = append(wrong, fmt.Sprintf("%s: expected %v got %v", showGroup(id), gexp.Sum, got))
			}
		}
		for id, got := range o.Groups {
			gexp, ok := may[id]
			if !ok {
				extra = append(extra, showGroup(id))
			} else if _, inMust := must[id]; !inMust && got != gexp.Sum && got != 0 {
				// (a series whose Write call is still running may be indexed before its point is stored: no value yet)
				wrong = append(wrong, fmt.Sprintf("%s: expected %v got %v", showGroup(id), gexp.Sum, got))
			}
		}
		w := map[string]interface{}{"case": caseID, "sql": text, "condition": c, "lower_bound_series": lo, "upper_bound_series": hi,
			"missing": trunc(missing, 20), "extra": trunc(extra, 20), "wrong_sum": trunc(wrong, 20), "recent": recent()}
		// explanation for extra series: a negated atom is answered as (series that have the key NOW) minus (series of the
		// value ids that matched at lookup time): a series created between the two steps is selected although its value matches
		negExplains := len(extra) > 0
		allInflight := true
		notResolved := len(extra) == 1 && extra[0] == "tag_value_not_found"
		if negExplains && !notResolved {
			byUID := map[string]*seriesSpec{}
			for _, s := range series[:hi] {
				if s.Metric == ds.Metric {
					byUID[s.Tags["uid"]] = s
				}
			}
			inflight := map[string]*seriesSpec{}
			for _, s := range series[lo:hi] {
				if s.Metric == ds.Metric {
					inflight[s.Tags["uid"]] = s
				}
			}
			for _, id := range extra {
				s, ok := byUID[id]
				if !ok {
					negExplains = false
					break
				}
				if _, in := inflight[id]; !in {
					allInflight = false
				}
				hasNeg := false
				for _, a := range c.atoms(nil) {
					switch a.Cmp {
					case "!=", "notin", "notlike", "!~":
						if _, has := s.Tags[a.Key]; has {
							hasNeg = true
						}
					}
				}
				if !hasNeg {
					negExplains = false
					break
				}
			}
		}
		// the one open cause the harness knows for an answer outside the bounds: posting lists / grouping scanners that still
		// point into a table file which a compaction made obsolete and unmapped (C10/use-after-unmap/*, reproduced by the unmap
		// case) read other bytes. It is only accepted as that when a table file was unmapped while the query ran.
		anomaly := func(kind, msg string) {
			if compactionOverlapped {
				res.violation("C10/use-after-unmap/conc-"+kind, fmt.Sprintf("%s: a table file was unmapped while the query ran: %s: %s", caseID, msg, text), w)
			} else {
				res.violation("C10/conc/"+kind, fmt.Sprintf("%s: while flushes run (no table file was unmapped during the query): %s: %s", caseID, msg, text), w)
			}
		}
		switch {
		case notResolved:
			anomaly("group-value-not-resolved", "a group was returned with lindb's placeholder `tag_value_not_found` instead of its uid")
		case negExplains && allInflight:
			res.violation("C10/conc/negated-atom-selects-series-created-during-the-query", fmt.Sprintf("%s: series whose write overlapped the query and whose value matches the negated pattern were selected: %v: %s",
				caseID, trunc(extra, 6), text), w)
		case len(extra) > 0:
			anomaly("selected-series-that-do-not-satisfy", fmt.Sprintf("the query returned series that do not satisfy the condition (or were not written): %v", trunc(extra, 6)))
		case len(wrong) > 0:
			anomaly("wrong-sum", fmt.Sprintf("%v", trunc(wrong, 4)))
		case len(missing) > 0:
			if os.Getenv("C10_CONC_DEBUG") != "" {
				fmt.Printf("MISS lo=%d hi=%d missing=%v\n  sql=%s\n  recent=%v\n", lo, hi, trunc(missing, 8), text, recent()[len(recent())-8:])
				o2 := observe(cl.Query(text), []string{"uid"})
				still := 0
				for id := range must {
					if _, ok := o2.Groups[id]; !ok {
						still++
					}
				}
				fmt.Printf("  re-run: still missing %d of %d\n", still, len(missing))
				for _, a := range c.atoms(nil) {
					single := &chain{Terms: []*term{{Atom: a}}}
					t2 := buildSQL(ds.Metric, single, []string{"uid"}, timeCond, rand.New(rand.NewSource(1)))
					o3 := observe(cl.Query(t2), []string{"uid"})
					e3 := project(ev.selectSeries(single, mainOf(lo)), []string{"uid"})
					m3 := 0
					for id := range e3 {
						if _, ok := o3.Groups[id]; !ok {
							m3++
						}
					}
					fmt.Printf("  atom %s: err=%q missing %d of %d\n", a.SQL(nil), o3.Err, m3, len(e3))
				}
			}
			anomaly("series-missing", fmt.Sprintf("series written before the query began and satisfying the condition are missing: %v", trunc(missing, 6)))
		default:
			res.count("concurrent_queries_within_bounds", 1)
		}
	}
	stop.Store(true)
	select {
	case tick <- struct{}{}:
	default:
	}
	wg.Wait()
	res.count("conc_flush_cycles", int(flushCycles.Load()))
	res.count("conc_compactions", int(compactions.Load()))
	res.count("conc_queries_during_writes", queriesDuring)
	if writeErr != nil || flushErr != nil {
		res.violation("C10/operation-failed", fmt.Sprintf("%s: write error %v, flush error %v", caseID, writeErr, flushErr), nil)
		return res
	}
	// quiescent: everything written, nothing running: exact oracle
	written := mainOf(int64(len(series)))
	for i, c := range conds {
		text := buildSQL(ds.Metric, c, []string{"uid"}, timeCond, rand.New(rand.NewSource(int64(i))))
		o := observe(cl.Query(text), []string{"uid"})
		res.Evals++
		if o.Bad != "" {
			res.Notes = append(res.Notes, "watchdog: "+o.Bad+" "+text)
			continue
		}
		exp := project(ev.selectSeries(c, written), []string{"uid"})
		d := compare(exp, o)
		if o.Err != "" && !(len(exp) == 0 && strings.Contains(o.Err, "not found")) || o.Err == "" && !d.empty() {
			res.violation("C10/conc/after-quiescence/"+d.kind(), fmt.Sprintf("%s: after the concurrent phase: error %q missing %v extra %v wrong %v: %s", caseID, o.Err,
				trunc(d.Missing, 5), trunc(d.Extra, 5), trunc(d.WrongSum, 3), text), map[string]interface{}{"case": caseID, "sql": text, "recent": recent()})
		} else {
			res.count("queries_matching_after_the_concurrent_phase", 1)
		}
	}
	if idx == 0 {
		res.Sample = map[string]interface{}{"case": caseID, "series": len(series), "flush_cycles": flushCycles.Load(), "queries_during_writes": queriesDuring}
	}
	return res
}
