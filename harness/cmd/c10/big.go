package main

import (
	"fmt"
	"math/rand"
	"path/filepath"
	"sort"
	"time"

	"github.com/lindb/lindb/models"
)

// runBigCase: one metric with more series than one roaring container holds (quick: 66 000, thorough: up to 140 000, i.e.
// series ids in three containers), flushed at points chosen so that one forward-index entry spans containers, then
// compacted and reopened. Conditions select series on both sides of the boundaries; group-bys project them.
func runBigCase(idx int, dir, tier string, seed int64) *caseResult {
	res := &caseResult{Kind: "big", Index: idx}
	r := rand.New(rand.NewSource(seed*1_000_003 + int64(idx)*104729 + 5))
	quick := tier == "quick"
	n := 66_000 + r.Intn(1500)
	if !quick {
		switch idx % 4 {
		case 0:
			n = 140_000 + r.Intn(2000)
		case 1:
			n = 132_000 + r.Intn(1000)
		case 2:
			n = 70_000 + r.Intn(60_000)
		default:
			n = 65_537 + r.Intn(50)
		}
	}
	// flush points: a first flush inside the first container, the rest lands in one later flush, so that the second
	// forward/inverted file starts in the middle of container 0 and spans the later containers
	first := 60_000 + r.Intn(5_000)
	if r.Intn(3) == 0 {
		first = 1 + r.Intn(n-1)
	}
	ds := &dataset{Metric: "big", Keys: []string{"host", "dc", "late", "sparse", "blk"}, Batches: 2}
	nHosts := 50 + r.Intn(100)
	lateFrom := 65_500 + r.Intn(100) // key carried only by series around / after the first boundary
	if lateFrom >= n {
		lateFrom = n - 10
	}
	step := 900 + r.Intn(300)
	for i := 0; i < n; i++ {
		s := &seriesSpec{Idx: i, Metric: ds.Metric, Weight: float64(i + 1), Tags: map[string]string{
			"uid":  fmt.Sprintf("u%d", i),
			"host": fmt.Sprintf("h%d", i%nHosts),
			"blk":  fmt.Sprintf("b%d", i/4096),
		}}
		if i%5 != 0 {
			s.Tags["dc"] = fmt.Sprintf("d%d", i%3)
		}
		if i >= lateFrom {
			s.Tags["late"] = fmt.Sprintf("l%d", i%7)
		}
		if i%step == 0 {
			s.Tags["sparse"] = fmt.Sprintf("s%d", i/step%4)
		}
		if i >= first {
			s.Batch = 1
		}
		ds.Series = append(ds.Series, s)
	}
	res.count("big_series", n)
	if n > 65536 {
		res.count("data_sets_crossing_the_first_container_boundary", 1)
	}
	if n > 131072 {
		res.count("data_sets_crossing_the_second_container_boundary", 1)
	}
	// queries
	var queries []*queryCase
	add := func(c *chain, group ...string) {
		queries = append(queries, &queryCase{ID: len(queries), Cond: c, Group: group})
	}
	at := func(key, cmp string, vals ...string) *chain {
		return &chain{Terms: []*term{{Atom: &atom{Key: key, Cmp: cmp, Vals: vals, BareKey: true}}}}
	}
	and := func(a, b *chain) *chain {
		return &chain{Terms: []*term{{Sub: a, Parens: 1}, {Sub: b, Parens: 1}}, Ops: []string{"and"}}
	}
	or := func(a, b *chain) *chain {
		return &chain{Terms: []*term{{Sub: a, Parens: 1}, {Sub: b, Parens: 1}}, Ops: []string{"or"}}
	}
	h1, h2 := fmt.Sprintf("h%d", r.Intn(nHosts)), fmt.Sprintf("h%d", r.Intn(nHosts))
	lastBlk := fmt.Sprintf("b%d", (n-1)/4096)
	add(at("host", "=", h1), "uid")
	add(at("host", "in", h1, h2, "h-none"), "uid")
	add(at("sparse", "like", "s*"), "uid")
	add(at("sparse", "!=", "s1"), "uid")
	add(at("late", "=", "l3"), "uid")
	add(at("late", "!~", "^l[0-4]$"), "uid")
	add(and(at("dc", "!=", "d1"), at("host", "=", h2)), "uid")
	add(or(at("blk", "=", "b15"), at("blk", "=", "b16")), "uid") // 8192 series around the first boundary
	add(at("blk", "=", lastBlk), "uid")
	add(and(at("uid", "like", "u6553*"), at("dc", "notlike", "d2*")), "uid")
	add(at("uid", "=~", "^u(65535|65536|131071|131072|0|"+fmt.Sprint(n-1)+")$"), "uid")
	add(at("uid", "in", "u65535", "u65536", "u131071", "u131072", fmt.Sprintf("u%d", n-1), fmt.Sprintf("u%d", n)), "uid", "host", "blk")
	add(nil, "host")
	add(nil, "host", "dc")
	add(nil, "blk")
	add(nil, "late")
	add(nil, "late", "sparse")
	add(at("dc", "=", "d2"), "blk", "dc")
	add(at("host", "=", h1), "blk", "late")
	add(and(at("late", "like", "l*"), at("dc", "!=", "d0")), "host", "late")
	add(at("blk", "in", "b15", "b16", "b31", "b32", lastBlk), "sparse", "blk")
	add(nil, "uid") // every series as its own group
	queries[len(queries)-1].Heavy = true
	add(at("dc", "!=", "d0"), "uid")
	queries[len(queries)-1].Heavy = true
	caseID := fmt.Sprintf("big-%d(n=%d,first-flush-at=%d)", idx, n, first)
	pdir := filepath.Join(dir, "p")
	h := &histRunner{res: res, caseID: caseID, placement: "container-boundaries", dir: pdir, ds: ds, ev: newEvaluator(), rnd: r,
		queries: queries, flagged: map[int]bool{}, skipHeavy: quick}
	now := time.Now().UnixMilli()
	h.t0 = now - now%3600_000 - 2*3600_000
	h.ts = h.t0 + 600_000
	for _, q := range queries {
		q.SQL = buildSQL(ds.Metric, q.Cond, q.Group, h.timeCond(), rand.New(rand.NewSource(seed+int64(q.ID))))
	}
	h.opts.ShardIDs = []models.ShardID{0}
	if err := h.open(1); err != nil {
		res.violation("C10/operation-failed", fmt.Sprintf("%s: open: %v", caseID, err), nil)
		return res
	}
	defer h.close()
	// FD: the points are moved into table files right away, so that the queries do not read a memory database holding
	// more than one container of series (its loader shares one field reader between the containers' parallel loads -
	// tsdb/memdb/time_series_index.go Load / fieldEntry.Reset - and returns other series' values now and then; that
	// belongs to C11, see the report)
	ops := []string{"W", "FD", "FLM", "FLI", "Q", "W", "FD", "Q", "PFI", "PFM", "Q", "FI", "FM", "Q", "CI", "CM", "Q", "RO", "Q"}
	if !quick && idx%2 == 1 {
		ops = []string{"W", "W", "FD", "Q", "FLA", "Q", "RO", "Q"} // everything in one flush
	}
	h.log("placement: %v", ops)
	structural := false
	for _, op := range ops {
		start := time.Now()
		switch op {
		case "Q":
			h.roundOfQueries(structural)
			structural = true
		case "W":
			structural = false
			if err := h.exec(op); err != nil {
				res.violation("C10/operation-failed", fmt.Sprintf("%s: %s: %v", caseID, op, err), nil)
				return res
			}
		default:
			if err := h.exec(op); err != nil {
				res.violation("C10/operation-failed", fmt.Sprintf("%s: %s: %v", caseID, op, err), nil)
				return res
			}
		}
		h.log("   (%s took %v)", op, time.Since(start).Round(time.Millisecond))
	}
	// which series ids did lindb give out? (observation: the highest id must have crossed the boundary)
	if sh, ok := h.n.Shard(0); ok {
		if mid, err := h.n.DB.MetaDB().GetMetricID("default-ns", ds.Metric); err == nil {
			if ids, err := sh.IndexDB().GetSeriesIDsForMetric(mid); err == nil && !ids.IsEmpty() {
				hk := ids.GetHighKeys()
				sort.Slice(hk, func(i, j int) bool { return hk[i] < hk[j] })
				res.count("roaring_containers_of_the_metric's_series_ids", len(hk))
				if ids.Maximum() >= 65536 {
					res.count("metrics_with_series_ids_beyond_65535", 1)
				}
				if ids.Maximum() >= 131072 {
					res.count("metrics_with_series_ids_beyond_131071", 1)
				}
			}
		}
	}
	res.Sample = map[string]interface{}{"case": caseID, "series": n, "first_flush_at": first, "queries": len(queries), "ops": ops}
	return res
}
