package main

import (
	"fmt"
	"os"
	"strconv"
	"testing"
	"time"

	"github.com/lindb/lindb/verif/internal/node"
)

func TestFreshLoop(t *testing.T) {
	if os.Getenv("C10_FRESH") == "" {
		t.Skip()
	}
	dir, _ := os.MkdirTemp("", "c10fresh")
	defer os.RemoveAll(dir)
	n, err := node.Open(node.Options{Dir: dir})
	if err != nil {
		t.Fatal(err)
	}
	cl := node.NewCluster(n, node.Layout{})
	defer func() { cl.Close(); n.Close() }()
	now := time.Now().UnixMilli()
	t0 := now - now%3600_000 - 2*3600_000
	ts := t0 + 600_000
	tr := fmt.Sprintf("time >= '%s' and time <= '%s'", node.FormatTime(t0), node.FormatTime(t0+3599_000))
	iters, _ := strconv.Atoi(os.Getenv("C10_FRESH"))
	bad := 0
	for i := 0; i < iters; i++ {
		m := fmt.Sprintf("fresh%d", i)
		p := node.Point{Metric: m, Tags: map[string]string{"uid": fmt.Sprintf("fresh-u%d", i), "host": "fresh-h"}, Timestamp: ts, Fields: []node.Field{{Name: "f", Type: node.Sum, Value: 1}}}
		if _, err := n.Write([]node.Point{p}); err != nil {
			t.Fatal(err)
		}
		if err := n.FlushAll(); err != nil {
			t.Fatal(err)
		}
		sqlText := "select f from '" + m + "' where " + tr + " group by uid limit 1000"
		show := func() string {
			res := cl.Query(sqlText)
			s := fmt.Sprintf("err=%v", res.Err)
			if res.ResultSet != nil {
				for _, se := range res.ResultSet.Series {
					s += fmt.Sprintf(" %v=%v", se.Tags, se.Fields)
				}
			}
			return s
		}
		a := show()
		want := fmt.Sprintf("err=<nil> map[uid:fresh-u%d]=map[f:map[%d:1]]", i, ts)
		if a != want {
			b := show()
			bad++
			fmt.Printf("ITER %d first: %s\n        second: %s\n", i, a, b)
		}
	}
	fmt.Println("anomalies", bad, "of", iters)
}
