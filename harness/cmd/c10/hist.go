package main

import (
	"encoding/json"
	"fmt"
	"hash/fnv"
	"math/rand"
	"os"
	"path/filepath"
	"sort"
	"strings"
	"time"

	"github.com/lindb/lindb/models"
	"github.com/lindb/lindb/verif/internal/core"
	"github.com/lindb/lindb/verif/internal/node"
)

// caseResult is what a child reports back.
type caseResult struct {
	Kind       string           `json:"kind"`
	Index      int              `json:"index"`
	Counters   map[string]int   `json:"counters"`
	Violations []core.Violation `json:"violations"`
	Nontrivial []string         `json:"nontrivial"`
	Sample     interface{}      `json:"sample,omitempty"`
	Evals      int              `json:"evals"`
	Notes      []string         `json:"notes,omitempty"`
}

func (r *caseResult) count(name string, n int) {
	if r.Counters == nil {
		r.Counters = map[string]int{}
	}
	r.Counters[name] += n
}

func (r *caseResult) violation(class, msg string, witness interface{}) {
	r.count("violations."+class, 1)
	for _, v := range r.Violations {
		if v.Class == class {
			return
		}
	}
	r.Violations = append(r.Violations, core.Violation{Class: class, Message: msg, Witness: witness})
}

func writeResult(dir string, res *caseResult) {
	data, _ := json.Marshal(res)
	_ = os.WriteFile(filepath.Join(dir, "result.json"), data, 0o644)
}

func hashKey(parts ...interface{}) string {
	h := fnv.New64a()
	fmt.Fprint(h, parts...)
	return fmt.Sprintf("%x", h.Sum64())
}

// ---------------------------------------------------------------------------------------------
// index state bookkeeping (what the history did to the stores; used for labels and coverage, never for the verdict)

type storeState struct {
	Mem, Imm  bool
	Files     int
	Compacted bool
	Reopened  bool
}

func (s *storeState) write() { s.Mem = true }
func (s *storeState) prepare() {
	if !s.Imm {
		s.Imm, s.Mem = s.Mem, false
	}
}
func (s *storeState) flush() {
	if s.Imm {
		s.Imm = false
		s.Files++
		s.Compacted = false
	}
}
func (s *storeState) compact() {
	if s.Files > 1 {
		s.Files = 1
		s.Compacted = true
	}
}
func (s *storeState) label() string {
	switch {
	case s.Imm && s.Mem && s.Files > 0:
		return "mem+imm+file"
	case s.Imm && s.Mem:
		return "mem+imm"
	case s.Imm && s.Files > 0:
		return "imm+file"
	case s.Imm:
		return "imm"
	case s.Files == 0:
		return "mem"
	case s.Mem:
		return "mem+file"
	case s.Compacted:
		return "compacted"
	case s.Reopened:
		return "reopened"
	case s.Files > 1:
		return "files"
	default:
		return "file"
	}
}

// ---------------------------------------------------------------------------------------------

// queryCase is one query of a round: a condition (nil = no tag condition) and the group-by keys.
type queryCase struct {
	ID    int
	Cond  *chain
	Group []string
	SQL   string
	Twins bool // the condition holds two atoms with the same Rewrite() text
	Heavy bool // tens of thousands of groups: asked only at states without memory entries when SkipHeavy is set
}

// observation is what one query returned.
type observation struct {
	Err    string
	Groups map[string]float64
	Dup    []string
	NoData []string // groups returned without a value for f
	Bad    string   // stuck / timed out
}

// canonical renders the answer for answer-to-answer comparisons. An error and an empty result are the same answer
// here: the root drops the error of a fast leaf response now and then (baseTaskContext.Complete(nil) of the root's own
// pipeline overwrites the error a response has just set), which then shows as an empty result.
func (o *observation) canonical() string {
	var b strings.Builder
	if o.Err != "" || len(o.Groups) == 0 {
		return "empty-or-error"
	}
	ks := make([]string, 0, len(o.Groups))
	for k := range o.Groups {
		ks = append(ks, k)
	}
	sort.Strings(ks)
	for _, k := range ks {
		fmt.Fprintf(&b, "%q=%v;", k, o.Groups[k])
	}
	return b.String()
}

type histRunner struct {
	res       *caseResult
	caseID    string
	placement string
	dir       string
	ds        *dataset
	opts      node.Options
	n         *node.Node
	c         *node.Cluster
	ev        *evaluator
	rnd       *rand.Rand
	written   int // batches written so far
	idx, meta storeState
	t0, ts    int64
	history   []string
	queries   []*queryCase
	last      map[int]string // canonical observation of the previous round per query id
	lastOp    string
	round     int
	flagged   map[int]bool // queries with an oracle mismatch in this placement (not reported again by the stability checks)
	final     map[int]string
	verbose   bool
	skipHeavy bool
}

func (h *histRunner) log(format string, args ...interface{}) {
	s := fmt.Sprintf(format, args...)
	h.history = append(h.history, s)
	fmt.Println(time.Now().Format("15:04:05.000"), h.placement, s) // child log, written before the operation runs
}

func (h *histRunner) open(shards int) error {
	h.opts = node.Options{Dir: h.dir}
	for i := 0; i < shards; i++ {
		h.opts.ShardIDs = append(h.opts.ShardIDs, models.ShardID(i))
	}
	n, err := node.Open(h.opts)
	if err != nil {
		return err
	}
	h.n = n
	h.c = node.NewCluster(n, node.Layout{})
	return nil
}

func (h *histRunner) close() {
	if h.c != nil {
		h.c.Close()
		h.c = nil
	}
	if h.n != nil {
		h.n.Close()
		h.n = nil
	}
}

func pointOf(s *seriesSpec, ts int64, value float64) node.Point {
	return node.Point{Metric: s.Metric, Tags: s.Tags, Timestamp: ts, Fields: []node.Field{{Name: "f", Type: node.Sum, Value: value}}}
}

func (h *histRunner) writeBatch(b int) error {
	var pts []node.Point
	for _, s := range h.ds.Series {
		if s.Batch == b {
			pts = append(pts, pointOf(s, h.ts, s.Weight))
		} else if s.Batch < b && h.rnd.Intn(10) == 0 {
			// an already indexed series written again (adds 0 to its sum): the index must find, not re-create, it
			pts = append(pts, pointOf(s, h.ts, 0))
		}
	}
	h.res.count("series_written", len(pts))
	for len(pts) > 0 {
		k := len(pts)
		if k > 5000 {
			k = 5000
		}
		if _, err := h.n.Write(pts[:k]); err != nil {
			return err
		}
		pts = pts[k:]
	}
	h.written = b + 1
	h.idx.write()
	h.meta.write()
	return nil
}

// exec runs one operation of a placement.
func (h *histRunner) exec(op string) error {
	h.lastOp = op
	h.res.count("op."+op, 1)
	switch op {
	case "W":
		h.log("write batch %d", h.written)
		return h.writeBatch(h.written)
	case "PFI":
		h.log("index PrepareFlush")
		for _, id := range h.opts.ShardIDs {
			if sh, ok := h.n.Shard(id); ok {
				sh.IndexDB().PrepareFlush()
			}
		}
		h.idx.prepare()
	case "FI":
		h.log("index Flush")
		for _, id := range h.opts.ShardIDs {
			if sh, ok := h.n.Shard(id); ok {
				if err := sh.IndexDB().Flush(); err != nil {
					return err
				}
			}
		}
		h.idx.flush()
	case "PFM":
		h.log("meta PrepareFlush")
		h.n.DB.MetaDB().PrepareFlush()
		h.meta.prepare()
	case "FM":
		h.log("meta Flush")
		if err := h.n.DB.MetaDB().Flush(); err != nil {
			return err
		}
		h.meta.flush()
	case "FLI":
		h.log("shard.FlushIndex")
		h.idx.prepare()
		h.idx.flush()
		return h.n.FlushIndex()
	case "FLM":
		h.log("db.FlushMeta")
		h.meta.prepare()
		h.meta.flush()
		return h.n.FlushMeta()
	case "FLA":
		h.log("flush all (meta, index, data families)")
		h.idx.prepare()
		h.idx.flush()
		h.meta.prepare()
		h.meta.flush()
		return h.n.FlushAll()
	case "FD":
		// data families only (the memory databases become table files; index and metadata stores are not touched)
		h.log("flush data families")
		for _, f := range h.n.AllFamilies() {
			if err := f.Flush(); err != nil {
				return err
			}
		}
	case "CI":
		h.log("compact index families")
		k := h.n.CompactStores("index")
		h.res.count("index_families_compacted_with_2+_files", k)
		h.idx.compact()
	case "CM":
		h.log("compact meta families")
		k := h.n.CompactStores("meta")
		h.res.count("meta_families_compacted_with_2+_files", k)
		h.meta.compact()
	case "RO":
		// a clean shutdown never finds a flush half done (Close waits for the running flush job): finish held flushes first
		if h.idx.Imm {
			if err := h.exec("FI"); err != nil {
				return err
			}
		}
		if h.meta.Imm {
			if err := h.exec("FM"); err != nil {
				return err
			}
		}
		h.lastOp = op
		h.log("close + reopen")
		h.c.Close()
		h.c = nil
		n2, err := h.n.Reopen()
		if err != nil {
			h.n = nil
			return fmt.Errorf("reopen: %w", err)
		}
		h.n = n2
		h.c = node.NewCluster(n2, node.Layout{})
		for _, s := range []*storeState{&h.idx, &h.meta} {
			s.prepare()
			s.flush()
			s.prepare()
			s.flush()
			s.Reopened = true
		}
	default:
		return fmt.Errorf("unknown op %s", op)
	}
	return nil
}

func (h *histRunner) stateLabel() string {
	return "meta=" + h.meta.label() + ",idx=" + h.idx.label()
}

func (h *histRunner) timeCond() string {
	return fmt.Sprintf("time >= '%s' and time <= '%s'", node.FormatTime(h.t0), node.FormatTime(h.t0+3599_000))
}

// buildSQL renders the query text (deterministic per query case).
func buildSQL(metric string, cond *chain, group []string, timeCond string, r *rand.Rand) string {
	var b strings.Builder
	b.WriteString("select f from " + metric + " where ")
	switch {
	case cond == nil:
		b.WriteString(timeCond)
	case r.Intn(2) == 0:
		b.WriteString(timeCond + " and " + cond.SQL(r))
	default:
		b.WriteString(cond.SQL(r) + " and " + timeCond)
	}
	if len(group) > 0 {
		gs := make([]string, len(group))
		for i, k := range group {
			gs[i] = sqlKey(k, r.Intn(4) != 0)
		}
		b.WriteString(" group by " + strings.Join(gs, ","))
	}
	b.WriteString(" limit 1000000")
	return b.String()
}

func (h *histRunner) run(q *queryCase) *observation {
	res := h.c.Query(q.SQL)
	return observe(res, q.Group)
}

func observe(res *node.QueryResult, group []string) *observation {
	o := &observation{Groups: map[string]float64{}}
	if res.Stuck || res.TimedOut {
		o.Bad = fmt.Sprintf("stuck=%v timedOut=%v", res.Stuck, res.TimedOut)
	}
	if res.Err != nil {
		o.Err = res.Err.Error()
		return o
	}
	if res.ResultSet == nil {
		return o
	}
	for _, s := range res.ResultSet.Series {
		vals := make([]string, len(group))
		for i, k := range group {
			v, ok := s.Tags[k]
			if !ok {
				v = "\x00<absent>"
			}
			vals[i] = v
		}
		id := strings.Join(vals, groupSep)
		if len(s.Tags) != len(group) {
			id += fmt.Sprintf("\x00<tags=%v>", s.Tags)
		}
		sum, n := 0.0, 0
		for _, v := range s.Fields["f"] {
			sum += v
			n++
		}
		if n == 0 {
			o.NoData = append(o.NoData, id)
		}
		if _, dup := o.Groups[id]; dup {
			o.Dup = append(o.Dup, id)
		}
		o.Groups[id] += sum
	}
	return o
}

type diff struct {
	Missing, Extra, WrongSum []string
}

func (d *diff) empty() bool { return len(d.Missing)+len(d.Extra)+len(d.WrongSum) == 0 }
func (d *diff) kind() string {
	switch {
	case len(d.Missing) > 0 && len(d.Extra) > 0:
		return "missing+extra"
	case len(d.Missing) > 0:
		return "missing"
	case len(d.Extra) > 0:
		return "extra"
	default:
		return "wrong-sum"
	}
}

func showGroup(id string) string { return strings.ReplaceAll(id, groupSep, "|") }

func compare(exp map[string]*group, o *observation) *diff {
	d := &diff{}
	for id, g := range exp {
		got, ok := o.Groups[id]
		switch {
		case !ok:
			d.Missing = append(d.Missing, showGroup(id))
		case got != g.Sum:
			d.WrongSum = append(d.WrongSum, fmt.Sprintf("%s: expected %v (%d series), got %v", showGroup(id), g.Sum, g.N, got))
		}
	}
	for id := range o.Groups {
		if _, ok := exp[id]; !ok {
			d.Extra = append(d.Extra, showGroup(id))
		}
	}
	for _, id := range o.Dup {
		d.Extra = append(d.Extra, "duplicate group "+showGroup(id))
	}
	sort.Strings(d.Missing)
	sort.Strings(d.Extra)
	sort.Strings(d.WrongSum)
	return d
}

func trunc(s []string, n int) []string {
	if len(s) > n {
		return append(append([]string{}, s[:n]...), fmt.Sprintf("... %d more", len(s)-n))
	}
	return s
}

// unknownKeys returns the keys named by the query that no written series of the queried metric carries.
func unknownKeys(q *queryCase, written []*seriesSpec) (inCond, inGroup []string) {
	have := map[string]bool{}
	for _, s := range written {
		for k := range s.Tags {
			have[k] = true
		}
	}
	seen := map[string]bool{}
	if q.Cond != nil {
		for _, a := range q.Cond.atoms(nil) {
			if !have[a.Key] && !seen[a.Key] {
				seen[a.Key] = true
				inCond = append(inCond, a.Key)
			}
		}
	}
	for _, k := range q.Group {
		if !have[k] {
			inGroup = append(inGroup, k)
		}
	}
	return
}

func hasLikeStar(c *chain) bool {
	if c == nil {
		return false
	}
	for _, a := range c.atoms(nil) {
		if (a.Cmp == "like" || a.Cmp == "notlike") && a.Vals[0] == "*" {
			return true
		}
	}
	return false
}

// twinEvaluator evaluates a condition the way a lookup table keyed by Rewrite() text behaves: all atoms with the same
// text share the value ids of the one looked up last (depth first, left to right).
type twinEvaluator struct {
	*evaluator
	winner map[string]*atom
}

func newTwinEvaluator(e *evaluator, c *chain) *twinEvaluator {
	t := &twinEvaluator{evaluator: e, winner: map[string]*atom{}}
	for _, a := range c.atoms(nil) {
		t.winner[lindbRewrite(a)] = a
	}
	return t
}

func positive(a *atom) *atom {
	p := *a
	switch a.Cmp {
	case "!=":
		p.Cmp = "="
	case "notin":
		p.Cmp = "in"
	case "notlike":
		p.Cmp = "like"
	case "!~":
		p.Cmp = "=~"
	}
	return &p
}

func (t *twinEvaluator) atomT(a *atom, tags map[string]string) bool {
	if _, ok := tags[a.Key]; !ok {
		return false
	}
	w := t.winner[lindbRewrite(a)]
	pos := t.evaluator.atom(positive(w), tags)
	switch a.Cmp {
	case "!=", "notin", "notlike", "!~":
		return !pos
	}
	return pos
}

func (t *twinEvaluator) chainT(c *chain, tags map[string]string) bool {
	term := func(x *term) bool {
		if x.Atom != nil {
			return t.atomT(x.Atom, tags)
		}
		return t.chainT(x.Sub, tags)
	}
	acc := term(c.Terms[0])
	for i, op := range c.Ops {
		rhs := term(c.Terms[i+1])
		if op == "and" {
			acc = acc && rhs
		} else {
			acc = acc || rhs
		}
	}
	return acc
}

// check evaluates one query against the oracle and records violations. It returns the observation.
func (h *histRunner) check(q *queryCase) *observation {
	written := h.ds.mainSeries(h.written)
	o := h.run(q)
	if h.verbose {
		fmt.Printf("    q%d err=%q groups=%d :: %s\n", q.ID, o.Err, len(o.Groups), clip(q.SQL, 300))
	}
	h.res.Evals++
	h.res.count("queries", 1)
	st := h.stateLabel()
	h.res.count("queries_in_state."+st, 1)
	if o.Bad != "" {
		h.res.Notes = append(h.res.Notes, "watchdog: "+o.Bad+" "+q.SQL)
		return o
	}
	selected := h.ev.selectSeries(q.Cond, written)
	exp := project(selected, q.Group)
	if len(selected) > 0 && len(selected) < len(written) {
		h.res.Nontrivial = append(h.res.Nontrivial, hashKey(h.caseID, h.placement, h.round, q.ID))
		h.res.count("queries_selecting_a_proper_nonempty_subset", 1)
	}
	if len(selected) == 0 {
		h.res.count("queries_expecting_nothing", 1)
	}
	witness := func(extra map[string]interface{}) map[string]interface{} {
		w := map[string]interface{}{"case": h.caseID, "placement": h.placement, "state": st, "sql": q.SQL, "condition": q.Cond,
			"group_by": q.Group, "operations": h.history, "shards": len(h.opts.ShardIDs), "error": o.Err}
		if len(written) <= 600 {
			w["series_written"] = written
		} else {
			w["series_written"] = fmt.Sprintf("%d series (see the generator of the case)", len(written))
		}
		for k, v := range extra {
			w[k] = v
		}
		return w
	}
	unkCond, unkGroup := unknownKeys(q, written)
	// the root sometimes loses the error of a failed leaf (see canonical): then the failed query shows as an empty result
	maybeLostError := o.Err == "" && len(o.Groups) == 0
	if q.Cond != nil && h.ev.invalidRegex(q.Cond) {
		h.res.count("conditions_with_an_invalid_regular_expression", 1)
		if o.Err == "" && !maybeLostError {
			h.flagged[q.ID] = true
			h.res.violation("C10/invalid-regex-accepted", fmt.Sprintf("%s: a condition with an expression Go's regexp rejects was answered without an error: %s", h.caseID, q.SQL), witness(nil))
		}
		return o
	}
	// a key the metric's schema does not have (no written series of the metric carries it): lindb refuses the query with
	// an explicit `tag key not found` (tagValuesLookup.getTagKeyID / metadataLookup.groupBy), like an unknown column. That
	// is the defined answer - no set is selected - and exactly that error is required then (an empty result without an
	// error is the same refusal whose error the root dropped, see canonical).
	if len(unkCond)+len(unkGroup) > 0 {
		switch {
		case strings.Contains(o.Err, "tag key not found"):
			h.res.count("unknown_key_refused", 1)
		case maybeLostError:
			h.res.count("unknown_key_refused", 1)
			h.res.count("unknown_key_refused_but_the_error_was_dropped_by_the_root", 1)
		default:
			h.flagged[q.ID] = true
			h.res.violation("C10/unknown-tag-key-not-refused",
				fmt.Sprintf("%s [%s]: the query names tag key(s) %v / group-by key(s) %v the metric does not have and was not refused with `tag key not found` (error %q, %d groups returned): %s",
					h.caseID, st, unkCond, unkGroup, o.Err, len(o.Groups), q.SQL), witness(nil))
		}
		return o
	}
	if o.Err != "" {
		switch {
		case strings.Contains(o.Err, "slice bounds out of range") && hasLikeStar(q.Cond):
			h.flagged[q.ID] = true
			h.res.violation("C10/like-single-star-panics",
				fmt.Sprintf("%s [%s]: `like '*'` fails the query with %q instead of selecting every series that has the key: %s", h.caseID, st, o.Err, q.SQL), witness(nil))
		case len(exp) == 0 && strings.Contains(o.Err, "not found"):
			h.res.count("not_found_error_where_nothing_is_expected", 1)
		default:
			h.flagged[q.ID] = true
			h.res.violation("C10/query-error/"+classToken(o.Err)+"/"+st,
				fmt.Sprintf("%s [%s]: query failed with %q, expected %d groups: %s", h.caseID, st, o.Err, len(exp), q.SQL), witness(map[string]interface{}{"expected_groups": len(exp)}))
		}
		return o
	}
	d := compare(exp, o)
	if len(o.NoData) > 0 {
		d.WrongSum = append(d.WrongSum, fmt.Sprintf("%d groups without a value for f", len(o.NoData)))
	}
	if d.empty() {
		h.res.count("queries_matching_the_oracle", 1)
		if len(exp) > 0 {
			h.res.count("queries_matching_with_nonempty_result", 1)
		}
		return o
	}
	h.flagged[q.ID] = true
	w := witness(map[string]interface{}{"missing": trunc(d.Missing, 20), "extra": trunc(d.Extra, 20), "wrong_sum": trunc(d.WrongSum, 20),
		"expected_groups": len(exp), "returned_groups": len(o.Groups)})
	// explanation 1: atoms with the same Rewrite() text share one lookup result
	if q.Twins {
		te := newTwinEvaluator(h.ev, q.Cond)
		var alt []*seriesSpec
		for _, s := range written {
			if te.chainT(q.Cond, s.Tags) {
				alt = append(alt, s)
			}
		}
		if compare(project(alt, q.Group), o).empty() {
			h.res.violation("C10/atoms-with-equal-rewrite-share-one-lookup",
				fmt.Sprintf("%s [%s]: two different atoms of the condition render to the same Rewrite() text and get the value ids of the one looked up last; missing %v extra %v: %s",
					h.caseID, st, trunc(d.Missing, 5), trunc(d.Extra, 5), q.SQL), w)
			return o
		}
	}
	// explanation 2: groups whose values contain ',' are dropped by the root (values are joined with ',' and split again)
	if len(d.Extra) == 0 && len(d.WrongSum) == 0 && len(q.Group) > 0 {
		alt := map[string]*group{}
		commaOnly := true
		for id, g := range exp {
			has := false
			for _, v := range g.Values {
				if strings.Contains(v, ",") {
					has = true
				}
			}
			if !has {
				alt[id] = g
			}
		}
		if len(alt) == len(exp) {
			commaOnly = false
		}
		if commaOnly && compare(alt, o).empty() {
			h.res.violation("C10/groupby/tag-value-with-comma-dropped",
				fmt.Sprintf("%s [%s]: groups whose tag values contain ',' are missing from the result (%v): %s", h.caseID, st, trunc(d.Missing, 5), q.SQL), w)
			return o
		}
	}
	// localise: which atom alone already selects a wrong set?
	if len(q.Group) == 1 && q.Group[0] == "uid" && q.Cond != nil {
		seen := map[string]bool{}
		for _, a := range q.Cond.atoms(nil) {
			single := &chain{Terms: []*term{{Atom: a}}}
			sqlText := buildSQL(h.ds.Metric, single, []string{"uid"}, h.timeCond(), rand.New(rand.NewSource(1)))
			if seen[sqlText] {
				continue
			}
			seen[sqlText] = true
			ao := observe(h.c.Query(sqlText), []string{"uid"})
			if ao.Err != "" {
				continue
			}
			ad := compare(project(h.ev.selectSeries(single, written), []string{"uid"}), ao)
			if !ad.empty() {
				w["failing_atom"] = sqlText
				w["atom_missing"], w["atom_extra"] = trunc(ad.Missing, 20), trunc(ad.Extra, 20)
				h.res.violation(fmt.Sprintf("C10/select/%s/%s/%s", cmpToken(a.Cmp), st, ad.kind()),
					fmt.Sprintf("%s [%s]: the atom %s alone selects a wrong set (missing %v, extra %v, wrong sum %v); found through: %s",
						h.caseID, st, a.SQL(nil), trunc(ad.Missing, 5), trunc(ad.Extra, 5), trunc(ad.WrongSum, 3), q.SQL), w)
				return o
			}
		}
		h.res.violation(fmt.Sprintf("C10/select/combination/%s/%s", st, d.kind()),
			fmt.Sprintf("%s [%s]: every atom alone selects the right set, the combined condition does not (missing %v, extra %v, wrong sum %v): %s",
				h.caseID, st, trunc(d.Missing, 5), trunc(d.Extra, 5), trunc(d.WrongSum, 3), q.SQL), w)
		return o
	}
	if q.Cond == nil && len(q.Group) == 1 && q.Group[0] == "uid" {
		h.res.violation(fmt.Sprintf("C10/select/no-condition/%s/%s", st, d.kind()),
			fmt.Sprintf("%s [%s]: without a tag condition: missing %v, extra %v, wrong sum %v: %s", h.caseID, st, trunc(d.Missing, 5), trunc(d.Extra, 5), trunc(d.WrongSum, 3), q.SQL), w)
		return o
	}
	h.res.violation(fmt.Sprintf("C10/groupby/%s/%s", st, d.kind()),
		fmt.Sprintf("%s [%s]: group by %v: missing %v, extra %v, wrong sum %v: %s", h.caseID, st, q.Group, trunc(d.Missing, 5), trunc(d.Extra, 5), trunc(d.WrongSum, 3), q.SQL), w)
	return o
}

func cmpToken(c string) string {
	switch c {
	case "=":
		return "eq"
	case "!=":
		return "neq"
	case "=~":
		return "regex"
	case "!~":
		return "not-regex"
	}
	return c
}

func classToken(s string) string {
	var b strings.Builder
	for _, r := range s {
		switch {
		case r >= 'a' && r <= 'z', r >= 'A' && r <= 'Z':
			b.WriteRune(r)
		case b.Len() > 0 && !strings.HasSuffix(b.String(), "-"):
			b.WriteByte('-')
		}
		if b.Len() > 40 {
			break
		}
	}
	return strings.Trim(b.String(), "-")
}

// roundOfQueries runs every query of the case at the current state; afterStructural says the previous operation did
// not write, so the answers must be the ones of the previous round.
func (h *histRunner) roundOfQueries(afterStructural bool) {
	h.round++
	h.log("query round %d at %s (%d batches written)", h.round, h.stateLabel(), h.written)
	h.res.count("query_rounds", 1)
	cur := map[int]string{}
	for _, q := range h.queries {
		if q.Heavy && h.skipHeavy && (h.idx.Mem || h.idx.Imm || h.idx.Files < 2 && !h.idx.Compacted) {
			continue
		}
		o := h.check(q)
		if o.Bad != "" {
			continue
		}
		cur[q.ID] = o.canonical()
		if prev, ok := h.last[q.ID]; ok && afterStructural {
			h.res.count("answers_compared_across_an_operation_without_writes", 1)
			if prev != cur[q.ID] && !h.flagged[q.ID] {
				h.flagged[q.ID] = true
				h.res.violation("C10/result-changed-at/"+h.lastOp,
					fmt.Sprintf("%s [%s]: the answer changed across %s although nothing was written: %s\nbefore: %s\nafter:  %s", h.caseID, h.placement, h.lastOp, q.SQL,
						clip(prev, 600), clip(cur[q.ID], 600)),
					map[string]interface{}{"case": h.caseID, "placement": h.placement, "sql": q.SQL, "operations": h.history, "before": clip(prev, 4000), "after": clip(cur[q.ID], 4000)})
			}
		}
	}
	h.last = cur
}

func clip(s string, n int) string {
	if len(s) > n {
		return s[:n] + "..."
	}
	return s
}

// ---------------------------------------------------------------------------------------------
// placements: sequences of operations over the same batches. Q = query round.

func fixedPlacements(batches int) map[string][]string {
	ws := func(mid ...string) []string { // W Q <mid> repeated per batch
		var ops []string
		for b := 0; b < batches; b++ {
			ops = append(ops, "W", "Q")
			ops = append(ops, mid...)
		}
		return ops
	}
	p := map[string][]string{}
	// everything stays in memory, then the two-phase flush is walked through step by step
	p["memory-then-stepwise-flush"] = append(ws(), "PFM", "Q", "FM", "Q", "PFI", "Q", "FI", "Q", "RO", "Q")
	// production flush after every batch, then compaction of both stores, then reopen
	p["flush-each-compact-reopen"] = append(ws("FLM", "FLI", "Q"), "CI", "Q", "CM", "Q", "W0", "RO", "Q")
	// immutable stores held while the next batch arrives
	{
		var ops []string
		for b := 0; b < batches; b++ {
			ops = append(ops, "W", "PFI", "PFM", "Q")
			if b+1 < batches {
				b++
				ops = append(ops, "W", "Q")
			}
			ops = append(ops, "FI", "Q", "FM", "Q")
		}
		p["immutable-held"] = append(ops, "CM", "CI", "Q")
	}
	// only one of the two stores flushed
	{
		var ops []string
		for b := 0; b < batches; b++ {
			ops = append(ops, "W")
			if b%2 == 0 {
				ops = append(ops, "FLI", "Q")
			} else {
				ops = append(ops, "FLM", "Q")
			}
		}
		p["one-store-flushed"] = append(ops, "CI", "CM", "Q", "FLA", "Q", "CI", "CM", "Q")
	}
	// everything through FlushAll and reopen
	{
		var ops []string
		for b := 0; b < batches; b++ {
			ops = append(ops, "W")
			switch b % 3 {
			case 0:
				ops = append(ops, "FLA", "RO", "Q")
			case 1:
				ops = append(ops, "Q", "RO", "Q")
			default:
				ops = append(ops, "FLA", "Q")
			}
		}
		p["flushall-reopen"] = append(ops, "CI", "CM", "Q", "RO", "Q")
	}
	return p
}

var placementNames = []string{"memory-then-stepwise-flush", "flush-each-compact-reopen", "immutable-held", "one-store-flushed", "flushall-reopen"}

func randomPlacement(r *rand.Rand, batches int) []string {
	var ops []string
	structural := []string{"PFI", "FI", "PFM", "FM", "FLI", "FLM", "FLA", "CI", "CM", "RO"}
	for b := 0; b < batches; b++ {
		ops = append(ops, "W")
		if r.Intn(3) == 0 {
			ops = append(ops, "Q")
		}
		k := r.Intn(4)
		for i := 0; i < k; i++ {
			ops = append(ops, structural[r.Intn(len(structural))])
			if r.Intn(2) == 0 {
				ops = append(ops, "Q")
			}
		}
	}
	k := 1 + r.Intn(4)
	for i := 0; i < k; i++ {
		ops = append(ops, "Q", structural[r.Intn(len(structural))])
	}
	return append(ops, "Q")
}

// runPlacement drives one placement on a fresh node directory and returns the answers at the final state.
func runPlacement(res *caseResult, caseID, name string, ops []string, ds *dataset, queries []*queryCase, dir string, shards int, seed int64) (final map[int]string, err error) {
	h := &histRunner{res: res, caseID: caseID, placement: name, dir: dir, ds: ds, ev: newEvaluator(), rnd: rand.New(rand.NewSource(seed)),
		queries: queries, flagged: map[int]bool{}, verbose: os.Getenv("C10_VERBOSE") != ""}
	now := time.Now().UnixMilli()
	h.t0 = now - now%3600_000 - 2*3600_000
	h.ts = h.t0 + 600_000
	for _, q := range queries {
		q.SQL = buildSQL(ds.Metric, q.Cond, q.Group, h.timeCond(), rand.New(rand.NewSource(seed+int64(q.ID)*7919)))
	}
	if err := h.open(shards); err != nil {
		return nil, err
	}
	defer h.close()
	h.log("placement %s: %v", name, ops)
	structural := false
	for _, op := range ops {
		switch op {
		case "Q":
			h.roundOfQueries(structural)
			structural = true
		case "W0":
			// nothing new to write: a production flush cycle without new entries (the stores must survive it)
			h.log("flush cycle without new entries")
			if err := h.n.FlushMeta(); err != nil {
				return nil, err
			}
			if err := h.n.FlushIndex(); err != nil {
				return nil, err
			}
		case "W":
			if h.written >= ds.Batches {
				continue
			}
			structural = false
			if err := h.exec(op); err != nil {
				return nil, fmt.Errorf("%s: %w", op, err)
			}
		default:
			if err := h.exec(op); err != nil {
				return nil, fmt.Errorf("%s: %w", op, err)
			}
		}
	}
	if h.written < ds.Batches {
		return nil, fmt.Errorf("placement %s wrote only %d of %d batches", name, h.written, ds.Batches)
	}
	res.count("placements", 1)
	return h.last, nil
}

// runHistCase: one data set, several placements of flush/compaction/reopen over the same batches, the same queries at
// every state.
func runHistCase(idx int, dir, tier string, seed int64) *caseResult {
	res := &caseResult{Kind: "hist", Index: idx}
	r := rand.New(rand.NewSource(seed*1_000_003 + int64(idx)*7919 + 17))
	quick := tier == "quick"
	nSeries := 6 + r.Intn(50)
	if !quick && r.Intn(4) == 0 {
		nSeries = 100 + r.Intn(400)
	}
	ds := genDataset(r, nSeries)
	g := &condGen{r: r, ds: ds}
	nCond := 40
	var queries []*queryCase
	add := func(c *chain, group []string) {
		q := &queryCase{ID: len(queries), Cond: c, Group: group}
		if c != nil {
			q.Twins = hasRewriteTwins(c)
		}
		queries = append(queries, q)
	}
	add(nil, []string{"uid"})
	ev := newEvaluator()
	all := ds.mainSeries(ds.Batches)
	for i := 0; i < nCond; i++ {
		c := g.condition()
		add(c, []string{"uid"})
		if i%4 == 0 {
			add(c, g.groupKeys())
		}
		if c.mixesAndAfterOr() {
			res.count("conditions_mixing_and_after_or_without_parentheses", 1)
			for _, s := range all {
				if ev.chain(c, s.Tags) != ev.chainSQLPrecedence(c, s.Tags) {
					res.count("conditions_where_left_fold_and_sql_precedence_select_differently", 1)
					break
				}
			}
		}
	}
	for i := 0; i < 4; i++ {
		add(nil, g.groupKeys())
	}
	twins := g.rewriteTwins()
	for i, c := range twins {
		if i >= 4 {
			break
		}
		add(c, []string{"uid"})
	}
	res.count("data_sets", 1)
	res.count("conditions", nCond)
	if ds.Decoy != "" {
		res.count("data_sets_with_a_second_metric_sharing_tag_values", 1)
	}
	if ds.Comma {
		res.count("data_sets_with_comma_values", 1)
	}
	fixed := fixedPlacements(ds.Batches)
	type pl struct {
		name string
		ops  []string
	}
	var pls []pl
	if quick {
		a := placementNames[idx%len(placementNames)]
		b := placementNames[(idx/len(placementNames)+idx+1)%len(placementNames)]
		pls = append(pls, pl{a, fixed[a]})
		if b != a {
			pls = append(pls, pl{b, fixed[b]})
		}
		pls = append(pls, pl{"random", randomPlacement(r, ds.Batches)})
	} else {
		for _, nme := range placementNames {
			pls = append(pls, pl{nme, fixed[nme]})
		}
		pls = append(pls, pl{"random-1", randomPlacement(r, ds.Batches)}, pl{"random-2", randomPlacement(r, ds.Batches)})
	}
	caseID := fmt.Sprintf("hist-%d", idx)
	only := os.Getenv("C10_ONLY_PLACEMENT")
	finals := map[string]map[int]string{}
	var order []string
	for i, p := range pls {
		if only != "" && p.name != only {
			continue
		}
		shards := 1
		if (idx+i)%3 == 0 {
			shards = 2
		}
		pdir := filepath.Join(dir, fmt.Sprintf("p%d", i))
		final, err := runPlacement(res, caseID, p.name, p.ops, ds, queries, pdir, shards, seed*31+int64(idx))
		_ = os.RemoveAll(pdir)
		if err != nil {
			res.Notes = append(res.Notes, fmt.Sprintf("placement %s failed: %v", p.name, err))
			res.violation("C10/operation-failed", fmt.Sprintf("%s: placement %s: %v", caseID, p.name, err), map[string]interface{}{"case": caseID, "placement": p.name, "ops": p.ops})
			continue
		}
		finals[p.name] = final
		order = append(order, p.name)
	}
	// metamorphic: the same writes under different placements of flush / compaction / reopen give the same answers
	if len(order) > 1 {
		base := finals[order[0]]
		for _, nme := range order[1:] {
			for _, q := range queries {
				a, okA := base[q.ID]
				b, okB := finals[nme][q.ID]
				if !okA || !okB {
					continue
				}
				res.count("final_answers_compared_across_placements", 1)
				if a != b {
					res.violation("C10/placement-dependent-answer",
						fmt.Sprintf("%s: the same writes answer differently after placement %s and %s: %s\n%s\n%s", caseID, order[0], nme, q.SQL, clip(a, 500), clip(b, 500)),
						map[string]interface{}{"case": caseID, "sql": q.SQL, "a": order[0], "b": nme, "answer_a": clip(a, 4000), "answer_b": clip(b, 4000)})
				}
			}
		}
	}
	if idx == 0 {
		res.Sample = map[string]interface{}{"case": caseID, "series": len(ds.Series), "keys": ds.Keys, "first_queries": []string{queries[1].SQL, queries[2].SQL, queries[3].SQL},
			"placements": order}
	}
	return res
}
