// C10 — Tag filtering through the index equals evaluating the predicate on every series.
//
// Children (one process per case: lindb keeps the kv store manager, the family manager and the storage config in
// process-wide singletons) write generated series through the production write path of an in-process storage node
// (internal/node), move the index entries through every state (memory, immutable after PrepareFlush, flushed, several
// files, compacted, reopened) and ask SQL queries through the real root -> leaf path. The oracle evaluates the
// predicate on the recorded tag maps.
//
//	hist      generated data sets x placements of flush/compaction/reopen x generated conditions and group-bys
//	big       one metric with more series than one (thorough: two) roaring containers hold
//	conc      queries while flushes / compactions / writes run freely
//	unmap     a group-by query held between shard scan and grouping while the forward family is compacted
//	park      a dictionary / index flush parked at each of its file-system steps in turn, lookups and writers inside
//	fault     one file-system step of a dictionary / index flush fails once (i/o error, the node keeps running), then
//	          writes and further successful flush cycles / compactions, every atom kind asked after every step
//	directed  fixed scenarios (single-star like, atoms with equal Rewrite text, refusal of an unknown tag key, comma
//	          values in group by, a query parked between its snapshot and its memory read while a flush completes)
//
// Debugging one case by hand: LOG_LEVEL=fatal TZ=UTC VERIF_SEED=n bin/c10 case hist <idx> <dir> quick
// (C10_ONLY_PLACEMENT=<name> runs one placement, C10_VERBOSE=1 prints every query). For the conc cases:
// C10_CONC_NOCOMPACT=1 (no compactions), C10_CONC_NOUNMAP=1 (table files stay mapped: separates use-after-unmap from
// everything else), C10_CONC_DEBUG=1 (re-runs a query with missing series and its atoms).
package main

import (
	"encoding/json"
	"fmt"
	"os"
	"path/filepath"
	"runtime"
	"runtime/debug"
	"strconv"
	"strings"
	"time"

	"github.com/lindb/lindb/verif/internal/core"
)

type job struct {
	kind string
	idx  int
}

func main() {
	if len(os.Args) > 1 && os.Args[1] == "case" {
		runCaseChild()
		return
	}
	c := core.New("C10", "exploration")
	c.SetRule("one case = one SQL query (generated tag condition of parenthesis depth <= 4 over =, !=, <>, in, not in, like, not like, =~, !~, and, or; " +
		"`group by uid` or a random key subset) asked through the real root -> leaf path at one state of one history: a generated data set (6-500 series, " +
		"unique uid tag, shared/missing keys, prefix-related, unicode, metacharacter and whitespace values, a second metric with the same values) written in " +
		"3-4 batches with index/metadata PrepareFlush, Flush, production flush, compaction and close+reopen placed between and after the batches " +
		"(5 fixed placements + random ones); plus one-metric data sets crossing roaring container boundaries, queries during free-running flushes, " +
		"a dictionary / index flush parked at each of its file-system steps (table file create / write / close, manifest write / sync, learned from a counting " +
		"round) with exact-match lookups and writers of flushed values executed inside and every atom kind asked after it completed, the same flushes with one of these " +
		"steps (or the sync of the id sequence file) failing once - the operation not executed, or for a table file close executed and reported as failed - followed by writes of series reusing the values of the failed flush, " +
		"one or two further successful PrepareFlush + Flush cycles (direct or through the production flush job) and compactions, every atom kind asked after every one of these steps, and directed scenarios. Non-trivial = the oracle selects a non-empty proper subset of the written series; distinct by (data set, placement, round, query).")
	c.Assume("language semantics as read from sql/grammar/SQL.g4, sql/base_stmt_parser.go, index/kv_store.go and query/operator/series_filtering.go and confirmed by a probe " +
		"through the real query path: an atom speaks about series that have the key; a negated atom (!=, <>, not in, not like, !~) selects series that have the key and do not match; " +
		"like treats * only as first and/or last character (suffix / prefix / contains), otherwise it is an exact match, the empty pattern matches nothing; " +
		"=~ is an unanchored Go regexp search; `and` and `or` have the same precedence and associate to the left (the grammar has one alternative for both); " +
		"a condition no series satisfies gives an empty result (or a `not found` error), not a failure; an expression Go's regexp rejects fails the query")
	c.Assume("group by: series lacking one of the grouping keys are left out (index.forwardIndex.GetGroupingContext intersects the selected series with the series of every grouping key); " +
		"every series carries one point of a sum field whose value is the series' own weight, so the returned sum of a group identifies the series aggregated into it")
	c.Assume("a query naming (in the condition or in group by) a tag key that is not in the metric's schema at query time - no written series of the metric carries it - is refused by lindb with " +
		"an explicit `tag key not found` error, also inside an `or` (like an unknown column): no set is selected, so this is not a wrong selection. The oracle requires exactly that refusal " +
		"when, and only when, such a key is named (counter unknown_key_refused; an empty result without error counts as the same refusal, the root drops a fast leaf's error now and then); " +
		"the same error for a key the schema has, or an answer instead of the refusal, is a violation")
	c.Assume("park cases: MetricMetaDatabase.GenTagValueID of a value that was written returns the id the value got when it was created (it is how the write path " +
		"asks); a changed id means the dictionary lost the value. Whether the lookups ran inside the window is decided on logical events (they completed before " +
		"the harness released the parked flush); a step at which they cannot complete is counted as blocked and not judged")
	c.Assume("fault cases: a flush whose file-system step fails returns an error and the node keeps running (no crash, no reopen); nothing runs concurrently with a query, so the brute-force " +
		"comparison is exact after the failed flush, after the writes that follow it, after every later successful cycle and after compaction: what a failed flush could not commit stays readable in memory. " +
		"Durability of the retried flush across a restart is C07's subject and is not asked here")
	c.Assume("timestamps lie 2 hours in the past of the child's start (hour aligned + 10 min); TZ=UTC for the children; race detector reports do not decide C10, no race variant is built")

	var jobs []job
	for i := 0; i < c.Pick(40, 700); i++ {
		jobs = append(jobs, job{"hist", i})
	}
	for i := 0; i < c.Pick(1, 4); i++ {
		jobs = append(jobs, job{"big", i})
	}
	for i := 0; i < c.Pick(8, 80); i++ {
		jobs = append(jobs, job{"conc", i})
	}
	for i := 0; i < c.Pick(1, 3); i++ {
		jobs = append(jobs, job{"directed", i})
	}
	jobs = append(jobs, job{"unmap", 0})
	for i := 0; i < c.Pick(4, 16); i++ {
		jobs = append(jobs, job{"park", i})
	}
	for i := 0; i < c.Pick(6, 24); i++ {
		jobs = append(jobs, job{"fault", i})
	}
	if only := os.Getenv("C10_ONLY_KIND"); only != "" {
		var js []job
		for _, j := range jobs {
			if j.kind == only {
				js = append(js, j)
			}
		}
		jobs = js
	}
	if skip := os.Getenv("C10_SKIP_KIND"); skip != "" {
		// measurement aid only: the run ends inconclusive (the skipped kind's observations are missing)
		var js []job
		for _, j := range jobs {
			if j.kind != skip {
				js = append(js, j)
			}
		}
		jobs = js
	}
	// long jobs first
	ordered := make([]int, 0, len(jobs))
	for _, k := range []string{"big", "fault", "conc", "directed", "park", "unmap", "hist"} {
		for i, j := range jobs {
			if j.kind == k {
				ordered = append(ordered, i)
			}
		}
	}
	scratch := c.Scratch()
	results := make([]*caseResult, len(jobs))
	died := make([]string, len(jobs))
	partial := make([]*caseResult, len(jobs))
	workers := runtime.NumCPU()
	if workers > 16 {
		workers = 16
	}
	core.Parallel(len(ordered), workers, func(k int) {
		i := ordered[k]
		j := jobs[i]
		dir := filepath.Join(scratch, fmt.Sprintf("%s%04d", j.kind, j.idx))
		_ = os.MkdirAll(dir, 0o755)
		out := filepath.Join(dir, "child.log")
		timeout := 6 * time.Minute
		if !c.Quick() {
			timeout = 40 * time.Minute
		}
		cr := core.RunChild("", []string{"case", j.kind, strconv.Itoa(j.idx), dir, c.Tier},
			[]string{"VERIF_SEED=" + strconv.FormatInt(c.Seed, 10), "TZ=UTC"}, timeout, out)
		r := &caseResult{}
		data, err := os.ReadFile(filepath.Join(dir, "result.json"))
		if err == nil {
			err = json.Unmarshal(data, r)
		}
		switch {
		case cr.TimedOut:
			died[i] = "watchdog\n" + tail(cr.Output, 3000)
		case err != nil || cr.ExitCode != 0:
			died[i] = fmt.Sprintf("exit=%d err=%v\n%s", cr.ExitCode, err, crashHead(out, cr.Output))
			if err == nil && len(r.Violations) > 0 {
				partial[i] = r // the child died after it had recorded violations (park cases save their result per round)
			}
		default:
			results[i] = r
		}
		if os.Getenv("C10_KEEP") == "" {
			_ = os.RemoveAll(dir)
		}
	})
	deaths := 0
	for i, r := range results {
		j := jobs[i]
		if r == nil {
			msg := died[i]
			if pr := partial[i]; pr != nil {
				for _, v := range pr.Violations {
					c.Violation(v.Class, v.Message, v.Witness)
				}
			}
			if strings.HasPrefix(msg, "watchdog") {
				c.Inconclusive("%s %d: child watchdog fired", j.kind, j.idx)
				continue
			}
			if fn := faultFrame(msg); fn != "" {
				// a query result (posting-list bitmap, grouping scanner) still points into a mapped table file whose kv
				// snapshot the lookup has already closed; a compaction made the file obsolete and it was unmapped
				c.Count("children_died_reading_an_unmapped_table_file", 1)
				c.Violation("C10/use-after-unmap/"+fn, fmt.Sprintf("%s %d: the node died with SIGSEGV reading an unmapped table file in %s: %s", j.kind, j.idx, fn, tail(msg, 800)),
					map[string]interface{}{"kind": j.kind, "index": j.idx, "output": msg})
			} else if frame := anchoredFrame(msg); frame != "" {
				c.Violation("C10/process-died/"+frame, fmt.Sprintf("%s %d: child died in anchored code: %s", j.kind, j.idx, clip(msg, 1500)),
					map[string]interface{}{"kind": j.kind, "index": j.idx, "output": tail(msg, 8000)})
			} else {
				c.Count("children_died_outside_anchored_code", 1)
				c.Set(fmt.Sprintf("child_death_%s_%d", j.kind, j.idx), tail(msg, 1500))
				deaths++
			}
			continue
		}
		c.Eval(r.Evals)
		c.Count("cases."+j.kind, 1)
		for k, v := range r.Counters {
			c.Count(k, v)
		}
		for _, k := range r.Nontrivial {
			c.Nontrivial(k)
		}
		if r.Sample != nil {
			c.Sample(r.Sample)
		}
		for _, n := range r.Notes {
			if strings.HasPrefix(n, "watchdog") {
				c.Inconclusive("%s %d: %s", j.kind, j.idx, n)
			}
		}
		for _, v := range r.Violations {
			c.Violation(v.Class, v.Message, v.Witness)
		}
	}
	if deaths*10 > len(jobs) {
		c.Inconclusive("%d of %d children died outside the anchored code", deaths, len(jobs))
	}
	finishChecks(c)
	c.Finish()
}

// finishChecks turns "the run did not observe what the oracle relies on" into an inconclusive result.
func finishChecks(c *core.Ctx) {
	if os.Getenv("C10_ONLY_KIND") != "" {
		return
	}
	need := map[string]int64{
		"queries_matching_with_nonempty_result":               200,
		"answers_compared_across_an_operation_without_writes": 200,
		"index_families_compacted_with_2+_files":              3,
		"meta_families_compacted_with_2+_files":               3,
		"op.RO":                                               3,
		"op.PFI":                                              3,
		"queries_parked_between_snapshot_and_memory_read":     5,
		"flushes_completed_inside_a_parked_query":             5,
		"grouping_lookups_straddling_a_completed_flush":       1,
		"metrics_with_series_ids_beyond_65535":                1,
		"concurrent_queries_with_a_nonempty_lower_bound":      200,
		"conc_flush_cycles":                                   50,
		// park cases: lookups and writers that ran to completion while a flush was parked, in particular at the close of the
		// new table file (every entry handed to the kv flusher, the store still on its old snapshot)
		"park_lookups_and_writes_completed_inside_a_parked_flush": 40,
		"park_inside.close_tv/table":                              1,
		"park_inside.sync_manifest":                               4,
		"park_inside.close_inverted/table":                        1,
		"park_inside.close_forward/table":                         1,
		"park_tag_value_ids_compared.during":                      100,
		"park_tag_value_ids_compared.after":                       100,
		// fault cases: a step of a flush failed, the flush reported it, later cycles succeeded; in particular the commit step
		// (table file close, edit log) of the posting lists, the forward index and the tag value dictionary failed
		"fault_flushes_that_returned_an_error":           60,
		"fault_successful_cycles_after_a_failed_flush":   60,
		"fault_injected.close_inverted/table":            1,
		"fault_injected.close_forward/table":             1,
		"fault_injected.close_tv/table":                  1,
		"fault_injected_at_the_commit_of.index/inverted": 3,
		"fault_injected_at_the_commit_of.index/forward":  3,
		"fault_injected_at_the_commit_of.index/metric":   3,
		"fault_injected_at_the_commit_of.index/series":   3,
		"fault_injected_at_the_commit_of.meta/tv":        3,
		"fault_injected_at_the_commit_of.meta/metric":    3,
		"fault_injected_at_the_commit_of.meta/schema":    3,
		"fault_queries.failed":                           500,
		"fault_queries.retry1":                           300,
		"fault_tag_value_ids_compared.failed":            200,
		"fault_index_families_compacted_with_2+_files":   4,
		"fault_meta_families_compacted_with_2+_files":    3,
	}
	if c.Counter("grouping_stages_parked_after_the_shard_scan") < 1 && c.Counter("children_died_reading_an_unmapped_table_file") < 1 {
		c.Inconclusive("the unmap case neither parked a grouping stage nor died in the grouping scan")
	}
	for k, min := range need {
		if c.Counter(k) < min {
			c.Inconclusive("only %d x %s observed (need %d)", c.Counter(k), k, min)
		}
	}
}

func runCaseChild() {
	kind := os.Args[2]
	idx, _ := strconv.Atoi(os.Args[3])
	dir := os.Args[4]
	tier := os.Args[5]
	seed := int64(1)
	if s := os.Getenv("VERIF_SEED"); s != "" {
		seed, _ = strconv.ParseInt(s, 10, 64)
	}
	debug.SetTraceback("all")
	var res *caseResult
	switch kind {
	case "hist":
		res = runHistCase(idx, dir, tier, seed)
	case "big":
		res = runBigCase(idx, dir, tier, seed)
	case "conc":
		res = runConcCase(idx, dir, tier, seed)
	case "directed":
		res = runDirectedCase(idx, dir, tier, seed)
	case "unmap":
		res = runUnmapCase(idx, dir, tier, seed)
	case "park":
		res = runParkCase(idx, dir, tier, seed)
	case "fault":
		res = runFaultCase(idx, dir, tier, seed)
	default:
		fmt.Println("unknown case kind", kind)
		os.Exit(4)
	}
	writeResult(dir, res)
}

// crashHead returns the part of a child's log that starts at the Go crash header (panic / fatal error) and holds
// the crashing goroutine's stack; the tail of the output if there is no such header. The header may be the very first
// line of the log (a child that logs nothing before it dies).
func crashHead(logFile, fallback string) string {
	data, err := os.ReadFile(logFile)
	if err != nil {
		return tail(fallback, 8000)
	}
	s := "\n" + string(data)
	i := strings.Index(s, "\nfatal error:")
	if j := strings.Index(s, "\npanic:"); j >= 0 && (i < 0 || j < i) {
		i = j
	}
	if i < 0 {
		return tail(s, 8000)
	}
	s = s[i+1:]
	if len(s) > 8000 {
		// keep whole lines of the crashing goroutine's stack: cut at a goroutine boundary when there is one
		if e := strings.LastIndex(s[:8000], "\n\n"); e > 0 {
			s = s[:e+2]
		} else {
			s = s[:8000]
		}
	}
	return s
}

func tail(s string, n int) string {
	if len(s) > n {
		return s[len(s)-n:]
	}
	return s
}

// anchoredFiles are the files the property anchors (properties.jsonl).
var anchoredFiles = []string{
	"query/operator/tag_values_lookup.go", "query/operator/series_filtering.go", "query/operator/grouping_context_build.go",
	"index/kv_store.go", "index/metric_index_database.go", "index/model/trie_bucket.go", "index/v1/forward_reader.go",
	"index/v1/inverted_merger.go", "index/v1/forward_merger.go", "index/v1/index_kv_merger.go", "flow/grouping.go",
	"index/grouping.go", "index/metric_meta_database.go", "pkg/imap/int_map.go",
}

// faultFrame returns, for a child that died with a SIGSEGV fault, the first lindb function of the crashing goroutine
// ("" if the death is something else).
func faultFrame(out string) string {
	if !strings.Contains(out, "fatal error: fault") || !strings.Contains(out, "SIGSEGV") {
		return ""
	}
	i := strings.Index(out, "\ngoroutine ")
	if i < 0 {
		return ""
	}
	stack := out[i+1:]
	if e := strings.Index(stack, "\n\n"); e >= 0 {
		stack = stack[:e]
	}
	for _, l := range strings.Split(stack, "\n") {
		if strings.HasPrefix(l, "github.com/lindb/lindb/") && !strings.Contains(l, "/verif/") {
			fn := strings.TrimPrefix(l, "github.com/lindb/lindb/")
			if p := strings.Index(fn, "("); p >= 0 {
				// pkg.(*type).method(args) -> keep up to the argument list
				if q := strings.LastIndex(fn, "("); q > p {
					fn = fn[:q]
				}
			}
			fn = strings.NewReplacer("(*", "", ")", "", "/", "_").Replace(fn)
			return fn
		}
	}
	return ""
}

// anchoredDirs are packages that the C10 workloads reach only through the anchored files (the dictionary's trie
// buckets and the index table readers / mergers): a death of the crashing goroutine inside them is a death of the
// anchored mechanism even when the frame of the anchored file itself is not on the stack (e.g. a callback).
var anchoredDirs = []string{"index/model/", "index/v1/", "pkg/trie/"}

// crashingStack returns the stack of the goroutine the Go runtime reports as panicking / faulting: the first goroutine
// block after the `panic:` / `fatal error:` line ("" when the output holds no crash dump).
func crashingStack(out string) string {
	out = "\n" + out
	start := strings.Index(out, "\npanic:")
	if f := strings.Index(out, "\nfatal error:"); f >= 0 && (start < 0 || f < start) {
		start = f
	}
	if start < 0 {
		return ""
	}
	rest := out[start:]
	g := strings.Index(rest, "\ngoroutine ")
	if g < 0 {
		return ""
	}
	stack := rest[g+1:]
	if e := strings.Index(stack, "\n\n"); e >= 0 {
		stack = stack[:e]
	}
	return stack
}

// anchoredFrame returns the innermost anchored file (else the innermost anchored package) on the stack of the crashing
// goroutine of a Go crash dump, "" if that goroutine was not inside the anchored mechanism.
func anchoredFrame(out string) string {
	stack := crashingStack(out)
	if stack == "" {
		return ""
	}
	lines := strings.Split(stack, "\n")
	for _, l := range lines {
		l = strings.TrimSpace(l)
		for _, f := range anchoredFiles {
			if strings.Contains(l, "/"+f+":") {
				return strings.ReplaceAll(f, "/", "_")
			}
		}
	}
	for _, l := range lines {
		l = strings.TrimSpace(l)
		if strings.Contains(l, "/verif/") {
			continue
		}
		for _, d := range anchoredDirs {
			if i := strings.Index(l, "/"+d); i >= 0 && strings.Contains(l[i:], ".go:") {
				return strings.ReplaceAll(strings.TrimSuffix(d, "/"), "/", "_")
			}
		}
	}
	return ""
}
