package main

import (
	"fmt"
	"math/rand"
	"os"
	"path/filepath"
	"sort"
	"time"

	"github.com/lindb/lindb/kv/table"
	"github.com/lindb/lindb/kv/version"
)

type rangeModel struct {
	number   int64
	level    int
	min, max uint32
	size     uint32
}

func genRanges(rnd *rand.Rand, n, levels int) []rangeModel {
	var out []rangeModel
	var prev *rangeModel
	for i := 0; i < n; i++ {
		m := rangeModel{number: int64(10 + i), level: rnd.Intn(levels), size: uint32(rnd.Intn(1 << 20))}
		if rnd.Intn(3) == 0 {
			m.level = 0
		}
		a, b := randU32(rnd), randU32(rnd)
		switch rnd.Intn(9) {
		case 0: // point range
			b = a
		case 1:
			a, b = 0, maxU32
		case 2:
			a = 0
		case 3:
			b = maxU32
		case 4: // adjacent to the previous range
			if prev != nil && prev.max < maxU32 {
				a = prev.max + 1
				b = a + uint32(rnd.Intn(1000))
				if b < a {
					b = maxU32
				}
			}
		case 5: // touching the previous range in one key
			if prev != nil {
				a = prev.max
				b = a + uint32(rnd.Intn(1000))
				if b < a {
					b = maxU32
				}
			}
		case 6: // small keys around chunk borders
			a = specialKeys[rnd.Intn(len(specialKeys))]
			b = specialKeys[rnd.Intn(len(specialKeys))]
		case 7: // narrow
			b = a + uint32(rnd.Intn(5))
			if b < a {
				b = maxU32
			}
		}
		if a > b {
			a, b = b, a
		}
		m.min, m.max = a, b
		out = append(out, m)
		prev = &out[len(out)-1]
	}
	return out
}

func rangeProbes(rnd *rand.Rand, rs []rangeModel) []uint32 {
	var ks []uint32
	for _, r := range rs {
		for _, k := range []int64{int64(r.min) - 1, int64(r.min), int64(r.min) + 1, int64(r.max) - 1, int64(r.max), int64(r.max) + 1} {
			if k >= 0 && k <= maxU32 {
				ks = append(ks, uint32(k))
			}
		}
	}
	ks = append(ks, specialKeys...)
	for i := 0; i < 20; i++ {
		ks = append(ks, randU32(rnd))
	}
	return uniqSorted(ks)
}

func sortedNums(files []*version.FileMeta) string {
	return fmt.Sprint(numbersOf(files))
}

// checkRanges checks the range lookups of a version against the model of its files.
func checkRanges(cc *caseCtx, v version.Version, rs []rangeModel, levels int, phase string) (probes int, multi int) {
	for _, k := range rangeProbes(cc.rnd, rs) {
		var want []int64
		for _, r := range rs {
			if k >= r.min && k <= r.max {
				want = append(want, r.number)
			}
		}
		sort.Slice(want, func(i, j int) bool { return want[i] < want[j] })
		got := numbersOf(v.FindFiles(k))
		probes++
		if len(want) > 1 {
			multi++
		}
		if !equalInt64s(want, got) {
			class := "C15/findfiles-misses-file-in-range"
			if len(got) > len(want) {
				class = "C15/findfiles-returns-file-outside-range"
			}
			var detail []string
			for _, r := range rs {
				detail = append(detail, fmt.Sprintf("%d:L%d[%d,%d]", r.number, r.level, r.min, r.max))
			}
			cc.failW(class, map[string]interface{}{"files": detail}, "%s: FindFiles(%d) = %v, files whose range holds the key: %v", phase, k, got, want)
			return
		}
	}
	// per level and all files
	var all []int64
	for l := 0; l < levels; l++ {
		var want []int64
		for _, r := range rs {
			if r.level == l {
				want = append(want, r.number)
				all = append(all, r.number)
				f, ok := v.GetFile(l, table.FileNumber(r.number))
				if !ok || f.GetMinKey() != r.min || f.GetMaxKey() != r.max || f.GetFileSize() != r.size {
					cc.fail("C15/file-meta-wrong", "%s: GetFile(%d,%d) = %v (found %v), want [%d,%d] size %d", phase, l, r.number, f, ok, r.min, r.max, r.size)
					return
				}
			}
		}
		sort.Slice(want, func(i, j int) bool { return want[i] < want[j] })
		if got := numbersOf(v.GetFiles(l)); !equalInt64s(want, got) {
			cc.fail("C15/level-file-list-wrong", "%s: GetFiles(%d) = %v want %v", phase, l, got, want)
			return
		}
		if v.NumberOfFilesInLevel(l) != len(want) {
			cc.fail("C15/level-file-list-wrong", "%s: NumberOfFilesInLevel(%d) = %d want %d", phase, l, v.NumberOfFilesInLevel(l), len(want))
			return
		}
	}
	sort.Slice(all, func(i, j int) bool { return all[i] < all[j] })
	if got := numbersOf(v.GetAllFiles()); !equalInt64s(all, got) {
		cc.fail("C15/getallfiles-differs-from-levels", "%s: GetAllFiles() = %v want %v", phase, got, all)
	}
	return
}

// runVersionMetaCase: file metas only (no table files): range lookup per level, clone, delete,
// level-0 compaction pick and the way through the manifest and back.
func runVersionMetaCase(cc *caseCtx) {
	rnd := cc.rnd
	levels := 1 + rnd.Intn(4)
	n := rnd.Intn(30)
	if rnd.Intn(10) == 0 {
		n = 30 + rnd.Intn(200)
	}
	rs := genRanges(rnd, n, levels)
	cc.desc = map[string]interface{}{"levels": levels, "files": n}
	fmt.Printf("CASE V %d %v\n", cc.idx, cc.desc)
	dir := filepath.Join(cc.dir, fmt.Sprintf("v%d", cc.idx))
	if err := os.MkdirAll(dir, 0o755); err != nil {
		panic(err)
	}
	defer os.RemoveAll(dir)
	probes, multi := 0, 0
	ok := cc.guard("C15/panic-in-version", func() {
		cache := table.NewCache(dir, time.Hour)
		defer cache.Close()
		vs := version.NewStoreVersionSet(dir, cache, levels)
		fv := vs.CreateFamilyVersion("fam", 1)
		if err := vs.Recover(); err != nil {
			cc.fail("C15/versionset-recover-error", "Recover() on an empty directory: %v", err)
			return
		}
		// commit the files in a few edit logs
		i := 0
		for i < len(rs) {
			el := version.NewEditLog(1)
			for j := 1 + rnd.Intn(5); j > 0 && i < len(rs); j-- {
				r := rs[i]
				el.Add(version.CreateNewFile(int32(r.level), version.NewFileMeta(table.FileNumber(r.number), r.min, r.max, r.size)))
				i++
			}
			if err := vs.CommitFamilyEditLog("fam", el); err != nil {
				cc.fail("C15/versionset-commit-error", "CommitFamilyEditLog: %v", err)
				return
			}
		}
		snap := fv.GetSnapshot()
		v := snap.GetCurrent()
		p, m := checkRanges(cc, v, rs, levels, "committed version")
		probes, multi = probes+p, multi+m
		// clone, delete in the clone only
		cl := v.Clone()
		p, m = checkRanges(cc, cl, rs, levels, "clone")
		probes, multi = probes+p, multi+m
		if len(rs) > 0 {
			var kept []rangeModel
			for _, r := range rs {
				if rnd.Intn(3) == 0 {
					cl.DeleteFile(r.level, table.FileNumber(r.number))
				} else {
					kept = append(kept, r)
				}
			}
			p, m = checkRanges(cc, cl, kept, levels, "clone after DeleteFile")
			probes, multi = probes+p, multi+m
			p, m = checkRanges(cc, v, rs, levels, "original after DeleteFile on its clone")
			probes, multi = probes+p, multi+m
		}
		// level-0 compaction pick: all level-0 files and every level-1 file overlapping one of them
		if levels >= 2 {
			var l0, up []int64
			for _, r := range rs {
				if r.level == 0 {
					l0 = append(l0, r.number)
				}
			}
			for _, r := range rs {
				if r.level != 1 {
					continue
				}
				for _, a := range rs {
					if a.level == 0 && !(r.max < a.min || r.min > a.max) {
						up = append(up, r.number)
						break
					}
				}
			}
			sort.Slice(l0, func(i, j int) bool { return l0[i] < l0[j] })
			sort.Slice(up, func(i, j int) bool { return up[i] < up[j] })
			threshold := rnd.Intn(4)
			c := v.PickL0Compaction(threshold)
			switch {
			case len(l0) < threshold:
				if c != nil {
					cc.fail("C15/compaction-pick-below-threshold", "PickL0Compaction(%d) picked with %d level-0 files", threshold, len(l0))
				}
			case c == nil:
				cc.fail("C15/compaction-pick-missing", "PickL0Compaction(%d) = nil with %d level-0 files", threshold, len(l0))
			default:
				if got := numbersOf(c.GetLevelFiles()); !equalInt64s(got, l0) {
					cc.fail("C15/compaction-pick-level0-wrong", "PickL0Compaction level-0 inputs %v want %v", got, l0)
				}
				if got := numbersOf(c.GetInputs()[1]); !equalInt64s(got, up) {
					cc.fail("C15/compaction-pick-overlap-wrong", "PickL0Compaction level-1 inputs %v, level-1 files overlapping a level-0 file: %v", got, up)
				}
				cc.r.count("compaction_picks_checked", 1)
			}
		}
		snap.Close()
		if err := vs.Destroy(); err != nil {
			cc.fail("C15/versionset-close-error", "Destroy: %v", err)
		}
		// recover from the manifest in a second version set
		cache2 := table.NewCache(dir, time.Hour)
		defer cache2.Close()
		vs2 := version.NewStoreVersionSet(dir, cache2, levels)
		fv2 := vs2.CreateFamilyVersion("fam", 1)
		if err := vs2.Recover(); err != nil {
			cc.fail("C15/versionset-recover-error", "Recover() of %d files: %v", len(rs), err)
			return
		}
		snap2 := fv2.GetSnapshot()
		p, m = checkRanges(cc, snap2.GetCurrent(), rs, levels, "version recovered from the manifest")
		probes, multi = probes+p, multi+m
		snap2.Close()
		_ = vs2.Destroy()
		cc.r.count("manifest_recoveries", 1)
	})
	r := cc.r
	r.eval(1)
	r.count("version_meta_cases", 1)
	r.count("version_range_probes", probes)
	r.count("version_range_probes_in_several_files", multi)
	if ok && probes > 0 && n >= 2 {
		var sig []uint32
		for _, x := range rs {
			sig = append(sig, x.min, x.max, uint32(x.level))
		}
		r.nontrivial("V/" + hashKeyOf(sig, levels))
	}
}

// runVersionRealCase: real table files committed to arbitrary levels of a bare version set and read
// through Snapshot.Load / FindReaders / GetReader, before and after a recovery from the manifest.
func runVersionRealCase(cc *caseCtx) {
	rnd := cc.rnd
	levels := 1 + rnd.Intn(4)
	n := 1 + rnd.Intn(12)
	pattern := overlapPatterns[rnd.Intn(len(overlapPatterns))]
	maxPer := []int{3, 25, 120}[rnd.Intn(3)]
	cc.desc = map[string]interface{}{"levels": levels, "files": n, "overlap": pattern, "max_keys_per_file": maxPer}
	fmt.Printf("CASE VR %d %v\n", cc.idx, cc.desc)
	dir := filepath.Join(cc.dir, fmt.Sprintf("vr%d", cc.idx))
	if err := os.MkdirAll(filepath.Join(dir, famDir), 0o755); err != nil {
		panic(err)
	}
	defer os.RemoveAll(dir)
	var agg famStats
	ok := cc.guard("C15/panic-in-version", func() {
		cache := table.NewCache(dir, time.Hour)
		defer cache.Close()
		vs := version.NewStoreVersionSet(dir, cache, levels)
		fv := vs.CreateFamilyVersion(famDir, 1)
		if err := vs.Recover(); err != nil {
			cc.fail("C15/versionset-recover-error", "Recover() on an empty directory: %v", err)
			return
		}
		model := &familyModel{values: map[uint32][]string{}, anyLevel: true}
		sets := genOverlapping(rnd, n, pattern, maxPer)
		el := version.NewEditLog(1)
		for i, ks := range sets {
			salt := rnd.Uint64()
			var es []entry
			for _, k := range ks {
				sz := rnd.Intn(50)
				if rnd.Intn(4) == 0 {
					sz = 0
				}
				es = append(es, entry{k, fillValue(salt, k, sz)})
			}
			num := vs.NextFileNumber()
			_, size, ok := buildTableFile(cc, dir, num.Int64(), es, writeOpts{mode: writeModes[rnd.Intn(len(writeModes))], inject: rnd.Intn(3) == 0,
				prefix: fmt.Sprintf("file %d", i), history: maybeHistory(rnd, 6)})
			if !ok {
				return
			}
			model.files = append(model.files, fileModel{num, es})
			for _, e := range es {
				model.values[e.key] = append(model.values[e.key], string(e.value))
			}
			el.Add(version.CreateNewFile(int32(rnd.Intn(levels)), version.NewFileMeta(num, es[0].key, es[len(es)-1].key, size)))
			if rnd.Intn(3) == 0 || i == len(sets)-1 {
				if err := vs.CommitFamilyEditLog(famDir, el); err != nil {
					cc.fail("C15/versionset-commit-error", "CommitFamilyEditLog: %v", err)
					return
				}
				el = version.NewEditLog(1)
			}
		}
		snap := fv.GetSnapshot()
		agg = verifySnapshot(cc, snap, filepath.Join(dir, famDir), levels, model, "bare version")
		snap.Close()
		_ = cache.Close()
		if err := vs.Destroy(); err != nil {
			cc.fail("C15/versionset-close-error", "Destroy: %v", err)
		}
		if rnd.Intn(2) == 0 {
			cache2 := table.NewCache(dir, time.Hour)
			defer cache2.Close()
			vs2 := version.NewStoreVersionSet(dir, cache2, levels)
			fv2 := vs2.CreateFamilyVersion(famDir, 1)
			if err := vs2.Recover(); err != nil {
				cc.fail("C15/versionset-recover-error", "Recover(): %v", err)
				return
			}
			snap2 := fv2.GetSnapshot()
			s2 := verifySnapshot(cc, snap2, filepath.Join(dir, famDir), levels, model, "recovered bare version")
			agg.ok = agg.ok && s2.ok
			agg.probesPresent += s2.probesPresent
			agg.probesAbsent += s2.probesAbsent
			agg.keysInSeveralFiles += s2.keysInSeveralFiles
			snap2.Close()
			_ = vs2.Destroy()
			cc.r.count("manifest_recoveries", 1)
		}
	})
	r := cc.r
	r.eval(1)
	r.count("version_real_cases", 1)
	r.count(fmt.Sprintf("version_real_cases_with_%02d_files", n), 1)
	r.count("store_probes_present", agg.probesPresent)
	r.count("store_probes_absent", agg.probesAbsent)
	r.count("store_probe_keys_in_several_files", agg.keysInSeveralFiles)
	r.count("store_files_verified", agg.filesChecked)
	r.count("store_loads", agg.loads)
	r.count("store_files_outside_key_range_skipped", agg.filesSkippedByRange)
	r.count(fmt.Sprintf("stores_max_files_per_key_%02d", agg.maxFilesPerKey), 1)
	if ok && agg.ok && agg.probesPresent > 0 {
		r.nontrivial("VR/" + hashKeyOf(cc.idx, n, pattern, levels, agg.probesPresent))
	}
}
